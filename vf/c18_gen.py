"""C18 trace generator: random GraphBuilder sessions, generated *by execution*.

The generator talks to the real builder (`op.X(...)`, subgraph(), call(), call_inline(), build_function(),
nn modules).  After every API call it reads the entry the monitor logged and evaluates it with the
replay kernels on K concrete input sets - that gives the example values used to choose the next
operands (so every program is valid by construction) and, at the end, the expected outputs.  The graph
that the builder produced is never consulted for expectations.
"""
from __future__ import annotations

import numpy as np

from . import c18_funcs as F
from . import common
from .c18_monitor import MON
from .c18_replay import Env, KernelError, LiteralTypeMismatch, Replayer

K = 3
BF_DOMAIN = "vf.bf"


class BuildRaised(Exception):
    def __init__(self, op, exc):
        super().__init__(f"{op}: {type(exc).__name__}: {exc}")
        self.op = op
        self.exc = exc


class Invalid(Exception):
    """generator produced something the replay kernels reject -> discard the trace"""


def _ir():
    import onnx_ir as ir

    return ir


def np_to_ir_dtype(dt):
    ir = _ir()
    return ir.DataType.from_numpy(np.dtype(dt))


class Gen:
    def __init__(self, seed_parts, profile):
        ir = _ir()
        from onnxscript._internal import builder as B

        self.B = B
        self.rng = common.rng("C18", *seed_parts)
        self.nrng = np.random.default_rng(common.h32("C18np", *seed_parts))
        self.P = dict(profile)
        MON.reset()
        self.opset = self.P.get("opset", 21)
        self.opsets = {"": self.opset, F.DOMAIN: 1, "com.microsoft": 1, BF_DOMAIN: 1}
        self.graph = ir.Graph(name="g", inputs=[], outputs=[], nodes=[], opset_imports=dict(self.opsets))
        self.gb = B.GraphBuilder(self.graph)
        self.op = self.gb.op
        self.fn_table = {}
        self.counts = {}
        self.rep = Replayer(self.opsets, MON.frames_by_graph, self.fn_table, self.counts)
        self.env_stack = [[Env() for _ in range(K)]]
        self.vis_stack = [[]]           # visible values per scope
        self.closed = [False]
        self.feeds = [dict() for _ in range(K)]
        self.meta = {}                  # id(value) -> dict(kind=..)
        self.ctr = 0
        self.features = set()
        self.attr_binding = None        # probe binding inside build_function bodies
        self.param_data = {}            # id(Parameter) -> np array
        self.params = []
        self.user_names = []            # (scope tuple, explicit name) for clash classification
        self.notes = {}                 # classification hints: e.g. kwarg_skip used, zero alias used
        self.body_depth = 0
        self.outputs = []
        self.built_functions = []

    # ------------------------------------------------------------------ helpers
    def uid(self, p="t"):
        self.ctr += 1
        return f"{p}{self.ctr}"

    def envs(self):
        return self.env_stack[-1]

    def ex(self, v, k=0):
        return self.envs()[k].get(id(v))

    def exs(self, v):
        return [e.get(id(v)) for e in self.envs()]

    def visible(self):
        out = []
        for vis, closed in zip(reversed(self.vis_stack), reversed(self.closed)):
            out.extend(vis)
            if closed:
                break
        return out

    def add_visible(self, v, **meta):
        self.vis_stack[-1].append(v)
        self.meta.setdefault(id(v), {}).update(meta)

    def bind_all(self, v, arrs):
        for e, a in zip(self.envs(), arrs):
            e.set(id(v), a)

    def input_sets(self, shape, dtype=np.float32):
        special = np.array([0.0, 1.0, -1.0, 0.5, -2.5, 3.0, 1e-3, -0.25, 2.0, -1.5, 0.75, 4.0])
        n = int(np.prod(shape)) if shape else 1
        a0 = (self.nrng.standard_normal(shape) * 1.5)
        a1 = np.resize(np.roll(special, int(self.nrng.integers(0, 12))), n).reshape(shape)
        a2 = self.nrng.standard_normal(shape) * 0.5 + 0.1
        if np.dtype(dtype).kind == "f":
            return [a.astype(dtype) for a in (a0, a1, a2)]
        if np.dtype(dtype).kind == "i":
            return [np.asarray(self.nrng.integers(-3, 4, size=shape), dtype=dtype) for _ in range(K)]
        raise ValueError(dtype)

    def add_input(self, name, arrs):
        ir = _ir()
        v = self.gb.input(name, np_to_ir_dtype(arrs[0].dtype), list(arrs[0].shape))
        self.bind_all(v, arrs)
        for f, a in zip(self.feeds, arrs):
            f[name] = a
        self.add_visible(v, kind="input")
        return v

    # ------------------------------------------------------------------ predicates over examples
    def is_f(self, v):
        return self.ex(v).dtype == np.float32

    def typed(self, v):
        """mode-independent proxy for 'the builder knows the type of v': not derived from a function-call result
        (call() results carry no type; twins must make identical choices)"""
        return not self.meta.get(id(v), {}).get("taint")

    def finite_small(self, v, lim=1e3):
        for a in self.exs(v):
            if a.dtype.kind == "f" and (not np.isfinite(a).all() or (a.size and np.abs(a).max() > lim)):
                return False
            if a.dtype.kind in "iu" and a.size and np.abs(a).max() > 10 ** 6:
                return False
        return True

    def cands(self, pred):
        res = []
        for v in self.visible():
            try:
                a = self.ex(v)
            except KernelError:
                continue
            if self.body_depth and not self.typed(v):
                continue
            try:
                if pred(a, v):
                    res.append(v)
            except Exception:
                pass
        return res

    def pick(self, pred):
        c = self.cands(pred)
        if not c:
            return None
        # bias towards recent values
        if len(c) > 3 and self.rng.random() < 0.6:
            c = c[-4:]
        return self.rng.choice(c)

    def pick_f(self, rank=None, shape=None, min_rank=None):
        def pred(a, v):
            if a.dtype != np.float32 or not self.finite_small(v):
                return False
            if rank is not None and a.ndim != rank:
                return False
            if min_rank is not None and a.ndim < min_rank:
                return False
            if shape is not None and tuple(a.shape) != tuple(shape):
                return False
            return a.size > 0
        return self.pick(pred)

    # ------------------------------------------------------------------ emission
    def _out_names(self, nout, force=None):
        """decide the _outputs spec for an op call: None (default) | int | [names]"""
        pol = force or (self.P.get("body_names", "explicit") if self.body_depth else self.P.get("names", "mixed"))
        if pol == "mixed":
            pol = "explicit" if self.rng.random() < 0.4 else "auto"
        if pol == "explicit":
            return [self.uid("t") for _ in range(nout)]
        return None if nout == 1 else nout

    def emit(self, opb, op_type, args, kwargs=None, nout=1, names=None, domain=None, version=None, safe=True):
        """call the builder; returns list of result values.  Evaluates the logged entry on the K input sets."""
        ir = _ir()
        kwargs = dict(kwargs or {})
        spec = names if names is not None else self._out_names(nout)
        if spec is not None:
            kwargs["_outputs"] = spec
        if domain is not None:
            kwargs["_domain"] = domain
        if version is not None:
            kwargs["_version"] = version
        if isinstance(spec, list):
            try:
                scope = tuple(opb.builder._scope_name_parts())
            except Exception:
                scope = ()
            for nme in spec:
                if isinstance(nme, str):
                    self.user_names.append((scope, nme, self.body_depth))
        n0 = len(MON.cur.entries)
        try:
            r = getattr(opb, op_type)(*args, **kwargs)
        except Exception as e:  # the builder refused / crashed on a valid request
            raise BuildRaised(op_type, e) from e
        outs = [r] if isinstance(r, ir.Value) else list(r)
        if len(MON.cur.entries) != n0 + 1 or MON.cur.entries[-1].get("k") != "op":
            self.counts["monitor_missed_call"] = self.counts.get("monitor_missed_call", 0) + 1
            raise Invalid("the call_op monitor did not log this call")
        e = MON.cur.entries[-1]
        self._eval(e)
        taint = any(self.meta.get(id(a), {}).get("taint") for a in list(args) + list(kwargs.values()) if isinstance(a, ir.Value))
        for o in outs:
            self.add_visible(o, kind="op", op=op_type, taint=taint)
        return outs

    def _eval(self, e):
        for env in self.envs():
            try:
                self.rep.eval_entry(e, env, self.attr_binding)
            except LiteralTypeMismatch as lm:
                raise BuildRaised("literal_dtype", lm) from lm
            except KernelError as ke:
                raise Invalid(f"{e.get('op') or e.get('fn_name')}: {ke}") from ke

    # ------------------------------------------------------------------ literals
    def flit(self, nz=False, small=False):
        pool = [0.5, -1.0, 2.0, 1.5, -0.25, 3.0, 0.125, 1.0] if not small else [0.5, -0.5, 0.25, -1.0, 0.75]
        if not nz and not small and self.rng.random() < 0.1:
            pool = pool + [0.0]
        return self.rng.choice(pool)

    def lit_for(self, a, nz=False):
        """a literal operand compatible with example array a (float32 / int64)"""
        r = self.rng.random()
        if a.dtype.kind == "f":
            if r < 0.55:
                return self.flit(nz)
            if r < 0.75:
                return self.rng.choice([1, 2, -1, 3])
            if a.ndim >= 1 and a.shape[-1] <= 6:
                return [self.flit(nz) for _ in range(a.shape[-1])]
            return self.flit(nz)
        if a.dtype.kind in "iu":
            if r < 0.7 or a.ndim == 0:
                return self.rng.choice([1, 2, -1, 3])
            if a.shape[-1] <= 6:
                return [self.rng.choice([1, 2, -1, 3]) for _ in range(a.shape[-1])]
            return 2
        if a.dtype.kind == "b":
            return self.rng.choice([True, False])
        return None

    # ------------------------------------------------------------------ op generators (main and body use)
    UNARY = ["Relu", "Sigmoid", "Tanh", "Neg", "Abs", "Floor", "Ceil", "Erf", "Softplus", "Identity", "Sign", "Softsign"]
    SAFE_UNARY = ["Relu", "Sigmoid", "Tanh", "Neg", "Abs", "Identity", "Softsign", "Erf"]

    def g_unary(self, opb):
        v = self.pick_f()
        if v is None:
            return None
        return self.emit(opb, self.rng.choice(self.SAFE_UNARY if self.body_depth else self.UNARY), [v])

    def g_unary_attr(self, opb):
        v = self.pick_f(min_rank=1)
        if v is None:
            return None
        c = self.rng.choice(["LeakyRelu", "Elu", "HardSigmoid", "Softmax", "LogSoftmax", "Selu", "ThresholdedRelu", "Celu"])
        r = self.ex(v).ndim
        kw = {
            "LeakyRelu": {"alpha": self.rng.choice([0.1, 0.3])}, "Elu": {"alpha": 1.5},
            "HardSigmoid": {"alpha": 0.25, "beta": 0.4}, "Softmax": {"axis": self.rng.randrange(-r, r)},
            "LogSoftmax": {"axis": self.rng.randrange(-r, r)}, "Selu": {}, "ThresholdedRelu": {"alpha": 0.5},
            "Celu": {"alpha": 2.0},
        }[c]
        return self.emit(opb, c, [v], kw)

    def g_exp(self, opb):
        v = self.pick(lambda a, v: a.dtype == np.float32 and self.finite_small(v, 8.0) and a.size)
        if v is None or self.body_depth:
            return None
        return self.emit(opb, "Exp", [v])

    def g_sqrtlog(self, opb):
        v = self.pick_f()
        if v is None or self.body_depth:
            return None
        a = self.emit(opb, "Abs", [v])[0]
        if self.rng.random() < 0.5:
            return self.emit(opb, "Sqrt", [a])
        b = self.emit(opb, "Add", [a, 1.0])[0]
        return self.emit(opb, "Log", [b])

    def _second(self, a, v, allow_lit=True, nz=False):
        """second operand for a binary op with first operand v (example a): value or literal"""
        r = self.rng.random()
        if allow_lit and r < self.P.get("p_lit", 0.45):
            return self.lit_for(a, nz), True
        def pred(b, w):
            if b.dtype != a.dtype or not self.finite_small(w):
                return False
            try:
                return np.broadcast_shapes(a.shape, b.shape) == tuple(a.shape)
            except ValueError:
                return False
        w = self.pick(pred)
        if w is None:
            return (self.lit_for(a, nz), True) if allow_lit else (None, False)
        return w, False

    def g_binary(self, opb):
        v = self.pick(lambda a, v: a.dtype in (np.float32, np.int64) and self.finite_small(v, 200.0) and a.size)
        if v is None:
            return None
        a = self.ex(v)
        ops = ["Add", "Sub", "Mul", "Max", "Min"] + (["Div", "Pow"] if a.dtype == np.float32 and not self.body_depth else [])
        c = self.rng.choice(ops)
        if c == "Pow":
            return self.emit(opb, "Pow", [v, self.rng.choice([2.0, 2, 3.0])])
        if c == "Div":
            return self.emit(opb, "Div", [v, self.rng.choice([2.0, -4.0, 0.5, 4])])
        w, is_lit = self._second(a, v)
        if w is None:
            return None
        if self.body_depth and c == "Mul":
            w = self.flit(small=True)
            is_lit = True
        if a.dtype == np.int64 and c == "Mul" and not self.finite_small(v, 1000):
            c = "Add"
        args = [v, w]
        if is_lit and self.rng.random() < 0.35:
            args = [w, v]
        if self.P.get("kw_inputs") and not is_lit and c in ("Add", "Sub", "Mul") and self.rng.random() < 0.5:
            self.features.add("kw_inputs")
            return self.emit(opb, c, [], {"A": args[0], "B": args[1]})
        return self.emit(opb, c, args)

    def g_variadic(self, opb):
        v = self.pick_f()
        if v is None:
            return None
        a = self.ex(v)
        c = self.rng.choice(["Sum", "Mean", "Max", "Min"])
        args = [v]
        for _ in range(self.rng.choice([1, 2, 3])):
            w, _ = self._second(a, v)
            args.append(w)
        rest = args[1:]
        self.rng.shuffle(rest)
        args = [v] + rest      # onnx.reference Mean/Sum accumulate in place into the first operand
        if c in ("Max", "Min") and self.rng.random() < 0.4:
            # literal(s) in the leading position(s), the typed tensor only in the variadic tail
            args = [self.rng.choice([0, 1, 2, 0.5])] + ([self.rng.choice([1, -1])] if self.rng.random() < 0.3 else []) + [v]
        return self.emit(opb, c, args)

    def g_compare(self, opb):
        v = self.pick(lambda a, v: a.dtype in (np.float32, np.int64) and self.finite_small(v) and a.size)
        if v is None:
            return None
        a = self.ex(v)
        c = self.rng.choice(["Less", "Greater", "LessOrEqual", "GreaterOrEqual"] + (["Equal"] if a.dtype == np.int64 else []))
        w, _ = self._second(a, v)
        return self.emit(opb, c, [v, w])

    def g_bool(self, opb):
        v = self.pick(lambda a, v: a.dtype == np.bool_ and a.size)
        if v is None:
            return None
        a = self.ex(v)
        c = self.rng.choice(["Not", "And", "Or", "Xor"])
        if c == "Not":
            return self.emit(opb, "Not", [v])
        w = self.pick(lambda b, w: b.dtype == np.bool_ and b.shape == a.shape)
        if w is None or self.rng.random() < 0.4:
            w = self.rng.choice([True, False])
        return self.emit(opb, c, [v, w])

    def g_where(self, opb):
        x = self.pick_f()
        if x is None:
            return None
        a = self.ex(x)
        c = self.pick(lambda b, w: b.dtype == np.bool_ and b.shape == a.shape)
        if c is None:
            c = self.emit(opb, "Greater", [x, self.flit()])[0]
        y, _ = self._second(a, x)
        if self.P.get("kw_inputs") and self.rng.random() < 0.5:
            self.features.add("kw_inputs")
            return self.emit(opb, "Where", [], {"condition": c, "X": x, "Y": y})
        return self.emit(opb, "Where", [c, x, y])

    def g_matmul(self, opb):
        a = self.pick_f(rank=2)
        if a is None or self.body_depth:
            return None
        sa = self.ex(a).shape
        b = self.pick(lambda x, v: x.dtype == np.float32 and x.ndim == 2 and self.finite_small(v, 50) and (x.shape[0] == sa[1] or x.shape == sa))
        if b is None or not self.finite_small(a, 50):
            return None
        sb = self.ex(b).shape
        if self.rng.random() < 0.5 or sb[0] != sa[1]:
            if sb != sa:
                return None
            kw = {"transB": 1}
            if self.rng.random() < 0.5:
                kw["alpha"] = 0.5
            args = [a, b]
            cvals = self.cands(lambda x, v: x.dtype == np.float32 and x.shape in ((sa[0],), (sa[0], sa[0])) and self.finite_small(v, 50))
            if cvals and self.rng.random() < 0.5:
                args.append(self.rng.choice(cvals))
                kw["beta"] = 2.0
            return self.emit(opb, "Gemm", args, kw)
        return self.emit(opb, "MatMul", [a, b])

    def g_reshape(self, opb):
        v = self.pick(lambda a, v: a.dtype in (np.float32, np.int64, np.bool_) and 1 <= a.ndim <= 3 and a.size)
        if v is None:
            return None
        a = self.ex(v)
        c = self.rng.choice(["Reshape", "Flatten", "Transpose", "Unsqueeze", "Squeeze", "Expand", "Tile"])
        if self.body_depth:
            return None
        if c == "Reshape":
            n = a.size
            opts = [[-1], [n], [1, n], [n, 1]]
            for d in (2, 3, 4):
                if n % d == 0:
                    opts += [[d, n // d], [-1, d], [d, -1]]
            return self.emit(opb, "Reshape", [v, self.rng.choice(opts)])
        if c == "Flatten":
            return self.emit(opb, "Flatten", [v], {"axis": self.rng.randrange(0, a.ndim + 1)})
        if c == "Transpose":
            if a.ndim < 2:
                return None
            perm = list(range(a.ndim))
            self.rng.shuffle(perm)
            return self.emit(opb, "Transpose", [v], {"perm": perm} if self.rng.random() < 0.8 else {})
        if c == "Unsqueeze":
            return self.emit(opb, "Unsqueeze", [v, [self.rng.randrange(0, a.ndim + 1)]])
        if c == "Squeeze":
            u = self.emit(opb, "Unsqueeze", [v, [0]])[0]
            return self.emit(opb, "Squeeze", [u, [0]] if self.rng.random() < 0.7 else [u])
        if c == "Expand":
            return self.emit(opb, "Expand", [v, [2] + list(a.shape)])
        if a.size > 24:
            return None
        return self.emit(opb, "Tile", [v, [1] * (a.ndim - 1) + [2]])

    def g_concat(self, opb):
        v = self.pick(lambda a, v: a.dtype in (np.float32, np.int64) and 1 <= a.ndim <= 3 and a.size and a.size <= 48)
        if v is None or self.body_depth:
            return None
        a = self.ex(v)
        axis = self.rng.randrange(0, a.ndim)
        def pred(b, w):
            return b.dtype == a.dtype and b.ndim == a.ndim and all(x == y for i, (x, y) in enumerate(zip(a.shape, b.shape)) if i != axis)
        others = self.cands(pred)
        args = [v] + [self.rng.choice(others) for _ in range(self.rng.choice([1, 2]))]
        return self.emit(opb, "Concat", args, {"axis": axis if self.rng.random() < 0.5 else axis - a.ndim})

    def g_split(self, opb):
        v = self.pick(lambda a, v: a.dtype == np.float32 and 1 <= a.ndim <= 3 and any(d >= 2 for d in a.shape))
        if v is None or self.body_depth:
            return None
        a = self.ex(v)
        axis = self.rng.choice([i for i, d in enumerate(a.shape) if d >= 2])
        d = a.shape[axis]
        if self.rng.random() < 0.5:
            return self.emit(opb, "Split", [v], {"axis": axis, "num_outputs": 2}, nout=2)
        k = self.rng.randrange(1, d)
        return self.emit(opb, "Split", [v, [k, d - k]], {"axis": axis}, nout=2)

    def g_slice(self, opb):
        v = self.pick(lambda a, v: a.dtype in (np.float32, np.int64) and 1 <= a.ndim <= 3 and a.size)
        if v is None or self.body_depth:
            return None
        a = self.ex(v)
        ax = self.rng.randrange(0, a.ndim)
        d = a.shape[ax]
        s = self.rng.randrange(0, d)
        e = self.rng.randrange(s + 1, d + 1)
        form = self.rng.choice(["pos", "pos_steps", "kw"] if self.P.get("kw_inputs") else ["pos", "pos_steps", "noaxes"])
        if form == "pos":
            return self.emit(opb, "Slice", [v, [s], [e], [ax]])
        if form == "pos_steps":
            return self.emit(opb, "Slice", [v, [s], [d], [ax - a.ndim], [self.rng.choice([1, 2])]])
        if form == "noaxes":
            return self.emit(opb, "Slice", [v, [0] * a.ndim, [max(1, x - 1) for x in a.shape]])
        self.features.add("kw_inputs")
        return self.emit(opb, "Slice", [v], {"starts": [s], "ends": [e], "axes": [ax]})

    def g_gather(self, opb):
        v = self.pick(lambda a, v: a.dtype in (np.float32, np.int64) and 1 <= a.ndim <= 3 and a.size)
        if v is None or self.body_depth:
            return None
        a = self.ex(v)
        ax = self.rng.randrange(0, a.ndim)
        d = a.shape[ax]
        idx = self.rng.choice([self.rng.randrange(0, d), [self.rng.randrange(0, d) for _ in range(2)], -1])
        return self.emit(opb, "Gather", [v, idx], {"axis": ax})

    def g_reduce(self, opb):
        v = self.pick_f(min_rank=1)
        if v is None:
            return None
        a = self.ex(v)
        c = self.rng.choice(["ReduceSum", "ReduceMean", "ReduceMax", "ReduceMin", "ReduceL2", "ReduceL1", "ReduceSumSquare", "ArgMax", "CumSum"])
        if self.body_depth and c in ("ArgMax", "CumSum", "ReduceSumSquare", "ReduceL2", "ReduceSum", "ReduceL1"):
            c = "ReduceMax"
        ax = self.rng.randrange(0, a.ndim)
        if c == "ArgMax":
            return self.emit(opb, "ArgMax", [v], {"axis": ax, "keepdims": self.rng.choice([0, 1])})
        if c == "CumSum":
            return self.emit(opb, "CumSum", [v, ax])
        kd = self.rng.choice([0, 1])
        if self.body_depth:
            kd = 1
        form = self.rng.choice(["axes", "axes2", "none"]) if not self.body_depth else "axes"
        if form == "none" or (form == "axes2" and a.ndim < 2):
            return self.emit(opb, c, [v], {"keepdims": kd})
        axes = [ax] if form == "axes" else sorted(self.rng.sample(range(a.ndim), 2))
        if self.opset < 18 and c != "ReduceSum":
            return self.emit(opb, c, [v], {"axes": axes, "keepdims": kd})
        return self.emit(opb, c, [v, axes], {"keepdims": kd})

    def g_cast(self, opb):
        ir = _ir()
        v = self.pick(lambda a, v: a.dtype in (np.float32, np.int64, np.bool_, np.float64, np.int32) and a.size and self.finite_small(v, 1e5))
        if v is None or self.body_depth:
            return None
        a = self.ex(v)
        if a.dtype.kind == "f":
            # truncation is discontinuous at the integers: a computed 0.99999994 (reference kernel) vs 1.0 (ORT) would flip the result
            def off_grid(x):
                x = x.astype(np.float64)
                return bool(np.all((np.abs(x) < 0.99) | (np.abs(x - np.round(x)) > 1e-2)))
            int_ok = self.meta.get(id(v), {}).get("kind") == "input" or all(off_grid(e) for e in self.exs(v))
            to = self.rng.choice([ir.DataType.INT64, ir.DataType.INT32, ir.DataType.DOUBLE, ir.DataType.FLOAT] if int_ok else
                                 [ir.DataType.DOUBLE, ir.DataType.FLOAT])
        elif a.dtype.kind == "b":
            to = self.rng.choice([ir.DataType.FLOAT, ir.DataType.INT64])
        else:
            to = self.rng.choice([ir.DataType.FLOAT, ir.DataType.INT64])
        if a.dtype == np.float64:
            # ORT 1.30 drops a value produced by Cast(f32->f64)->Cast(->f32) when only a subgraph reads it ("Missing Input"): do not
            # build that chain (runtime defect, not the builder's)
            to = self.rng.choice([ir.DataType.INT64, ir.DataType.DOUBLE]) if a.dtype.kind == "f" and int_ok else ir.DataType.DOUBLE
            return self.emit(opb, "Cast", [v], {"to": to})
        if self.rng.random() < 0.25:
            like = self.pick(lambda b, w: b.dtype in (np.float32, np.int64) and (a.dtype.kind != "f" or b.dtype.kind == "f" or True))
            if like is not None:
                return self.emit(opb, "CastLike", [v, like])
        return self.emit(opb, "Cast", [v], {"to": to if self.rng.random() < 0.5 else int(to)})

    def g_shape(self, opb):
        v = self.pick(lambda a, v: a.ndim >= 1)
        if v is None or self.body_depth:
            return None
        c = self.rng.choice(["Shape", "Size", "Shape1"])
        if c == "Shape1":
            return self.emit(opb, "Shape", [v], {"start": 1} if self.opset >= 15 else {})
        return self.emit(opb, c, [v])

    def g_const(self, opb):
        ir = _ir()
        if self.body_depth:
            return None
        c = self.rng.choice(["float", "ints", "tensor", "cos", "range", "floats"])
        if c == "float":
            return self.emit(opb, "Constant", [], {"value_float": self.flit()})
        if c == "floats":
            return self.emit(opb, "Constant", [], {"value_floats": [self.flit(), self.flit(), 1.0]})
        if c == "ints":
            return self.emit(opb, "Constant", [], {"value_ints": [2, 3]})
        if c == "tensor":
            return self.emit(opb, "Constant", [], {"value": ir.tensor(np.array([[1.5, -2.0, 0.25]], np.float32))})
        if c == "cos":
            return self.emit(opb, "ConstantOfShape", [[2, 3]], {"value": ir.tensor(np.array([self.flit()], np.float32))})
        if self.rng.random() < 0.5:
            return self.emit(opb, "Range", [0, self.rng.choice([4, 6]), self.rng.choice([1, 2])])
        return self.emit(opb, "Range", [0.0, 1.0, 0.25])

    def g_topk(self, opb):
        v = self.pick_f(min_rank=1)
        if v is None or self.body_depth:
            return None
        a = self.ex(v)
        # ties make index order implementation-defined only for equal values; keep values output only
        outs = self.emit(opb, "TopK", [v, [min(2, a.shape[-1])]], {}, nout=2)
        self.vis_stack[-1].remove(outs[1])
        return [outs[0]]

    def g_misc(self, opb):
        if self.body_depth:
            return None
        c = self.rng.choice(["Trilu", "Pad", "LayerNorm", "ClipForms", "IsNaN"])
        if c == "Trilu":
            v = self.pick_f(rank=2)
            return None if v is None else self.emit(opb, "Trilu", [v], {"upper": self.rng.choice([0, 1])})
        if c == "Pad":
            v = self.pick_f(rank=2)
            if v is None:
                return None
            if self.rng.random() < 0.5:
                return self.emit(opb, "Pad", [v, [0, 1, 1, 0], self.flit()])
            return self.emit(opb, "Pad", [v, [1, 0, 0, 1]])
        if c == "LayerNorm":
            v = self.pick_f(rank=2)
            if v is None or self.opset < 17:
                return None
            d = self.ex(v).shape[-1]
            s = self.pick_f(shape=(d,))
            if s is None:
                return None
            b = self.pick_f(shape=(d,))
            args = [v, s] + ([b] if b is not None and self.rng.random() < 0.6 else [])
            return self.emit(opb, "LayerNormalization", args, {"epsilon": 1e-3, "axis": -1})
        if c == "IsNaN":
            v = self.pick_f()
            return None if v is None else self.emit(opb, "IsNaN", [v])
        v = self.pick_f()
        if v is None:
            return None
        form = self.rng.choice(["both", "none_max", "min_only", "none_none"])
        if form == "both":
            return self.emit(opb, "Clip", [v, -1.0, 1.5])
        if form == "none_max":
            self.features.add("none_operand")
            return self.emit(opb, "Clip", [v, None, 1.0])
        if form == "min_only":
            return self.emit(opb, "Clip", [v, -0.5])
        self.features.add("none_operand")
        return self.emit(opb, "Clip", [v, None, None])

    def g_domain(self, opb):
        """_domain/_version: contrib ops and explicit versions of standard ops"""
        v = self.pick_f(min_rank=1)
        if v is None or self.body_depth:
            return None
        self.features.add("domain_version")
        c = self.rng.choice(["Gelu", "FastGelu", "BiasGelu", "ver", "opset_builder"])
        if c == "Gelu":
            return self.emit(opb, "Gelu", [v], domain="com.microsoft", version=1)
        if c in ("FastGelu", "BiasGelu"):
            d = self.ex(v).shape[-1]
            b = self.pick_f(shape=(d,))
            if b is None:
                return self.emit(opb, "FastGelu", [v], domain="com.microsoft", version=1)
            return self.emit(opb, c, [v, b], domain="com.microsoft", version=1)
        if c == "ver":
            return self.emit(opb, self.rng.choice(["Relu", "Tanh", "Neg"]), [v], version=self.opset, domain="")
        ms = self.gb.opset("com.microsoft", 1)
        return self.emit(ms, "Gelu", [v])

    def g_init(self, opb):
        ir = _ir()
        if self.body_depth and self.rng.random() < 0.5:
            return None
        arr = (self.nrng.standard_normal((3,)) if self.rng.random() < 0.5 else self.nrng.standard_normal((2, 3))).astype(np.float32)
        shapes = [self.ex(v).shape for v in self.cands(lambda a, v: a.dtype == np.float32 and 1 <= a.ndim <= 2)]
        if shapes:
            sh = self.rng.choice(shapes)
            arr = self.nrng.standard_normal(sh[-1:] if self.rng.random() < 0.5 else sh).astype(np.float32)
        name = self.uid("w")
        form = self.rng.choice(["builder", "op", "noqual", "operand"])
        n0 = len(MON.cur.entries)
        try:
            if form == "builder":
                v = opb.builder.initializer(ir.tensor(arr, name=name))
            elif form == "op":
                v = opb.initializer(ir.tensor(arr), name)
            elif form == "noqual":
                v = opb.builder.initializer(ir.tensor(arr), name, qualify=False)
            else:
                x = self.pick(lambda a, w: a.dtype == np.float32 and a.shape[-len(arr.shape):] == arr.shape if a.ndim >= arr.ndim else False)
                if x is None:
                    return None
                self.features.add("tensor_operand")
                return self.emit(opb, "Add", [x, ir.tensor(arr, name=name)])
        except Exception as e:
            raise BuildRaised("initializer", e) from e
        if len(MON.cur.entries) != n0 + 1 or MON.cur.entries[-1].get("k") != "init":
            raise Invalid("the initializer monitor did not log this call")
        self._eval(MON.cur.entries[-1])
        self.add_visible(v, kind="init")
        self.features.add("initializer")
        return [v]

    MAIN_GENS = [
        ("g_unary", 5), ("g_unary_attr", 4), ("g_exp", 1), ("g_sqrtlog", 1), ("g_binary", 10), ("g_variadic", 2),
        ("g_compare", 3), ("g_bool", 2), ("g_where", 3), ("g_matmul", 3), ("g_reshape", 5), ("g_concat", 2),
        ("g_split", 2), ("g_slice", 3), ("g_gather", 2), ("g_reduce", 5), ("g_cast", 3), ("g_shape", 1),
        ("g_const", 2), ("g_topk", 1), ("g_misc", 4), ("g_init", 2),
    ]
    BODY_GENS = [("g_unary", 4), ("g_unary_attr", 2), ("g_binary", 8), ("g_where", 2), ("g_variadic", 1), ("g_init", 1)]

    def random_ops(self, opb, n, gens=None):
        gens = gens or (self.BODY_GENS if self.body_depth else self.MAIN_GENS)
        names = [g for g, w in gens]
        weights = [w for g, w in gens]
        made = 0
        tries = 0
        while made < n and tries < n * 6:
            tries += 1
            g = self.rng.choices(names, weights)[0]
            r = getattr(self, g)(opb)
            if r:
                made += 1
        return made

    # ------------------------------------------------------------------ scopes (push_module)
    def with_scope(self, opb, name, fn):
        self.gb_of(opb).push_module(name)
        try:
            return fn()
        finally:
            self.gb_of(opb).pop_module()

    @staticmethod
    def gb_of(opb):
        return opb.builder

    # ------------------------------------------------------------------ subgraph bodies
    def _tas(self, arr):
        ir = _ir()
        return ir.TypeAndShape(ir.TensorType(np_to_ir_dtype(arr.dtype)), ir.Shape(list(arr.shape)))

    def subgraph(self, opb, formal_examples, body_fn, nouts, name=None, declare_names=True, typed_outputs=False):
        """Build a body through builder.subgraph() / build_graph(); returns (ir.Graph, frame).
        formal_examples: list of K-lists of arrays (probe values for each formal input)."""
        ir = _ir()
        B = self.B
        bid = self.uid("b")
        formals = [B.make_value(f"{bid}_i{j}", self._tas(ex[0])) for j, ex in enumerate(formal_examples)]
        declared = [ir.Value(name=(f"{bid}_o{j}" if declare_names else None)) for j in range(nouts)]
        holder = {}

        def tf2(iop, *fv):
            fr = MON.begin_frame("subgraph", fv)
            holder["frame"] = fr
            self.env_stack.append([Env(e) for e in self.envs()])
            self.vis_stack.append([])
            self.closed.append(False)
            self.body_depth += 1
            outs = None
            try:
                for v, ex in zip(fv, formal_examples):
                    self.bind_all(v, ex)
                    self.add_visible(v, kind="formal")
                outs = list(body_fn(iop, *fv))
                holder["out_examples"] = [self.exs(o) for o in outs]
            finally:
                self.body_depth -= 1
                self.closed.pop()
                self.vis_stack.pop()
                self.env_stack.pop()
                MON.end_frame(outs or [])
            return outs if len(outs) != 1 else outs[0]

        form = self.rng.choice(["subgraph", "build_graph"])
        try:
            if form == "subgraph":
                g = self.gb_of(opb).subgraph(tf2, formals, declared, name=name or bid)
            else:
                g = B.build_graph(tf2, formals, declared, opset_imports=dict(self.graph.opset_imports), name=name or bid,
                                  parent=self.gb_of(opb))
        except (BuildRaised, Invalid):
            raise
        except Exception as e:
            raise BuildRaised("subgraph", e) from e
        MON.bind_graph(holder["frame"], g)
        # like graph outputs: where the builder could not infer a body output's type/shape (e.g. derived from a Loop result)
        # the user supplies it (ORT's Scan/Loop need shapes on subgraph outputs)
        for o, exs in zip(g.outputs, holder.get("out_examples") or []):
            if o.type is None:
                o.type = ir.TensorType(np_to_ir_dtype(exs[0].dtype))
                self.counts["body_output_type_supplied"] = self.counts.get("body_output_type_supplied", 0) + 1
            if o.shape is None and len({tuple(e.shape) for e in exs}) == 1:
                o.shape = ir.Shape(list(exs[0].shape))
                self.counts["body_output_shape_supplied"] = self.counts.get("body_output_shape_supplied", 0) + 1
        self.features.add("subgraph")
        self.counts["subgraphs"] = self.counts.get("subgraphs", 0) + 1
        return g, holder

    def body_chain(self, iop, start, n):
        """n safe ops inside a body, last result has the shape/dtype of `start` (elementwise ops only)"""
        cur = start
        a = self.ex(start)
        for _ in range(n):
            c = self.rng.choice(["un", "bin_lit", "bin_val", "attr", "where", "fn"])
            if c == "un":
                cur = self.emit(iop, self.rng.choice(self.SAFE_UNARY), [cur])[0]
            elif c == "bin_lit":
                o = self.rng.choice(["Add", "Sub", "Mul", "Max", "Min"])
                lit = self.flit(small=True) if o == "Mul" else self.lit_for(a)
                args = [cur, lit]
                if self.rng.random() < 0.3:
                    args.reverse()
                cur = self.emit(iop, o, args)[0]
            elif c == "bin_val":
                def pred(b, w):
                    if b.dtype != a.dtype or w is cur or not self.finite_small(w, 100):
                        return False
                    try:
                        return np.broadcast_shapes(a.shape, b.shape) == tuple(a.shape)
                    except ValueError:
                        return False
                w = self.pick(pred)
                if w is None:
                    continue
                self.features.add("outer_value_in_body")
                if self.meta.get(id(w), {}).get("kind") == "param":
                    self.features.add("param_in_body")
                cur = self.emit(iop, self.rng.choice(["Add", "Sub", "Max", "Min"]), [cur, w])[0]
            elif c == "attr":
                cur = self.emit(iop, "LeakyRelu", [cur], {"alpha": 0.2})[0]
            elif c == "where":
                m = self.emit(iop, "Greater", [cur, self.flit()])[0]
                cur = self.emit(iop, "Where", [m, cur, self.flit(small=True)])[0]
            elif self.P.get("fn_in_body") and a.ndim == 2:
                cur = self.call_fn(iop, "leaky", [cur])[0]
        if cur is start:
            cur = self.emit(iop, "Identity", [cur])[0]
        return cur

    def g_if(self, opb, depth=0):
        x = self.pick_f(min_rank=1)
        if x is None:
            return None
        a = self.ex(x)
        conds = self.cands(lambda b, w: b.dtype == np.bool_ and b.ndim == 0)
        if conds and self.rng.random() < 0.6:
            c = self.rng.choice(conds)
        else:
            s = self.emit(opb, "ReduceSum", [x], {"keepdims": 0})[0]
            c = self.emit(opb, "Greater", [s, self.flit()])[0]
        two = self.rng.random() < 0.3

        def branch(iop):
            r = self.body_chain(iop, x, self.rng.randrange(1, 4))
            if depth == 0 and self.P.get("nested") and self.rng.random() < 0.7:
                inner = self.g_if_inner(iop, r)
                if inner is not None:
                    r = inner
            outs = [r]
            if two:
                outs.append(self.body_chain(iop, r, 1))
            return outs

        n = 2 if two else 1
        dn = self.P.get("declare_names", True)
        tb, _ = self.subgraph(opb, [], branch, n, declare_names=dn)
        eb, _ = self.subgraph(opb, [], branch, n, declare_names=dn)
        self.features.add("If")
        return self.emit(opb, "If", [c], {"then_branch": tb, "else_branch": eb}, nout=n)

    def g_if_inner(self, iop, x):
        """an If nested inside a body (depth 2)"""
        s = self.emit(iop, "ReduceMax", [x], {"keepdims": 0})[0]
        c = self.emit(iop, "Less", [s, self.flit()])[0]
        dn = self.P.get("declare_names", True)
        tb, _ = self.subgraph(iop, [], lambda jop: [self.body_chain(jop, x, 1)], 1, declare_names=dn)
        eb, _ = self.subgraph(iop, [], lambda jop: [self.body_chain(jop, x, 2)], 1, declare_names=dn)
        self.features.add("nested_subgraph")
        return self.emit(iop, "If", [c], {"then_branch": tb, "else_branch": eb})[0]

    def g_loop(self, opb):
        ir = _ir()
        s0 = self.pick_f(min_rank=1)
        if s0 is None:
            return None
        trips = self.rng.randrange(1, 4)
        with_scan = self.rng.random() < 0.6
        cond_form = self.rng.choice(["pass", "less", "and"])
        ex_s = self.exs(s0)
        probe = [[np.array(0, np.int64)] * K, [np.array(True)] * K, ex_s]

        def body(iop, i, cin, st):
            ns = self.body_chain(iop, st, self.rng.randrange(1, 4))
            if self.rng.random() < 0.4:
                fi = self.emit(iop, "Cast", [i], {"to": ir.DataType.FLOAT})[0]
                ns = self.emit(iop, "Add", [ns, self.emit(iop, "Mul", [fi, 0.25])[0]])[0]
            if self.P.get("nested") and self.rng.random() < 0.7:
                ns = self.g_if_inner(iop, ns)
            if cond_form == "pass":
                co = self.emit(iop, "Identity", [cin])[0]
            elif cond_form == "less":
                co = self.emit(iop, "Less", [i, trips - 1 if trips > 1 else 5])[0]
            else:
                co = self.emit(iop, "And", [cin, True])[0]
            outs = [co, ns]
            if with_scan:
                outs.append(self.body_chain(iop, ns, 1))
            return outs

        g, _ = self.subgraph(opb, probe, body, 3 if with_scan else 2, declare_names=self.P.get("declare_names", True))
        m_form = self.rng.choice(["lit", "value"])
        if m_form == "lit":
            M = trips
        else:
            M = self.emit(opb, "Constant", [], {"value_int": trips}) [0]
        c_form = self.rng.choice(["lit", "none", "value"])
        if c_form == "lit":
            C = True
        elif c_form == "none":
            C = None
            self.features.add("none_operand")
        else:
            C = self.emit(opb, "Constant", [], {"value": ir.tensor(np.array(True))})[0]
        self.features.add("Loop")
        return self.emit(opb, "Loop", [M, C, s0], {"body": g}, nout=2 if with_scan else 1)

    def g_scan(self, opb):
        seq = self.pick(lambda a, v: a.dtype == np.float32 and a.ndim == 2 and self.finite_small(v, 50) and a.shape[0] >= 1)
        if seq is None:
            return None
        a = self.ex(seq)
        init = self.pick_f(shape=(a.shape[1],))
        if init is None:
            init = self.emit(opb, "ReduceMean", [seq, [0]], {"keepdims": 0})[0]
        probe = [self.exs(init), [x[0] for x in self.exs(seq)]]
        dup = bool(self.P.get("dup_return"))

        def body(iop, st, xi):
            n = self.emit(iop, self.rng.choice(["Add", "Sub", "Max"]), [st, xi])[0]
            n = self.body_chain(iop, n, self.rng.randrange(0, 3)) if self.rng.random() < 0.8 else n
            if dup:
                return [n, n]
            return [n, self.body_chain(iop, n, 1)]

        g, _ = self.subgraph(opb, probe, body, 2, declare_names=self.P.get("declare_names", True))
        self.features.add("Scan")
        return self.emit(opb, "Scan", [init, seq], {"body": g, "num_scan_inputs": 1}, nout=2)

    # ------------------------------------------------------------------ functions
    def attr_values(self, name, shape):
        spec = F.LIB[name][2]
        vals = {}
        for k, kind in spec.items():
            if kind == "float":
                vals[k] = self.rng.choice([0.1, 0.3, 1.5, -0.5])
            elif kind == "axis":
                vals[k] = self.rng.randrange(0, len(shape))
            elif kind == "perm":
                vals[k] = self.rng.choice([[1, 0], [0, 1]])
            elif kind == "bool":
                vals[k] = self.rng.choice([0, 1])
            elif kind == "lo":
                vals[k] = self.rng.choice([-1.0, -0.25])
            elif kind == "hi":
                vals[k] = self.rng.choice([0.5, 2.0])
        return vals

    def mk_attr(self, k, v):
        ir = _ir()
        if self.P.get("attr_form", "ir") == "py":
            return v
        if isinstance(v, float):
            return ir.AttrFloat32(k, v)
        if isinstance(v, int):
            return ir.AttrInt64(k, v)
        return ir.AttrInt64s(k, list(v))

    def call_fn(self, opb, name, args, built=None):
        """apply a library / built function in the trace's mode (call | inline)"""
        ir = _ir()
        mode = self.P.get("call_mode", "call")
        if built is not None:
            fn, attrs, nout = built["fn"], built["attrs"], built["nout"]
            target = fn
            vals = {k: (self.rng.choice([0.2, 0.4]) if t == "float" else [1, 0]) for k, t in attrs.items()}
        else:
            sfn, ref, spec, nin, nout = F.LIB[name]
            target = sfn.function_ir if self.P.get("fn_form") == "ir" else sfn
            self.fn_table[id(target)] = ("numpy", ref)
            vals = self.attr_values(name, self.ex(args[0]).shape)
        kw = {k: self.mk_attr(k, v) for k, v in vals.items()}
        if vals:
            self.features.add("fn_attrs")
        named = self.rng.random() < 0.5
        if named:
            kw["_outputs"] = [self.uid("f") for _ in range(nout)]
            try:
                scope = tuple(opb.builder._scope_name_parts())
            except Exception:
                scope = ()
            for nme in kw["_outputs"]:
                self.user_names.append((scope, nme, self.body_depth))
        want_prefix = self.rng.random() < 0.7      # drawn in both modes: twins must make identical choices
        if mode == "inline" and self.P.get("prefix") and want_prefix:
            kw["_prefix"] = self.uid("pfx")
            self.features.add("inline_prefix")
        n0 = len(MON.cur.entries)
        try:
            r = (opb.call if mode == "call" else opb.call_inline)(target, *args, **kw)
        except Exception as e:
            raise BuildRaised("call_inline" if mode == "inline" else "call", e) from e
        outs = [r] if isinstance(r, ir.Value) else list(r)
        if len(MON.cur.entries) != n0 + 1 or MON.cur.entries[-1].get("k") not in ("call", "inline"):
            raise Invalid("the call/call_inline monitor did not log this call")
        self._eval(MON.cur.entries[-1])
        for o in outs:
            self.add_visible(o, kind="fn", taint=True)
        self.features.add("fn_" + mode)
        self.features.add("fn_form_" + ("built" if built else self.P.get("fn_form", "script")))
        return outs

    def build_fn(self):
        """an ir.Function made with build_function(); body traced through a (separate) GraphBuilder and logged as
        a closed frame; attributes are referenced with ir.RefAttr."""
        ir = _ir()
        B = self.B
        name = self.uid("bf")
        use_alpha = self.rng.random() < 0.7
        use_perm = self.rng.random() < 0.5
        two = self.rng.random() < 0.5
        attrs = {}
        if use_alpha:
            attrs["alpha"] = "float"
        if use_perm:
            attrs["perm"] = "ints"
        probe_x = self.input_sets((2, 3))
        probe_y = self.input_sets((2, 3))
        holder = {}

        def tf(fop, x, y):
            fr = MON.begin_frame("function", [x, y], {"name": name})
            holder["frame"] = fr
            self.env_stack.append([Env() for _ in range(K)])
            self.vis_stack.append([])
            self.closed.append(True)
            self.body_depth += 1
            saved = self.attr_binding
            self.attr_binding = {"alpha": 0.3, "perm": [1, 0]}
            outs = None
            try:
                for v, exs in ((x, probe_x), (y, probe_y)):
                    self.bind_all(v, exs)
                    self.add_visible(v, kind="formal")
                t = x
                if use_alpha:
                    t = self.emit(fop, "LeakyRelu", [t], {"alpha": ir.RefAttr("alpha", "alpha", ir.AttributeType.FLOAT)}, names=None if self.rng.random() < 0.5 else [self.uid("t")])[0]
                t = self.emit(fop, self.rng.choice(["Add", "Mul", "Sub"]), [t, self.emit(fop, "Mul", [y, self.flit(small=True)])[0]])[0]
                t = self.emit(fop, self.rng.choice(["Tanh", "Sigmoid", "Relu"]), [t])[0]
                outs = [t]
                if two:
                    if use_perm:
                        outs.append(self.emit(fop, "Transpose", [x], {"perm": ir.RefAttr("perm", "perm", ir.AttributeType.INTS)})[0])
                    else:
                        outs.append(self.emit(fop, "Neg", [t])[0])
                elif use_perm:
                    u = self.emit(fop, "Transpose", [y], {"perm": ir.RefAttr("perm", "perm", ir.AttributeType.INTS)})[0]
                    u = self.emit(fop, "ReduceSum", [u], {"keepdims": 0})[0]
                    outs = [self.emit(fop, "Add", [t, u])[0]]
            finally:
                self.attr_binding = saved
                self.body_depth -= 1
                self.closed.pop()
                self.vis_stack.pop()
                self.env_stack.pop()
                MON.end_frame(outs or [])
            return outs if len(outs) > 1 else outs[0]

        decl = []
        if use_alpha:
            decl.append(ir.Attr("alpha", ir.AttributeType.FLOAT, None))
        if use_perm:
            decl.append(ir.Attr("perm", ir.AttributeType.INTS, None))
        try:
            fn = B.build_function(tf, [B.make_value("x"), B.make_value("y")], domain=BF_DOMAIN, name=name,
                                  attributes=decl if self.rng.random() < 0.5 else {a.name: a for a in decl},
                                  opset_imports={"": self.opset})
        except (BuildRaised, Invalid):
            raise
        except Exception as e:
            raise BuildRaised("build_function", e) from e
        MON.bind_graph(holder["frame"], fn.graph)
        self.fn_table[id(fn)] = ("frame", holder["frame"])
        self.features.add("build_function")
        b = {"fn": fn, "attrs": attrs, "nout": 2 if two else 1, "name": name}
        self.built_functions.append(b)
        return b

    def g_fn(self, opb):
        if self.P.get("fn_form") == "built":
            b = self.rng.choice(self.built_functions) if self.built_functions and self.rng.random() < 0.5 else self.build_fn()
            x = self.pick(lambda a, v: a.dtype == np.float32 and a.shape == (2, 3) and self.finite_small(v, 50) and self.typed(v))
            y = self.pick(lambda a, v: a.dtype == np.float32 and a.shape == (2, 3) and self.finite_small(v, 50) and self.typed(v))
            if x is None or y is None:
                return None
            return self.call_fn(opb, None, [x, y], built=b)
        name = self.rng.choice(sorted(F.LIB))
        nin = F.LIB[name][3]
        x = self.pick(lambda a, v: a.dtype == np.float32 and a.ndim == 2 and self.finite_small(v, 50))
        if x is None:
            return None
        args = [x]
        if nin == 2:
            sh = self.ex(x).shape
            y = self.pick(lambda a, v: a.dtype == np.float32 and a.shape == sh and self.finite_small(v, 50))
            if y is None:
                return None
            args.append(y)
        return self.call_fn(opb, name, args)

    # ------------------------------------------------------------------ finishing
    def choose_outputs(self, all_values=False):
        ir = _ir()
        main = [v for v in self.vis_stack[0] if self.meta.get(id(v), {}).get("kind") in ("op", "fn")]
        ok = []
        for v in main:
            try:
                a = self.ex(v)
            except KernelError:
                continue
            if isinstance(a, np.ndarray) and a.dtype.kind in "fiub":
                ok.append(v)
        if all_values:
            chosen = ok
        else:
            used = set()      # from the trace (user level), not from the graph: twins must choose alike

            def rec(frame):
                for e in frame.entries:
                    if e["k"] == "frame":
                        rec(e["frame"])
                        continue
                    for a in list(e.get("args", [])) + [x for x in (e.get("kwargs") or {}).values() if isinstance(x, dict)]:
                        if "v" in a:
                            used.add(a["v"])
                for o in frame.outputs or []:
                    used.add(o)

            rec(MON.root)
            leaves = [v for v in ok if id(v) not in used]
            rest = [v for v in ok if id(v) in used]
            self.rng.shuffle(rest)
            chosen = (leaves[-4:] + rest[:2]) or ok[-1:]
        seen = set()
        outs = []
        for v in chosen:
            if id(v) in seen:
                continue
            seen.add(id(v))
            outs.append(v)
        rename = self.P.get("rename_outputs", False)
        for j, v in enumerate(outs):
            exs = self.exs(v)
            if v.type is None:
                v.type = ir.TensorType(np_to_ir_dtype(exs[0].dtype))
                self.counts["output_type_supplied"] = self.counts.get("output_type_supplied", 0) + 1
            if v.shape is None:
                shapes = {tuple(e.shape) for e in exs}
                v.shape = ir.Shape(list(exs[0].shape)) if len(shapes) == 1 else ir.Shape([None] * exs[0].ndim)
            self.gb.add_output(v, f"out{j}" if rename else None)
        self.outputs = outs
        return outs

    def expected(self):
        return [[np.asarray(self.env_stack[0][k].get(id(v))) for v in self.outputs] for k in range(K)]

    def model(self):
        ir = _ir()
        m = ir.Model(self.graph, ir_version=10, functions=list(self.gb.functions.values()))
        return ir.serde.serialize_model(m)
