"""C06 — the pattern matcher reports a match exactly when the subgraph is an instance.

A pattern AST is interpreted twice: rendered to Python source over the public pattern API
(pattern.Pattern(fn), pattern.OrValue, pattern.Var(can_match_none), pattern.AttrVar, _outputs,
_allow_other_inputs/_allow_other_attributes, _domain) and handed to the real matcher
(Pattern.match(model, graph, node, check_nodes_are_removable=...), and RewriteRuleSet(commute=True).rules);
and by vf.c06_spec.match_spec (rules S1..S10 of DESIGN.md).  Verdict (DESIGN "strict/lax"):
  impl matches          => impl's (bindings, nodes, outputs) is a lax instance          (else kind=unsound)
  a strict instance     => impl matches                                                 (else kind=incomplete)
"""
from __future__ import annotations

import copy
import itertools

from . import c06_gen as gen
from . import c06_spec as spec
from . import common

PID = "C06"
LEVEL = "exploration"
RULE = (
    "enumerated part: pattern universe = every pattern AST with <=k node patterns over {Neg, Add, Sub, Split(2 outputs)} "
    "(attr stratum: {Neg, Elu(alpha), custom::Neg(p,q), Sub}) up to variable renaming, all wirings/shared nodes/repeated variables/"
    "single- and two-output-node forms, decorated with <=b features from {numeric constant, OrValue with a variable alternative "
    "(both orders, with/without tag_var), trailing None input, trailing can_match_none variable, extra variable input, "
    "_allow_other_inputs (with/without dropping an input), attribute constant/variable/can_match_none, _allow_other_attributes=False, "
    "_domain} plus the family Root(OrValue[Inner1, Inner2]) (OpIdDispatchOr and BacktrackingOr); host universe = every rooted host "
    "graph (all nodes ancestors of the root; for two-output-node patterns: of one of two roots) with <=n nodes over the same alphabet "
    "and leaves {graph inputs a,b, scalar initializer c}, once per isomorphism class; every (pattern, rooted host) pair with equal root "
    "operator is evaluated without the removability check (other pairs: 1/8 sample on the implementation, the spec is empty by S1+S2); "
    "for the pairs with a structural instance, 2 of 8 sampled assignments of {unused, graph output, consumed by an outside node} to "
    "the host's values are evaluated with the removability check (1/64 of the other pairs on one); patterns with Add additionally "
    "through RewriteRuleSet(commute=True).  quick: k<=2,b<=1 x n<=3 over a,b (n<=2 with c); two-output-node patterns x n<=2; attr and "
    "optional-input strata n<=3.  thorough adds: k<=2,b<=1 x n<=3 with c; k<=3,b=0 x n<=3 and x every 2nd rooted host with n<=4 over "
    "leaf a; k<=2,b<=2 x n<=2; k<=2,b<=1 x every 4th rooted host with n<=4 over leaf a; k<=2,b=0 x n<=4 over a,b; attr b<=2; "
    "two-output-node k<=3.  fixed family: 128 patterns with three independent output nodes x 30 hosts.  random part (20000 pairs in "
    "thorough, 1600 in quick): pattern/host pairs up to 8/20 nodes with a planted, perturbed instance, every host node as root.  "
    "non-trivial = evaluation with a lax instance; distinct = patterns / rooted hosts / random pairs with >=1 such evaluation"
)
ASSUMPTIONS = [
    "match_spec (vf/c06_spec.py, rules S1..S10 of DESIGN.md C06) is the documented meaning of a pattern",
    "regions the property sentence and tutorial leave open are not generated: _outputs other than 1 or the op's arity, an output node "
    "inside another output node's backward slice, OR values as pattern outputs, nested ORs, attribute variables used twice, "
    "explicit empty trailing inputs in hosts, float attribute values that are not exactly representable",
    "for single-output-node patterns a match at root n depends only on n's ancestor cone and, per cone value, whether it is a graph "
    "output / has a consumer outside the cone (observer nodes are Neg)",
    "constants are initializers (the answer must not depend on basic_constant_propagation having run)",
]
# (the hot functions _match_node/_match_value/NodePattern.matches are deliberately not anchored: LINE events there
# triple the cost of a run; their reach is implied by the impl_match / triples counters)
ANCHORS = [
    "onnxscript.rewriter._matcher:SimplePatternMatcher._match_constant",
    "onnxscript.rewriter._matcher:SimplePatternMatcher._multi_match",
    "onnxscript.rewriter._matcher:_valid_to_replace",
    "onnxscript.rewriter._pattern_ir:NodePattern.clone",
    "onnxscript.rewriter._pattern_ir:GraphPattern.commute",
    "onnxscript.rewriter._basics:MatchResult.merge_current_match",
]
TIMEOUT = 900.0


def EXHAUSTIVE(tier):
    # the (pattern x rooted host) products are enumerated completely, but root-operator-mismatch triples and the
    # graph-output/consumer variants are sampled (see RULE), so the run as a whole is not claimed exhaustive
    return False


def thresholds(tier):
    t = {
        "triples": 400000, "impl_match": 20000, "spec_strict_nonempty": 20000, "lax_only": 20, "removable_blocked": 2000,
        "commute_evals": 20000, "commute_match_only_swapped": 200, "or_backtracking_pattern_matches": 500,
        "or_dispatch_pattern_matches": 20, "multi_output_node_matches": 100, "const_matches": 200, "constmatrix_evaluations": 1000, "constmatrix_impl_match": 80, "attr_matches": 100,
        "none_input_matches": 100, "hosts": 500, "patterns": 2000, "tri_impl_match": 100, "hist_impl_match_after_edit": 200, "hist_edits": 100,
        "anchor:onnxscript.rewriter._matcher:_valid_to_replace": 5000,
        "anchor:onnxscript.rewriter._matcher:SimplePatternMatcher._multi_match": 1000,
        "anchor:onnxscript.rewriter._basics:MatchResult.merge_current_match": 1000,
        "anchor:onnxscript.rewriter._pattern_ir:NodePattern.clone": 500,
    }
    if tier == "thorough":
        t["random_pairs"] = 4000
        t["random_impl_match"] = 2000
    return t


# ----------------------------------------------------------------------------- work plan
def _plan(tier):
    """-> list of (name, pattern-universe args, host args, n_chunks)."""
    AB, ABC, A = ["a", "b"], ["a", "b", "c"], ["a"]
    plan = [
        ("core", ("core", 2, 1, True), ("core", 3, AB), 120),
        ("core-const", ("core", 2, 1, True), ("core", 2, ABC), 16),
        ("core-pair", ("core", 2, 1, True), ("core", 2, A, "pair"), 24),
        ("core-pair-ab", ("core", 2, 0, False), ("core", 2, AB, "pair"), 3),
        ("attr", ("attr", 2, 1, False), ("attr", 3, AB), 3),
        ("opt", ("core", 2, 1, True, "opt"), ("opt", 3, AB), 16),
    ]
    if tier == "thorough":
        plan += [
            ("t-core-abc", ("core", 2, 1, True), ("core", 3, ABC), 96),
            ("t-k3", ("core", 3, 0, False), ("core", 3, ABC), 192),
            ("t-k3-n4", ("core", 3, 0, False), ("core", 4, A), 384),  # sampled: chunks 0..191 of 384 = every 2nd cone
            ("t-b2", ("core", 2, 2, False), ("core", 2, ABC), 96),
            ("t-n4", ("core", 2, 1, True), ("core", 4, A), 384),   # sampled: chunks 0..95 of 384 = every 4th cone
            ("t-n4-ab", ("core", 2, 0, False), ("core", 4, AB), 48),
            ("t-attr", ("attr", 2, 2, False), ("attr", 3, AB), 48),
            ("t-pair", ("core", 3, 0, False), ("core", 2, AB, "pair"), 96),
        ]
    return plan


NV = 8  # flag variants per cone
N_RANDOM = {"quick": 0, "thorough": 20000}
RANDOM_PER_SPEC = 100


def cases(tier, seed):
    out = []
    for name, pu, hu, n in _plan(tier):
        for i in range({"t-n4": 96, "t-k3-n4": 192}.get(name, n)):
            out.append({"kind": "exh", "name": name, "pu": list(pu), "hu": list(hu), "chunk": i, "n": n, "seed": seed,
                        "pshard": name in ("t-b2", "t-attr")})
    out.append({"kind": "tri", "seed": seed})
    for c in range(8 if tier == "quick" else 64):
        out.append({"kind": "hist", "seed": seed, "chunk": c, "n": 6})
    out.append({"kind": "constmatrix", "seed": seed})
    for i0 in range(0, N_RANDOM[tier], RANDOM_PER_SPEC):
        out.append({"kind": "rand", "seed": seed, "i0": i0, "n": RANDOM_PER_SPEC})
    # quick tier also gets a small random sample (reach for the random generator, seed-dependent)
    if tier == "quick":
        for i0 in range(0, 1600, RANDOM_PER_SPEC):
            out.append({"kind": "rand", "seed": seed, "i0": i0, "n": RANDOM_PER_SPEC})
    return out


# ----------------------------------------------------------------------------- implementation side
_PU_CACHE: dict = {}
_HU_CACHE: dict = {}


class Entry:
    __slots__ = ("P", "src", "pat", "commuted", "refused", "root_op", "multi", "feats", "idx")


def _features(P):
    f = set()
    refcount = {}
    for n in P["nodes"]:
        if n.get("attrs"):
            f.add("attr")
        if n.get("aoa") is False:
            f.add("aoa")
        if n.get("aoi"):
            f.add("aoi")
        if n.get("domain"):
            f.add("domain")
        if n["nout"] == 2:
            f.add("split2")
        for v in n["in"]:
            if v is None:
                f.add("none_in")
                continue
            for a in (v[1] if v[0] == "or" else [v]):
                if a[0] == "c":
                    f.add("const")
                if a[0] == "v" and a[2]:
                    f.add("cmn")
                if a[0] == "o":
                    refcount[a[1]] = refcount.get(a[1], 0) + 1
            if v[0] == "or":
                nodes_alts = [a for a in v[1] if a[0] == "o"]
                ids = {(P["nodes"][a[1]]["op"], P["nodes"][a[1]].get("domain", "")) for a in nodes_alts}
                if len(nodes_alts) == len(v[1]) and len(ids) == len(v[1]):
                    f.add("or_disp")
                else:
                    f.add("or_bt")
    if any(c > 1 for c in refcount.values()):
        f.add("shared_node")
    if len(spec.output_nodes(P)) > 1:
        f.add("multi")
    return f


def compile_pattern(P, want_commute=True):
    from onnxscript.rewriter import pattern

    e = Entry()
    e.P = P
    e.src, _ = gen.render(P)
    e.refused = None
    e.commuted = None
    rn = P["nodes"][P["outs"][0][1]]
    e.root_op = (rn["op"], rn.get("domain", ""))
    e.multi = len(spec.output_nodes(P)) > 1
    e.feats = _features(P)
    ns = {"pattern": pattern}
    exec(e.src, ns)  # the rendered source only uses the public names of onnxscript.rewriter.pattern
    fn = ns["pat"]
    try:
        e.pat = pattern.Pattern(fn)
    except Exception as ex:  # a refusal at construction time is allowed
        e.pat = None
        e.refused = f"{type(ex).__name__}: {ex}"
        return e
    if want_commute and any(n["op"] in spec.COMMUTATIVE and not n.get("domain") for n in P["nodes"]):
        try:
            rule = pattern.RewriteRule(fn, lambda op, **_: None)
            e.commuted = list(pattern.RewriteRuleSet([rule], commute=True).rules)
        except Exception as ex:
            e.commuted = f"{type(ex).__name__}: {ex}"
    return e


_AST_CACHE: dict = {}


def pattern_entries(args, shard=None):
    """Compiled pattern universe (cached per worker).  shard=(i, n): only patterns i, i+n, ... (compiled per call; the
    AST list is cached) — used where the universe is large and the host set small."""
    key = tuple(args)
    if shard is None:
        if key not in _PU_CACHE:
            es = []
            for i, P in enumerate(gen.pattern_universe(*args)):
                e = compile_pattern(P)
                e.idx = i
                es.append(e)
            _PU_CACHE[key] = es
        return _PU_CACHE[key]
    if key not in _AST_CACHE:
        _AST_CACHE[key] = gen.pattern_universe(*args)
    ps = _AST_CACHE[key]
    es = []
    for i in range(shard[0], len(ps), shard[1]):
        e = compile_pattern(ps[i])
        e.idx = i
        es.append(e)
    return es


def host_cones(args):
    key = (args[0], args[1], tuple(args[2]), len(args) > 3)
    if key not in _HU_CACHE:
        _HU_CACHE[key] = gen.cones(args[0], args[1], tuple(args[2]), pair=len(args) > 3)
    return _HU_CACHE[key]


class Host:
    """ir.Model of a host graph + identity maps back to the host's names."""

    def __init__(self, G):
        import onnx

        from onnxscript import ir

        self.G = G
        proto = gen.host_proto(G)
        onnx.checker.check_model(proto)
        self.model = ir.serde.deserialize_model(proto)
        g = self.model.graph
        self.nodes = list(g)
        self.node_idx = {id(n): i for i, n in enumerate(self.nodes)}
        self.vname = {}
        for v in g.inputs:
            self.vname[id(v)] = v.name
        for v in g.initializers.values():
            self.vname[id(v)] = v.name
        for n in self.nodes:
            for v in n.outputs:
                self.vname[id(v)] = v.name
        self.index = spec._index(G)

    def instance(self, m):
        from onnxscript import ir

        b = []
        for k, v in m.bindings.items():
            if v is None:
                continue
            if isinstance(v, ir.Value):
                b.append((k, self.vname.get(id(v), f"?{v.name}")))
            elif isinstance(v, ir.Attr):
                b.append((k, ("attr", v.value)))
            else:
                b.append((k, ("tag", v)))
        nodes = frozenset(self.node_idx.get(id(n), -1) for n in m.nodes)
        outs = tuple(self.vname.get(id(v), f"?{v.name}") for v in m.outputs)
        return frozenset(b), nodes, outs


def impl_run(e, host, root, removable, commute):
    """-> (list of instances of the matching rules, error or None)"""
    pats = e.commuted if commute else [e.pat]
    res = []
    for p in pats:
        try:
            m = p.match(host.model, host.model.graph, host.nodes[root], check_nodes_are_removable=removable)
        except Exception as ex:
            return res, f"{type(ex).__name__}: {ex}"
        if m:
            res.append(host.instance(m))
    return res, None


def _fmt_inst(inst):
    b, n, o = inst
    return {"bindings": dict(sorted((k, v if isinstance(v, str) else list(v)) for k, v in b)), "nodes": sorted(n), "outputs": list(o)}


_REORDER_CACHE: dict = {}


def _earlier_alternative_matches_locally(P, host, root, removable, commute, inst, ch):
    """For the strict instance `inst` found with OR choice `ch`: is there an OR site whose chosen alternative a > 0 has an
    earlier alternative k < a that, taken by itself (fresh bindings), matches the host value at that site?"""
    G = host.G
    prod, cons = host.index
    variants = (spec.commute_variants(P) or [P]) if commute else [P]
    for Q in variants:
        sw = Q.get("_swap", ())
        choice = {(j, (1 - i) if j in sw else i): a for (j, i), a in ch.items()}
        if set(choice) != set(spec.or_sites(Q)):
            continue
        for assign in spec._assignments(Q, G, prod, choice, root):
            try:
                if spec._check(Q, G, prod, cons, choice, assign, removable) != inst:
                    continue
            except spec._No:
                continue
            for (j, i), a in choice.items():
                if a == 0 or j not in assign:
                    continue
                gin = G["nodes"][assign[j]]["in"]
                actual = gin[i] if i < len(gin) and gin[i] else None
                for k in range(a):
                    alt = Q["nodes"][j]["in"][i][1][k]
                    if alt[0] == "v":
                        if actual is not None or alt[2]:
                            return True
                    elif alt[0] == "c":
                        if actual is not None and actual in G["inits"]:
                            return True
                    elif alt[0] == "o" and actual is not None and actual in prod and prod[actual][1] == alt[2]:
                        sub = {"nodes": Q["nodes"], "outs": [["o", alt[1], alt[2]]]}
                        if spec.match_one(sub, G, prod[actual][0], False, host.index)[1]:
                            return True
            return False
    return True     # could not reconstruct the witness: stay with the listed mechanism


def classify(e, kind, host, root, removable, commute, impl, strict, lax):
    """Mechanism key of a deviation: coarse predicates over the witness + one diagnosis experiment for OR patterns."""
    f = e.feats
    mech = "plain"
    if kind == "unsound" and removable:
        # the same answer is a (lax) instance once S9 is dropped: the removability condition is what was not enforced
        _, lax0 = spec.match_spec(e.P, host.G, root, False, commute, host.index)
        if all(i in lax0 for i in impl):
            return "kind=unsound;mech=removability_not_enforced"
    if kind == "raises" and "or_bt" in f and "shared_node" in f:
        # the exception of MatchResult.merge_current_match after a tag_var was bound twice: a shared node pattern is matched
        # again because its node binding, made inside an OR alternative, was not merged back (see or_merge_shared_node)
        return "kind=raises;mech=or_merge_shared_node"
    if kind == "incomplete" and commute and len(spec.output_nodes(e.P)) >= 3:
        # experiment: the swapped variants written out and compiled afresh (not cloned by GraphPattern.commute).  If one of
        # those matches where no clone does, the clone is at fault: clones have no op identifier, and with >= 3 output nodes
        # the candidate lists of the 2nd, 3rd.. output node are then one shared, exhausted iterator
        for Q in spec.commute_variants(e.P) or []:
            ck = (e.src, "variant", tuple(sorted(Q.get("_swap", ()))))
            if ck not in _REORDER_CACHE:
                _REORDER_CACHE[ck] = compile_pattern({"nodes": Q["nodes"], "outs": Q["outs"]}, want_commute=False)
            e2 = _REORDER_CACHE[ck]
            if e2.pat is not None and impl_run(e2, host, root, removable, False)[0]:
                return "kind=incomplete;mech=commute_multi_output_ge3"
    if kind == "incomplete" and "or_bt" in f:
        # experiment: put, at every OR, the alternative used by one strict instance first.  If the real matcher then
        # reports the match, its answer depends on the order of the alternatives = commitment to the first alternative
        # that matches locally (no backtracking into the OR when something later fails).
        mech = "or_other"
        wit = {}
        spec.match_spec(e.P, host.G, root, removable, commute, host.index, witness=wit)
        for inst in strict:
            ch = wit.get(inst)
            if not ch or not any(ch.values()):
                continue
            ck = (e.src, tuple(sorted(ch.items())))
            if ck not in _REORDER_CACHE:
                Q = {"nodes": [dict(n, **{"in": list(n["in"])}) for n in e.P["nodes"]], "outs": e.P["outs"]}
                for (j, i), a in ch.items():
                    orv = Q["nodes"][j]["in"][i]
                    alts = [orv[1][a]] + [x for k, x in enumerate(orv[1]) if k != a]
                    Q["nodes"][j]["in"][i] = ["or", alts, orv[2]]
                _REORDER_CACHE[ck] = compile_pattern(Q)
            e2 = _REORDER_CACHE[ck]
            if e2.pat is None or (commute and not isinstance(e2.commuted, list)):
                continue
            r2, err = impl_run(e2, host, root, removable, commute)
            if r2:
                # order dependence.  The listed mechanism (or_greedy) is commitment to an EARLIER alternative that matched
                # locally; if no earlier alternative matches the host value even in isolation, the witness alternative was
                # simply never tried - a different mechanism
                mech = "or_greedy" if _earlier_alternative_matches_locally(e.P, host, root, removable, commute, inst, ch) else "or_alternative_not_tried"
            break
    elif kind == "unsound" and "or_bt" in f:
        # experiment: the same pattern with every OR replaced by one of its alternatives, for every choice.  If the real
        # matcher answers all of those correctly, the wrong answer comes from the state kept across an OR (bindings made
        # inside an alternative are not all merged back), which matters when a node pattern is shared.
        mech = "or_merge_shared_node" if "shared_node" in f else "or_merge"
        P = e.P
        sites = spec.or_sites(P)
        for alts in itertools.product(*[range(len(P["nodes"][j]["in"][i][1])) for j, i in sites]):
            ck = (e.src, "resolved", alts)
            if ck not in _REORDER_CACHE:
                Q = {"nodes": [dict(n, **{"in": list(n["in"])}) for n in P["nodes"]], "outs": P["outs"]}
                for (j, i), a in zip(sites, alts):
                    Q["nodes"][j]["in"][i] = P["nodes"][j]["in"][i][1][a]
                _REORDER_CACHE[ck] = compile_pattern(Q)
            e2 = _REORDER_CACHE[ck]
            if e2.pat is None or (commute and not isinstance(e2.commuted, list)):
                continue
            r2, err = impl_run(e2, host, root, removable, commute)
            s2, l2 = spec.match_spec(e2.P, host.G, root, removable, commute, host.index)
            if err or any(i not in l2 for i in r2) or (s2 and not r2):
                mech = "or_other"
                break
    elif "multi" in f:
        mech = "multi_output_node"
    elif "or_disp" in f:
        mech = "or_dispatch"
    else:
        for name in ("attr", "aoa", "domain", "const", "none_in", "cmn", "aoi", "split2"):
            if name in f:
                mech = name
                break
    key = f"kind={kind};mech={mech}"
    if mech in ("or_greedy", "or_merge_shared_node", "commute_multi_output_ge3"):
        return key  # one root cause, whatever the mode
    if commute:
        key += ";commute"
    return key


def judge(e, host, root, removable, commute, ev, viol, sigs):
    """One (pattern, host, root, mode) evaluation.  Returns (impl matched, lax non-empty)."""
    strict, lax = spec.match_spec(e.P, host.G, root, removable, commute, host.index)
    impl, err = impl_run(e, host, root, removable, commute)
    ev["triples"] = ev.get("triples", 0) + 1
    if commute:
        ev["commute_evals"] = ev.get("commute_evals", 0) + 1
    if err is not None:
        _violate(e, "raises", host, root, removable, commute, impl, strict, lax, viol, extra=err)
        return bool(impl), bool(lax)
    if impl:
        ev["impl_match"] = ev.get("impl_match", 0) + 1
        for name, evn in (("or_bt", "or_backtracking_pattern_matches"), ("or_disp", "or_dispatch_pattern_matches"),
                          ("multi", "multi_output_node_matches"), ("const", "const_matches"), ("attr", "attr_matches"),
                          ("none_in", "none_input_matches"), ("cmn", "none_input_matches")):
            if name in e.feats:
                ev[evn] = ev.get(evn, 0) + 1
        if commute and len(impl) and not any(i in spec.match_one(e.P, host.G, root, removable, host.index)[1] for i in impl):
            ev["commute_match_only_swapped"] = ev.get("commute_match_only_swapped", 0) + 1
    if strict:
        ev["spec_strict_nonempty"] = ev.get("spec_strict_nonempty", 0) + 1
    elif lax:
        ev["lax_only"] = ev.get("lax_only", 0) + 1
    bad = [i for i in impl if i not in lax]
    if bad:
        _violate(e, "unsound", host, root, removable, commute, bad, strict, lax, viol)
    elif strict and not impl:
        _violate(e, "incomplete", host, root, removable, commute, impl, strict, lax, viol)
    return bool(impl), bool(lax)


def _violate(e, kind, host, root, removable, commute, impl, strict, lax, viol, extra=None):
    key = classify(e, kind, host, root, removable, commute, impl, strict, lax)
    if sum(1 for v in viol if v["key"] == key) >= 3:
        viol.append({"key": key, "what": "", "detail": None})
        return
    mode = f"check_nodes_are_removable={removable}" + (", RewriteRuleSet(commute=True)" if commute else "")
    what = (f"{kind}: pattern `{e.src.strip().splitlines()[-1].strip()}` <= `{'; '.join(l.strip() for l in e.src.strip().splitlines()[1:-1])}` "
            f"on host `{gen.show_host(host.G)}` root node #{root} ({mode}): matcher "
            f"{'reports ' + str([_fmt_inst(i) for i in impl][:2]) if impl else 'reports no match'}; spec strict="
            f"{[_fmt_inst(i) for i in list(strict)[:2]]} lax={[_fmt_inst(i) for i in list(lax)[:2]]}" + (f" error={extra}" if extra else ""))
    viol.append({"key": key, "what": what[:1500], "detail": {
        "pattern_source": e.src, "pattern_ast": e.P, "host": host.G, "root": root, "removable": removable, "commute": commute,
        "impl": [_fmt_inst(i) for i in impl][:4], "strict": [_fmt_inst(i) for i in list(strict)[:4]],
        "lax": [_fmt_inst(i) for i in list(lax)[:4]], "error": extra}})


def _modes(e):
    return [False] + ([True] if isinstance(e.commuted, list) else [])


def run_exh(sp):
    pshard = sp.get("pshard")
    entries = pattern_entries(sp["pu"], (sp["chunk"], sp["n"]) if pshard else None)
    cones = host_cones(sp["hu"])
    pair = len(sp["hu"]) > 3
    ev, viol, sigs = {}, [], set()
    ev["patterns"] = 0
    todo = [e for e in entries if e.multi == pair]
    if sp["chunk"] == 0 or pshard:
        ev["patterns"] = len(todo)
        for e in entries:
            if e.refused:
                ev["pattern_refused_at_construction"] = ev.get("pattern_refused_at_construction", 0) + 1
            if isinstance(e.commuted, str):
                if "commutative swap applies only to binary ops" in e.commuted:
                    # S10 speaks of binary commutative operators only: an Add pattern with 1 or 3 inputs is refused, fine
                    ev["commute_refused_nonbinary"] = ev.get("commute_refused_nonbinary", 0) + 1
                else:
                    key = f"kind=raises;mech=commute_construct;err={e.commuted.split(':')[0]}"
                    n_seen = sum(1 for v in viol if v["key"] == key)
                    viol.append({"key": key, "what": "" if n_seen >= 3 else (
                        f"RewriteRuleSet([RewriteRule(pat, ...)], commute=True) raises {e.commuted} for pattern "
                        f"`{'; '.join(l.strip() for l in e.src.strip().splitlines()[1:])}`"), "detail": {"pattern_source": e.src, "error": e.commuted}})
    todo = [e for e in todo if e.pat is not None]
    by_op = {}
    for e in todo:
        by_op.setdefault(e.root_op, []).append(e)
    sample = None
    for ci in (range(len(cones)) if pshard else range(sp["chunk"], len(cones), sp["n"])):
        nodes, root = cones[ci]
        flags0 = None
        if pair:  # both roots' results are graph outputs
            consumed = {x for nd in nodes for x in nd["in"]}
            flags0 = {o: "out" for k, nd in enumerate(nodes) for o in nd["out"] if k == root or o not in consumed}
        G = gen.make_host(nodes, root, flags0)
        try:
            host = Host(G)
        except Exception as ex:
            ev["discarded_invalid_host"] = ev.get("discarded_invalid_host", 0) + 1
            continue
        if not pshard or sp["chunk"] == 0:
            ev["hosts"] = ev.get("hosts", 0) + 1
        rop = (G["nodes"][root]["op"], G["nodes"][root].get("domain", ""))
        matched, base_lax = [], {}
        for e in by_op.get(rop, []):
            hit = False
            for commute in _modes(e):
                im, lx = judge(e, host, root, False, commute, ev, viol, sigs)
                base_lax[(e.idx, commute)] = lx
                hit = hit or im or lx
                if lx:
                    sigs.add(f"p:{sp['pu'][0]}{sp['pu'][1]}{sp['pu'][2]}:{e.idx}")
                    sigs.add(f"h:{sp['name']}:{ci}")
            if hit:
                matched.append(e)
        # root operator differs from the pattern's: spec has no instance (S1+S2); implementation sampled 1/8
        for op, es in by_op.items():
            if op == rop:
                continue
            for e in es:
                if (e.idx * 7919 + ci) % 8:
                    ev["opmismatch_skipped"] = ev.get("opmismatch_skipped", 0) + 1
                    continue
                impl, err = impl_run(e, host, root, False, False)
                ev["triples"] = ev.get("triples", 0) + 1
                ev["opmismatch_run"] = ev.get("opmismatch_run", 0) + 1
                if impl or err:
                    _violate(e, "unsound" if impl else "raises", host, root, False, False, impl, set(), set(), viol, extra=err)
        # graph-output / outside-consumer variants: NV variants per cone; each structurally matching pattern is run with
        # the removability check on 2 of them (and without it on 1/8); 1/64 of the other patterns on one variant
        rng = common.rng(PID, "flags", sp["name"], ci)
        mset = set(id(e) for e in matched)
        others = [e for e in by_op.get(rop, []) if id(e) not in mset and (e.idx * 7919 + ci) % 64 == 0]
        variants = list(gen.flag_variants(nodes, root, rng, cap=NV)) if (matched or others) else []
        vhosts = []
        for flags in variants:
            try:
                vhosts.append(Host(gen.make_host(nodes, root, flags)))
                ev["variant_hosts"] = ev.get("variant_hosts", 0) + 1
            except Exception:
                ev["discarded_invalid_host"] = ev.get("discarded_invalid_host", 0) + 1
        if vhosts:
            for e in matched + others:
                picks = {(e.idx * 31 + ci) % len(vhosts), (e.idx * 17 + ci * 5 + 1) % len(vhosts)} if id(e) in mset else {e.idx % len(vhosts)}
                for pi, vk in enumerate(sorted(picks)):
                    vh = vhosts[vk]
                    for commute in _modes(e):
                        im1, lx1 = judge(e, vh, root, True, commute, ev, viol, sigs)
                        if base_lax.get((e.idx, commute)) and not lx1:
                            ev["removable_blocked"] = ev.get("removable_blocked", 0) + 1
                        if pi == 0 and (e.idx + ci) % 8 == 0:  # observers must not change the structural answer
                            judge(e, vh, root, False, commute, ev, viol, sigs)
                        if sample is None and im1 and len(e.P["nodes"]) > 1 and "or_bt" not in e.feats:
                            sample = {"pattern": e.src, "host": gen.show_host(vh.G), "root": root, "mode": "removable"}
    nv = {}
    for v in viol:
        nv[v["key"]] = nv.get(v["key"], 0) + 1
    return {"status": "ok", "viol": [v for v in viol if v["what"]], "events": ev, "nontrivial": True, "sig": None,
            "data": {"sigs": sorted(sigs), "viol_counts": nv}, "sample": sample}


def run_rand(sp):
    ev, viol, sigs = {}, [], set()
    sample = None
    for i in range(sp["i0"], sp["i0"] + sp["n"]):
        rng = common.rng(PID, "rand", sp["seed"], i)
        pr = None
        for _ in range(20):
            pr = gen.random_pair(rng)
            if pr is not None:
                break
        if pr is None:
            ev["random_gen_failed"] = ev.get("random_gen_failed", 0) + 1
            continue
        P, G = pr
        e = compile_pattern(P)
        e.idx = i
        if e.pat is None:
            ev["pattern_refused_at_construction"] = ev.get("pattern_refused_at_construction", 0) + 1
            continue
        try:
            host = Host(G)
        except Exception as ex:
            ev["discarded_invalid_host"] = ev.get("discarded_invalid_host", 0) + 1
            continue
        ev["random_pairs"] = ev.get("random_pairs", 0) + 1
        any_match = False
        for root in range(len(G["nodes"])):
            rop = (G["nodes"][root]["op"], G["nodes"][root].get("domain", ""))
            if rop != e.root_op and (i + root) % 4:
                continue
            for commute in _modes(e):
                for removable in (False, True):
                    im, lx = judge(e, host, root, removable, commute, ev, viol, sigs)
                    if im:
                        ev["random_impl_match"] = ev.get("random_impl_match", 0) + 1
                        any_match = True
                        if sample is None and len(P["nodes"]) >= 4:
                            sample = {"pattern": e.src, "host": gen.show_host(G), "root": root}
        if any_match:
            sigs.add(f"r:{sp['seed']}:{i}")
    nv = {}
    for v in viol:
        nv[v["key"]] = nv.get(v["key"], 0) + 1
    return {"status": "ok", "viol": [v for v in viol if v["what"]], "events": ev, "nontrivial": True, "sig": None,
            "data": {"sigs": sorted(sigs), "viol_counts": nv}, "sample": sample}


def run_tri(sp):
    """Fixed family: patterns with three independent output nodes x hosts with three such roots, every root, all modes."""
    N, V = gen.N, gen.V
    forms = [lambda a, b: N("Neg", [V(a)]), lambda a, b: N("Add", [V(a), V(b)]), lambda a, b: N("Sub", [V(a), V(b)]),
             lambda a, b: N("Add", [V(a), ["c", 1.0]])]
    pats = []
    for i, j, k in itertools.product(range(len(forms)), repeat=3):
        for names in ((("x", "y"), ("z", "w"), ("u", "v")), (("x", "y"), ("x", "y"), ("y", "x"))):
            P = {"nodes": [forms[i](*names[0]), forms[j](*names[1]), forms[k](*names[2])], "outs": [["o", 0, 0], ["o", 1, 0], ["o", 2, 0]]}
            pats.append(compile_pattern(P))
    hosts = []
    for g3 in (["Neg", "Add", "Sub"], ["Add", "Add", "Neg"], ["Sub", "Add1", "Add"], ["Neg", "Neg", "Neg"], ["Add1", "Add", "Sub"]):
        for leaves in (("a", "b"), ("b", "a"), ("a", "a")):
            nodes = []
            for n, op in enumerate(g3):
                ins = [leaves[0]] if op == "Neg" else ([leaves[0], "c"] if op == "Add1" else [leaves[n % 2], leaves[(n + 1) % 2]])
                nodes.append({"op": op.replace("1", ""), "in": ins, "out": [f"t{n}_0"], "attrs": {}})
            for outs in ([f"t{n}_0" for n in range(3)], ["t0_0"]):
                hosts.append({"inputs": ["a", "b"], "inits": {"c": 1.0}, "nodes": nodes, "outputs": outs})
    ev, viol, sigs = {"tri_patterns": len(pats), "tri_hosts": len(hosts)}, [], set()
    for G in hosts:
        host = Host(G)
        for idx, e in enumerate(pats):
            e.idx = idx
            if e.pat is None:
                continue
            for root in range(3):
                if (G["nodes"][root]["op"], "") != e.root_op:
                    continue
                for commute in _modes(e):
                    for removable in (False, True):
                        im, lx = judge(e, host, root, removable, commute, ev, viol, sigs)
                        if im:
                            ev["tri_impl_match"] = ev.get("tri_impl_match", 0) + 1
    nv = {}
    for v in viol:
        nv[v["key"]] = nv.get(v["key"], 0) + 1
    return {"status": "ok", "viol": [v for v in viol if v["what"]], "events": ev, "nontrivial": True, "sig": None,
            "data": {"sigs": sorted(sigs), "viol_counts": nv}, "sample": None}


def _mutate_host(host, G2, k):
    """Edit host's ir graph IN PLACE so that it becomes G2, which differs from host.G in node k only (operator and/or inputs;
    same output names, same number of nodes): the new node is inserted where the old one was, takes over its uses and its
    place among the graph outputs, the old one is removed.  The maps of the Host are updated accordingly."""
    from onnxscript import ir

    g = host.model.graph
    old = host.nodes[k]
    spec_n = G2["nodes"][k]
    byname = {nm: v for v, nm in ((v, host.vname[id(v)]) for n in host.nodes for v in n.outputs)}
    for v in list(g.inputs) + list(g.initializers.values()):
        byname[v.name] = v
    new = ir.Node(spec_n.get("domain", ""), spec_n["op"], [byname[i] for i in spec_n["in"]], num_outputs=len(old.outputs))
    for ov, nv in zip(old.outputs, new.outputs):
        nv.name, nv.type, nv.shape = ov.name, ov.type, ov.shape
    g.insert_after(old, new)
    for ov, nv in zip(old.outputs, new.outputs):
        for j, o in enumerate(g.outputs):
            if o is ov:
                g.outputs[j] = nv
        ov.replace_all_uses_with(nv)
    g.remove(old, safe=True)
    host.nodes[k] = new
    host.node_idx = {id(n): i for i, n in enumerate(host.nodes)}
    for nv in new.outputs:
        host.vname[id(nv)] = nv.name
    host.G = G2
    host.index = spec._index(G2)


def run_hist(sp):
    """History family: ONE compiled pattern object (and its commuted variants) is matched at every root of a host, the host's
    ir graph is then edited IN PLACE by a one-for-one node replacement (node count unchanged - what a rewrite by another
    rule leaves behind), and the same pattern object is matched again at every root; this is repeated along a chain of edits.
    Every evaluation is judged against the specification of the graph as it is at that moment, so a matcher that carries
    anything over from an earlier call (candidate indexes, cached bindings) shows as unsound / incomplete here while the
    history-free families stay silent."""
    N, V = gen.N, gen.V
    forms = [lambda a, b: N("Neg", [V(a)]), lambda a, b: N("Abs", [V(a)]), lambda a, b: N("Add", [V(a), V(b)]),
             lambda a, b: N("Sub", [V(a), V(b)])]
    pats = []
    for i, j in itertools.product(range(len(forms)), repeat=2):
        for names in ((("x", "y"), ("x", "y")), (("x", "y"), ("z", "w")), (("x", "y"), ("y", "x"))):
            pats.append(compile_pattern({"nodes": [forms[i](*names[0]), forms[j](*names[1])], "outs": [["o", 0, 0], ["o", 1, 0]]}))
    # single-output patterns too (the history must not matter for them either)
    for i in range(len(forms)):
        pats.append(compile_pattern({"nodes": [forms[i]("x", "y"), N("Neg", [["o", 0, 0]])], "outs": [["o", 1, 0]]}))
    for idx, e in enumerate(pats):
        e.idx = idx
    ops = ["Neg", "Abs", "Add", "Sub"]

    def node(op, n, leaves):
        ins = [leaves[n % 2]] if op in ("Neg", "Abs") else [leaves[n % 2], leaves[(n + 1) % 2]]
        return {"op": op, "in": ins, "out": [f"t{n}_0"], "attrs": {}}

    ev, viol, sigs = {"hist_patterns": len(pats)}, [], set()
    rng = common.rng(PID, "hist", sp["seed"], sp["chunk"])
    for h in range(sp["n"]):
        leaves = rng.choice([("a", "b"), ("b", "a"), ("a", "a")])
        cur_ops = [rng.choice(ops) for _ in range(3)]
        outs = [f"t{n}_0" for n in range(3)] if rng.random() < 0.7 else ["t0_0", "t2_0"]
        G = {"inputs": ["a", "b"], "inits": {}, "nodes": [node(o, n, leaves) for n, o in enumerate(cur_ops)], "outputs": outs}
        host = Host(G)
        ev["hist_hosts"] = ev.get("hist_hosts", 0) + 1
        for step in range(5):
            for e in pats:
                if e.pat is None:
                    continue
                for root in range(3):
                    if (host.G["nodes"][root]["op"], "") != e.root_op:
                        continue
                    for commute in _modes(e):
                        for removable in (False, True):
                            im, lx = judge(e, host, root, removable, commute, ev, viol, sigs)
                            if im and step:
                                ev["hist_impl_match_after_edit"] = ev.get("hist_impl_match_after_edit", 0) + 1
            # one-for-one edit
            k = rng.randrange(3)
            new_op = rng.choice([o for o in ops if o != host.G["nodes"][k]["op"]])
            G2 = copy.deepcopy(host.G)
            G2["nodes"][k] = node(new_op, k, leaves)
            _mutate_host(host, G2, k)
            ev["hist_edits"] = ev.get("hist_edits", 0) + 1
    nv = {}
    for v in viol:
        nv[v["key"]] = nv.get(v["key"], 0) + 1
    return {"status": "ok", "viol": [v for v in viol if v["what"]], "events": ev, "nontrivial": True, "sig": None,
            "data": {"sigs": sorted(sigs), "viol_counts": nv}, "sample": None}



PATTERN_CONSTANTS = [1.0, 2.0, 0.5, 1.5, 0, 1, -1.0, 1.000001, 1.00002, 0.1, [1.0], [0.5, 1.5], [1, 2], [0, 1]]
HOST_CONSTANTS = {
    "float32": [1.0, 2.0, 0.5, 1.5, 0.0, -1.0, 1.000001, 1.00002, 0.1, 0.1001, [1.0], [0.5, 1.5], [1.0, 2.0], [0.0, 1.0]],
    "float64": [1.0, 0.5, 1.5, 1.000001, 1.00002, 0.1, [0.5, 1.5], [1.0]],
    "float16": [1.0, 0.5, 1.5, 0.0, 0.1, 0.1001, [0.5, 1.5], [1.0, 2.0]],
    "int64": [0, 1, 2, -1, [1], [0, 1], [1, 2]],
    "int32": [0, 1, 2, [0, 1]],
}


def run_constmatrix(sp):
    """Fixed family for rule S5 (numeric constants): every pattern constant (python float / int, scalar and list, on and just
    beyond the tolerance, fractional values) against every constant tensor of a host (float32/float64/float16/int64/int32, the
    value as it is STORED in that type, scalars and rank-1), as the right operand of Add (commutative), Sub, and swapped in Add."""
    import numpy as np

    N, V = gen.N, gen.V
    pats = []
    for c in PATTERN_CONSTANTS:
        for op in ("Add", "Sub"):
            P = {"nodes": [N(op, [V("x"), ["c", c]])], "outs": [["o", 0, 0]]}
            e = compile_pattern(P)
            e.idx = len(pats)
            pats.append(e)
    ev, viol, sigs = {"constmatrix_patterns": len(pats)}, [], set()
    for dt, vals in HOST_CONSTANTS.items():
        for val in vals:
            stored = np.asarray(val, dtype=np.dtype(dt)).tolist()      # what the tensor holds (0.1 as float16 is 0.0999755859375)
            for op, ins in (("Add", ["a", "c"]), ("Sub", ["a", "c"]), ("Add", ["c", "a"])):
                G = {"inputs": ["a", "b"], "inits": {"c": stored}, "dtype": dt,
                     "nodes": [{"op": op, "in": ins, "out": ["t0_0"], "attrs": {}}], "outputs": ["t0_0"]}
                host = Host(G)
                ev["constmatrix_hosts"] = ev.get("constmatrix_hosts", 0) + 1
                for e in pats:
                    if e.pat is None or (op, "") != e.root_op:
                        continue
                    for commute in _modes(e):
                        for removable in (False, True):
                            im, lx = judge(e, host, 0, removable, commute, ev, viol, sigs)
                            ev["constmatrix_evaluations"] = ev.get("constmatrix_evaluations", 0) + 1
                            if im:
                                ev["constmatrix_impl_match"] = ev.get("constmatrix_impl_match", 0) + 1
    nv = {}
    for v in viol:
        nv[v["key"]] = nv.get(v["key"], 0) + 1
    return {"status": "ok", "viol": [v for v in viol if v["what"]], "events": ev, "nontrivial": True, "sig": None,
            "data": {"sigs": sorted(sigs), "viol_counts": nv}, "sample": None}


def run_case(sp):
    import time

    t0 = time.process_time()
    if sp["kind"] == "constmatrix":
        r = run_constmatrix(sp)
        r["events"]["cpu_ms"] = int((time.process_time() - t0) * 1000)
        return r
    r = run_exh(sp) if sp["kind"] == "exh" else (run_tri(sp) if sp["kind"] == "tri" else (run_hist(sp) if sp["kind"] == "hist" else run_rand(sp)))
    r["events"]["cpu_ms"] = int((time.process_time() - t0) * 1000)
    return r


def finalize(ctx):
    totals = {}
    for r in ctx.results:
        d = (r or {}).get("data") or {}
        for s in d.get("sigs") or []:
            ctx.sigs.add(s)
        for k, n in (d.get("viol_counts") or {}).items():
            totals[k] = totals.get(k, 0) + n
    if totals:
        ctx.extra["deviating_evaluations_by_key"] = dict(sorted(totals.items()))
    cpu, worst = {}, []
    for sp, r in zip(ctx.specs, ctx.results):
        ms = ((r or {}).get("events") or {}).get("cpu_ms", 0)
        nm = sp.get("name", sp["kind"])
        cpu[nm] = cpu.get(nm, 0) + ms
        worst.append((ms, nm, sp.get("chunk", sp.get("i0"))))
    ctx.extra["cpu_s_by_stratum"] = {k: round(v / 1000, 1) for k, v in cpu.items()}
    ctx.extra["slowest_specs_s"] = [[round(m / 1000, 1), n, c] for m, n, c in sorted(worst, reverse=True)[:5]]
