"""C09 — shape-based simplifications hold for every runtime binding of symbolic dims."""
from __future__ import annotations

import itertools

import numpy as np

from . import c03core, common, compare, modelgen, optcommon, runner

PID = "C09"
LEVEL = "exploration"
RULE = ("models with symbolic dims (named N/M/K, unnamed, repeated) from vf/modelgen.py in symbolic mode: generation by "
        "execution under TWO bindings at once, so shape-dependent constants are only emitted when both bindings agree; bodies "
        "mix data ops with Shape/Size/Gather/Concat/Slice/Squeeze/Unsqueeze/Cast/Abs/Reshape/Expand/ConstantOfShape/Range/"
        "ScatterND/MatMul chains, the shape vector lifted to rank 2 and indexed along axis 0, integer arithmetic over dims (Add/Sub/Mul/Div/Neg/Min/Max/Mod "
        "of one-element Shape-derived values) consumed by Abs / ConstantOfShape / Reshape or returned, axes-less Squeeze of a value with symbolic dims "
        "observed through Shape/Reshape(-1)/Size, flatten-and-reshape-back of an input "
        "whose declared shape repeats one symbol. ONE optimize() per model (default options; on further copies onnx_shape_inference=False, and optimize followed by the exported expand_before_binary_op_rules set), "
        "then every binding of the symbols to {0,1,2,3,7} (all if <=25, else a covering sample incl. all-equal, all-distinct, "
        "any-0, any-1) x 2 input tensors; ORT before vs after per binding. A binding on which the ORIGINAL fails is discarded "
        "per binding. non-trivial = a shape-derived mechanism fired; distinct = set of fired mechanisms")
ASSUMPTIONS = [
    "ONNX Runtime CPU (optimisations off) decides; onnx.reference may only dispute",
    "'accepts exactly the inputs the original accepted' is judged one way only: original runs and optimized fails is a violation; "
    "original fails and optimized runs is counted (accepts_more) but not judged, because dead-code elimination legitimately "
    "removes a failing unused node",
    "bindings inconsistent with the model's own declaration (same symbol, different sizes) are not generated",
]
ANCHORS = [
    "onnxscript.optimizer._constant_folding:_same_shape",
    "onnxscript.optimizer._constant_folding:_merge_shapes",
    "onnxscript.optimizer._constant_folding:OptimizerState.get_shape_value",
    "onnxscript.rewriter._ir_utils:same_shape",
    "onnxscript.rewriter._ir_utils:same_dim",
    "onnxscript.rewriter.rules.common._remove_expand_before_binary_op:_check_expand_removable",
]
TIMEOUT = 300.0
SIZES = [0, 1, 2, 3, 7]
SHAPE_MECHS = ("eval:Shape", "eval:Size", "eval:Gather", "eval:Reshape", "eval:Expand", "eval:Abs", "eval:Concat", "eval:Identity",
               "eval:Squeeze", "eval:Add", "eval:Cast", "rule:")


def thresholds(tier):
    return {"bindings_compared": 1500, "shape_mech_models": 60, "distinct_mechanisms": 20}


def cases(tier, seed):
    n = 4000 if tier == "thorough" else 700
    out = []
    for i in range(n):
        r = common.rng(PID, "spec", seed, i)
        out.append({"i": i, "seed": seed, "opset": r.choice([13, 17, 18, 18, 20, 21]), "n_nodes": r.choice([4, 8, 12, 18, 28])})
    return out


def bindings_for(rng, syms):
    if not syms:
        return [{}]
    total = len(SIZES) ** len(syms)
    if total <= 25:
        return [dict(zip(syms, c)) for c in itertools.product(SIZES, repeat=len(syms))]
    out = []
    for s in SIZES:
        out.append({k: s for k in syms})                       # all equal
    distinct = [dict(zip(syms, [SIZES[(j + o) % len(SIZES)] for j in range(len(syms))])) for o in range(len(SIZES))]
    out.extend(distinct)                                          # (nearly) all distinct
    for k in syms:
        for z in (0, 1):
            b = {q: rng.choice([2, 3, 7]) for q in syms}
            b[k] = z
            out.append(b)                                         # any-0, any-1
    while len(out) < 25:
        out.append({k: rng.choice(SIZES) for k in syms})
    uniq = []
    for b in out:
        if b not in uniq:
            uniq.append(b)
    return uniq[:30]


def run_case(spec):
    optcommon.install_probes()
    rng = common.rng(PID, "case", spec["seed"], spec["i"])
    events = {}

    def hit(k, n=1):
        events[k] = events.get(k, 0) + n

    try:
        m, info = modelgen.generate(rng, opset=spec["opset"], n_nodes=spec["n_nodes"], symbolic=True, table=modelgen.SYM_TABLE)
    except modelgen.Bail:
        return {"status": "discarded_gen"}
    syms = modelgen.symbols_of(info)
    if not syms:
        return {"status": "discarded_no_symbols", "events": {"no_symbols": 1}}
    if runner.checker(m, full=False):
        return {"status": "discarded_invalid"}
    known = optcommon.known_mechs(PID)
    viol, all_fired = [], set()
    label = {"gen": spec["i"], "opset": spec["opset"], "nodes": info["n_nodes"], "symbols": syms,
             "inputs": [i["decl"] for i in info["inputs"]]}
    variants = [dict(api="optimize", entry="proto")]
    if rng.random() < 0.4:
        variants.append(dict(api="optimize", entry=rng.choice(["proto", "ir"]), onnx_shape_inference=False))
    if info["events"].get("motif:expand_before_binary:shape_of") or info["events"].get("motif:expand_before_binary:const") or \
            info["events"].get("motif:expand_before_binary:concat_dims") or info["events"].get("motif:expand_shape_of") or rng.random() < 0.2:
        variants.append(dict(api="optimize_then_expand_rules", entry="proto"))
    binds = bindings_for(rng, syms)
    # outputs that depend on a genuinely nondeterministic op (Random*, training Dropout): dtype and shape only — whether
    # such an op survives optimisation is C03's business (kind=nondeterminism_lost), and ORT draws different numbers
    # once the graph around the op changes
    nd_names = set(info.get("nondet_outputs") or []) | optcommon.random_dependent(m)
    nd_idx = [k for k, go in enumerate(m.graph.output) if go.name in nd_names]
    if nd_idx:
        hit("models_with_nondeterministic_outputs")

    def mask_nd(outs):
        if not nd_idx or outs is None:
            return outs
        outs = list(outs)
        for k in nd_idx:
            if k < len(outs) and not isinstance(outs[k], list):
                a = np.asarray(outs[k])
                outs[k] = np.zeros(a.shape, a.dtype)
        return outs
    # inputs per binding are drawn once and shared by all variants
    feeds_by_b = []
    for b in binds:
        fl = [modelgen.make_feeds(rng, info, binding=b, style=st) for st in ("mixed", "edge")]
        feeds_by_b.append(fl)
    base = []
    for fl in feeds_by_b:
        outs = []
        for f in fl:
            st, o = runner.ort_run(m, f)
            outs.append(mask_nd(o) if st == "ok" else None)
        base.append(outs)
    if not any(o is not None for outs in base for o in outs):
        return {"status": "discarded_unrunnable"}
    for o in variants:
        try:
            m2 = optcommon.apply_api(m, o)
        except Exception as e:
            hit("optimize_raised")   # totality is C04's business
            continue
        fired = list(optcommon.FIRED)
        all_fired.update(fired)
        hit("optimized")
        if optcommon.structural(m2):
            hit("result_invalid")    # C04's business
            continue
        try:
            s2 = runner.ort_session(m2)
        except Exception as e:
            hit("result_unloadable")
            msg = f"{type(e).__name__}: {e}"
            if runner.classify(msg) == "not_implemented":
                continue
            # a result ONNX Runtime refuses to load accepts nothing: judged on the first binding the original runs on
            # (models that are invalid for reasons listed under C04 are attributed to those mechanisms as usual)
            first = next(((b, f, o1) for b, fl, outs in zip(binds, feeds_by_b, base) for f, o1 in zip(fl, outs) if o1 is not None), None)
            if first is not None:
                b, f, o1 = first

                def passes_load(x, f=f, o1=o1):
                    st, oo = runner.ort_run(x, f)
                    return st == "ok"

                culprit = optcommon.attribute(m, o, passes_load, fired, known)
                viol.append({"key": c03core._key(culprit, "accepts_less"),
                             "what": f"optimize({c03core._optstr(o)}) yields a model ONNX Runtime cannot load although the original runs "
                                     f"(binding {b}): {msg[:300]}",
                             "detail": {"case": label, "binding": b, "binding_class": "load", "opts": o, "fired": list(dict.fromkeys(fired))[:20]}})
                hit("mismatch")
            continue
        scale = optcommon.reduction_scale(m)
        reported = set()
        for b, fl, outs in zip(binds, feeds_by_b, base):
            for f, o1 in zip(fl, outs):
                st2, o2 = runner.ort_run(m2, f, session=s2)
                if o1 is None:
                    hit("binding_discarded_original_fails")
                    if st2 == "ok":
                        hit("accepts_more")
                    continue
                hit("bindings_compared")
                if st2 != "ok":
                    if st2 == "not_implemented":
                        hit("inconclusive_not_implemented")
                        continue
                    if 0 in b.values():
                        # same second witness as below: with a size-0 binding "ORT ran the original" may be an artefact of kernels
                        # that skip their argument checks on empty tensors (ArgMin over an empty axis returns a size-0 result
                        # instead of failing, which then contradicts the shapes inference wrote into the optimized model)
                        r1x, ro1x = runner.ref_run(m, f)
                        if r1x == "fail" and not any(w in str(ro1x) for w in ("NotImplemented", "not implemented", "No implementation",
                                                                                "RuntimeImplementationError")):
                            hit("binding_discarded_reference_rejects_original")
                            continue
                    kind, d = "accepts_less", f"optimized model fails where the original runs: {str(o2)[:200]}"
                else:
                    o2 = mask_nd(o2)
                    d = compare.compare_outputs(o1, o2, scale=scale)
                    if not d:
                        continue
                    kind = "value"
                    for kw in ("dtype", "shape", "count"):
                        if kw in d[:40]:
                            kind = kw
                    r1, ro1 = runner.ref_run(m, f)
                    r2, ro2 = runner.ref_run(m2, f)
                    if r1 == "ok" and r2 == "ok":
                        ro1, ro2 = mask_nd(ro1), mask_nd(ro2)
                    if r1 == "fail" and 0 in b.values() and not any(w in str(ro1) for w in ("NotImplemented", "not implemented", "No implementation", "RuntimeImplementationError")):
                        # second witness on "the original accepts this input": ORT's CPU kernels skip their argument
                        # checks on empty tensors (Concat ignores an empty operand whose other dims mismatch and leaves
                        # the slot uninitialised; Gather with an out-of-range index on an empty axis returns an empty
                        # result), so with a size-0 binding "ORT ran" does not show that the model is defined here.
                        # When onnx.reference rejects the ORIGINAL under such a binding the binding is discarded.
                        hit("binding_discarded_reference_rejects_original")
                        continue
                    if r1 == "ok" and r2 == "ok" and compare.compare_outputs(ro1, ro2, scale=scale) is None and \
                            (compare.compare_outputs(o1, ro1, scale=scale * 4, check_dtype=False) is not None
                             or (kind == "value" and optcommon.has_f16(m))):
                        hit("disputed")
                        continue

                def passes(x, f=f, o1=o1):
                    st, oo = runner.ort_run(x, f)
                    return st == "ok" and compare.compare_outputs(o1, mask_nd(oo), scale=scale) is None

                culprit = optcommon.attribute(m, o, passes, fired, known, first=("fold:" if kind == "dtype" else None))
                key = c03core._key(culprit, kind)
                if culprit and culprit.startswith("rule:Expand") and kind == "shape":
                    # the listed defect of the expand-before-binary rules changes the RANK of the result (expand shape with more
                    # leading dims than both operands); a result of the same rank with another dimension is something else
                    ranks = None
                    try:
                        ranks = [(np.asarray(a).ndim, np.asarray(c).ndim) for a, c in zip(o1, mask_nd(runner.ort_run(m2, f)[1]))]
                    except Exception:
                        pass
                    key += ";sym=" + ("rank_change" if ranks is None or any(p != q for p, q in ranks) else "dim_change")
                    if key.endswith("dim_change"):
                        # two UNNAMED dims are not known to be equal; the rules' handling of them is a listed defect of its own
                        key += ";dims=" + ("anonymous" if any(str(k).startswith("?") for k in b) else "named")
                if key in reported:
                    continue
                reported.add(key)
                cls = "zero" if 0 in b.values() else ("one" if 1 in b.values() else "general")
                viol.append({"key": key, "what": f"optimize({c03core._optstr(o)}) differs under binding {b} [{kind}]: {d}",
                             "detail": {"case": label, "binding": b, "binding_class": cls, "opts": o,
                                        "fired": list(dict.fromkeys(fired))[:20]}})
                hit("mismatch")
    shape_fired = [f for f in all_fired if f.startswith(SHAPE_MECHS)]
    if shape_fired:
        hit("shape_mech_models")
    for k, v in info["events"].items():
        if k.startswith("motif:"):
            hit("gen_" + k.split(":")[0] + ":" + k.split(":")[1])
    return {"status": "ok", "viol": viol, "events": events, "sig": "|".join(sorted(all_fired)), "nontrivial": bool(shape_fired),
            "sample": label, "data": {"fired": sorted(all_fired)}}


def finalize(ctx):
    c03core.merge_fired(ctx)
