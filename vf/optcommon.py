"""Shared machinery for C03 / C04 / C09: mechanism probes on the optimizer, option tuples,
running an API on a model, equivalence judgement and mechanism attribution."""
from __future__ import annotations

import functools
import traceback

import numpy as np
import onnx

from . import compare, probes, runner, wellformed

FIRED: list[str] = []          # mechanism names in firing order (per optimize call)
DISABLED: set[str] = set()      # mechanisms forced off (attribution loop)
_installed = False


def install_probes():
    """Pass-through wrappers on what the code already keeps in registries.  Idempotent."""
    global _installed
    if _installed:
        return
    _installed = True
    import onnx_ir.passes.common as common_passes

    from onnxscript.optimizer import _constant_folding as cf
    from onnxscript.rewriter import _rewrite_rule

    # partial evaluators: replaced *in the container*
    for (domain, opname), lst in cf.registry.op_evaluators.items():
        for pe in lst:
            pe.function = _wrap_evaluator(pe.function, f"eval:{opname}")

    # reference-evaluator folding
    orig_eval = cf.ReferenceEvaluator.evaluate

    @functools.wraps(orig_eval)
    def evaluate(self, domain, op, version, *args, **kwargs):
        name = f"fold:{op}"
        if name in DISABLED:
            return None
        r = orig_eval(self, domain, op, version, *args, **kwargs)
        if r is not None:
            FIRED.append(name)
        return r

    cf.ReferenceEvaluator.evaluate = evaluate

    # rewrite rules
    orig_try = _rewrite_rule.RewriteRule.try_rewrite

    @functools.wraps(orig_try)
    def try_rewrite(self, model, graph_or_function, node, **kw):
        name = "rule:" + rule_name(self)
        if name in DISABLED:
            return None
        r = orig_try(self, model, graph_or_function, node, **kw)
        if r is not None:
            FIRED.append(name)
        return r

    _rewrite_rule.RewriteRule.try_rewrite = try_rewrite

    # onnx_ir passes used by the pipeline
    for cname in ("CommonSubexpressionEliminationPass", "DeduplicateInitializersPass", "LiftConstantsToInitializersPass",
                  "LiftSubgraphInitializersToMainGraphPass", "InlinePass", "OutputFixPass", "NameFixPass",
                  "RemoveUnusedNodesPass", "RemoveUnusedFunctionsPass", "RemoveUnusedOpsetsPass"):
        cls = getattr(common_passes, cname, None)
        if cls is None or "call" not in cls.__dict__:
            continue
        _wrap_pass(cls, cname)

    # graph-output replacement by sym value (visit_graph) is attributed through eval:Identity etc.


def _wrap_evaluator(fn, name):
    if getattr(fn, "_vf_wrapped", False):
        return fn

    @functools.wraps(fn)
    def w(node, op, state):
        if name in DISABLED:
            return None
        r = fn(node, op, state)
        if r is not None:
            FIRED.append(name)
        return r

    w._vf_wrapped = True
    return w


def _wrap_pass(cls, cname):
    orig = cls.__dict__["call"]

    @functools.wraps(orig)
    def call(self, model):
        import onnx_ir as ir

        name = f"pass:{cname}"
        if name in DISABLED:
            return ir.passes.PassResult(model, False)
        r = orig(self, model)
        if getattr(r, "modified", False):
            FIRED.append(name)
        return r

    cls.call = call


_RULE_NAMES: dict[int, str] = {}


def rule_name(rule) -> str:
    """Stable name of a rule object: its own name, else the module-level variable holding it."""
    if getattr(rule, "name", None):
        return rule.name
    if not _RULE_NAMES:
        import importlib
        import pkgutil

        from onnxscript.rewriter import _rewrite_rule
        from onnxscript.rewriter import rules as rules_pkg

        for sub in ("common", "fusion"):
            try:
                pkg = importlib.import_module(f"{rules_pkg.__name__}.{sub}")
            except Exception:
                continue
            for mi in pkgutil.iter_modules(pkg.__path__):
                if mi.name.endswith("_test"):
                    continue
                try:
                    mod = importlib.import_module(f"{pkg.__name__}.{mi.name}")
                except Exception:
                    continue
                for k, v in vars(mod).items():
                    if isinstance(v, _rewrite_rule.RewriteRule):
                        _RULE_NAMES.setdefault(id(v), k)
                        # commuted copies share the replacement-pattern object with the original
                        _RULE_NAMES.setdefault(id(getattr(v, "_replacement_pattern", None)), k)
        _RULE_NAMES.setdefault(0, "")
    n = _RULE_NAMES.get(id(rule))
    if n:
        return n
    n = _RULE_NAMES.get(id(getattr(rule, "_replacement_pattern", None)))
    return n or "anonymous"


# ------------------------------------------------------------------ options
DEFAULTS = dict(num_iterations=2, onnx_shape_inference=True, stop_if_no_change=True, inline=True)


def option_tuples(rng, n):
    """n option tuples; the first is always the default configuration."""
    out = [dict(api="optimize", entry="proto")]
    apis = ["optimize", "optimize", "optimize", "fold_constants", "rewrite", "remove_unused_nodes", "optimize_ir"]
    while len(out) < n:
        api = rng.choice(apis)
        o = dict(api=api, entry=rng.choice(["proto", "ir"]))
        if api in ("optimize", "optimize_ir"):
            if api == "optimize_ir":
                o["entry"] = "ir"
            o["num_iterations"] = rng.choice([1, 2, 3])
            o["onnx_shape_inference"] = rng.choice([True, False])
            o["inline"] = rng.choice([True, True, False])
            o["stop_if_no_change"] = rng.choice([True, False])
            il = rng.choice([None, 0, 8])
            ol = rng.choice([None, 0, 8])
            if il is not None:
                o["input_size_limit"] = il
            if ol is not None:
                o["output_size_limit"] = ol
        elif api == "fold_constants":
            if rng.random() < 0.5:
                o["onnx_shape_inference"] = rng.choice([True, False])
            il = rng.choice([None, 0, 8])
            if il is not None:
                o["input_size_limit"] = il
        if o not in out:
            out.append(o)
    return out


def apply_api(model: onnx.ModelProto, o: dict) -> onnx.ModelProto:
    """Run one API on a private copy of `model`; returns the resulting proto (exceptions propagate)."""
    import onnx_ir as ir

    import onnxscript.optimizer as opt
    from onnxscript import rewriter

    m = onnx.ModelProto()
    m.CopyFrom(model)
    kw = {k: v for k, v in o.items() if k not in ("api", "entry")}
    api, entry = o["api"], o.get("entry", "proto")
    del FIRED[:]
    if entry == "ir":
        mi = ir.serde.deserialize_model(m)
        if api == "optimize":
            r = opt.optimize(mi, **kw)
        elif api == "optimize_ir":
            opt.optimize_ir(mi, **kw)
            r = mi
        elif api == "fold_constants":
            opt.fold_constants(mi, **kw)
            r = mi
        elif api == "rewrite":
            r = rewriter.rewrite(mi)
        elif api == "remove_unused_nodes":
            opt.remove_unused_nodes(mi)
            r = mi
        else:
            raise ValueError(api)
        return ir.serde.serialize_model(r)
    if api == "optimize":
        return opt.optimize(m, **kw)
    if api == "optimize_then_expand_rules":
        # the shape-driven rule set that is exported but not part of the default set
        from onnxscript.rewriter.rules import common as rc

        m1 = opt.optimize(m, **kw)
        return rewriter.rewrite(m1, pattern_rewrite_rules=rc.expand_before_binary_op_rules)
    if api == "fold_constants":
        opt.fold_constants(m, **kw)
        return m
    if api == "rewrite":
        return rewriter.rewrite(m)
    if api == "remove_unused_nodes":
        opt.remove_unused_nodes(m)
        return m
    raise ValueError(api)


# ------------------------------------------------------------------ judgement
def signature(m: onnx.ModelProto):
    def vi(x):
        t = x.type
        which = t.WhichOneof("value")
        if which == "tensor_type":
            tt = t.tensor_type
            shp = None
            if tt.HasField("shape"):
                shp = tuple((d.dim_value if d.HasField("dim_value") else (d.dim_param or None)) for d in tt.shape.dim)
            return (x.name, "tensor", tt.elem_type, shp)
        if which == "sequence_type":
            return (x.name, "seq", t.sequence_type.elem_type.tensor_type.elem_type, None)
        return (x.name, which, None, None)

    return [vi(i) for i in m.graph.input], [vi(o) for o in m.graph.output]


def sig_diff(m1, m2):
    """Names, order and declared types of graph inputs/outputs must be kept."""
    i1, o1 = signature(m1)
    i2, o2 = signature(m2)
    if [x[0] for x in i1] != [x[0] for x in i2]:
        return f"graph input names/order changed: {[x[0] for x in i1]} -> {[x[0] for x in i2]}"
    if [x[0] for x in o1] != [x[0] for x in o2]:
        return f"graph output names/order changed: {[x[0] for x in o1]} -> {[x[0] for x in o2]}"
    for a, b in zip(i1 + o1, i2 + o2):
        if a[1] != b[1] or a[2] != b[2]:
            return f"declared type of '{a[0]}' changed: {a[1:3]} -> {b[1:3]}"
        if a[3] is not None and b[3] is not None and a[1] == "tensor":
            # a declared shape may be refined (None -> value) but a declared dim must not change
            if len(a[3]) != len(b[3]):
                return f"declared rank of '{a[0]}' changed: {a[3]} -> {b[3]}"
            if any(isinstance(p, int) and q is not None and p != q for p, q in zip(a[3], b[3])):
                return f"declared shape of '{a[0]}' changed: {a[3]} -> {b[3]}"
            if any(isinstance(p, int) and q is None for p, q in zip(a[3], b[3])):
                # nothing contradicts the declaration, but declared dims were forgotten
                return f"declared shape of '{a[0]}' lost: {a[3]} -> {b[3]}"
        if a[3] is not None and b[3] is None:
            return f"declared shape of '{a[0]}' lost: {a[3]} -> None"
    return None


def reduction_scale(m):
    """Loosen float tolerance with graph depth / reductions (reassociation is legal)."""
    n = len(m.graph.node)
    heavy = sum(1 for x in m.graph.node if x.op_type in ("MatMul", "Gemm", "Conv", "ReduceSum", "ReduceMean", "ReduceProd", "ReduceL2",
                                                       "ReduceSumSquare", "Softmax", "LogSoftmax", "LayerNormalization",
                                                       "BatchNormalization", "CumSum", "AveragePool", "Loop"))
    return compare.Scale(1.0 + 0.25 * n + 4.0 * heavy, floor=float_floor(m))


def float_floor(m):
    """Lowest float precision that occurs anywhere in the model (graph inputs, initializers, constants, Cast targets,
    value_info, subgraphs, functions): a float64 output computed through float32 values carries float32 error."""
    TP = onnx.TensorProto
    rank = {TP.DOUBLE: 0, TP.FLOAT: 1, TP.BFLOAT16: 2, TP.FLOAT16: 3}
    names = {0: "float64", 1: "float32", 2: "bfloat16", 3: "float16"}
    worst = [-1]

    def see(t):
        if t in rank:
            worst[0] = max(worst[0], rank[t])

    def walk(g):
        for x in list(g.input) + list(g.output) + list(g.value_info):
            see(x.type.tensor_type.elem_type)
        for t in g.initializer:
            see(t.data_type)
        nodes(g.node)

    def nodes(ns):
        for n in ns:
            for a in n.attribute:
                if a.name == "to" or a.name == "dtype":
                    see(a.i)
                if a.HasField("t"):
                    see(a.t.data_type)
                if a.type == onnx.AttributeProto.FLOAT or a.type == onnx.AttributeProto.FLOATS:
                    pass
                if a.HasField("g"):
                    walk(a.g)
                for sg in a.graphs:
                    walk(sg)

    walk(m.graph)
    for f in m.functions:
        nodes(f.node)
    return names.get(worst[0])


_RANDOM_OPS = {"RandomUniform", "RandomNormal", "RandomUniformLike", "RandomNormalLike", "Multinomial", "Bernoulli"}


def _random_nodes(g):
    n = 0
    for x in g.node:
        if x.op_type in _RANDOM_OPS and x.domain in ("", "ai.onnx"):
            n += 1
        for a in x.attribute:
            if a.HasField("g"):
                n += _random_nodes(a.g)
            for gg in a.graphs:
                n += _random_nodes(gg)
    return n


def random_dependent(m):
    """Names of values of the main graph that depend on a Random*/Multinomial/Bernoulli node (Shape/Size cut the
    dependency; an If whose condition is a known constant only follows the taken branch)."""
    from onnx import numpy_helper as nph

    def consts(g, outer):
        c = dict(outer)
        for t in g.initializer:
            if t.data_type == onnx.TensorProto.BOOL and not t.dims:
                c[t.name] = bool(nph.to_array(t))
        for n in g.node:
            if n.op_type == "Constant" and n.attribute and n.attribute[0].HasField("t") and \
                    n.attribute[0].t.data_type == onnx.TensorProto.BOOL and not n.attribute[0].t.dims:
                c[n.output[0]] = bool(nph.to_array(n.attribute[0].t))
        return c

    fn_random = {(f.domain, f.name): _random_nodes(f) > 0 for f in m.functions}

    def walk(g, outer_dep, outer_const):
        dep = set(outer_dep)
        cst = consts(g, outer_const)
        for n in g.node:
            d = any(i in dep for i in n.input if i)
            if n.op_type in _RANDOM_OPS and n.domain in ("", "ai.onnx"):
                d = True
            if n.op_type == "Dropout" and n.domain in ("", "ai.onnx") and len(n.input) >= 3 and n.input[2] and cst.get(n.input[2]) is not False:
                d = True   # training mode not known to be off (over-approximation, used for the RESULT)
            if fn_random.get((n.domain, n.op_type)):
                d = True
            subs = []
            for a in n.attribute:
                if a.HasField("g"):
                    subs.append((a.name, a.g))
                subs.extend((a.name, x) for x in a.graphs)
            if n.op_type == "If" and n.input and n.input[0] in cst:
                taken = "then_branch" if cst[n.input[0]] else "else_branch"
                subs = [(nm, sg) for nm, sg in subs if nm == taken]
            for _, sg in subs:
                sd = walk(sg, dep, cst)
                if any(o.name in sd for o in sg.output):
                    d = True
            if n.op_type in ("Shape", "Size"):
                d = False
            if d:
                dep.update(o for o in n.output if o)
        return dep

    return walk(m.graph, set(), {})


_VALUE_PRESERVING = {"Identity", "Neg", "Add", "Sub", "Reshape", "Transpose", "Unsqueeze", "Squeeze", "Concat", "Expand", "Flatten", "Tile"}


def random_strong(m):
    """Under-approximation for the ORIGINAL: main-graph values every element of which is (an injective image of) a random
    draw — outputs of Random* nodes carried through value-preserving ops only."""
    from onnx import numpy_helper as nph

    dep = set()
    cv = {t.name: t for t in m.graph.initializer}
    graph_inputs = {i.name for i in m.graph.input}
    for n in m.graph.node:
        if n.op_type == "Constant" and n.attribute and n.attribute[0].HasField("t"):
            cv[n.output[0]] = n.attribute[0].t

    def const(name):
        return nph.to_array(cv[name]) if name in cv and name not in graph_inputs else None

    for n in m.graph.node:
        if n.op_type in _RANDOM_OPS and n.domain in ("", "ai.onnx"):
            dep.update(n.output)
        elif n.op_type == "Dropout" and n.domain in ("", "ai.onnx") and len(n.input) >= 3:
            # training-mode Dropout with a constant ratio in (0,1): the mask is a raw draw; the data output is an injective
            # image of it when the data is a constant without zeros
            tm, ratio = const(n.input[2]), const(n.input[1])
            if tm is not None and tm.size == 1 and bool(tm.reshape(-1)[0]) and ratio is not None and ratio.size == 1 and 0 < float(ratio.reshape(-1)[0]) < 1:
                if len(n.output) > 1 and n.output[1]:
                    dep.add(n.output[1])
                x = const(n.input[0])
                if x is not None and x.size and bool((x != 0).all()):
                    dep.add(n.output[0])
        elif n.op_type in _VALUE_PRESERVING and n.domain in ("", "ai.onnx") and n.input and n.input[0] in dep:
            dep.update(o for o in n.output if o)
    return dep


def has_f16(m):
    F16 = onnx.TensorProto.FLOAT16

    def g_has(g):
        for x in list(g.input) + list(g.output) + list(g.value_info):
            if x.type.tensor_type.elem_type == F16:
                return True
        if any(t.data_type == F16 for t in g.initializer):
            return True
        for n in g.node:
            for a in n.attribute:
                if a.name == "to" and a.i == F16:
                    return True
                if a.HasField("t") and a.t.data_type == F16:
                    return True
                if a.HasField("g") and g_has(a.g):
                    return True
                if any(g_has(x) for x in a.graphs):
                    return True
        return False

    return g_has(m.graph)


def equivalent(m1, m2, feeds_list, base_outs=None, nondet=()):
    """-> (verdict, detail)   verdict in ok | <kind> | inconclusive:<why>
    kinds: load, run, count, dtype, shape, value"""
    scale = reduction_scale(m1)
    n1, n2 = [o.name for o in m1.graph.output], [o.name for o in m2.graph.output]
    if n1 != n2:
        # "the same outputs in the same order": a caller fetches outputs by name
        return "output_names", f"graph outputs {n1} became {n2}"
    if nondet:
        # structural probe (ORT's Random* kernels repeat their numbers per session, so a folded random op is not visible
        # in values): an output that depends on a random op in the original must still depend on one in the result
        d1, d2 = random_strong(m1), random_dependent(m2)
        lost = [o.name for o in m1.graph.output if o.name in d1 and o.name not in d2]
        if lost:
            return "nondeterminism_lost", f"output(s) {lost} depend on a Random* node in the original but on none in the result (folded into a constant)"
    try:
        s2 = runner.ort_session(m2)
    except Exception as e:
        msg = f"{type(e).__name__}: {e}"
        if runner.classify(msg) == "not_implemented":
            return "inconclusive:not_implemented", msg[:300]
        return "load", msg[:500]
    for k, feeds in enumerate(feeds_list):
        if base_outs is not None:
            st1, o1 = "ok", base_outs[k]
        else:
            st1, o1 = runner.ort_run(m1, feeds)
        st2, o2 = runner.ort_run(m2, feeds, session=s2)
        if st1 != "ok":
            if st2 == "ok":
                return "accepts_more", f"original fails on feed {k} ({str(o1)[:150]}) but result runs"
            continue
        if st2 != "ok":
            if st2 == "not_implemented":
                return "inconclusive:not_implemented", str(o2)[:300]
            return "run", f"feed {k}: {str(o2)[:400]}"
        if nondet:
            # outputs that depend on a genuinely nondeterministic op: dtype and shape only
            idx = [i for i, o in enumerate(m1.graph.output) if o.name in nondet]
            for i in idx:
                a, b = o1[i], o2[i]
                if not isinstance(a, list) and (np.asarray(a).dtype != np.asarray(b).dtype or np.asarray(a).shape != np.asarray(b).shape):
                    return "shape", f"feed {k}: nondeterministic out[{i}]: {np.asarray(a).dtype}{np.asarray(a).shape} vs {np.asarray(b).dtype}{np.asarray(b).shape}"
            if idx:
                # the original draws fresh numbers on every run; so must the result (else a random op was folded)
                # fresh sessions on both sides: ORT seeds its generator per session, so two runs of ONE session may repeat
                st1b, o1b = runner.ort_run(m1, feeds)
                st2b, o2b = runner.ort_run(m2, feeds)
                if st1b == "ok" and st2b == "ok":
                    for i in idx:
                        if isinstance(o1[i], list) or np.asarray(o1[i]).size < 16:
                            continue
                        # only when the original visibly re-draws (>= 8 positions differ) and the result never does (3 fresh runs)
                        if int((np.asarray(o1[i]) != np.asarray(o1b[i])).sum()) < 8:
                            continue
                        same = np.array_equal(np.asarray(o2[i]), np.asarray(o2b[i]))
                        for _ in range(2):
                            if not same:
                                break
                            stx, ox = runner.ort_run(m2, feeds)
                            same = stx == "ok" and np.array_equal(np.asarray(o2[i]), np.asarray(ox[i]))
                        if same:
                            return "nondeterminism_lost", f"feed {k}: out[{i}] differs between two runs of the original but is identical across four runs of the result (a random op was folded into a constant)"
            keep = [i for i in range(len(o1)) if i not in idx]
            o1 = [o1[i] for i in keep]
            o2 = [o2[i] for i in keep]
        d = compare.compare_outputs(o1, o2, scale=scale)
        if d:
            kind = "value"
            for kw in ("dtype", "shape", "count", "sequence length", "kind", "NaN", "inf"):
                if kw in d.split(":", 1)[-1][:30] or d.startswith("output count"):
                    kind = {"sequence length": "shape", "kind": "count", "NaN": "value", "inf": "value"}.get(kw, kw)
                    break
            if d.startswith("output count"):
                kind = "count"
            # disputing witness: onnx.reference finds both models equal while ORT does not.
            # (a) the reference disagrees with ORT already on the ORIGINAL -> a runtime quirk, not the optimizer;
            # (b) float16 compute: ORT's CPU EP elevates f16 ops to f32 and drops back-to-back casts depending on graph
            #     structure, so a value-only difference in a model that computes in f16 is a runtime artefact.
            r1, ro1 = runner.ref_run(m1, feeds)
            r2, ro2 = runner.ref_run(m2, feeds)
            if nondet and r1 == "ok" and r2 == "ok" and len(ro1) == len(ro2) == len(m1.graph.output):
                kp = [i for i, o in enumerate(m1.graph.output) if o.name not in nondet]
                ro1, ro2 = [ro1[i] for i in kp], [ro2[i] for i in kp]
            if r1 == "ok" and r2 == "ok" and compare.compare_outputs(ro1, ro2, scale=scale) is None:
                if compare.compare_outputs(o1, ro1, scale=scale * 4, check_dtype=False) is not None:
                    return "inconclusive:disputed", f"feed {k}: {d} (onnx.reference finds both models equal and disagrees with ORT on the original)"
                if kind == "value" and has_f16(m1):
                    return "inconclusive:disputed_f16", f"feed {k}: {d} (float16 compute; onnx.reference finds both models equal)"
            return kind, f"feed {k}: {d}"
    return "ok", None


def structural(m2, strict_global=False):
    """checker + independent walker -> None or message"""
    err = runner.checker(m2, full=False)
    if err:
        return "checker: " + err
    errs = wellformed.check_model(m2, strict_global=strict_global)
    if errs:
        return "walker: " + errs[0]
    return None


def dangling(m2):
    """Every function referenced still exists; handled by walker for values. -> None or msg"""
    fns = {(f.domain, f.name) for f in m2.functions}

    def walk(nodes):
        for n in nodes:
            if n.domain not in ("", "ai.onnx", "ai.onnx.ml", "com.microsoft", "ai.onnx.preview.training") or \
                    not onnx.defs.has(n.op_type, n.domain):
                if (n.domain, n.op_type) not in fns:
                    return f"node {n.domain}::{n.op_type} references a function that is not in the model"
            for a in n.attribute:
                for g in ([a.g] if a.HasField("g") else []) + list(a.graphs):
                    r = walk(g.node)
                    if r:
                        return r
        return None

    r = walk(m2.graph.node)
    if r:
        return r
    for f in m2.functions:
        r = walk(f.node)
        if r:
            return r
    return None


_PRIO = {"rule": 0, "eval": 1, "fold": 2, "pass": 3}


def _ordered(names):
    """priority class first; inside a class the mechanism that fired last (most downstream) first."""
    names = list(names)
    last = {n: i for i, n in enumerate(names)}
    return sorted(dict.fromkeys(names), key=lambda n: (_PRIO.get(n.split(":")[0], 9), -last[n]))


def known_mechs(pid):
    """Mechanisms listed as open known findings (`mech=<name>` keys) of this property."""
    from . import findings

    out = set()
    for e in findings.load(pid):
        k = e.get("key", "")
        if k.startswith("mech="):
            name = k[5:].split(";")[0]
            if name.startswith("fold:") and "*" in name:
                continue   # "any folded op" is too broad to switch off as one mechanism
            out.add(name)
    return out


def attribute(model, o, passes, fired_in, known=(), prefer=None, first=None):
    """Which fired mechanism is necessary for the failure?

    `passes(m2) -> bool` re-judges a re-optimized model.  A failure is attributed to a *known-defective*
    mechanism only if disabling the known-defective mechanisms that fired makes the case pass; otherwise the
    culprit is searched among the remaining mechanisms with the known ones kept off.  Single-disable candidates
    are tried in priority order rule > eval > fold > pass.
    """
    fired = _ordered(fired_in)

    def trial(disabled):
        DISABLED.clear()
        DISABLED.update(disabled)
        try:
            return bool(passes(apply_api(model, o)))
        except Exception:
            return False
        finally:
            DISABLED.clear()

    import fnmatch

    def is_known(f):
        return any(f == k or fnmatch.fnmatchcase(f, k) for k in known)

    kn = [f for f in fired if is_known(f)]
    if kn and trial(kn):
        # several listed mechanisms may each be necessary (a fold that creates an untyped node AND the pass that then keeps
        # it): name the one whose listed finding is of this failure's kind (`prefer`), else the first in priority order
        singles = [name for name in kn if trial([name])]
        for name in singles:
            if prefer is not None and prefer(name):
                return name
        return singles[0] if singles else kn[0]
    rest = [f for f in fired if not is_known(f)]
    if first:
        # the failure's kind names the class of mechanism that can produce it (a result DTYPE can only change where a node is
        # replaced by a folded constant): try that class before the general priority order, else a shape evaluator further
        # upstream, without which nothing downstream would be constant, takes the blame
        rest = [f for f in rest if f.startswith(first)] + [f for f in rest if not f.startswith(first)]
    for name in rest:
        if trial(kn + [name]):
            return name
    if kn:
        # no single mechanism isolates the failure, but known-defective mechanisms took part in it
        return "unattributed+" + kn[0]
    return None


def exc_key(e: BaseException):
    """(exception type, innermost onnxscript frame) of an exception chain."""
    tb = traceback.extract_tb(e.__traceback__)
    inner = None
    cause = e
    seen = 0
    frames = list(tb)
    while cause is not None and seen < 5:
        frames = list(traceback.extract_tb(cause.__traceback__)) or frames
        nxt = cause.__cause__ or cause.__context__
        if nxt is None:
            break
        cause = nxt
        seen += 1
    frames = list(traceback.extract_tb(cause.__traceback__)) or frames
    for fr in reversed(frames):
        fn = fr.filename
        for marker in ("/onnxscript/", "/onnx_ir/"):
            k = fn.rfind(marker)
            if k >= 0:
                inner = f"{fn[k + 1:]}:{fr.name}"
                break
        if inner:
            break
    return type(cause).__name__, inner or "?", str(cause)[:200]
