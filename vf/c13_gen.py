"""C13 generators.

(i)  script-source programs (compact grammar: straight-line arithmetic, if/else, for with carried state, while with a
     break condition, for+break, nesting depth <= 2, multi-output ops, literals, attribute parameters, calls of another
     script function).  The harness decorates them with the real converter and takes to_model_proto()/to_function_proto().
(ii) typed random ONNX DAGs built with onnx.helper: tensor types only, nested If/Loop without scan outputs, initializers
     (small and > 4 elements), constants with stress payloads, and a separate naming pass (name stress).
Every produced model is checked (onnx.checker full check) and executed on ORT by the caller before use.
"""
from __future__ import annotations

import numpy as np
import onnx
from onnx import TensorProto, helper, numpy_helper

OPSET = 18

# ================================================================= (i) script sources
SCRIPT_HEADER = ("from onnxscript import script\n"
                 "from onnxscript.onnx_opset import opset18 as op\n"
                 "from onnxscript.onnx_types import BOOL, FLOAT, INT64\n"
                 "from onnxscript.values import Opset\n"
                 "from typing import Tuple\n\n")

SCRIPT_STRATA = [
    "straight", "straight_ops", "literals", "multi_output", "if", "if_nested", "for_tensor_n", "for_literal_n", "for_uses_index",
    "while", "for_break", "if_in_for", "for_in_if", "for_in_for", "while_in_if", "if_in_while", "two_loops", "if_two_outputs",
    "calls_function", "attr_param", "attr_param_in_control_flow",
    # one stratum per form (a form drawn at random made the catch of seeded change C13-3 depend on VERIF_SEED)
    "loop_shifted_state:fib_for", "loop_shifted_state:fib_for_n", "loop_shifted_state:delta_for", "loop_shifted_state:fib_while",
]

_UN = ["op.Relu({a})", "op.Neg({a})", "op.Abs({a})", "op.Sigmoid({a})", "op.Tanh({a})", "op.Identity({a})",
       "op.LeakyRelu({a}, alpha={f})", "op.Softmax({a}, axis=0)", "op.Elu({a}, alpha={f})", "op.Clip({a}, {lo}, {hi})",
       "op.Selu({a})", "op.Floor({a})", "op.ThresholdedRelu({a}, alpha={f})"]
_BIN = ["{a} + {b}", "{a} - {b}", "{a} * {b}", "op.Add({a}, {b})", "op.Sub({a}, {b})", "op.Mul({a}, {b})", "op.Max({a}, {b})",
        "op.Min({a}, {b})", "op.Where({a} > {b}, {a}, {b})", "op.Where(op.Less({a}, {b}), {b}, {a})", "op.Sum({a}, {b}, {a})",
        "op.Mean({a}, {b})"]
_LIT = ["{a} + {f}", "{a} * {f}", "{a} - {f}", "{a} / {nz}", "{f} * {a}", "op.Add({a}, {f})", "op.Mul({a}, {f})", "op.Pow({a}, 2.0)"]
_FL = ["0.5", "2.0", "1.5", "0.25", "3.0", "-1.0", "-0.75", "10.0", "0.1", "1e-3"]
_NZ = ["2.0", "4.0", "-2.0", "0.5"]


class ScriptGen:
    def __init__(self, rnd, operators=True):
        self.rnd = rnd
        self.k = 0
        self.lines = []

    def fresh(self, base="t"):
        self.k += 1
        return f"{base}{self.k}"

    def expr(self, pool, kinds=("un", "bin", "lit")):
        r = self.rnd
        kind = r.choice(kinds)
        a, b = r.choice(pool), r.choice(pool)
        f, nz = r.choice(_FL), r.choice(_NZ)
        if kind == "un":
            t = r.choice(_UN)
        elif kind == "bin":
            t = r.choice(_BIN)
        else:
            t = r.choice(_LIT)
        return t.format(a=a, b=b, f=abs(float(f)) if "alpha" in t else f, nz=nz, lo="-1.0", hi="2.5")

    def straight(self, pool, n, ind, kinds=("un", "bin", "lit")):
        """n assignments to fresh names; returns (lines, extended pool)"""
        out, pool = [], list(pool)
        for _ in range(n):
            v = self.fresh()
            out.append(f"{ind}{v} = {self.expr(pool, kinds)}")
            pool.append(v)
        return out, pool

    def update(self, var, pool, ind):
        """re-assignment of an existing variable (carried state)"""
        other = self.rnd.choice(pool)
        t = self.rnd.choice(["{v} + {o}", "{v} * 0.5 + {o}", "op.Add({v}, op.Abs({o}))", "{v} - 0.25", "op.Relu({v}) + {o}",
                             "op.Max({v}, {o}) + 1.0"])
        return f"{ind}{var} = " + t.format(v=var, o=other)

    def cond(self, pool, ind, name=None):
        name = name or self.fresh("c")
        a = self.rnd.choice(pool)
        t = self.rnd.choice(["op.ReduceSum({a}, keepdims=0) > {f}", "op.ReduceMax({a}, keepdims=0) < {f}",
                             "op.ReduceMin({a}, keepdims=0) >= {f}", "op.ReduceSum(op.Abs({a}), keepdims=0) <= {f}"])
        return name, f"{ind}{name} = " + t.format(a=a, f=self.rnd.choice(["0.0", "0.5", "1.0", "2.0"]))

    # ---- blocks; each returns lines and leaves `acc` (a name in scope) updated
    def if_block(self, acc, pool, ind, depth, inner=None):
        c, cl = self.cond(pool, ind)
        lines = [cl, f"{ind}if {c}:"]
        for branch in (0, 1):
            if branch:
                lines.append(f"{ind}else:")
            body, p2 = self.straight(pool, self.rnd.randint(0, 2), ind + "    ")
            lines += body
            if inner and depth > 0 and (branch == 0 or self.rnd.random() < 0.5):
                lines += inner(acc, p2, ind + "    ", depth - 1)
            lines.append(self.update(acc, p2, ind + "    "))
        return lines

    def for_block(self, acc, pool, ind, depth, bound="n", inner=None, use_index=False, brk=False):
        i = self.fresh("i")
        lines = [f"{ind}for {i} in range({bound}):"]
        body, p2 = self.straight(pool, self.rnd.randint(0, 2), ind + "    ")
        lines += body
        if use_index:
            lines.append(f"{ind}    {acc} = {acc} + op.Cast({i}, to=1)")
        if inner and depth > 0:
            lines += inner(acc, p2, ind + "    ", depth - 1)
        lines.append(self.update(acc, p2, ind + "    "))
        if brk:
            c, cl = self.cond([acc], ind + "    ")
            lines += [cl, f"{ind}    if {c}:", f"{ind}        break"]
        return lines

    def while_block(self, acc, pool, ind, depth, inner=None):
        k, c = self.fresh("k"), self.fresh("c")
        lim = self.rnd.choice(["1.0", "2.0", "3.0"])
        lines = [f"{ind}{k} = op.Constant(value_float=0.0)", f"{ind}{c} = {k} < {lim}", f"{ind}while {c}:"]
        body, p2 = self.straight(pool, self.rnd.randint(0, 1), ind + "    ")
        lines += body
        if inner and depth > 0:
            lines += inner(acc, p2, ind + "    ", depth - 1)
        lines.append(self.update(acc, p2, ind + "    "))
        lines.append(f"{ind}    {k} = {k} + 1.0")
        extra = self.rnd.random() < 0.5
        if extra:
            lines.append(f"{ind}    {c} = ({k} < {lim}) & (op.ReduceSum({acc}, keepdims=0) < 50.0)")
        else:
            lines.append(f"{ind}    {c} = {k} < {lim}")
        return lines


def script_program(stratum, rnd):
    """-> dict(source=str, name=str, inputs=[(name, 'FLOAT[3]'|'INT64')], function_only=bool, attrs={name: value})"""
    g = ScriptGen(rnd)
    name = "prog_" + stratum.replace(":", "_")
    params = [("x", "FLOAT[3]"), ("y", "FLOAT[3]")]
    pre, pool = g.straight(["x", "y"], rnd.randint(1, 2), "    ")
    lines = list(pre)
    acc = "acc"
    lines.append(f"    acc = op.Identity({rnd.choice(pool)})")
    ind = "    "
    helper_src = ""
    attrs = {}
    function_only = False
    uses_n = False
    nouts = 1

    def leaf(a, p, i, d):
        return [g.update(a, p, i)]

    if stratum == "straight":
        more, pool = g.straight(pool, rnd.randint(2, 5), ind, ("bin", "lit"))
        lines += more
        lines.append(g.update(acc, pool, ind))
    elif stratum == "straight_ops":
        more, pool = g.straight(pool, rnd.randint(3, 6), ind, ("un", "bin"))
        lines += more
        lines.append(g.update(acc, pool, ind))
    elif stratum == "literals":
        more, pool = g.straight(pool, rnd.randint(3, 6), ind, ("lit",))
        lines += more
        lines.append(f"    acc = acc + op.Constant(value_floats=[1.0, -2.0, 0.5]) * op.Constant(value_float=2.0)")
        lines.append(f"    acc = op.Reshape(acc, [3]) + op.Cast(op.Constant(value_ints=[1, 2, 3]), to=1)")
        lines.append(g.update(acc, pool, ind))
    elif stratum == "multi_output":
        lines.append(f"    m1, m2 = op.Split(acc, [1, 2])")
        lines.append(f"    vals, idx = op.TopK({rnd.choice(pool)}, [2])")
        lines.append(f"    d, mask = op.Dropout(acc)")
        lines.append(f"    acc = op.Concat(m2, m1, axis=0) + d")
        lines.append(f"    acc = acc + op.ReduceSum(vals, keepdims=0) + op.Cast(op.ReduceSum(idx, keepdims=0), to=1)")
    elif stratum == "if":
        lines += g.if_block(acc, pool, ind, 0)
    elif stratum == "if_nested":
        lines += g.if_block(acc, pool, ind, 1, inner=lambda a, p, i, d: g.if_block(a, p, i, d))
    elif stratum == "if_two_outputs":
        c, cl = g.cond(pool, ind)
        lines += [cl, f"    if {c}:", f"        acc = acc + 1.0", f"        aux = op.Neg(acc)", f"    else:",
                  f"        aux = op.Abs(acc) * 2.0", f"        acc = acc - 1.0"]
        nouts = 2
    elif stratum == "for_tensor_n":
        uses_n = True
        lines += g.for_block(acc, pool, ind, 0, "n")
    elif stratum == "for_literal_n":
        lines += g.for_block(acc, pool, ind, 0, str(rnd.choice([1, 2, 3])))
    elif stratum == "for_uses_index":
        uses_n = True
        lines += g.for_block(acc, pool, ind, 0, "n", use_index=True)
    elif stratum == "while":
        lines += g.while_block(acc, pool, ind, 0)
    elif stratum == "for_break":
        lines += g.for_block(acc, pool, ind, 0, str(rnd.choice([3, 5])), brk=True)
    elif stratum == "if_in_for":
        uses_n = True
        lines += g.for_block(acc, pool, ind, 1, "n", inner=lambda a, p, i, d: g.if_block(a, p, i, d))
    elif stratum == "for_in_if":
        uses_n = True
        lines += g.if_block(acc, pool, ind, 1, inner=lambda a, p, i, d: g.for_block(a, p, i, d, "n"))
    elif stratum == "for_in_for":
        uses_n = True
        lines += g.for_block(acc, pool, ind, 1, "n", inner=lambda a, p, i, d: g.for_block(a, p, i, d, "2"))
    elif stratum == "while_in_if":
        lines += g.if_block(acc, pool, ind, 1, inner=lambda a, p, i, d: g.while_block(a, p, i, d))
    elif stratum == "if_in_while":
        lines += g.while_block(acc, pool, ind, 1, inner=lambda a, p, i, d: g.if_block(a, p, i, d))
    elif stratum == "two_loops":
        uses_n = True
        lines += g.for_block(acc, pool, ind, 0, "n")
        lines += g.while_block(acc, pool, ind, 0)
    elif stratum == "calls_function":
        hb, hp = ScriptGen(rnd).straight(["u", "w"], rnd.randint(1, 3), "    ")
        helper_src = ("local = Opset('vf.local', 1)\n\n@script(local, default_opset=op)\ndef helper_fn(u, w):\n" + "\n".join(hb) +
                      f"\n    return {hp[-1]} + u\n\n")
        lines.append(f"    acc = helper_fn(acc, {rnd.choice(pool)})")
        lines.append(g.update(acc, pool, ind))
    elif stratum == "attr_param":
        function_only = True
        attrs = {"alpha": float(rnd.choice([0.25, 0.5, 2.0])), "k": int(rnd.choice([1, 2]))}
        lines.append(f"    acc = op.LeakyRelu(acc, alpha=alpha)")
        lines.append(f"    acc = op.Cast(op.Cast(acc, to=7) + k, to=1)")
        lines.append(g.update(acc, pool, ind))
    elif stratum == "attr_param_in_control_flow":
        # a non-INT attribute parameter that is referenced ONLY inside one subgraph (then / else / loop body)
        function_only = True
        attrs = {"alpha": float(rnd.choice([0.25, 0.5, 2.0])), "k": int(rnd.choice([1, 2]))}
        where = rnd.choice(["else", "else", "then", "loop"])
        lines.append("    c = op.ReduceSum(acc, keepdims=0) > 0.0")
        if where == "else":
            lines += ["    if c:", "        acc = op.Relu(acc)", "    else:", "        acc = op.LeakyRelu(acc, alpha=alpha)"]
        elif where == "then":
            lines += ["    if c:", "        acc = op.LeakyRelu(acc, alpha=alpha)", "    else:", "        acc = op.Relu(acc)"]
        else:
            lines += ["    for i in range(2):", "        acc = op.LeakyRelu(acc, alpha=alpha) + 1.0"]
        lines.append("    acc = op.Cast(op.Cast(acc, to=7) + k, to=1)")
        lines.append(g.update(acc, pool, ind))
    elif stratum.startswith("loop_shifted_state"):
        # a body that reads a loop-carried value AFTER the node that computes its next value (two shifted state variables,
        # or old-vs-new difference): ONNX bodies hand all next values over at the end of the iteration, Python assigns in order
        form = stratum.split(":", 1)[1] if ":" in stratum else rnd.choice(["fib_for", "fib_for_n", "delta_for", "fib_while"])
        # the second state variable starts from a value of its own (two state variables that start equal hid the seeded
        # change C13-3 at VERIF_SEED=1)
        lines.append(f"    prev = op.Abs({rnd.choice(pool)}) + 1.5")
        if form in ("fib_for", "fib_for_n"):
            if form == "fib_for_n":
                uses_n = True
            lines += [f"    for i in range({'n' if form == 'fib_for_n' else rnd.choice([2, 3, 4])}):",
                      f"        nxt = acc * {rnd.choice(['0.5', '0.25', '-0.5'])} + prev", "        prev = acc", "        acc = nxt"]
        elif form == "delta_for":
            lines += [f"    for i in range({rnd.choice([2, 3])}):", "        new = op.Tanh(acc) + prev", "        prev = new - acc", "        acc = new"]
        else:
            lines += ["    k = op.Constant(value_int=0)", "    go = k < 3", "    while go:", "        nxt = acc * 0.5 - prev", "        prev = acc",
                      "        acc = nxt", "        k = k + 1", "        go = k < 3"]
        lines.append(g.update(acc, pool, ind))
    else:
        raise ValueError(stratum)
    if uses_n:
        params.append(("n", "INT64"))
    sig = ", ".join(f"{p}: {t}" for p, t in params)
    if attrs:
        sig += ", alpha: float, k: int"
    rets = "acc" if nouts == 1 else "acc, aux"
    ann = "" if function_only else (" -> FLOAT[3]" if nouts == 1 else " -> Tuple[FLOAT[3], FLOAT[3]]")
    src = (SCRIPT_HEADER + helper_src + f"@script()\ndef {name}({sig}){ann}:\n" + "\n".join(lines) + f"\n    return {rets}\n")
    return {"source": src, "name": name, "inputs": params, "function_only": function_only, "attrs": attrs, "stratum": stratum}


# ================================================================= (ii) ONNX DAGs
F, I64, B = TensorProto.FLOAT, TensorProto.INT64, TensorProto.BOOL
V3, S0 = (3,), ()

DAG_STRATA = [
    "plain", "init_small", "init_large_float", "init_large_int8", "init_large_int64", "init_large_float_if", "init_large_and_small", "if", "if_nested", "loop_for", "loop_for_const_n",
    "loop_while", "loop_while_iter", "loop_for_cond", "loop_in_if", "if_in_loop", "loop_in_loop", "while_in_if", "if_in_while",
    "if_dead_inner", "if_with_initializer", "optional_inputs", "attrs",
    "const_nan_inf", "const_neg_zero_d", "const_1d_small", "const_large", "const_int8_double_bool", "const_string",
    "const_string_inf", "const_value_attrs", "names_dotted", "names_digit", "names_keyword", "names_collide", "names_shadow",
    "names_attr", "names_short", "names_dotted_io", "multi_output", "no_inputs", "operator_with_attr", "omitted_output_digit_names",
    "attr_float_exact", "zero_dim_io", "old_opset_attr_defaults",
]
OUTSIDE_STRATA = ["out_sequence", "out_sequence_io", "out_scan", "out_sparse_init", "out_graph_attr"]

NAME_POOLS = {
    "dotted": ["layer.0.weight", "a.b", "x.1", "model/dense/bias:0", "h.0.attn.w"],
    "digit": ["0", "12", "7x", "3.5"],
    "keyword": ["if", "for", "lambda", "None", "True", "in", "is", "not", "return", "while"],
    "collide": [("a.b", "a_b"), ("x-1", "x_1"), ("5", "__5"), ("if", "r_if"), ("w:0", "w_0"), ("p q", "p_q")],
    "shadow": ["opset18", "np", "make_tensor", "script", "FLOAT", "TensorProto", "Opset", "external_tensor", "opset", "INT64"],
    "attr": ["alpha", "axis", "to", "value", "keepdims", "perm", "beta"],
    "short": ["v1", "v2", "v3", "v4", "v5", "v6"],
}


class Dag:
    """Grows a typed graph; values are (name, elem_type, shape)."""

    def __init__(self, rnd, prefix="t"):
        self.rnd = rnd
        self.prefix = prefix
        self.counter = [0]

    def fresh(self, hint=None):
        self.counter[0] += 1
        return f"{self.prefix}{self.counter[0]}"


class GraphBuilder:
    def __init__(self, dag, outer_pool=()):
        self.dag = dag
        self.rnd = dag.rnd
        self.nodes = []
        self.inits = []
        self.pool = list(outer_pool)   # visible values
        self.local = []                # defined here

    def add(self, op, ins, outs_spec, **attrs):
        """outs_spec: list of (elem_type, shape) -> list of value tuples"""
        outs = [(self.dag.fresh(), t, s) for t, s in outs_spec]
        self.nodes.append(helper.make_node(op, [i if isinstance(i, str) else i[0] for i in ins], [o[0] for o in outs], **attrs))
        self.pool += outs
        self.local += outs
        return outs

    def const(self, arr, as_init=False):
        arr = np.asarray(arr)
        name = self.dag.fresh()
        if arr.dtype.kind in "OUS":
            t = helper.make_tensor(name, TensorProto.STRING, list(arr.shape), [str(x).encode("utf-8") for x in arr.ravel().tolist()])
            et = TensorProto.STRING
        else:
            t = numpy_helper.from_array(arr, name)
            et = t.data_type
        v = (name, et, tuple(arr.shape))
        if as_init:
            self.inits.append(t)
        else:
            t2 = onnx.TensorProto()
            t2.CopyFrom(t)
            t2.name = "value"
            self.nodes.append(helper.make_node("Constant", [], [name], value=t2))
        self.pool.append(v)
        self.local.append(v)
        return v

    def pick(self, et, shape):
        c = [v for v in self.pool if v[1] == et and v[2] == shape]
        return self.rnd.choice(c) if c else None

    def fvec(self):
        v = self.pick(F, V3)
        assert v is not None
        return v

    def step(self):
        """one random float[3]-producing step"""
        r = self.rnd
        a, b = self.fvec(), self.fvec()
        k = r.randrange(12)
        if k == 0:
            return self.add(r.choice(["Add", "Sub", "Mul", "Max", "Min"]), [a, b], [(F, V3)])[0]
        if k == 1:
            return self.add(r.choice(["Relu", "Neg", "Abs", "Sigmoid", "Tanh", "Identity", "Floor"]), [a], [(F, V3)])[0]
        if k == 2:
            c = self.const(np.array(r.choice([0.5, 2.0, -1.5, 0.25]), dtype=np.float32))
            return self.add(r.choice(["Add", "Mul", "Sub", "Div"]), [a, c], [(F, V3)])[0]
        if k == 3:
            c = self.const(np.array([r.choice([1.0, -2.0, 0.5, 3.0]) for _ in range(3)], dtype=np.float32), as_init=r.random() < 0.5)
            return self.add(r.choice(["Add", "Mul"]), [a, c], [(F, V3)])[0]
        if k == 4:
            m = self.add(r.choice(["Greater", "Less", "GreaterOrEqual", "LessOrEqual", "Equal"]), [a, b], [(B, V3)])[0]
            return self.add("Where", [m, a, b], [(F, V3)])[0]
        if k == 5:
            return self.add("LeakyRelu", [a], [(F, V3)], alpha=float(r.choice([0.1, 0.25, 0.5])))[0]
        if k == 6:
            s = self.add("ReduceSum", [a], [(F, S0)], keepdims=0)[0]
            return self.add("Add", [b, s], [(F, V3)])[0]
        if k == 7:
            i = self.add("Cast", [a], [(I64, V3)], to=I64)[0]
            return self.add("Cast", [i], [(F, V3)], to=F)[0]
        if k == 8:
            return self.add("Softmax", [a], [(F, V3)], axis=0)[0]
        if k == 9:
            m1 = self.add("Greater", [a, b], [(B, V3)])[0]
            m2 = self.add("Less", [a, self.fvec()], [(B, V3)])[0]
            m = self.add(r.choice(["And", "Or", "Xor"]), [m1, m2], [(B, V3)])[0]
            n = self.add("Not", [m], [(B, V3)])[0]
            return self.add("Where", [n, b, a], [(F, V3)])[0]
        if k == 10:
            return self.add("Pow", [a, self.const(np.array(2.0, dtype=np.float32))], [(F, V3)])[0]
        c = self.add("Concat", [a, b], [(F, (6,))], axis=0)[0]
        st = self.const(np.array([1], dtype=np.int64))
        en = self.const(np.array([4], dtype=np.int64))
        return self.add("Slice", [c, st, en], [(F, V3)])[0]

    def steps(self, n):
        v = None
        for _ in range(n):
            v = self.step()
        return v

    def scalar_cond(self):
        a = self.fvec()
        s = self.add(self.rnd.choice(["ReduceSum", "ReduceMax", "ReduceMin"]), [a], [(F, S0)], keepdims=0)[0]
        c = self.const(np.array(self.rnd.choice([0.0, 0.5, 1.0]), dtype=np.float32))
        return self.add(self.rnd.choice(["Greater", "Less"]), [s, c], [(B, S0)])[0]

    # ---- control flow
    def if_node(self, depth, nout=1, inner=None, with_init=False, dead_inner=False):
        cond = self.scalar_cond()
        branches = []
        for _ in range(2):
            gb = GraphBuilder(self.dag, self.pool)
            if with_init:
                w = gb.const(np.array([1.0, 2.0, -1.0], dtype=np.float32), as_init=True)
                gb.add("Add", [gb.fvec(), w], [(F, V3)])
            gb.steps(self.rnd.randint(1, 2))
            base = gb.local[-1]
            if inner and depth > 0:
                visible = list(gb.pool)
                io = inner(gb, depth - 1)
                if dead_inner:
                    gb.pool = visible                              # nothing below may pick the inner node's results
                else:
                    base = gb.add("Add", [io[0], gb.fvec()], [(F, V3)])[0]   # the inner node's result is consumed
            outs = [gb.add("Add", [base, gb.fvec()], [(F, V3)])[0]] + [gb.steps(1) for _ in range(nout - 1)]
            # a branch output must be produced in the branch
            outs = [gb.add("Identity", [o], [(F, V3)])[0] for o in outs]
            g = helper.make_graph(gb.nodes, self.dag.fresh(), [], [helper.make_tensor_value_info(o[0], F, list(V3)) for o in outs],
                                  initializer=gb.inits)
            branches.append(g)
        order = self.rnd.random() < 0.5
        kw = {"then_branch": branches[0], "else_branch": branches[1]}
        if order:  # attribute order is not fixed by the spec
            kw = {"else_branch": branches[1], "then_branch": branches[0]}
        return self.add("If", [cond], [(F, V3)] * nout, **kw)

    def loop_node(self, depth, form, trip=None, ncarried=1, inner=None):
        """form: for (M given, cond omitted) | while (M omitted, cond given, recomputed from the carried state) |
        while_iter (M omitted, cond from the iteration number) | for_cond (both given)"""
        r = self.rnd
        carried = [self.fvec() for _ in range(ncarried)]
        gb = GraphBuilder(self.dag, self.pool)
        it = (self.dag.fresh(), I64, S0)
        cin = (self.dag.fresh(), B, S0)
        cins = [(self.dag.fresh(), F, V3) for _ in carried]
        gb.pool = list(self.pool) + [it] + cins
        body_inputs = [helper.make_tensor_value_info(it[0], I64, []), helper.make_tensor_value_info(cin[0], B, [])] + \
                      [helper.make_tensor_value_info(c[0], F, list(V3)) for c in cins]
        outs = []
        for c in cins:
            o = gb.add(r.choice(["Add", "Sub"]), [c, gb.fvec()], [(F, V3)])[0]
            outs.append(o)
        if inner and depth > 0:
            io = inner(gb, depth - 1)
            outs[0] = gb.add("Add", [outs[0], io[0]], [(F, V3)])[0]
        if form == "for":
            cout = gb.add("Identity", [cin], [(B, S0)])[0]
        elif form in ("while_iter", "for_cond"):
            # condition on the iteration number
            itf = gb.add("Cast", [it], [(F, S0)], to=F)[0]
            lim = gb.const(np.array(float(r.choice([0.0, 1.0, 2.0])), dtype=np.float32))
            cout = gb.add("Less", [itf, lim], [(B, S0)])[0]
        else:
            # condition on the carried state, which grows by >= 3 per iteration once non-negative
            # new state = |state| + |f(state, ...)| + 1  (elementwise strictly increasing once non-negative)
            one = gb.const(np.array(1.0, dtype=np.float32))
            grown = gb.add("Add", [gb.add("Abs", [cins[0]], [(F, V3)])[0], gb.add("Abs", [outs[0]], [(F, V3)])[0]], [(F, V3)])[0]
            outs[0] = gb.add("Add", [grown, one], [(F, V3)])[0]
            sm = gb.add("ReduceSum", [outs[0]], [(F, S0)], keepdims=0)[0]
            lim = gb.const(np.array(float(r.choice([4.0, 8.0, 12.0])), dtype=np.float32))
            cout = gb.add("Less", [sm, lim], [(B, S0)])[0]
        body = helper.make_graph(gb.nodes, self.dag.fresh(), body_inputs,
                                 [helper.make_tensor_value_info(cout[0], B, [])] +
                                 [helper.make_tensor_value_info(o[0], F, list(V3)) for o in outs], initializer=gb.inits)
        if form in ("while", "while_iter"):
            m_in = ""
            c0 = self.const(np.array(True))
            ins = [m_in, c0]
        elif form == "for":
            ins = [trip, ""]
        else:
            c0 = self.const(np.array(True))
            ins = [trip, c0]
        return self.add("Loop", ins + carried, [(F, V3)] * ncarried, body=body)


def _stress_constants(gb, kind, rnd):
    """Adds constants of the stratum's payload class and folds them into a float[3] value; returns extra graph outputs."""
    a = gb.fvec()
    extra = []
    if kind == "const_nan_inf":
        c = gb.const(np.array([np.nan, np.inf, -np.inf], dtype=np.float32), as_init=rnd.random() < 0.5)
        a = gb.add("Add", [a, c], [(F, V3)])[0]
        s = gb.const(np.array(rnd.choice([np.inf, -np.inf, np.nan]), dtype=np.float32))
        m = gb.add("Max", [a, s], [(F, V3)])[0]
        extra.append(m)
        d = gb.add("LeakyRelu", [a], [(F, V3)], alpha=0.5)[0]
        extra.append(d)
    elif kind == "const_neg_zero_d":
        for val in (-2.5, -0.0, 1e-7, 3.4e38, -1.0):
            c = gb.const(np.array(val, dtype=np.float32))
            a = gb.add(rnd.choice(["Add", "Mul"]), [a, c], [(F, V3)])[0]
        ci = gb.const(np.array(-7, dtype=np.int64))
        a = gb.add("Add", [a, gb.add("Cast", [ci], [(F, S0)], to=F)[0]], [(F, V3)])[0]
    elif kind == "const_1d_small":
        for n in (1, 2, 4):
            c = gb.const(np.arange(n, dtype=np.float32) - 1.5, as_init=rnd.random() < 0.3)
            s = gb.add("ReduceSum", [c], [(F, S0)], keepdims=0)[0]
            a = gb.add("Add", [a, s], [(F, V3)])[0]
        idx = gb.const(np.array([2, 0, 1], dtype=np.int64))
        a = gb.add("Gather", [a, idx], [(F, V3)], axis=0)[0]
        e = gb.const(np.array([], dtype=np.int64))
        a = gb.add("Add", [a, gb.add("Cast", [gb.add("ReduceSum", [e], [(I64, S0)], keepdims=0)[0]], [(F, S0)], to=F)[0]], [(F, V3)])[0]
    elif kind == "const_large":
        c = gb.const((np.arange(6, dtype=np.float32) - 2.0).reshape(2, 3), as_init=False)
        m = gb.add("Mul", [c, a], [(F, (2, 3))])[0]
        a = gb.add("ReduceSum", [m, gb.const(np.array([0], dtype=np.int64))], [(F, V3)], keepdims=0)[0]
        ci = gb.const(np.arange(5, dtype=np.int64))
        s = gb.add("Cast", [gb.add("ReduceSum", [ci], [(I64, S0)], keepdims=0)[0]], [(F, S0)], to=F)[0]
        a = gb.add("Add", [a, s], [(F, V3)])[0]
    elif kind == "const_int8_double_bool":
        c8 = gb.const(np.array([-128, 127, 3], dtype=np.int8))
        a = gb.add("Add", [a, gb.add("Cast", [c8], [(F, V3)], to=F)[0]], [(F, V3)])[0]
        cd = gb.const(np.array([0.1, -1e-9, 1e10], dtype=np.float64))
        extra.append(gb.add("Mul", [cd, gb.add("Cast", [a], [(TensorProto.DOUBLE, V3)], to=TensorProto.DOUBLE)[0]], [(TensorProto.DOUBLE, V3)])[0])
        cb = gb.const(np.array([True, False, True]))
        a = gb.add("Where", [cb, a, gb.fvec()], [(F, V3)])[0]
        cu = gb.const(np.array(200, dtype=np.uint8))
        a = gb.add("Add", [a, gb.add("Cast", [cu], [(F, S0)], to=F)[0]], [(F, V3)])[0]
        ch = gb.const(np.array([0.5, -2.0, 1.0], dtype=np.float16))
        a = gb.add("Add", [a, gb.add("Cast", [ch], [(F, V3)], to=F)[0]], [(F, V3)])[0]
    elif kind == "const_string":
        cs = gb.const(np.array(["abc", "d'e", 'q"r'], dtype=object))
        extra.append(gb.add("Identity", [cs], [(TensorProto.STRING, V3)])[0])
    elif kind == "const_string_inf":
        cs = gb.const(np.array(["info", "nano", "inf"], dtype=object))
        extra.append(gb.add("Identity", [cs], [(TensorProto.STRING, V3)])[0])
    elif kind == "const_value_attrs":
        outs = []
        for kw, et, sh in (({"value_float": 1.5}, F, S0), ({"value_int": 3}, I64, S0), ({"value_floats": [1.0, 2.0, -3.0]}, F, V3),
                           ({"value_ints": [1, 0, 2]}, I64, V3)):
            outs.append(gb.add("Constant", [], [(et, sh)], **kw)[0])
        a = gb.add("Add", [a, outs[0]], [(F, V3)])[0]
        a = gb.add("Mul", [a, outs[2]], [(F, V3)])[0]
        a = gb.add("Gather", [a, outs[3]], [(F, V3)], axis=0)[0]
        a = gb.add("Add", [a, gb.add("Cast", [outs[1]], [(F, S0)], to=F)[0]], [(F, V3)])[0]
    return a, extra


def dag_model(stratum, rnd, plain_names=False, plain_consts=False):
    """-> (ModelProto, meta).  plain_names / plain_consts rebuild the same structure without the stress pass
    (used to attribute a failure to the stress class)."""
    dag = Dag(rnd)
    gb = GraphBuilder(dag)
    x = ("x", F, V3)
    y = ("y", F, V3)
    n = ("n", I64, S0)
    inputs = [x, y]
    gb.pool += [x, y]
    meta = {"stratum": stratum, "source": "dag"}
    extra_out = []
    if stratum == "no_inputs":
        inputs = []
        gb.pool = []
        gb.const(np.array([1.0, -2.0, 0.5], dtype=np.float32))
        gb.const(np.array([0.25, 4.0, -1.0], dtype=np.float32), as_init=True)
    if stratum != "old_opset_attr_defaults":
        gb.steps(rnd.randint(1, 3))

    def use_n():
        if n not in inputs:
            inputs.append(n)
            gb.pool.append(n)
        return n

    s = stratum
    if s in ("plain", "no_inputs"):
        gb.steps(rnd.randint(2, 4))
    elif s.startswith("names_"):
        w = gb.const(np.array([0.5, -1.0, 2.0], dtype=np.float32), as_init=True)
        gb.add("Mul", [gb.fvec(), w], [(F, V3)])
        gb.steps(rnd.randint(1, 3))
        r1 = gb.if_node(0)
        gb.add("Add", [r1[0], gb.fvec()], [(F, V3)])
        gb.steps(1)
        r2 = gb.loop_node(0, "while")
        gb.add("Sub", [r2[0], gb.fvec()], [(F, V3)])
    elif s == "init_small":
        w = gb.const(np.array([0.5, -1.0, 2.0], dtype=np.float32), as_init=True)
        b = gb.const(np.array(1.5, dtype=np.float32), as_init=True)
        i4 = gb.const(np.array([2, 0, 1, 1], dtype=np.int64), as_init=True)
        t = gb.add("Mul", [gb.fvec(), w], [(F, V3)])[0]
        t = gb.add("Add", [t, b], [(F, V3)])[0]
        g4 = gb.add("Gather", [t, i4], [(F, (4,))], axis=0)[0]
        gb.add("Add", [t, gb.add("ReduceSum", [g4], [(F, S0)], keepdims=0)[0]], [(F, V3)])
    elif s in ("init_large_float", "init_large_int8", "init_large_int64", "init_large_float_if", "init_large_and_small"):
        if s == "init_large_float_if":
            r1 = gb.if_node(0)
            gb.add("Add", [r1[0], gb.fvec()], [(F, V3)])
        if s == "init_large_and_small":
            ws = gb.const(np.array([0.5, -1.0, 2.0], dtype=np.float32), as_init=True)
            gb.add("Mul", [gb.fvec(), ws], [(F, V3)])
        if s in ("init_large_float", "init_large_float_if", "init_large_and_small"):
            w = gb.const((np.arange(6, dtype=np.float32) * 0.5 - 1.0).reshape(2, 3), as_init=True)
            m = gb.add("Mul", [w, gb.fvec()], [(F, (2, 3))])[0]
            w2 = gb.const(np.arange(5, dtype=np.float32) - 2.0, as_init=True)
            sc = gb.add("ReduceMax", [w2], [(F, S0)], keepdims=0)[0]
        elif s == "init_large_int8":
            w = gb.const((np.arange(6, dtype=np.int8) - 3).reshape(2, 3), as_init=True)
            wf = gb.add("Cast", [w], [(F, (2, 3))], to=F)[0]
            m = gb.add("Mul", [wf, gb.fvec()], [(F, (2, 3))])[0]
            sc = gb.const(np.array(1.0, dtype=np.float32))
        else:
            w = gb.const((np.arange(6, dtype=np.int64) - 3).reshape(2, 3), as_init=True)
            wf = gb.add("Cast", [w], [(F, (2, 3))], to=F)[0]
            m = gb.add("Mul", [wf, gb.fvec()], [(F, (2, 3))])[0]
            sc = gb.const(np.array(1.0, dtype=np.float32))
        ax = gb.const(np.array([0], dtype=np.int64))
        t = gb.add("ReduceSum", [m, ax], [(F, V3)], keepdims=0)[0]
        gb.add("Add", [t, sc], [(F, V3)])
    elif s == "if":
        gb.if_node(0, nout=rnd.choice([1, 2]))
    elif s == "if_nested":
        gb.if_node(1, inner=lambda g, d: g.if_node(d))
    elif s == "if_with_initializer":
        gb.if_node(0, with_init=True)
    elif s == "loop_for":
        gb.loop_node(0, "for", trip=use_n(), ncarried=rnd.choice([1, 2]))
    elif s == "loop_for_const_n":
        gb.loop_node(0, "for", trip=gb.const(np.array(rnd.choice([0, 2, 3]), dtype=np.int64)), ncarried=1)
    elif s == "loop_while":
        gb.loop_node(0, "while", ncarried=rnd.choice([1, 2]))
    elif s == "loop_while_iter":
        gb.loop_node(0, "while_iter")
    elif s == "while_in_if":
        gb.if_node(1, inner=lambda g, d: g.loop_node(d, "while"))
    elif s == "if_in_while":
        gb.loop_node(1, "while", inner=lambda g, d: g.if_node(d))
    elif s == "if_dead_inner":
        gb.if_node(1, inner=lambda g, d: g.if_node(d), dead_inner=True)
    elif s == "loop_for_cond":
        gb.loop_node(0, "for_cond", trip=use_n())
    elif s == "loop_in_if":
        nn = use_n()
        gb.if_node(1, inner=lambda g, d: g.loop_node(d, "for", trip=nn))
    elif s == "if_in_loop":
        gb.loop_node(1, "for", trip=use_n(), inner=lambda g, d: g.if_node(d))
    elif s == "loop_in_loop":
        nn = use_n()
        gb.loop_node(1, "for", trip=nn, inner=lambda g, d: g.loop_node(d, "for", trip=nn))
    elif s == "optional_inputs":
        a = gb.fvec()
        lo = gb.const(np.array(-1.0, dtype=np.float32))
        hi = gb.const(np.array(2.0, dtype=np.float32))
        a = gb.add("Clip", [a, "", hi], [(F, V3)])[0]
        a = gb.add("Clip", [a, lo], [(F, V3)])[0]
        a = gb.add("Clip", [a, lo, hi], [(F, V3)])[0]
        d = gb.add("Dropout", [a], [(F, V3), (B, V3)])
        gb.add("Where", [d[1], d[0], gb.fvec()], [(F, V3)])
    elif s == "attrs":
        a = gb.fvec()
        a = gb.add("Elu", [a], [(F, V3)], alpha=1.5)[0]
        a = gb.add("HardSigmoid", [a], [(F, V3)], alpha=0.25, beta=0.4)[0]
        t = gb.add("Unsqueeze", [a, gb.const(np.array([0], dtype=np.int64))], [(F, (1, 3))])[0]
        t = gb.add("Transpose", [t], [(F, (3, 1))], perm=[1, 0])[0]
        t = gb.add("Pad", [t, gb.const(np.array([0, 0, 0, 1], dtype=np.int64))], [(F, (3, 2))], mode="edge")[0]
        t = gb.add("ReduceSum", [t, gb.const(np.array([1], dtype=np.int64))], [(F, V3)], keepdims=0, noop_with_empty_axes=0)[0]
        gb.add("Selu", [t], [(F, V3)], alpha=1.6, gamma=1.05)
    elif s == "multi_output":
        a = gb.fvec()
        sp = gb.add("Split", [a, gb.const(np.array([1, 2], dtype=np.int64))], [(F, (1,)), (F, (2,))], axis=0)
        tk = gb.add("TopK", [gb.fvec(), gb.const(np.array([2], dtype=np.int64))], [(F, (2,)), (I64, (2,))], axis=0)
        c = gb.add("Concat", [sp[1], sp[0]], [(F, V3)], axis=0)[0]
        s1 = gb.add("ReduceSum", [tk[0]], [(F, S0)], keepdims=0)[0]
        gb.add("Add", [c, s1], [(F, V3)])
        extra_out.append(tk[1])
    elif s == "operator_with_attr":
        # operators that the exporter may render as Python operators (use_operators=True) but that carry an attribute which
        # changes their meaning: Mod[fmod=1] on negative integers and on floats
        a = gb.fvec()
        ai = gb.add("Cast", [gb.add("Mul", [a, gb.const(np.array(4.0, dtype=np.float32))], [(F, V3)])[0]], [(I64, V3)], to=I64)[0]
        mi = gb.add("Mod", [ai, gb.const(np.array([3, -3, 5], dtype=np.int64))], [(I64, V3)], fmod=1)[0]
        mj = gb.add("Mod", [ai, gb.const(np.array([-4, 3, -2], dtype=np.int64))], [(I64, V3)], fmod=0)[0]
        mf = gb.add("Mod", [gb.fvec(), gb.const(np.array([1.5, -2.0, 0.75], dtype=np.float32))], [(F, V3)], fmod=1)[0]
        t = gb.add("Add", [gb.add("Cast", [gb.add("Add", [mi, mj], [(I64, V3)])[0]], [(F, V3)], to=F)[0], mf], [(F, V3)])[0]
        gb.add("Sub", [t, gb.fvec()], [(F, V3)])
    elif s == "omitted_output_digit_names":
        # a node with an OMITTED non-trailing optional output next to values whose ONNX names are bare digits
        # (what many exporters write): the placeholder for the omitted output must not capture such a name
        w = gb.const(np.array([0.5, -1.0, 2.0], dtype=np.float32), as_init=True)
        t1 = gb.add("Mul", [gb.fvec(), w], [(F, V3)])[0]
        t2 = gb.add("Add", [t1, gb.fvec()], [(F, V3)])[0]
        ax0 = gb.const(np.array([0], dtype=np.int64))
        x2 = gb.add("Unsqueeze", [gb.fvec(), ax0], [(F, (1, 3))])[0]
        yv, iv = (gb.dag.fresh("ln_y"), F, (1, 3)), (gb.dag.fresh("ln_inv"), F, (1, 1))
        gb.nodes.append(helper.make_node("LayerNormalization", [x2[0], w[0]], [yv[0], "", iv[0]], axis=-1, epsilon=1e-3))
        gb.pool += [yv, iv]
        gb.local += [yv, iv]
        y1 = gb.add("Squeeze", [yv, ax0], [(F, V3)])[0]
        r = gb.add("Add", [y1, t1], [(F, V3)])[0]              # reads the digit-named value AFTER the node with the omitted output
        r = gb.add("Mul", [r, gb.add("Squeeze", [iv], [(F, S0)])[0]], [(F, V3)])[0]
        gb.add("Sub", [r, t2], [(F, V3)])
        meta["digit_names"] = {t1[0]: "1", t2[0]: "0", x2[0]: "2"}
    elif s == "old_opset_attr_defaults":
        # a model at an OLDER opset (11 / 12) in which attributes are explicitly set to the value that is the default of the
        # operator's LATEST schema but not of the schema the model imports (Softmax family: axis=-1 vs axis=1 with flattening,
        # visible from rank 3), next to attributes set to the old default and omitted ones
        meta["opset"] = rnd.choice([11, 12])
        a = gb.fvec()
        t = gb.add("Unsqueeze", [a], [(F, (1, 3, 1))], axes=[0, 2])[0]
        w = gb.const(np.arange(12, dtype=np.float32).reshape(2, 3, 2) * 0.25 - 1.0)
        e = gb.add("Mul", [t, w], [(F, (2, 3, 2))])[0]
        outs3 = []
        for op_, ax in (("Softmax", -1), ("LogSoftmax", -1), ("Softmax", 1), ("Hardmax", -1), ("Softmax", None), ("LogSoftmax", 2)):
            kw = {} if ax is None else {"axis": ax}
            outs3.append(gb.add(op_, [e], [(F, (2, 3, 2))], **kw)[0])
        acc = outs3[0]
        for o in outs3[1:]:
            acc = gb.add("Add", [acc, o], [(F, (2, 3, 2))])[0]
        r = gb.add("ReduceSum", [acc], [(F, V3)], axes=[0, 2], keepdims=0)[0]
        lk = gb.add("LeakyRelu", [r], [(F, V3)], alpha=0.01)[0]           # alpha equal to the (unchanged) default
        gb.add("Add", [lk, gb.fvec()], [(F, V3)])
    elif s == "attr_float_exact":
        # literal FLOAT attributes whose float32 value has no short decimal spelling (tiny, huge, subnormal, 1/3-like): the text
        # must carry them exactly. Each is observed bit-exactly (Equal against the same value as a tensor) and amplified
        # (1/v, alpha * x)
        pool = [1e-12, 5e-8, 1.0 / 3.0, 0.1, 1.1754944e-38, 1e-45, 3.4028235e38, 123456.789, -2.7182817, 16777216.0, 1.2345678e-7,
                0.999999940395355, 6.1e-5, 2.0 ** -24]
        vals = [float(np.float32(v)) for v in rnd.sample(pool, 4)]
        a = gb.fvec()
        ok = None
        for k, v in enumerate(vals):
            c = gb.add("Constant", [], [(F, S0)], value_float=v)[0]
            t = gb.const(np.array(v, dtype=np.float32), as_init=True)
            e = gb.add("Equal", [c, t], [(TensorProto.BOOL, S0)])[0]
            ok = e if ok is None else gb.add("And", [ok, e], [(TensorProto.BOOL, S0)])[0]
            if k == 0:
                extra_out.append(gb.add("Div", [gb.const(np.array(1.0, dtype=np.float32)), c], [(F, S0)])[0])
                extra_out.append(c)
        extra_out.append(ok)
        a = gb.add("LeakyRelu", [a], [(F, V3)], alpha=abs(vals[1]))[0]
        a = gb.add("Elu", [a], [(F, V3)], alpha=abs(vals[2]))[0]
        extra_out.append(gb.add("ThresholdedRelu", [gb.fvec()], [(F, V3)], alpha=abs(vals[3]) if abs(vals[3]) < 10 else 0.3333333432674408)[0])
        fl = gb.add("Constant", [], [(F, (2,))], value_floats=[vals[0], vals[1]])[0]
        extra_out.append(fl)
        gb.add("Mul", [a, gb.add("ReduceSum", [fl], [(F, S0)], keepdims=0)[0]], [(F, V3)])
    elif s == "zero_dim_io":
        # graph inputs / outputs whose declared shape has a dimension of size 0 (empty batch, empty index list)
        z = ("z", F, (0, 3))
        e = ("e", I64, (0,))
        inputs += [z, e]
        gb.pool += [z, e]
        a = gb.fvec()
        ax0 = gb.const(np.array([0], dtype=np.int64))
        row = gb.add("Unsqueeze", [a, ax0], [(F, (1, 3))])[0]
        cat = gb.add("Concat", [z, row], [(F, (1, 3))], axis=0)[0]
        zs = gb.add("ReduceSum", [z, ax0], [(F, V3)], keepdims=0)[0]
        g0 = gb.add("Gather", [a, e], [(F, (0,))], axis=0)[0]
        extra_out.append(gb.add("Relu", [z], [(F, (0, 3))])[0])
        extra_out.append(gb.add("Neg", [g0], [(F, (0,))])[0])
        extra_out.append(gb.add("Add", [e, e], [(I64, (0,))])[0])
        t = gb.add("Squeeze", [cat, ax0], [(F, V3)])[0]
        gb.add("Add", [t, zs], [(F, V3)])
    elif s.startswith("const_"):
        if plain_consts:
            gb.steps(3)
        else:
            a, extra = _stress_constants(gb, s, rnd)
            extra_out += extra
            gb.add("Identity", [a], [(F, V3)])
    else:
        raise ValueError(stratum)
    last = [v for v in gb.local if v[1] == F and v[2] == V3][-1]
    fin = gb.add("Identity", [last], [(F, V3)])[0]
    outs = [fin] + extra_out
    graph = helper.make_graph(
        gb.nodes, "dag_" + stratum,
        [helper.make_tensor_value_info(v[0], v[1], list(v[2])) for v in inputs],
        [helper.make_tensor_value_info(v[0], v[1], list(v[2])) for v in outs], initializer=gb.inits)
    model = helper.make_model(graph, opset_imports=[helper.make_opsetid("", meta.get("opset", OPSET))], ir_version=8 if "opset" not in meta else 7)
    if meta.get("digit_names") and not plain_names:
        _rename_graph(model.graph, meta["digit_names"])
    if s.startswith("names_") and not plain_names:
        scheme = s[len("names_"):]
        meta["names"] = apply_names(model, scheme, rnd)
    return model, meta


def _all_value_names(graph, acc):
    for v in list(graph.input) + list(graph.output):
        acc.setdefault(v.name, None)
    for t in graph.initializer:
        acc.setdefault(t.name, None)
    for nd in graph.node:
        for nme in list(nd.input) + list(nd.output):
            if nme:
                acc.setdefault(nme, None)
        for at in nd.attribute:
            if at.type == onnx.AttributeProto.GRAPH:
                _all_value_names(at.g, acc)


def _rename_graph(graph, mp):
    for v in list(graph.input) + list(graph.output) + list(graph.value_info):
        v.name = mp.get(v.name, v.name)
    for t in graph.initializer:
        t.name = mp.get(t.name, t.name)
    for nd in graph.node:
        for k, nme in enumerate(nd.input):
            if nme:
                nd.input[k] = mp.get(nme, nme)
        for k, nme in enumerate(nd.output):
            if nme:
                nd.output[k] = mp.get(nme, nme)
        for at in nd.attribute:
            if at.type == onnx.AttributeProto.GRAPH:
                _rename_graph(at.g, mp)


def apply_names(model, scheme, rnd):
    """Renames a subset of the values (intermediate values; for 'dotted_io' also graph inputs/outputs)."""
    names = {}
    _all_value_names(model.graph, names)
    io = {v.name for v in list(model.graph.input) + list(model.graph.output)}
    inner = [n for n in names if n not in io]
    rnd.shuffle(inner)
    mp = {}
    if scheme == "collide":
        # a pair only bites when the live ranges overlap: A defined, then B defined, then A still used (main graph)
        nodes = list(model.graph.node)
        defs, last_use = {}, {}
        for k, nd in enumerate(nodes):
            for o in nd.output:
                if o and o not in io:
                    defs.setdefault(o, k)
            used = list(nd.input)
            for at in nd.attribute:
                if at.type == onnx.AttributeProto.GRAPH:
                    acc = {}
                    _all_value_names(at.g, acc)
                    used += list(acc)
            for u in used:
                last_use[u] = k
        cands = [(a, b) for a in defs for b in defs if defs[a] < defs[b] < last_use.get(a, -1) and a != b]
        rnd.shuffle(cands)
        pairs = list(NAME_POOLS["collide"])
        rnd.shuffle(pairs)
        taken = set()
        for (a, b), (na, nb) in zip([c for c in cands], pairs):
            if a in taken or b in taken:
                continue
            taken.update((a, b))
            mp[a], mp[b] = na, nb
            if len(taken) >= 4:
                break
    elif scheme == "dotted_io":
        for k, v in enumerate(model.graph.input):
            mp[v.name] = ["input.1", "onnx::Add_2", "x.y.z"][k % 3] + ("" if k < 3 else str(k))
        for k, v in enumerate(model.graph.output):
            mp[v.name] = ["output.0", "logits/out:0", "9"][k % 3] + ("" if k < 3 else str(k))
    else:
        pool = list(NAME_POOLS[scheme])
        rnd.shuffle(pool)
        for k, nme in enumerate(pool):
            if k >= len(inner):
                break
            mp[inner[k]] = nme
    _rename_graph(model.graph, mp)
    return {"scheme": scheme, "map_size": len(mp)}


def model_to_function(model, domain="vf.fn", name=None):
    """The main graph as a FunctionProto (initializers become Constant nodes); None if it has no tensor-typed form."""
    g = model.graph
    init_names = {t.name for t in g.initializer}
    nodes = []
    for t in g.initializer:
        t2 = onnx.TensorProto()
        t2.CopyFrom(t)
        t2.name = "value"
        nodes.append(helper.make_node("Constant", [], [t.name], value=t2))
    nodes += list(g.node)
    ins = [v.name for v in g.input if v.name not in init_names]
    outs = [v.name for v in g.output]
    fname = name or ("fn_" + "".join(c if c.isalnum() else "_" for c in g.name))
    return helper.make_function(domain, fname, ins, outs, nodes, opset_imports=list(model.opset_import))


# ----------------------------------------------------------------- outside the class
def outside_model(stratum, rnd):
    x = helper.make_tensor_value_info("x", F, [3])
    y = helper.make_tensor_value_info("y", F, [3])
    o = helper.make_tensor_value_info("o", F, [3])
    kw = {}
    if stratum == "out_sequence":
        nodes = [helper.make_node("SequenceConstruct", ["x", "y"], ["s"]),
                 helper.make_node("Constant", [], ["i"], value=numpy_helper.from_array(np.array(1, dtype=np.int64), "value")),
                 helper.make_node("SequenceAt", ["s", "i"], ["a"]), helper.make_node("Add", ["a", "x"], ["o"])]
        g = helper.make_graph(nodes, "out_sequence", [x, y], [o])
    elif stratum == "out_sequence_io":
        so = helper.make_tensor_sequence_value_info("s", F, [3])
        nodes = [helper.make_node("SequenceConstruct", ["x", "y"], ["s"])]
        g = helper.make_graph(nodes, "out_sequence_io", [x, y], [so])
    elif stratum == "out_scan":
        body = helper.make_graph([helper.make_node("Add", ["st", "el"], ["st2"]), helper.make_node("Identity", ["st2"], ["sc"])], "b",
                                 [helper.make_tensor_value_info("st", F, []), helper.make_tensor_value_info("el", F, [])],
                                 [helper.make_tensor_value_info("st2", F, []), helper.make_tensor_value_info("sc", F, [])])
        nodes = [helper.make_node("Constant", [], ["z"], value=numpy_helper.from_array(np.array(0.0, dtype=np.float32), "value")),
                 helper.make_node("Scan", ["z", "x"], ["fin", "o"], body=body, num_scan_inputs=1)]
        g = helper.make_graph(nodes, "out_scan", [x], [o])
    elif stratum == "out_sparse_init":
        vals = helper.make_tensor("w", F, [2], [1.0, 2.0])
        idx = helper.make_tensor("w_idx", I64, [2], [0, 2])
        sp = helper.make_sparse_tensor(vals, idx, [3])
        nodes = [helper.make_node("Add", ["x", "y"], ["o"])]
        g = helper.make_graph(nodes, "out_sparse_init", [x, y], [o], sparse_initializer=[sp])
    elif stratum == "out_graph_attr":
        body = helper.make_graph([helper.make_node("Neg", ["e"], ["ne"])], "b", [helper.make_tensor_value_info("e", F, [3])],
                                 [helper.make_tensor_value_info("ne", F, [3])])
        so = helper.make_tensor_sequence_value_info("s2", F, [3])
        nodes = [helper.make_node("SequenceConstruct", ["x", "y"], ["s"]), helper.make_node("SequenceMap", ["s"], ["s2"], body=body)]
        g = helper.make_graph(nodes, "out_graph_attr", [x, y], [so])
    else:
        raise ValueError(stratum)
    return helper.make_model(g, opset_imports=[helper.make_opsetid("", OPSET)], ir_version=8), {"stratum": stratum, "source": "outside"}
