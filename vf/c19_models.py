"""C19: parametric pattern instances for the ORT fusions, written as @script functions inside module-level
factories (closure variables carry sizes, constants and *boolean* structure switches - a Python `if flag:` on a
closure bool is resolved statically by the converter).  Each factory returns an instance description:

  {"fusion": target fusion name, "cls": configuration class (goes into violation keys), "fn": script function,
   "in": input types, "out": output types, "feeds": {input name: ndarray}, "pipe": [fusion step names],
   "near_miss": bool, "value_info": [(value name, TensorType)] optional}

NOTE: no `from __future__ import annotations` here (script functions are compiled from this file's source).
"""
import math

import numpy as np
import onnx_ir as ir

from onnxscript import BOOL, FLOAT, FLOAT16, INT64, script, values
from onnxscript import opset18 as op
from onnxscript import opset20 as op20

msft = values.Opset("com.microsoft", 1)

SQRT2 = math.sqrt(2.0)
SQRT_2_OVER_PI = math.sqrt(2.0 / math.pi)


def T(dtype):
    return FLOAT16 if dtype == "f16" else FLOAT


def npdt(dtype):
    return np.float16 if dtype == "f16" else np.float32


def rnd(rng, shape, dtype="f32", scale=1.0):
    return np.asarray(rng.standard_normal(shape) * scale).astype(npdt(dtype))


def cst(v, dtype="f32"):
    return ir.tensor(np.array(v, dtype=npdt(dtype)))


def i64(v):
    return ir.tensor(np.array(v, dtype=np.int64))


# ----------------------------------------------------------------------------------------------- GELU family
def erf_gelu(rng, form, dtype, shape, half=0.5, sqrt2=SQRT2, one=1.0, commuted=False, literal=False):
    """form 1: 0.5*(x*(erf(x/sqrt2)+1)); form 2: x*(0.5*(erf(x/sqrt2)+1)); form 3 (gelu.py): (x*(erf(x/sqrt2)+1))*0.5"""
    C_half, C_s2, C_one = cst(half, dtype), cst(sqrt2, dtype), cst(one, dtype)
    f1, f2, f3 = form == 1, form == 2, form == 3

    @script()
    def gelu_lit1(x):
        return 0.5 * (x * (op.Erf(x / SQRT2) + 1.0))

    @script()
    def gelu_lit2(x):
        return x * (0.5 * (op.Erf(x / SQRT2) + 1.0))

    @script()
    def gelu_c(x):
        h = op.Constant(value=C_half)
        s = op.Constant(value=C_s2)
        o = op.Constant(value=C_one)
        e = op.Erf(op.Div(x, s))
        if commuted:
            inner = op.Add(o, e)
        else:
            inner = op.Add(e, o)
        if f1:
            r = op.Mul(h, op.Mul(x, inner))
        elif f2:
            r = op.Mul(x, op.Mul(h, inner))
        else:
            r = op.Mul(op.Mul(x, inner), h)
        return r

    fn = gelu_c
    if literal:
        fn = gelu_lit1 if f1 else gelu_lit2
    exact = (half == 0.5 and abs(sqrt2 - SQRT2) < 1e-9 and one == 1.0)
    fusion = "gelu" if f3 else "erf_gelu"
    cls = f"form={form};dtype={dtype};{'literal' if literal else 'const'}" + (";commuted" if commuted else "") + \
          ("" if exact else ";const_off")
    return {"fusion": fusion, "cls": cls, "fn": fn, "in": [T(dtype)[tuple(shape)]], "out": [T(dtype)[tuple(shape)]],
            "feeds": {"x": rnd(rng, shape, dtype, 1.5)}, "pipe": ["gelu" if f3 else "erf_gelu"], "near_miss": commuted or not exact}


def tanh_gelu(rng, dtype, shape, coef=0.044715, int_pow=True, literal=False):
    C_c, C_k, C_one, C_half = cst(coef, dtype), cst(SQRT_2_OVER_PI, dtype), cst(1.0, dtype), cst(0.5, dtype)
    C_3i, C_3f = i64(3), cst(3.0, dtype)

    @script()
    def gelu_t(x):
        if int_pow:
            t1 = op.Pow(x, op.Constant(value=C_3i))
        else:
            t1 = op.Pow(x, op.Constant(value=C_3f))
        t2 = op.Mul(op.Constant(value=C_c), t1)
        t3 = op.Add(x, t2)
        t4 = op.Mul(op.Constant(value=C_k), t3)
        t5 = op.Tanh(t4)
        t6 = op.Add(t5, op.Constant(value=C_one))
        t7 = op.Mul(op.Constant(value=C_half), t6)
        return op.Mul(x, t7)

    @script()
    def gelu_t_lit(x):
        t1 = op.Pow(x, 3)
        t3 = x + 0.044715 * t1
        t5 = op.Tanh(SQRT_2_OVER_PI * t3)
        return x * (0.5 * (t5 + 1))

    exact = coef == 0.044715
    cls = f"tanh;dtype={dtype};{'literal' if literal else 'const'};pow={'int' if int_pow else 'float'}" + ("" if exact else ";const_off")
    return {"fusion": "gelu", "cls": cls, "fn": gelu_t_lit if literal else gelu_t, "in": [T(dtype)[tuple(shape)]],
            "out": [T(dtype)[tuple(shape)]], "feeds": {"x": rnd(rng, shape, dtype, 1.5)}, "pipe": ["gelu"], "near_miss": not exact}


def bias_gelu(rng, dtype, shape, contrib, commuted=False, approximate=False, bias_rank=1):
    D = shape[-1]
    # bias_rank: 1 -> [D]; 2 -> [1, D]; "col" -> [D, 1] and "mid" -> [1, D, 1] (a per-ROW bias: broadcasts along the
    # second-to-last axis, which only type-checks against a square [..., D, D] input); "full" -> [D, D]
    bshape = {1: (D,), 2: (1, D), "col": (D, 1), "mid": (1, D, 1), "full": (D, D), 3: (1, 1, D)}[bias_rank]

    @script()
    def bg_onnx(x, b):
        if commuted:
            s = op20.Add(b, x)
        else:
            s = op20.Add(x, b)
        if approximate:
            r = op20.Gelu(s, approximate="tanh")
        else:
            r = op20.Gelu(s)
        return r

    @script()
    def bg_contrib(x, b):
        if commuted:
            s = op.Add(b, x)
        else:
            s = op.Add(x, b)
        return msft.Gelu(s)

    cls = f"{'contrib' if contrib else 'onnx'};dtype={dtype}" + (";commuted" if commuted else "") + \
          (";approx_tanh" if approximate else "") + (f";bias_rank={bias_rank}" if bias_rank != 1 else "")
    return {"fusion": "bias_gelu", "cls": cls, "fn": bg_contrib if contrib else bg_onnx,
            "in": [T(dtype)[tuple(shape)], T(dtype)[bshape]], "out": [T(dtype)[tuple(shape)]],
            "feeds": {"x": rnd(rng, shape, dtype, 1.5), "b": rnd(rng, bshape, dtype)}, "pipe": ["bias_gelu"],
            "near_miss": approximate or bias_rank != 1}


# ----------------------------------------------------------------------------------------------- normalisation
def rms_norm(rng, dtype, shape, eps=1e-6, scale_first=False, cast_in=False, cast_scale=False, eps_form="tensor1",
             axis=-1, scale_shape=None, recip=True, literal=False, pow_exp=2.0, eps_after_sqrt=False, abs_mean=False):
    """x (dtype) [-> Cast f32] -> x^2 -> mean(-1) -> +eps -> sqrt -> 1/ -> x*inv [-> Cast back] -> * scale"""
    D = shape[-1]
    sshape = tuple(scale_shape) if scale_shape is not None else (D,)
    compute = "f32" if cast_in else dtype
    eps_scalar, eps_input = eps_form == "scalar", eps_form == "input"
    C_eps = cst([eps] if eps_form == "tensor1" else eps, compute)
    C_pow = cst(pow_exp, compute)
    AX = [axis]
    back_to = ir.DataType.FLOAT16 if dtype == "f16" else ir.DataType.FLOAT
    is_f16 = dtype == "f16"

    @script()
    def rms(x, scale):
        if cast_in:
            xc = op.Cast(x, to=ir.DataType.FLOAT)
        else:
            xc = op.Identity(x)
        x_sq = op.Pow(xc, op.Constant(value=C_pow))
        mean_sq = op.ReduceMean(x_sq, AX, keepdims=1, noop_with_empty_axes=0)
        e = op.Constant(value=C_eps)
        if eps_after_sqrt:
            # x / (sqrt(mean(x^2)) + eps): NOT an RMS normalisation (differs as soon as rms ~ sqrt(eps))
            rms_ = op.Add(op.Sqrt(mean_sq), e)
        elif abs_mean:
            # x / sqrt(mean(|x|)^2 + eps): mean absolute value instead of the root mean square
            am = op.ReduceMean(op.Abs(xc), AX, keepdims=1, noop_with_empty_axes=0)
            rms_ = op.Sqrt(op.Add(op.Mul(am, am), e))
        else:
            rms_ = op.Sqrt(op.Add(mean_sq, e))
        if recip:
            normalized = op.Mul(xc, op.Reciprocal(rms_))
        else:
            normalized = op.Div(xc, rms_)
        if cast_in:
            normalized = op.Cast(normalized, to=back_to)
        if cast_scale:
            sc = op.Cast(scale, to=back_to)
        else:
            sc = op.Identity(scale)
        if scale_first:
            r = op.Mul(sc, normalized)
        else:
            r = op.Mul(normalized, sc)
        return r

    @script()
    def rms_eps_in(x, scale, eps_in):
        x_sq = op.Pow(x, op.Constant(value=C_pow))
        mean_sq = op.ReduceMean(x_sq, AX, keepdims=1, noop_with_empty_axes=0)
        rms_ = op.Sqrt(op.Add(mean_sq, eps_in))
        normalized = op.Mul(x, op.Reciprocal(rms_))
        return op.Mul(normalized, scale)

    @script()
    def rms_lit(x, scale):
        x_sq = op.Pow(x, 2.0)
        mean_sq = op.ReduceMean(x_sq, [-1], keepdims=1, noop_with_empty_axes=0)
        normalized = x * op.Reciprocal(op.Sqrt(mean_sq + 1e-6))
        return normalized * scale

    sdt = dtype if not cast_scale else "f32"
    xv = rnd(rng, shape, dtype)
    if len(shape) >= 2 and shape[-2] >= 2 and dtype == "f32":
        xv[..., 0, :] *= np.asarray(1e-3, xv.dtype)       # one small-magnitude row: rms comparable to sqrt(eps)
    feeds = {"x": xv, "scale": np.asarray(rnd(rng, sshape, sdt) * 0.5 + 1, dtype=npdt(sdt))}
    ins = [T(dtype)[tuple(shape)], T(sdt)[sshape] if sshape else T(sdt)]
    fn = rms
    if eps_input:
        fn = rms_eps_in
        feeds["eps_in"] = np.array([eps], npdt(dtype))
        ins.append(T(dtype)[1])
    if literal:
        fn = rms_lit
    nm = eps_input or axis != -1 or scale_shape is not None or not recip or pow_exp != 2.0 or eps_after_sqrt or abs_mean
    cls = (f"dtype={dtype};{'scale_first' if scale_first else 'norm_first'};cast={'in' if cast_in else 'none'}"
           f"{'+scale' if cast_scale else ''};eps={eps_form};rank={len(shape)}" + (";literal" if literal else "") +
           (f";axis={axis}" if axis != -1 else "") + (f";scale_rank={len(sshape)}" if scale_shape is not None else "") +
           ("" if recip else ";div") + ("" if pow_exp == 2.0 else ";pow_off") + (";eps_after_sqrt" if eps_after_sqrt else "") +
           (";abs_mean" if abs_mean else ""))
    return {"fusion": "rms_normalization", "cls": cls, "fn": fn, "in": ins, "out": [T(dtype)[tuple(shape)]], "feeds": feeds,
            "pipe": ["rms_normalization"], "near_miss": nm}


def skip_rms(rng, dtype, B, S, D, bias="none", skip_first=False, eps=1e-6, rank2=False, d_mismatch=False, use_sum=True):
    """rms-norm of (input + skip [+ bias]); pipeline rms_normalization -> skip_rms_normalization"""
    shape = (S, D) if rank2 else (B, S, D)
    has_bias, pre = bias != "none", bias == "pre"
    bias_pre, bias_post = has_bias and pre, has_bias and not pre
    C_eps = cst([eps], dtype)
    C_pow = cst(2.0, dtype)
    bshape = (D,) if not d_mismatch else (1, D)

    @script()
    def srms(inp, skip, gamma, b):
        x0 = op.Identity(inp)
        if bias_pre:
            x0 = op.Add(x0, b)
        if skip_first:
            s = op.Add(skip, x0)
        else:
            s = op.Add(x0, skip)
        if bias_post:
            s = op.Add(s, b)
        x_sq = op.Pow(s, op.Constant(value=C_pow))
        mean_sq = op.ReduceMean(x_sq, [-1], keepdims=1, noop_with_empty_axes=0)
        rms_ = op.Sqrt(op.Add(mean_sq, op.Constant(value=C_eps)))
        normalized = op.Mul(s, op.Reciprocal(rms_))
        out = op.Mul(normalized, gamma)
        if use_sum:
            second = op.Identity(s)
        else:
            second = op.Identity(gamma)
        return out, second

    second_t = T(dtype)[shape] if use_sum else T(dtype)[D]
    cls = f"dtype={dtype};bias={bias};{'skip_first' if skip_first else 'input_first'}" + (";rank2" if rank2 else "") + \
          (";bias_rank2" if d_mismatch else "") + ("" if use_sum else ";sum_internal")
    return {"fusion": "skip_rms_normalization", "cls": cls, "fn": srms,
            "in": [T(dtype)[shape], T(dtype)[shape], T(dtype)[D], T(dtype)[bshape]], "out": [T(dtype)[shape], second_t],
            "feeds": {"inp": rnd(rng, shape, dtype), "skip": rnd(rng, shape, dtype), "gamma": (rnd(rng, (D,), dtype) * 0.5 + 1).astype(npdt(dtype)),
                      "b": rnd(rng, bshape, dtype)},
            "pipe": ["rms_normalization", "skip_rms_normalization"], "near_miss": rank2 or d_mismatch}


def skip_layer_norm(rng, dtype, B, S, D, bias="none", skip_first=False, eps=1e-5, rank2=False, no_beta=False, axis_pos=False,
                    use_sum=True, small_var=False):
    shape = (S, D) if rank2 else (B, S, D)
    has_bias, pre = bias != "none", bias == "pre"
    bias_pre, bias_post = has_bias and pre, has_bias and not pre
    no_eps = eps is None            # LayerNormalization without an epsilon attribute: the ONNX default 1e-5 applies
    EPS = float(eps) if eps is not None else 1e-5
    AXIS = (len(shape) - 1) if axis_pos else -1

    @script()
    def sln(inp, skip, gamma, beta, b):
        x0 = op.Identity(inp)
        if bias_pre:
            x0 = op.Add(x0, b)
        if skip_first:
            s = op.Add(skip, x0)
        else:
            s = op.Add(x0, skip)
        if bias_post:
            s = op.Add(s, b)
        if no_eps:
            out = op.LayerNormalization(s, gamma, beta, axis=AXIS)
        elif no_beta:
            out = op.LayerNormalization(s, gamma, axis=AXIS, epsilon=EPS)
        else:
            out = op.LayerNormalization(s, gamma, beta, axis=AXIS, epsilon=EPS)
        if use_sum:
            second = op.Identity(s)
        else:
            second = op.Identity(gamma)
        return out, second

    second_t = T(dtype)[shape] if use_sum else T(dtype)[D]
    cls = f"dtype={dtype};bias={bias};{'skip_first' if skip_first else 'input_first'}" + (";rank2" if rank2 else "") + \
          (";no_beta" if no_beta else "") + (";axis_pos" if axis_pos else "") + ("" if use_sum else ";sum_internal") + \
          (";eps_default" if no_eps else "") + (";small_var" if small_var else "")
    sc = 1e-3 if small_var else 1.0   # small per-row variance makes the epsilon matter
    return {"fusion": "skip_layer_normalization", "cls": cls, "fn": sln,
            "in": [T(dtype)[shape], T(dtype)[shape], T(dtype)[D], T(dtype)[D], T(dtype)[D]], "out": [T(dtype)[shape], second_t],
            "feeds": {"inp": rnd(rng, shape, dtype, scale=sc), "skip": rnd(rng, shape, dtype, scale=sc), "gamma": (rnd(rng, (D,), dtype) * 0.5 + 1).astype(npdt(dtype)),
                      "beta": rnd(rng, (D,), dtype), "b": rnd(rng, (D,), dtype, scale=sc)},
            "pipe": ["skip_layer_normalization"], "near_miss": rank2 or no_beta or axis_pos}


# ----------------------------------------------------------------------------------------------- rotary embedding
def rotary(rng, B, H, S, E, pos="2d", target="cos_sin_cache", split_off=False, cast=False, const_pos=False, expand_freq=False,
           partial=0, dtype="f32"):
    """x*cos + rotate_half(x)*sin with cos/sin computed from inv_freq x position_ids (the transformers pattern).
    target: rotary_embedding (first stage only) | cos_sin_cache | partial_rotary_embedding"""
    R = partial if partial else E          # rotated width
    half = R // 2
    inv = ir.tensor((1.0 / (10000.0 ** (np.arange(0, half, dtype=np.float32) / max(half, 1)))).astype(np.float32).reshape(1, half, 1))
    pos1d = pos == "1d"
    AX_POS = [0, 1] if pos1d else [1]
    h2 = half + (1 if split_off else 0)
    S1, E1, S2, E2 = [0], [half], [h2], [R]
    CONST_POS = i64(np.arange(S, dtype=np.int64).reshape((S,) if pos1d else (1, S)).repeat(1 if pos1d else B, axis=0))
    EXP = i64([B, half, 1])
    is_partial = partial > 0
    P_END, P_START, BIG = [R], [R], [9223372036854775807]
    to_dt = ir.DataType.FLOAT16 if dtype == "f16" else ir.DataType.FLOAT

    @script()
    def rope(x, position_ids):
        inv_freq = op.Constant(value=inv)
        if expand_freq:
            inv_freq = op.Expand(inv_freq, op.Constant(value=EXP))
        if const_pos:
            pid = op.Constant(value=CONST_POS)
        else:
            pid = op.Identity(position_ids)
        pe = op.Unsqueeze(pid, AX_POS)
        pf = op.Cast(pe, to=ir.DataType.FLOAT)
        freqs = op.MatMul(inv_freq, pf)
        freqs = op.Transpose(freqs, perm=[0, 2, 1])
        emb = op.Concat(freqs, freqs, axis=-1)
        cos = op.Cos(emb)
        sin = op.Sin(emb)
        if cast:
            cos = op.Cast(cos, to=to_dt)
            sin = op.Cast(sin, to=to_dt)
        cos_4d = op.Unsqueeze(cos, [1])
        sin_4d = op.Unsqueeze(sin, [1])
        if is_partial:
            xr = op.Slice(x, [0], P_END, [3], [1])
            xp = op.Slice(x, P_START, BIG, [3], [1])
        else:
            xr = op.Identity(x)
            xp = op.Identity(x)
        x1 = op.Slice(xr, S1, E1, [3], [1])
        x2 = op.Slice(xr, S2, E2, [3], [1])
        rotated = op.Concat(op.Neg(x2), x1, axis=-1)
        out = op.Add(op.Mul(xr, cos_4d), op.Mul(rotated, sin_4d))
        if is_partial:
            out = op.Concat(out, xp, axis=-1)
        return out

    xt = T(dtype if cast else "f32")
    pshape = (S,) if pos1d else (B, S)
    pos_vals = np.arange(S, dtype=np.int64)
    if not const_pos and rng.random() < 0.5:
        pos_vals = np.sort(rng.integers(0, 3 * S, size=S)).astype(np.int64)
    pid = pos_vals if pos1d else np.tile(pos_vals.reshape(1, S), (B, 1))
    pipe = {"rotary_embedding": ["rotary_embedding"], "cos_sin_cache": ["rotary_embedding", "cos_sin_cache"],
            "partial_rotary_embedding": ["rotary_embedding", "cos_sin_cache", "partial_rotary_embedding"]}[target]
    cls = (f"pos={pos};B={'1' if B == 1 else 'n'};E={'odd' if E % 2 else 'even'}" + (";split_off" if split_off else "") + (f";cast_{dtype}" if cast else "") +
           (";const_pos" if const_pos else "") + (";expand_freq" if expand_freq else "") + (";partial" if is_partial else ""))
    return {"fusion": target, "cls": cls, "fn": rope, "in": [xt[B, H, S, E], INT64[pshape]], "out": [xt[B, H, S, E]],
            "feeds": {"x": rnd(rng, (B, H, S, E), dtype if cast else "f32"), "position_ids": pid}, "pipe": pipe,
            "near_miss": split_off or bool(R % 2)}


def rotary_direct(rng, B, H, S, E, h1=None, cos_b1=True):
    """x*cos + rotate(x)*sin with cos/sin given as inputs; split point h1 (E//2 = the real rotate_half)"""
    h = E // 2 if h1 is None else h1
    S1, E1, S2, E2 = [0], [h], [h], [E]

    @script()
    def rope_d(x, cos, sin):
        x1 = op.Slice(x, S1, E1, [3], [1])
        x2 = op.Slice(x, S2, E2, [3], [1])
        rotated = op.Concat(op.Neg(x2), x1, axis=-1)
        return op.Add(op.Mul(x, cos), op.Mul(rotated, sin))

    cshape = (1 if cos_b1 else B, 1, S, E)
    cls = f"direct;E={'odd' if E % 2 else 'even'}" + (";split_off_centre" if h != E // 2 else "")
    return {"fusion": "rotary_embedding", "cls": cls, "fn": rope_d, "in": [FLOAT[B, H, S, E], FLOAT[cshape], FLOAT[cshape]],
            "out": [FLOAT[B, H, S, E]], "feeds": {"x": rnd(rng, (B, H, S, E)), "cos": rnd(rng, cshape), "sin": rnd(rng, cshape)},
            "pipe": ["rotary_embedding"], "near_miss": bool(E % 2) or h != E // 2}


# ----------------------------------------------------------------------------------------------- SDPA / MHA
def sdpa(rng, B, H, S, Skv, Dh, Dv, scale_kind="pre_div", custom=False, masked=False, mask_shape="B1SK", key_bshd=False,
         nan_guard=True, scale_vec=False, dtype="f32", target="sdpa"):
    """scaled dot-product attention on 4-D q/k/v; scale_kind: pre_div|pre_mul|post_div|post_mul|none"""
    base = (1.0 / math.sqrt(80.0)) if custom else (1.0 / math.sqrt(Dh))     # multiplicative scale on q.k
    pre, post = scale_kind.startswith("pre"), scale_kind.startswith("post")
    use_mul = scale_kind.endswith("mul")
    if pre:
        v = math.sqrt(base) if use_mul else 1.0 / math.sqrt(base)
    else:
        v = base if use_mul else 1.0 / base
    C_s = cst([v] * S if scale_vec else v, dtype)
    C_zero = cst(0.0, dtype)
    no_scale = scale_kind == "none"

    @script()
    def attn(query, key, value, mask):
        if key_bshd:
            kt = op.Transpose(key, perm=[0, 2, 3, 1])
        else:
            kt = op.Transpose(key, perm=[0, 1, 3, 2])
        q = op.Identity(query)
        if pre:
            s = op.Constant(value=C_s)
            if use_mul:
                q = op.Mul(q, s)
                kt = op.Mul(kt, s)
            else:
                q = op.Div(q, s)
                kt = op.Div(kt, s)
        score = op.MatMul(q, kt)
        if post:
            s2 = op.Constant(value=C_s)
            if use_mul:
                score = op.Mul(score, s2)
            else:
                score = op.Div(score, s2)
        if masked:
            score = op.Add(score, mask)
        w = op.Softmax(score, axis=-1)
        if nan_guard:
            w = op.Where(op.IsNaN(w), op.Constant(value=C_zero), w)
        return op.MatMul(w, value)

    mshape = {"B1SK": (B, 1, S, Skv), "11SK": (1, 1, S, Skv), "SK": (S, Skv), "BHSK": (B, H, S, Skv), "B11K": (B, 1, 1, Skv), "111K": (1, 1, 1, Skv)}[mask_shape]
    kshape = (B, Skv, H, Dh) if key_bshd else (B, H, Skv, Dh)
    m = np.where(rng.random(mshape) < 0.25, -1e4 if dtype == "f16" else -1e9, 0.0).astype(npdt(dtype))
    if masked:
        m[..., 0] = 0.0
    cls = (f"scale={scale_kind}{'_custom' if custom else ''};mask={mask_shape if masked else 'none'};key={'BSHd' if key_bshd else 'BHSd'}"
           f";dtype={dtype}" + ("" if nan_guard else ";no_nan_guard") + (";scale_vec" if scale_vec else "") +
           (";Dv!=Dh" if Dv != Dh else "") + (";Skv!=S" if Skv != S else ""))
    return {"fusion": target, "cls": cls, "fn": attn,
            "in": [T(dtype)[B, H, S, Dh], T(dtype)[kshape], T(dtype)[B, H, Skv, Dv], T(dtype)[mshape]], "out": [T(dtype)[B, H, S, Dv]],
            "feeds": {"query": rnd(rng, (B, H, S, Dh), dtype), "key": rnd(rng, kshape, dtype), "value": rnd(rng, (B, H, Skv, Dv), dtype), "mask": m},
            "pipe": ["sdpa", "sdpa_via_mha"], "near_miss": scale_vec or (no_scale and False)}


def mha(rng, B, S, H, Dh, P=0, masked=False, mask_shape="B1SK", key_transposed=True, custom_scale=False, out_2d=False,
        cross=False, rotary_=False, Skv=None, dtype="f32", kv_heads=None):
    """q/k/v [B,S,D] -> Reshape/Transpose -> SDPA from primitives -> Transpose/Reshape; pipeline sdpa -> mha1 -> mha2"""
    D = H * Dh
    Skv = S if Skv is None else Skv
    Hk = H if kv_heads is None else kv_heads
    RQ, RK, RO = i64([0, 0, H, Dh]), i64([0, 0, Hk, Dh]), i64([0, 0, D])
    RO2 = i64([-1, D])
    base = (1.0 / math.sqrt(80.0)) if custom_scale else (1.0 / math.sqrt(Dh))
    C_s = cst(base, dtype)
    has_past = P > 0
    half = Dh // 2

    @script()
    def m(query, key, value, past_key, past_value, mask, position_ids, cos, sin):
        q = op.Transpose(op.Reshape(query, op.Constant(value=RQ)), perm=[0, 2, 1, 3])
        if cross:
            k = op.Identity(key)
            v = op.Identity(value)
        else:
            k4 = op.Reshape(key, op.Constant(value=RK))
            if key_transposed:
                k = op.Transpose(k4, perm=[0, 2, 1, 3])
            else:
                k = op.Identity(k4)
            v = op.Transpose(op.Reshape(value, op.Constant(value=RK)), perm=[0, 2, 1, 3])
        if rotary_:
            q_rope = msft.RotaryEmbedding(q, position_ids, cos, sin)
            k_rope = msft.RotaryEmbedding(k, position_ids, cos, sin)
            q = op.Identity(q_rope)
            k = op.Identity(k_rope)
        if has_past:
            k = op.Concat(past_key, k, axis=-2)
            v = op.Concat(past_value, v, axis=-2)
        if key_transposed:
            kt = op.Transpose(k, perm=[0, 1, 3, 2])
        else:
            kt = op.Transpose(k, perm=[0, 2, 3, 1])
        score = op.Mul(op.MatMul(q, kt), op.Constant(value=C_s))
        if masked:
            score = op.Add(score, mask)
        w = op.Softmax(score, axis=-1)
        o = op.Transpose(op.MatMul(w, v), perm=[0, 2, 1, 3])
        if out_2d:
            att = op.Reshape(o, op.Constant(value=RO2))
        else:
            att = op.Reshape(o, op.Constant(value=RO))
        return att, op.Identity(k), op.Identity(v)

    Tt = T(dtype)
    St = Skv + P
    mshape = {"B1SK": (B, 1, S, St), "11SK": (1, 1, S, St), "SK": (S, St), "BHSK": (B, H, S, St), "B11K": (B, 1, 1, St),
              "1SK": (1, S, St)}[mask_shape]
    if cross:
        ktype, vtype = Tt[B, H, Skv, Dh], Tt[B, H, Skv, Dh]
        kfeed, vfeed = rnd(rng, (B, H, Skv, Dh), dtype), rnd(rng, (B, H, Skv, Dh), dtype)
    else:
        ktype, vtype = Tt[B, Skv, Hk * Dh], Tt[B, Skv, Hk * Dh]
        kfeed, vfeed = rnd(rng, (B, Skv, Hk * Dh), dtype), rnd(rng, (B, Skv, Hk * Dh), dtype)
    kout = (B, St, Hk, Dh) if (not key_transposed and not cross) else (B, Hk, St, Dh)
    mk = np.where(rng.random(mshape) < 0.25, -1e4 if dtype == "f16" else -1e9, 0.0).astype(npdt(dtype))
    mk[..., 0] = 0.0
    maxpos = S + 2
    ang = rng.random((maxpos, max(half, 1)))
    feeds = {"query": rnd(rng, (B, S, D), dtype), "key": kfeed, "value": vfeed,
             "past_key": rnd(rng, (B, Hk, P, Dh), dtype), "past_value": rnd(rng, (B, Hk, P, Dh), dtype), "mask": mk,
             "position_ids": np.tile(np.arange(S, dtype=np.int64).reshape(1, S), (B, 1)),
             "cos": np.cos(ang).astype(npdt(dtype)), "sin": np.sin(ang).astype(npdt(dtype))}
    cls = (f"past={'yes' if has_past else 'no'};mask={mask_shape if masked else 'none'};key_T={'yes' if key_transposed else 'no'}"
           f";scale={'custom' if custom_scale else 'default'};dtype={dtype}" + (";cross" if cross else "") + (";rotary" if rotary_ else "") +
           (";out_2d" if out_2d else "") + (";kv_heads!=heads" if Hk != H else "") + (";Skv!=S" if Skv != S else ""))
    return {"fusion": "mha", "cls": cls, "fn": m,
            "in": [Tt[B, S, D], ktype, vtype, Tt[B, Hk, P, Dh], Tt[B, Hk, P, Dh], Tt[mshape], INT64[B, S], Tt[maxpos, max(half, 1)],
                   Tt[maxpos, max(half, 1)]],
            "out": [Tt[(B * S, D) if out_2d else (B, S, D)], Tt[kout], Tt[B, Hk, St, Dh]], "feeds": feeds,
            "pipe": ["sdpa", "mha1", "mha2"], "near_miss": out_2d or Hk != H,
            "value_info": ([("q_rope", Tt[B, H, S, Dh]), ("k_rope", Tt[B, Hk, Skv, Dh])] if rotary_ else [])}


def mha_scale(rng, B, S, H, Dh, scale=0.5, existing=False, commuted=False, dynamic=False, with_bias=False, dtype="f32", P=0):
    D = H * Dh
    C_s = cst(scale, dtype)
    S0 = 0.3
    has_past = P > 0

    @script()
    def ms(query, key, value, bias, sc_in, past_key, past_value):
        if dynamic:
            s = op.Identity(sc_in)
        else:
            s = op.Constant(value=C_s)
        if commuted:
            q = op.Mul(s, query)
        else:
            q = op.Mul(query, s)
        if has_past:
            if existing:
                o, pk, pv = msft.MultiHeadAttention(q, key, value, None, None, None, past_key, past_value, num_heads=H, scale=S0)
            else:
                o, pk, pv = msft.MultiHeadAttention(q, key, value, None, None, None, past_key, past_value, num_heads=H)
            o = op.Add(o, op.ReduceSum(pk) + op.ReduceSum(pv))
        elif with_bias:
            if existing:
                o = msft.MultiHeadAttention(q, key, value, bias, num_heads=H, scale=S0)
            else:
                o = msft.MultiHeadAttention(q, key, value, bias, num_heads=H)
        else:
            if existing:
                o = msft.MultiHeadAttention(q, key, value, num_heads=H, scale=S0)
            else:
                o = msft.MultiHeadAttention(q, key, value, num_heads=H)
        return o

    Tt = T(dtype)
    cls = (f"existing_scale={'yes' if existing else 'no'};dtype={dtype}" + (";commuted" if commuted else "") + (";dynamic" if dynamic else "") +
           (";bias" if with_bias else "") + (";past" if has_past else ""))
    return {"fusion": "mha_scale", "cls": cls, "fn": ms,
            "in": [Tt[B, S, D], Tt[B, S, D], Tt[B, S, D], Tt[3 * D], Tt[1], Tt[B, H, P, Dh], Tt[B, H, P, Dh]], "out": [Tt[B, S, D]],
            "feeds": {"query": rnd(rng, (B, S, D), dtype), "key": rnd(rng, (B, S, D), dtype), "value": rnd(rng, (B, S, D), dtype),
                      "bias": rnd(rng, (3 * D,), dtype, 0.3), "sc_in": np.array([scale], npdt(dtype)),
                      "past_key": rnd(rng, (B, H, P, Dh), dtype), "past_value": rnd(rng, (B, H, P, Dh), dtype)},
            "pipe": ["mha_scale"], "near_miss": dynamic or commuted}


def mha_bias(rng, B, S, H, Dh, which="qkv", bias_rank=1, masked=False, scale=False, dtype="f32", Skv=None, Dv=None):
    D = H * Dh
    Skv = S if Skv is None else Skv
    Dvv = D if Dv is None else Dv
    hq, hk, hv = "q" in which, "k" in which, "v" in which
    S0 = 0.2
    bq = (D,) if bias_rank == 1 else ((1, D) if bias_rank == 2 else (S, D))
    bk = (D,) if bias_rank == 1 else ((1, D) if bias_rank == 2 else (Skv, D))
    bv = (Dvv,) if bias_rank == 1 else ((1, Dvv) if bias_rank == 2 else (Skv, Dvv))

    @script()
    def mb(qm, km, vm, qb, kb, vb, mask):
        q = op.Identity(qm)
        k = op.Identity(km)
        v = op.Identity(vm)
        if hq:
            q = op.Add(q, qb)
        if hk:
            k = op.Add(k, kb)
        if hv:
            v = op.Add(v, vb)
        if masked:
            if scale:
                o = msft.MultiHeadAttention(q, k, v, None, None, mask, num_heads=H, scale=S0)
            else:
                o = msft.MultiHeadAttention(q, k, v, None, None, mask, num_heads=H)
        else:
            if scale:
                o = msft.MultiHeadAttention(q, k, v, num_heads=H, scale=S0)
            else:
                o = msft.MultiHeadAttention(q, k, v, num_heads=H)
        return o

    Tt = T(dtype)
    mk = np.where(rng.random((B, 1, S, Skv)) < 0.25, -1e4, 0.0).astype(npdt(dtype))
    mk[..., 0] = 0
    cls = f"bias={which};bias_rank={bias_rank};mask={'yes' if masked else 'no'};scale={'yes' if scale else 'no'};dtype={dtype}" + \
          (";Skv!=S" if Skv != S else "") + (";Dv!=D" if Dvv != D else "")
    return {"fusion": "mha_bias", "cls": cls, "fn": mb,
            "in": [Tt[B, S, D], Tt[B, Skv, D], Tt[B, Skv, Dvv], Tt[bq], Tt[bk], Tt[bv], Tt[B, 1, S, Skv]], "out": [Tt[B, S, Dvv]],
            "feeds": {"qm": rnd(rng, (B, S, D), dtype), "km": rnd(rng, (B, Skv, D), dtype), "vm": rnd(rng, (B, Skv, Dvv), dtype),
                      "qb": rnd(rng, bq, dtype, 0.5), "kb": rnd(rng, bk, dtype, 0.5), "vb": rnd(rng, bv, dtype, 0.5), "mask": mk},
            "pipe": ["mha_bias"], "near_miss": bias_rank != 1}


def attention(rng, B, S, H, Dh, P=0, no_slice=False, with_bias=True, gap=False, scale=False, attn_bias=False, dtype="f32", Dv_h=None):
    """MatMul(+Slice) -> MultiHeadAttention(bias[, past]) -> Attention"""
    D = H * Dh
    Dq = D
    Dvh = Dh if Dv_h is None else Dv_h
    Dvv = H * Dvh
    hole = Dh if gap else 0
    Dqkv = Dq + Dq + hole + Dvv
    E1, E2, E3 = [Dq], [2 * Dq], [Dqkv]
    S2, S3 = [Dq], [2 * Dq + hole]
    has_past = P > 0
    S0 = 0.25

    @script()
    def att(inp, weight, bias, past, wq, wk, wv, ab):
        if no_slice:
            q = op.MatMul(inp, wq)
            k = op.MatMul(inp, wk)
            v = op.MatMul(inp, wv)
        else:
            qkv = op.MatMul(inp, weight)
            q = op.Slice(qkv, [0], E1, [2])
            k = op.Slice(qkv, S2, E2, [2])
            v = op.Slice(qkv, S3, E3, [2])
        if has_past:
            pk = op.Squeeze(op.Slice(past, [0], [1], [0]), [0])
            pv = op.Squeeze(op.Slice(past, [1], [2], [0]), [0])
            if scale:
                o, prk, prv = msft.MultiHeadAttention(q, k, v, bias, None, None, pk, pv, num_heads=H, scale=S0)
            else:
                o, prk, prv = msft.MultiHeadAttention(q, k, v, bias, None, None, pk, pv, num_heads=H)
            present = op.Concat(op.Unsqueeze(prk, [0]), op.Unsqueeze(prv, [0]), axis=0)
        else:
            if attn_bias:
                o = msft.MultiHeadAttention(q, k, v, bias, None, ab, None, None, num_heads=H)
            elif scale:
                o = msft.MultiHeadAttention(q, k, v, bias, None, None, None, None, num_heads=H, scale=S0)
            else:
                o = msft.MultiHeadAttention(q, k, v, bias, None, None, None, None, num_heads=H)
            present = op.Identity(past)
        return o, present

    Tt = T(dtype)
    cls = (f"past={'yes' if has_past else 'no'};{'no_slice' if no_slice else 'slice'};scale={'yes' if scale else 'no'};dtype={dtype}" +
           (";gap" if gap else "") + (";attn_bias" if attn_bias else "") + (";Dv!=Dh" if Dvh != Dh else ""))
    w = rnd(rng, (D, Dqkv), dtype, 0.3)
    return {"fusion": "attention", "cls": cls, "fn": att,
            "in": [Tt[B, S, D], Tt[D, Dqkv], Tt[Dqkv - hole], Tt[2, B, H, P, Dh], Tt[D, Dq], Tt[D, Dq], Tt[D, Dvv], Tt[B, 1, S, S + P]],
            "out": [Tt[B, S, Dvv], Tt[2, B, H, S + P if has_past else P, Dh]],
            "feeds": {"inp": rnd(rng, (B, S, D), dtype), "weight": w, "bias": rnd(rng, (Dqkv - hole,), dtype, 0.3), "past": rnd(rng, (2, B, H, P, Dh), dtype),
                      "wq": w[:, :Dq].copy(), "wk": w[:, Dq:2 * Dq].copy(), "wv": w[:, 2 * Dq + hole:].copy(),
                      "ab": np.where(rng.random((B, 1, S, S + P)) < 0.2, -1e4, 0.0).astype(npdt(dtype))},
            "pipe": ["attention"], "near_miss": gap}


# ----------------------------------------------------------------------------------------------- GQA (adapted from gqa_test.py)
def gqa(rng, S, P, H, Hkv, Dh, packed=False):
    B = 1                      # ORT's CPU GroupQueryAttention requires batch size 1 with a past
    G = H // max(Hkv, 1)
    D, Dkv = H * Dh, Hkv * Dh
    scale_factor = math.sqrt(math.sqrt(Dh))
    minval = float(np.finfo(np.float32).min)
    MINV = ir.tensor(np.array([minval], np.float32))
    Hl, Hkvl, Dhl, Gl, minus_1, plus_1 = [H], [Hkv], [Dh], [G], [-1], [1]
    QE, KE, VE = [D], [D + Dkv], [D + 2 * Dkv]
    KS, VS = [D], [D + Dkv]

    @script()
    def g(query, key, value, past_key, past_value, cos, sin, packed_qkv):
        if packed:
            query = op.Slice(packed_qkv, [0], QE, [2], [1])
            key = op.Slice(packed_qkv, KS, KE, [2], [1])
            value = op.Slice(packed_qkv, VS, VE, [2], [1])
        Bv = op.Shape(query, start=0, end=1)
        Sv = op.Shape(query, start=1, end=2)
        past_seq_length = op.Shape(past_key, start=2, end=3)
        total_seq_length = op.Add(past_seq_length, Sv)
        shape_BSHDh = op.Concat(Bv, Sv, minus_1, Dhl, axis=0)
        shape_BSHkvDh = op.Concat(Bv, Sv, minus_1, Dhl, axis=0)
        shape_BSD = op.Concat(Bv, Sv, minus_1, axis=0)
        shape_BHkvGSDh = op.Concat(Bv, Hkvl, Gl, total_seq_length, Dhl, axis=0)
        shape_BHSDh = op.Concat(Bv, Hl, total_seq_length, Dhl, axis=0)
        query_BSHDh = op.Reshape(query, shape_BSHDh)
        query_BHSDh = op.Transpose(query_BSHDh, perm=[0, 2, 1, 3])
        key_BSHkvDh = op.Reshape(key, shape_BSHkvDh)
        key_BHkvSDh = op.Transpose(key_BSHkvDh, perm=[0, 2, 1, 3])
        value_BSHkvDh = op.Reshape(value, shape_BSHkvDh)
        value_BHkvSDh = op.Transpose(value_BSHkvDh, perm=[0, 2, 1, 3])
        position_ids_1d = op.Range(past_seq_length, total_seq_length, 1)
        position_ids_q = op.Unsqueeze(position_ids_1d, [0])
        position_ids_k = op.Unsqueeze(position_ids_1d, [0])
        query_BHSDh_rope = msft.RotaryEmbedding(query_BHSDh, position_ids_q, cos, sin)
        key_BHkvSDh_rope = msft.RotaryEmbedding(key_BHkvSDh, position_ids_k, cos, sin)
        key_seq_BHkvSkvDh = op.Concat(past_key, key_BHkvSDh_rope, axis=-2)
        value_seq_BHkvSkvDh = op.Concat(past_value, value_BHkvSDh, axis=-2)
        key_BHkv1SDh = op.Unsqueeze(key_seq_BHkvSkvDh, [2])
        key_BHkvGSDh = op.Expand(key_BHkv1SDh, shape_BHkvGSDh)
        key_BHSDh = op.Reshape(key_BHkvGSDh, shape_BHSDh)
        value_BHkv1SDh = op.Unsqueeze(value_seq_BHkvSkvDh, [2])
        value_BHkvGSDh = op.Expand(value_BHkv1SDh, shape_BHkvGSDh)
        value_BHSDh = op.Reshape(value_BHkvGSDh, shape_BHSDh)
        seq_len = op.Shape(query, end=2, start=1)
        seq_len_0D = op.Squeeze(seq_len)
        past_seq_len_0D = op.Squeeze(past_seq_length)
        total_seq_len_0D = op.Add(past_seq_len_0D, seq_len_0D)
        total_seq_len = op.Reshape(total_seq_len_0D, [-1])
        total_seq_len_plus_1_0D = op.Add(total_seq_len_0D, 1)
        total_seq_len_plus_1 = op.Reshape(total_seq_len_plus_1_0D, [-1])
        current_range = op.Range(past_seq_len_0D, total_seq_len_0D, 1)
        mask_shape = op.Concat(seq_len, total_seq_len_plus_1, axis=0)
        min_val = op.Constant(value=MINV)
        mask_all_min = op.Expand(min_val, mask_shape)
        total_range_as_row = op.Range(0, total_seq_len_plus_1_0D, 1)
        current_range_as_column = op.Reshape(current_range, [-1, 1])
        boolean_mask = op.Greater(total_range_as_row, current_range_as_column)
        float_0_1_mask = op.Cast(boolean_mask, to=1)
        float_0_min_mask = op.Mul(mask_all_min, float_0_1_mask)
        mask_4d = op.Unsqueeze(float_0_min_mask, [0, 1])
        shape_B111 = op.Concat(Bv, plus_1, plus_1, plus_1, axis=0)
        mask_B1ST_plus = op.Expand(mask_4d, shape_B111)
        mask_B1ST = op.Slice(mask_B1ST_plus, [0], total_seq_len, [3], [1])
        key_transposed = op.Transpose(key_BHSDh, perm=[0, 1, 3, 2])
        divisor = op.Constant(value_float=scale_factor)
        scaled_query = op.Div(query_BHSDh_rope, divisor)
        scaled_key = op.Div(key_transposed, divisor)
        attn_score = op.MatMul(scaled_query, scaled_key)
        masked_attn_score = op.Add(attn_score, mask_B1ST)
        attn_weight = op.Softmax(masked_attn_score, axis=-1)
        attention_BHSDh = op.MatMul(attn_weight, value_BHSDh)
        attention_BSHDh = op.Transpose(attention_BHSDh, perm=[0, 2, 1, 3])
        attention_BSD = op.Reshape(attention_BSHDh, shape_BSD)
        return attention_BSD, key_seq_BHkvSkvDh, value_seq_BHkvSkvDh

    T_ = S + P
    maxs = T_
    vi = [("query_BHSDh_rope", FLOAT["B", H, S, Dh]), ("key_BHkvSDh_rope", FLOAT["B", Hkv, S, Dh]), ("query_BSHDh", FLOAT["B", S, H, Dh]),
          ("key_BHSDh", FLOAT["B", H, T_, Dh]), ("key_BSHkvDh", FLOAT["B", S, Hkv, Dh]), ("key_transposed", FLOAT["B", H, Dh, T_]),
          ("value_BHSDh", FLOAT["B", H, T_, Dh])]
    cls = f"{'packed' if packed else 'plain'};groups={'1' if G == 1 else 'n'};head={'mult16' if Dh % 16 == 0 else 'not_mult16'}"
    q, k, v = rnd(rng, (B, S, D)), rnd(rng, (B, S, Dkv)), rnd(rng, (B, S, Dkv))
    return {"fusion": "packed_qkv_for_gqa" if packed else "gqa", "cls": cls, "fn": g,
            "in": [FLOAT["B", "S", D], FLOAT["B", "S", Dkv], FLOAT["B", "S", Dkv], FLOAT["B", Hkv, "P", Dh], FLOAT["B", Hkv, "P", Dh],
                   FLOAT["max_seqlen", Dh // 2], FLOAT["max_seqlen", Dh // 2], FLOAT["B", "S", D + 2 * Dkv]],
            "out": [FLOAT["B", "S", D], FLOAT["B", Hkv, "T", Dh], FLOAT["B", Hkv, "T", Dh]],
            "feeds": {"query": q, "key": k, "value": v, "past_key": rnd(rng, (B, Hkv, P, Dh)), "past_value": rnd(rng, (B, Hkv, P, Dh)),
                      "cos": rng.random((maxs, Dh // 2)).astype(np.float32), "sin": rng.random((maxs, Dh // 2)).astype(np.float32),
                      "packed_qkv": np.concatenate([q, k, v], axis=2)},
            "pipe": ["sdpa", "gqa"] + (["packed_qkv_for_gqa"] if packed else []), "near_miss": bool(Dh % 16), "value_info": vi}


# ----------------------------------------------------------------------------------------------- rule sets applied by rewrite()
def fused_matmul(rng, kind, rank=2, perm_kind="last2", div=None, div_shape="scalar", dtype="f32", square=False):
    """kind: tA (Transpose(x)@y) | tB | mm_div | mm_t (Transpose(MatMul)) | tA_div | tA_t | tB_t | tAB | div_div | batchA"""
    M, K, N, Bt = (4, 4, 4, 2) if square else (3, 4, 5, 2)
    lead = () if rank == 2 else ((Bt,) if rank == 3 else (Bt, 2))

    def perm_for(r):
        p = list(range(r))
        if perm_kind == "last2":
            p[-1], p[-2] = p[-2], p[-1]
        elif perm_kind == "rotate":        # [1, 2, ..., N-1, 0]
            p = p[1:] + p[:1]
        elif perm_kind == "batch":         # [1, ..., N-2, 0, N-1]
            p = p[1:-1] + [p[0], p[-1]]
        elif perm_kind == "other":
            p = p[::-1]
        elif perm_kind == "swapbatch_last2":   # [1, 0, ..., N-1, N-2]: ends like a matrix transpose but also permutes batch dims
            p[0], p[1] = p[1], p[0]
            p[-1], p[-2] = p[-2], p[-1]
        return p

    r = len(lead) + 2
    PERM = perm_for(r)
    no_perm = perm_kind == "default"
    DIVC = cst({"scalar": div or 2.0, "one": [div or 2.0], "oneone": [[div or 2.0]], "vec": [div or 2.0] * N}[div_shape], dtype)
    tA, tB = kind in ("tA", "tA_div", "tA_t", "tAB"), kind in ("tB", "tB_t", "tAB")
    post_div, post_div2, post_t = kind in ("mm_div", "tA_div", "div_div"), kind == "div_div", kind in ("mm_t", "tA_t", "tB_t")
    PT = perm_for(r) if perm_kind != "default" else None

    @script()
    def fm(x, y):
        a = op.Identity(x)
        b = op.Identity(y)
        if tA:
            if no_perm:
                a = op.Transpose(a)
            else:
                a = op.Transpose(a, perm=PERM)
        if tB:
            if no_perm:
                b = op.Transpose(b)
            else:
                b = op.Transpose(b, perm=PERM)
        z = op.MatMul(a, b)
        if post_div:
            z = op.Div(z, op.Constant(value=DIVC))
        if post_div2:
            z = op.Div(z, op.Constant(value=DIVC))
        if post_t:
            if no_perm:
                z = op.Transpose(z)
            else:
                z = op.Transpose(z, perm=PT)
        return z

    # shapes such that the original is well formed
    def pre(shape):
        """shape that Transpose(perm) maps to `shape`"""
        if no_perm:
            return tuple(reversed(shape))
        out = [0] * len(shape)
        for i, p in enumerate(PERM):
            out[p] = shape[i]
        return tuple(out)

    a_shape = lead + (M, K)
    b_shape = lead + (K, N)
    xs = pre(a_shape) if tA else a_shape
    ys = pre(b_shape) if tB else b_shape
    zs = lead + (M, N)
    if post_t:
        zs = tuple(reversed(zs)) if no_perm else tuple(zs[p] for p in PT)
    Tt = T(dtype)
    cls = f"{kind};rank={r};perm={perm_kind}" + (f";div={div_shape}" if post_div else "") + f";dtype={dtype}" + (";square" if square else "")
    return {"fusion": "fused_matmul", "cls": cls, "fn": fm, "in": [Tt[xs], Tt[ys]], "out": [Tt[zs]],
            "feeds": {"x": rnd(rng, xs, dtype), "y": rnd(rng, ys, dtype)}, "pipe": ["fused_matmul"],
            "near_miss": perm_kind in ("other", "swapbatch_last2") or div_shape == "vec"}


def softmax_upcast(rng, shape, axis=-1, no_axis=False, dtype_in="f16", up_to="f32"):
    UP = ir.DataType.FLOAT if up_to == "f32" else ir.DataType.DOUBLE
    AX = int(axis)

    @script()
    def sm(x):
        u = op.Cast(x, to=UP)
        if no_axis:
            s = op.Softmax(u)
        else:
            s = op.Softmax(u, axis=AX)
        return op.Cast(s, to=ir.DataType.FLOAT16)

    cls = f"in={dtype_in};up={up_to};{'no_axis' if no_axis else 'axis'}"
    return {"fusion": "softmax_upcast", "cls": cls, "fn": sm, "in": [T(dtype_in)[tuple(shape)]], "out": [FLOAT16[tuple(shape)]],
            "feeds": {"x": rnd(rng, shape, dtype_in, 2.0)}, "pipe": ["softmax_upcast"], "near_miss": dtype_in != "f16" or up_to != "f32"}


def instance_to_group_norm(rng, N, C, Hh, W, groups, eps=1e-5, dtype="f32", ones=True):
    """the torchlib simulation of GroupNorm with InstanceNormalization"""
    SHAPE0 = i64([0, groups, -1])
    SHAPE1 = i64([N, C, Hh, W])
    WN = cst(np.ones(groups) if ones else np.full(groups, 2.0), dtype)
    BN = cst(np.zeros(groups), dtype)
    EPS = float(eps)

    @script()
    def ign(x, w, b):
        a = op.Reshape(x, op.Constant(value=SHAPE0))
        inorm = op.InstanceNormalization(a, op.Constant(value=WN), op.Constant(value=BN), epsilon=EPS)
        r = op.Reshape(inorm, op.Constant(value=SHAPE1))
        return op.Add(op.Mul(r, w), b)

    Tt = T(dtype)
    cls = f"dtype={dtype};{'ones' if ones else 'not_ones'}"
    return {"fusion": "instance_to_group_normalization", "cls": cls, "fn": ign, "in": [Tt[N, C, Hh, W], Tt[C, 1, 1], Tt[C, 1, 1]],
            "out": [Tt[N, C, Hh, W]],
            "feeds": {"x": rnd(rng, (N, C, Hh, W), dtype), "w": rnd(rng, (C, 1, 1), dtype), "b": rnd(rng, (C, 1, 1), dtype)},
            "pipe": ["instance_to_group_normalization"], "near_miss": not ones}


def gemm(rng, B, S, K, N, transB=False, explicit=True, alpha=1.0, beta=1.0, c_rank=1):
    """Reshape -> Gemm -> Reshape (what gemm_to_matmul_add_rule, applied first by optimize_for_ort, looks for)"""
    TB = int(transB)
    AL, BE = float(alpha), float(beta)
    SH_A, SH_C = i64([B * S, K]), i64([B, S, N])

    @script()
    def gm(a, b, c):
        a2 = op.Reshape(a, op.Constant(value=SH_A))
        if explicit:
            r = op.Gemm(a2, b, c, alpha=AL, beta=BE, transB=TB)
        else:
            r = op.Gemm(a2, b, c, transB=TB)
        return op.Reshape(r, op.Constant(value=SH_C))

    bsh = (N, K) if transB else (K, N)
    csh = (N,) if c_rank == 1 else (B * S, N)
    cls = (f"tB={TB};attrs={'explicit' if explicit else 'default'};alpha={'1' if alpha == 1.0 else 'x'};beta={'1' if beta == 1.0 else 'x'};"
           f"c=rank{c_rank}" + (f";B={'1' if B == 1 else 'n'};S={'1' if S == 1 else 'n'}" if c_rank == 2 else ""))
    return {"fusion": "gemm_to_matmul_add", "cls": cls, "fn": gm, "in": [FLOAT[B, S, K], FLOAT[bsh], FLOAT[csh]], "out": [FLOAT[B, S, N]],
            "feeds": {"a": rnd(rng, (B, S, K)), "b": rnd(rng, bsh), "c": rnd(rng, csh)}, "pipe": ["gemm_to_matmul_add"],
            "near_miss": transB or alpha != 1.0 or beta != 1.0}


assert BOOL is not None
