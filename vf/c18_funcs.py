"""C18: library of @script functions (real source file - @script needs inspect.getsource) used as callees of
GraphBuilder.call / call_inline, each with a hand-written numpy reading used by the trace replay.
All are float32 -> float32 on rank-2 inputs so the generator can apply them anywhere.
"""
from __future__ import annotations

import math
from typing import List

import numpy as np

from onnxscript import opset21 as op
from onnxscript import script
from onnxscript.onnx_types import FLOAT
from onnxscript.values import Opset

DOMAIN = "vf.c18"
dom = Opset(DOMAIN, 1)


@script(dom)
def leaky(X, alpha: float):
    return op.LeakyRelu(X, alpha=alpha)


@script(dom)
def mix(X, Y):
    t = X * Y
    t = t + X
    return op.Relu(t)


@script(dom)
def affine2(X, Y, scale: float, axis: int):
    s = op.Constant(value_float=scale)
    t = X * s + Y
    m = op.ReduceMax(t, op.Constant(value_ints=[0]), keepdims=1)
    r = op.Softmax(t, axis=axis)
    return r + m, t


@script(dom)
def permsum(X, perm: List[int], keep: int):
    t = op.Transpose(X, perm=perm)
    return op.ReduceSum(t, op.Constant(value_ints=[0]), keepdims=keep)


@script(dom)
def branchy(X, thresh: float):
    s = op.ReduceSum(X, keepdims=0)
    if s > op.Constant(value_float=thresh):
        r = X * 2.0
    else:
        r = X - op.Constant(value_float=thresh)
    return op.Tanh(r)


@script(dom)
def clipscale(X, lo: float, hi: float):
    c = op.Clip(X, op.Constant(value_float=lo), op.Constant(value_float=hi))
    return c * 0.5, op.Abs(c)


def _f32(x):
    return np.asarray(x, dtype=np.float32)


def _softmax(t, axis):
    t = t.astype(np.float64)
    e = np.exp(t - t.max(axis=axis, keepdims=True))
    return (e / e.sum(axis=axis, keepdims=True))


def ref_leaky(ins, at):
    x = ins[0]
    return [np.where(x >= 0, x, x * np.float32(at["alpha"])).astype(np.float32)]


def ref_mix(ins, at):
    x, y = ins
    return [np.maximum(x * y + x, 0).astype(np.float32)]


def ref_mix_anytype(ins, at):
    x, y = ins
    return [np.maximum(x * y + x, 0).astype(x.dtype)]


def ref_affine2(ins, at):
    x, y = ins
    t = (x * np.float32(at["scale"]) + y).astype(np.float32)
    m = t.max(axis=0, keepdims=True)
    r = _softmax(t, int(at["axis"])).astype(np.float32)
    return [(r + m).astype(np.float32), t]


def ref_permsum(ins, at):
    t = np.transpose(ins[0], [int(p) for p in at["perm"]])
    return [t.sum(axis=0, keepdims=bool(int(at["keep"]))).astype(np.float32)]


def ref_branchy(ins, at):
    x = ins[0]
    th = np.float32(at["thresh"])
    s = x.sum(dtype=np.float32)
    r = x * np.float32(2.0) if s > th else x - th
    return [np.tanh(r).astype(np.float32)]


def ref_clipscale(ins, at):
    c = np.clip(ins[0], np.float32(at["lo"]), np.float32(at["hi"]))
    return [(c * np.float32(0.5)).astype(np.float32), np.abs(c).astype(np.float32)]


@script(dom)
def typed_mix(X: FLOAT[...], Y: FLOAT[...]) -> FLOAT[...]:
    """the same body as `mix`, with a declared element type: ONNX functions are untyped, so applying the function node to
    DOUBLE tensors is legal and must give DOUBLE results"""
    t = X * Y
    t = t + X
    return op.Relu(t)


# name -> (script function, numpy reading, attribute spec {name: kind}, n_inputs, n_outputs)
LIB = {
    "leaky": (leaky, ref_leaky, {"alpha": "float"}, 1, 1),
    "mix": (mix, ref_mix, {}, 2, 1),
    "typed_mix": (typed_mix, ref_mix_anytype, {}, 2, 1),
    "affine2": (affine2, ref_affine2, {"scale": "float", "axis": "axis"}, 2, 2),
    "permsum": (permsum, ref_permsum, {"perm": "perm", "keep": "bool"}, 1, 1),
    "branchy": (branchy, ref_branchy, {"thresh": "float"}, 1, 1),
    "clipscale": (clipscale, ref_clipscale, {"lo": "lo", "hi": "hi"}, 1, 2),
}

assert math  # keep import (used by readers of this file when extending the table)
