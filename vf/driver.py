"""Generic check driver: cases -> worker pool -> aggregation -> verdict -> evidence.

A property module provides
  PID, LEVEL ("exploration" | "fault_enumeration"), RULE (text)
  cases(tier, seed) -> list of JSON-able specs
  run_case(spec) -> {"status": str, "viol": [{"key","what","detail"}], "events": {name: n},
                     "sig": str|None, "nontrivial": bool, "sample": any, "data": any}
  optional: ANCHORS, worker_init(), thresholds(tier) -> {event: min}, finalize(ctx),
            TIMEOUT (per case seconds), ASSUMPTIONS, EXHAUSTIVE(tier) -> bool, WORKER_ENV,
            JOBS(tier)
Exit codes: 0 held / 1 violation / 2 inconclusive.
"""
from __future__ import annotations

import importlib
import json
import os
import re
import sys
import time

from . import common, findings, isolate, probes

EVIDENCE_DIR = os.path.join(common.VERIF_DIR, "evidence")
REPLAY_DIR = os.path.join(common.VERIF_DIR, "replays")
if os.environ.get("VERIF_REPO"):
    # a run against a scratch copy of the repository (seeded-defect self-test) must not overwrite the evidence and replay
    # files that describe /repo itself: they go next to the copy
    _alt = os.path.join(os.path.dirname(os.path.abspath(os.environ["VERIF_REPO"])), "verif-out")
    EVIDENCE_DIR = os.path.join(_alt, "evidence")
    REPLAY_DIR = os.path.join(_alt, "replays")


class Ctx:
    """What finalize() gets: specs, results and mutable aggregates."""

    def __init__(self, mod, tier, seed, specs, results):
        self.mod, self.tier, self.seed = mod, tier, seed
        self.specs, self.results = specs, results
        self.violations: list[dict] = []   # {key, what, detail, spec}
        self.inconclusive: list[str] = []
        self.events: dict[str, int] = {}
        self.status: dict[str, int] = {}
        self.extra: dict = {}
        self.samples: list = []
        self.sigs: set = set()

    def violation(self, key, what, detail=None, spec=None):
        self.violations.append({"key": key, "what": what, "detail": detail, "spec": spec})


def _san(s: str) -> str:
    return re.sub(r"[^A-Za-z0-9_.=-]+", "_", s)[:80]


def write_evidence(pid, tier, seed, level, coverage, assumptions, wall, nviol):
    os.makedirs(EVIDENCE_DIR, exist_ok=True)
    ev = {
        "property_id": pid, "tier": tier, "seed": seed, "level": level,
        "coverage": coverage, "assumptions": assumptions, "wall_s": round(wall, 2),
        "violations": nviol,
    }
    try:
        import jsonschema

        with open("/root/.vp/EVIDENCE.schema.json") as f:
            schema = json.load(f)
        errs = list(jsonschema.Draft202012Validator(schema).iter_errors(ev))
        if errs:
            print(f"NOTE evidence for {pid} does not meet the schema: {errs[0].message[:200]}", file=sys.stderr)
    except (ImportError, FileNotFoundError):
        pass
    path = os.path.join(EVIDENCE_DIR, f"{pid}.json")
    tmp = path + ".tmp"
    with open(tmp, "w") as f:
        json.dump(ev, f, indent=1, default=str)
    os.replace(tmp, path)
    return path


def run(modname: str, tier: str, seed: int) -> int:
    t0 = time.monotonic()
    mod = importlib.import_module(modname)
    pid = mod.PID
    specs = list(mod.cases(tier, seed))
    jobs = mod.JOBS(tier) if hasattr(mod, "JOBS") else None
    results = isolate.pmap(modname, specs, jobs=jobs, timeout=getattr(mod, "TIMEOUT", 180.0),
                           env=getattr(mod, "WORKER_ENV", None))
    ctx = Ctx(mod, tier, seed, specs, results)
    for spec, r in zip(specs, results):
        st = r.get("status", "ok")
        ctx.status[st] = ctx.status.get(st, 0) + 1
        for k, v in (r.get("events") or {}).items():
            ctx.events[k] = ctx.events.get(k, 0) + int(v)
        for v in r.get("viol") or []:
            ctx.violation(v["key"], v.get("what", ""), v.get("detail"), spec)
        if r.get("nontrivial") and r.get("sig") is not None:
            ctx.sigs.add(r["sig"])
        if r.get("sample") is not None and len(ctx.samples) < 6 and r.get("nontrivial"):
            ctx.samples.append(r["sample"])
    if hasattr(mod, "finalize"):
        mod.finalize(ctx)

    # harness health
    n = len(specs)
    herr = [r for r in results if r.get("status") == "harness_error"]
    if herr:
        ctx.inconclusive.append(f"harness_error in {len(herr)} case(s): {herr[0].get('error')}")
        print(herr[0].get("trace", ""), file=sys.stderr)
    ncrash = ctx.status.get("crash", 0)
    ntimeout = ctx.status.get("timeout", 0)
    if n and (ncrash + ntimeout) > max(3, n // 20):
        ctx.inconclusive.append(f"{ncrash} crashed and {ntimeout} timed-out cases of {n}")
    anchors = probes.anchor_totals(results)
    th = mod.thresholds(tier) if hasattr(mod, "thresholds") else {}
    for ev, mn in th.items():
        if ev.startswith("anchor:"):
            got = anchors["calls"].get(ev[7:], 0)
        elif ev == "distinct_nontrivial":
            got = len(ctx.sigs)
        else:
            got = ctx.events.get(ev, 0)
        if got < mn:
            ctx.inconclusive.append(f"reach: {ev}={got} < {mn}")

    # classify violations
    known = findings.load(pid)
    by_key: dict[str, list] = {}
    for v in ctx.violations:
        by_key.setdefault(v["key"], []).append(v)
    unknown_keys, known_hits = [], {}
    for key, vs in sorted(by_key.items()):
        e = findings.match(known, key)
        if e is not None:
            known_hits.setdefault(e["key"], {"entry": e, "n": 0, "keys": set()})
            known_hits[e["key"]]["n"] += len(vs)
            known_hits[e["key"]]["keys"].add(key)
        else:
            unknown_keys.append(key)

    # confirm unknown violations from a fresh process before printing them
    confirmed, flaky = [], []
    if unknown_keys and os.environ.get("VERIF_NO_CONFIRM") != "1":
        for key in unknown_keys:
            v = by_key[key][0]
            if v.get("spec") is None or getattr(mod, "NO_CONFIRM", False):
                confirmed.append(key)
                continue
            rr = isolate.pmap(modname, [v["spec"]], jobs=1, timeout=getattr(mod, "TIMEOUT", 180.0) * 2,
                              env=getattr(mod, "WORKER_ENV", None), progress=False)[0]
            if any(x["key"] == key for x in rr.get("viol") or []):
                confirmed.append(key)
            else:
                flaky.append(key)
    else:
        confirmed = unknown_keys
    for key in flaky:
        ctx.inconclusive.append(f"violation {key} did not reproduce in a fresh process")

    replay_paths = {}
    for key in confirmed:
        v = by_key[key][0]
        d = os.path.join(REPLAY_DIR, pid)
        os.makedirs(d, exist_ok=True)
        p = os.path.join(d, f"{_san(key)}-{common.digest([key, v.get('spec')], 8)}.json")
        with open(p, "w") as f:
            json.dump({"property": pid, "module": modname, "key": key, "what": v["what"],
                       "spec": v.get("spec"), "detail": v.get("detail"), "tier": tier, "seed": seed,
                       "count": len(by_key[key])}, f, indent=1, default=str)
        replay_paths[key] = p

    wall = time.monotonic() - t0
    coverage = {
        "evaluations": n,
        "distinct_nontrivial": len(ctx.sigs),
        "rule": mod.RULE,
        "samples": ctx.samples[:6] or [common.jsonable(s) for s in specs[:2]],
        "case_status": ctx.status,
        "events": dict(sorted(ctx.events.items())),
        "anchor_calls": anchors["calls"],
        "anchor_distinct_lines": anchors["distinct_lines"],
        "reach_thresholds": th,
        "known_findings_seen": {k: {"cases": h["n"], "keys": sorted(h["keys"])[:20]} for k, h in known_hits.items()},
        "inconclusive_reasons": ctx.inconclusive,
        "violation_keys": {k: len(by_key[k]) for k in confirmed},
    }
    bad = [(sp, r) for sp, r in zip(specs, results) if r.get("status") in ("crash", "timeout")]
    if bad:
        coverage["crash_samples"] = [{"spec": sp, "status": r.get("status"), "returncode": r.get("returncode"),
                                      "stderr_tail": (r.get("stderr") or "")[-600:]} for sp, r in bad[:3]]
    if anchors["unresolved"]:
        coverage["anchors_unresolved"] = anchors["unresolved"]
    if hasattr(mod, "EXHAUSTIVE"):
        coverage["exhaustive"] = bool(mod.EXHAUSTIVE(tier))
    coverage.update(ctx.extra)
    write_evidence(pid, tier, seed, mod.LEVEL, coverage, list(getattr(mod, "ASSUMPTIONS", [])), wall, len(confirmed))

    print(f"{pid} tier={tier} seed={seed}: {n} cases, {len(ctx.sigs)} distinct non-trivial, "
          f"status={ctx.status}, {wall:.0f}s")
    for k, h in sorted(known_hits.items()):
        print(f"KNOWN-FINDING: property={pid} {h['entry'].get('what', k)} [key={k}; {h['n']} case(s)]")
    for key in confirmed:
        print(f"VIOLATION property={pid} replay={replay_paths[key]}")
        print(f"  key={key} cases={len(by_key[key])} what={by_key[key][0]['what'][:300]}")
    if confirmed:
        return 1
    if ctx.inconclusive:
        for r in ctx.inconclusive:
            print(f"INCONCLUSIVE property={pid} reason={r}")
        return 2
    print(f"HELD property={pid} on everything observed")
    return 0


def replay(modname: str, path: str) -> int:
    mod = importlib.import_module(modname)
    with open(path) as f:
        rp = json.load(f)
    if hasattr(mod, "worker_init"):
        mod.worker_init()
    r = mod.run_case(rp["spec"])
    print(json.dumps(r, indent=1, default=str)[:6000])
    hit = [v for v in r.get("viol") or [] if v["key"] == rp["key"]]
    if hit:
        print(f"VIOLATION property={mod.PID} replay={path}")
        return 1
    print("replayed case shows no violation with that key on the current tree")
    return 0
