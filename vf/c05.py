"""C05 — each shipped rewrite rule preserves semantics wherever it fires.

Rules are discovered at run time (rules.common.__all__, every RewriteRule / RewriteRuleSet attribute of
rules/common/_*.py and rules/fusion/_*.py, zero-argument public factories returning a RewriteRuleSet,
_DEFAULT_REWRITE_RULES).  Each rule is bound to a host-model *template* (vf/c05_templates.py); a rule without
a template makes the run INCONCLUSIVE.  Per host and form exactly one rule (or one exported rule set) is
applied with RewriteRuleSet([R]).apply_to_model; when it fired, ORT outputs before/after are compared on >=3
input sets and the result must pass onnx.checker and the independent walker.
"""
from __future__ import annotations

import importlib
import inspect
import json
import os
import pkgutil
import traceback

import numpy as np

from . import common

PID = "C05"
LEVEL = "exploration"
RULE = ("rules discovered at run time; per rule a template enumerates a fixed list of strata (parameter classes of the rule's "
        "space: ranks, broadcast shapes, bounds, eps-sized constants, attributes, dim kinds, operand kinds, dtypes, opsets); the "
        "seed only picks values inside a stratum; every stratum is rendered in 3 forms (inferred value_info / bare / bare with "
        "untyped pattern values); exactly one rule (or exported rule set) is applied per host; oracle only when fired: ORT "
        "before/after on 3 input sets + onnx.checker + walker. non-trivial = host on which the rule fired; distinct = "
        "(rule, stratum, form, draw)")
ASSUMPTIONS = [
    "ONNX Runtime (optimisations disabled) decides equality; onnx.reference can only downgrade a difference to 'disputed'",
    "a host is used only if the original passes onnx.checker(full) and runs on ORT for every input set",
    "whether a rule 'should not have fired' is not judged; only numerically visible or validity-breaking firing counts",
    "rules replaced by pure data movement (Identity/Reshape/Clip bounds...) are compared exactly, arithmetic fusions with vf.compare "
    "tolerances (tightened only in strata whose subject is an approximately-equal constant)",
    "rules listed in vf/c05_unfireable.json cannot fire on any checker-valid model; they are exempt from the reach requirement",
]
ANCHORS = [
    "onnxscript.rewriter._rewrite_rule:RewriteRuleSet.apply_to_model",
    "onnxscript.rewriter._rewrite_rule:RewriteRule.try_rewrite",
    "onnxscript.rewriter._matcher:SimplePatternMatcher._match_constant",
    "onnxscript.rewriter._ir_utils:get_singleton_value",
]
TIMEOUT = 1500.0
UNFIREABLE_PATH = os.path.join(os.path.dirname(os.path.abspath(__file__)), "c05_unfireable.json")
SET_HOST_CAP = 260
# conditions that name a mechanism of the rewriter itself (not of one template)
GLOBAL_CONDS = ("overridable-initializer", "new-initializer-name-exists")


def thresholds(tier):
    if tier == "thorough":
        return {"fired": 8000, "check_called": 12000, "compared": 8000, "try_rewrite_calls": 100000,
                "anchor:onnxscript.rewriter._rewrite_rule:RewriteRuleSet.apply_to_model": 30000, "distinct_nontrivial": 8000}
    return {"fired": 500, "check_called": 800, "compared": 500, "try_rewrite_calls": 5000,
            "anchor:onnxscript.rewriter._rewrite_rule:RewriteRuleSet.apply_to_model": 2000, "distinct_nontrivial": 500}


# ---------------------------------------------------------------------------------------------- discovery
_DISC = None


def discover():
    """-> dict name -> {"obj", "kind": rule|set, "members": [names], "default": bool}; deterministic order."""
    global _DISC
    if _DISC is not None:
        return _DISC
    import onnxscript.rewriter as rw
    from onnxscript.rewriter._rewrite_rule import RewriteRule, RewriteRuleSet
    from onnxscript.rewriter.rules import common as rc
    from onnxscript.rewriter.rules import fusion as rf

    out: dict[str, dict] = {}
    by_id: dict[int, str] = {}

    def add(name, obj, kind):
        if id(obj) in by_id:
            return by_id[id(obj)]
        out[name] = {"obj": obj, "kind": kind, "members": [], "default": False}
        by_id[id(obj)] = name
        return name

    def is_factory(v, modname):
        if not inspect.isfunction(v) or v.__module__ != modname or v.__name__.startswith("_"):
            return False
        try:
            sig = inspect.signature(v)
        except (TypeError, ValueError):
            return False
        if any(p.default is p.empty and p.kind in (p.POSITIONAL_ONLY, p.POSITIONAL_OR_KEYWORD, p.KEYWORD_ONLY)
               for p in sig.parameters.values()):
            return False
        ann = str(sig.return_annotation)
        return "RewriteRuleSet" in ann or v.__name__.endswith("_rules")

    sets = []
    # 1. public exports first (plain names)
    for nm in list(getattr(rc, "__all__", [])):
        v = getattr(rc, nm, None)
        if isinstance(v, RewriteRule):
            add(nm, v, "rule")
        elif isinstance(v, RewriteRuleSet):
            sets.append((add(nm, v, "set"), v))
        elif is_factory(v, getattr(v, "__module__", "")):
            try:
                s = v()
            except Exception:
                continue
            if isinstance(s, RewriteRuleSet):
                sets.append((add(nm + "()", s, "set"), s))
    # 2. module attributes
    for pkg in (rc, rf):
        for mi in sorted(pkgutil.iter_modules(pkg.__path__), key=lambda x: x.name):
            if not mi.name.startswith("_") or mi.name.endswith("_test"):
                continue
            try:
                m = importlib.import_module(pkg.__name__ + "." + mi.name)
            except Exception:
                continue
            short = mi.name
            for k in sorted(vars(m)):
                v = vars(m)[k]
                if isinstance(v, RewriteRule):
                    add(f"{short}.{k}", v, "rule")
                elif isinstance(v, RewriteRuleSet):
                    if id(v) not in by_id:
                        sets.append((add(f"{short}.{k}", v, "set"), v))
                elif is_factory(v, m.__name__) and not any(getattr(rc, e, None) is v for e in getattr(rc, "__all__", [])):
                    try:
                        s = v()
                    except Exception:
                        continue
                    if isinstance(s, RewriteRuleSet):
                        sets.append((add(f"{short}.{k}()", s, "set"), s))
    # 3. members of sets
    for sname, s in sets:
        for i, r in enumerate(s.rules):
            if isinstance(r, RewriteRule):
                out[sname]["members"].append(add(f"{sname}#{i}", r, "rule"))
    # 4. the optimizer's default list
    for i, r in enumerate(getattr(rw, "_DEFAULT_REWRITE_RULES", ())):
        if isinstance(r, RewriteRule):
            out[add(f"_DEFAULT_REWRITE_RULES#{i}", r, "rule")]["default"] = True
    _DISC = out
    return out


def unfireable():
    try:
        with open(UNFIREABLE_PATH) as f:
            return {e["rule"]: e["reason"] for e in json.load(f)["rules"]}
    except FileNotFoundError:
        return {}


# ---------------------------------------------------------------------------------------------- cases
def _plan(tier):
    """(number of draws per stratum, draws per spec)"""
    return (30, 5) if tier == "thorough" else (1, 1)


def cases(tier, seed):
    from . import c05_templates as T

    disc = discover()
    ndraw, chunk = _plan(tier)
    out = []
    for name, e in disc.items():
        if e["kind"] == "rule":
            if T.resolve(name, e["obj"]) is None:
                out.append({"rule": name, "missing_template": True})
                continue
        nd = ndraw if e["kind"] == "rule" else max(1, ndraw // 6)
        for k0 in range(0, nd, chunk):
            out.append({"rule": name, "k0": k0, "k1": min(nd, k0 + chunk), "seed": seed})
    # heavy specs first (better packing)
    out.sort(key=lambda s: (0 if disc[s["rule"]]["kind"] == "set" else 1))
    return out


# ---------------------------------------------------------------------------------------------- monitors
EV = {}
_REASONS = {}
_installed = False


def _hit(k, n=1):
    EV[k] = EV.get(k, 0) + n


def worker_init():
    global _installed
    if _installed:
        return
    from onnxscript.rewriter import _rewrite_rule as rr

    from . import probes

    def after_try(tok, r, *a, **k):
        _hit("try_rewrite_calls")
        if r is not None:
            _hit("replacement_accepted")

    def after_repl(tok, r, *a, **k):
        _hit("replacement_called")
        if r is not None:
            _hit("replacement_produced")

    probes.wrap_method(rr.RewriteRule, "try_rewrite", after=after_try)
    probes.wrap_method(rr.ReplacementPatternFunction, "get_replacement", after=after_repl)
    _installed = True


def _wrap_condition(rule):
    """Pass-through wrapper around the rule's own check callable (instance attribute)."""
    f = rule._condition_function
    if getattr(f, "_vf_wrapped", False):
        return

    def wrapped(*a, **k):
        _hit("check_called")
        try:
            r = f(*a, **k)
        except BaseException:
            _hit("check_raised")
            raise
        if r:
            _hit("check_passed")
        else:
            _hit("check_failed")
            reason = getattr(r, "reason", None) or "falsy"
            reason = str(reason)[:60]
            _REASONS[reason] = _REASONS.get(reason, 0) + 1
        return r

    wrapped._vf_wrapped = True
    wrapped.__wrapped__ = f
    rule._condition_function = wrapped


# ---------------------------------------------------------------------------------------------- running
def _session_run(sess, feeds):
    names = {i.name for i in sess.get_inputs()} | {i.name for i in sess.get_overridable_initializers()}
    return sess.run(None, {k: v for k, v in feeds.items() if k in names})


def _ort_all(model, feeds_list):
    """-> ("ok", [[outs] per feed]) | (class, msg)"""
    from . import runner

    try:
        sess = runner.ort_session(model)
    except Exception as e:
        msg = f"{type(e).__name__}: {e}"
        return ("not_implemented" if runner.classify(msg) == "not_implemented" else "load"), msg[:500]
    res = []
    for fd in feeds_list:
        try:
            res.append(_session_run(sess, fd))
        except Exception as e:
            msg = f"{type(e).__name__}: {e}"
            return ("not_implemented" if runner.classify(msg) == "not_implemented" else "run"), msg[:500]
    return "ok", res


def _diff(a_list, b_list, host):
    """-> None | (kind, text)"""
    from . import compare

    if len(a_list) != len(b_list):
        return "invalid", f"output count {len(a_list)} vs {len(b_list)}"
    for i, (a, b) in enumerate(zip(a_list, b_list)):
        a, b = np.asarray(a), np.asarray(b)
        if a.dtype != b.dtype:
            return "dtype", f"out[{i}]: dtype {a.dtype} -> {b.dtype}"
        if a.shape != b.shape:
            return "shape", f"out[{i}]: shape {a.shape} -> {b.shape}"
        if host.exact:
            d = compare.compare_value(a, b, rtol=0.0, atol=0.0)
        else:
            d = compare.compare_value(a, b, scale=host.scale, rtol=host.rtol, atol=host.atol)
        if d:
            return "value", f"out[{i}]: {d}"
    return None


def _exc_site(e):
    tb = traceback.extract_tb(e.__traceback__)
    for f in reversed(tb):
        if "/onnxscript/rewriter/" in f.filename.replace("\\", "/"):
            return f.name
    return tb[-1].name if tb else "?"


def _slug(msg, n=4):
    import re

    words = re.findall(r"[A-Za-z_]+", msg)
    return "_".join(words[:n])[:48]


def _small(x):
    return common.jsonable(x)


def eval_host(ruleset, model, host, label):
    """Apply `ruleset` to `model`; -> dict(status, fired, viol|None, detail)."""
    import onnx

    from onnxscript import ir

    from . import runner, wellformed

    bad = runner.checker(model, full=True)
    if bad:
        return {"status": "discarded_invalid", "msg": bad}
    st, before = _ort_all(model, host.feeds)
    if st != "ok":
        return {"status": "discarded_unrunnable", "msg": f"{st}: {before}"}
    for k in ("check_called", "check_passed", "check_failed", "try_rewrite_calls", "replacement_produced",
              "replacement_called", "replacement_accepted", "check_raised"):
        EV.pop("_h_" + k, None)
    base = dict(EV)
    try:
        irm = ir.serde.deserialize_model(model)
    except Exception as e:
        return {"status": "harness_deserialize", "msg": f"{type(e).__name__}: {e}"[:300]}
    try:
        count = ruleset.apply_to_model(irm)
    except Exception as e:
        return {"status": "raised", "fired": False,
                "viol": ("raises", f"{type(e).__name__}@{_exc_site(e)}:{_slug(str(e))}",
                         f"apply_to_model raised {type(e).__name__}: {str(e)[:200]} on a checker-valid model that runs on ORT"),
                "trace": traceback.format_exc()[-1200:]}
    delta = {k: EV.get(k, 0) - base.get(k, 0) for k in EV}
    if not count:
        return {"status": "not_fired", "fired": False, "delta": delta}
    try:
        after_m = ir.serde.serialize_model(irm)
    except Exception as e:
        return {"status": "fired", "fired": True, "count": count, "delta": delta,
                "viol": ("invalid", None, f"rewritten model cannot be serialised: {type(e).__name__}: {str(e)[:200]}")}
    res = {"status": "fired", "fired": True, "count": count, "delta": delta, "after": after_m}
    chk = runner.checker(after_m, full=True)
    chk_light = runner.checker(after_m, full=False) if chk else None
    wf = wellformed.check_model(after_m, allow_unknown_ops=False)
    st2, after = _ort_all(after_m, host.feeds)
    if st2 == "not_implemented":
        res["status"] = "fired_new_not_implemented"
        if chk:
            res["viol"] = ("invalid", None, f"onnx.checker rejects the rewritten model: {chk[:300]}")
        return res
    if st2 != "ok":
        res["viol"] = ("invalid", None, f"rewritten model fails on ORT ({st2}): {str(after)[:300]}"
                       + (f"; checker: {chk[:200]}" if chk else ""))
        return res
    d = None
    which = None
    for i, (b, a) in enumerate(zip(before, after)):
        d = _diff(b, a, host)
        if d:
            which = i
            break
    if d:
        # disputing witness
        s1, r1 = runner.ref_run(model, host.feeds[which])
        s2, r2 = runner.ref_run(after_m, host.feeds[which])
        if s1 == "ok" and s2 == "ok" and _diff(r1, r2, host) is None:
            res["status"] = "fired_disputed"
            res["disputed"] = d[1]
            return res
        res["viol"] = (d[0], None, f"input set {which}: {d[1]}" + (f"; checker: {chk[:160]}" if chk else ""))
        res["witness"] = {"feed": _small({k: v for k, v in host.feeds[which].items()}),
                          "before": _small(before[which]), "after": _small(after[which])}
        return res
    if chk:
        res["viol"] = ("invalid", None, ("onnx.checker(full) " if not chk_light else "onnx.checker ")
                       + f"rejects the rewritten model: {chk[:300]}")
        return res
    if wf:
        res["viol"] = ("invalid", None, f"walker: {wf[0][:300]}")
        return res
    return res


def _collect_hosts(name, entry, spec):
    """-> list of (tid, params, stratum dict, k) for a rule or a set."""
    from . import c05_templates as T

    disc = discover()
    k0, k1 = spec.get("k0", 0), spec.get("k1", 1)
    items = []
    if entry["kind"] == "rule":
        tid, params = T.resolve(name, entry["obj"])
        for st in T.strata(tid, params):
            for k in range(k0, k1):
                items.append((tid, params, st, k))
        return items
    seen = set()
    for mn in entry["members"]:
        r = T.resolve(mn, disc[mn]["obj"])
        if r is None:
            continue
        tid, params = r
        key = (tid, json.dumps(params, sort_keys=True))
        if key in seen:
            continue
        seen.add(key)
        for st in T.strata(tid, params):
            for k in range(k0, k1):
                items.append((tid, params, st, k))
    per_k = max(1, len(items) // max(1, (k1 - k0)))
    if per_k > SET_HOST_CAP:  # deterministic thinning, independent of the seed
        stride = -(-per_k // SET_HOST_CAP)
        items = [it for i, it in enumerate(items) if i % stride == 0]
    return items


def run_case(spec):
    from onnxscript.rewriter._rewrite_rule import RewriteRuleSet

    from . import c05_hosts as HH
    from . import c05_templates as T

    worker_init()
    disc = discover()
    name = spec["rule"]
    if spec.get("missing_template"):
        return {"status": "no_template", "events": {"rules_without_template": 1}, "data": {"rule": name}}
    entry = disc.get(name)
    if entry is None:
        return {"status": "rule_vanished", "data": {"rule": name}}
    obj = entry["obj"]
    if entry["kind"] == "rule":
        ruleset = RewriteRuleSet([obj])
        _wrap_condition(obj)
    else:
        ruleset = obj
        for r in obj.rules:
            _wrap_condition(r)
    seed = spec.get("seed", 0)
    viol, sigs, samples = [], [], []
    events = {}
    status_n = {}
    fired_strata = {}
    discards = []
    _REASONS.clear()

    def ev(k, n=1):
        events[k] = events.get(k, 0) + n

    forms_for_set = ("inferred", "bare", "anon")
    for tid, params, st, k in _collect_hosts(name, entry, spec):
        pj = json.dumps(params, sort_keys=True)
        forms = st.get("forms") or HH.FORMS
        if entry["kind"] == "set":
            forms = [f for f in forms if f in forms_for_set]
        rendered = {}
        for wrap in (False, True):
            need = [f for f in forms if (f == "bare+wrap") == wrap]
            if not need:
                continue
            h = HH.H(common.rng(PID, seed, tid, pj, st["sid"], k), wrap=wrap)
            try:
                st["fn"](h)
                host = h.finish()
            except T.Skip:
                continue
            inf, bare, note = HH.render(host.model, host.feeds, host.declared_out)
            if inf is None:
                ev("hosts", len(need))
                ev("discarded_invalid", len(need))
                status_n["discarded_invalid"] = status_n.get("discarded_invalid", 0) + len(need)
                if len(discards) < 12:
                    discards.append(f"{st['sid']}/render: {note}")
                continue
            for f in need:
                if f == "anon":
                    a = HH.anonymize(inf)
                    if a is not None:
                        rendered[f] = (a, host)
                    continue
                rendered[f] = (inf if f == "inferred" else bare, host)
        for f in forms:
            if f not in rendered:
                continue
            model, host = rendered[f]
            ev("hosts")
            before_ev = dict(EV)
            r = eval_host(ruleset, model, host, f"{name}/{st['sid']}/{f}/{k}")
            for kk in ("try_rewrite_calls", "check_called", "check_passed", "check_failed", "check_raised",
                       "replacement_called", "replacement_produced", "replacement_accepted"):
                dlt = EV.get(kk, 0) - before_ev.get(kk, 0)
                if dlt:
                    ev(kk, dlt)
            s = r["status"]
            status_n[s] = status_n.get(s, 0) + 1
            if s.startswith("discarded"):
                ev(s)
                if len(discards) < 12:
                    discards.append(f"{st['sid']}/{f}: {r.get('msg', '')[:260]}")
                continue
            if s == "harness_deserialize":
                ev("discarded_invalid")
                continue
            if r.get("fired"):
                ev("fired")
                fired_strata[st["sid"]] = fired_strata.get(st["sid"], 0) + 1
                sigs.append(f"{name}:{st['sid']}:{f}:{k}")
                if s == "fired":
                    ev("compared")
                elif s == "fired_disputed":
                    ev("disputed")
                elif s == "fired_new_not_implemented":
                    ev("new_not_implemented")
                if len(samples) < 1 and not r.get("viol"):
                    samples.append({"rule": name, "stratum": st["sid"], "form": f, "count": r.get("count"),
                                    "after_ops": [n.op_type for n in r["after"].graph.node][:12] if r.get("after") is not None else None})
            else:
                ev("not_fired" if s == "not_fired" else s)
            v = r.get("viol")
            if v:
                kind, cond, what = v
                if cond is None:
                    cond = st["cond"] if st["cond"] in GLOBAL_CONDS else f"{tid}:{st['cond']}"
                key = f"rule={name};kind={kind};cond={cond}"
                if kind == "raises":
                    key = "raises;" + key
                viol.append({"key": key,
                             "what": f"{name} on host {tid}/{st['sid']} ({f}): {what}",
                             "detail": {"stratum": st["sid"], "form": f, "draw": k, "template": tid, "params": params,
                                        "witness": r.get("witness"), "trace": r.get("trace"),
                                        "model": _model_text(model), "after": _model_text(r.get("after"))}})
    # one violation per key is enough for the driver; keep the first two witnesses
    kept, seen = [], {}
    for v in viol:
        seen[v["key"]] = seen.get(v["key"], 0) + 1
        if seen[v["key"]] <= 2:
            kept.append(v)
    top_reasons = dict(sorted(_REASONS.items(), key=lambda kv: -kv[1])[:6])
    return {"status": "ok", "viol": kept, "events": events, "nontrivial": bool(sigs), "sig": None,
            "sample": samples[0] if samples else None,
            "data": {"rule": name, "kind": entry["kind"], "sigs": sigs, "host_status": status_n, "fired_strata": fired_strata,
                     "viol_counts": seen, "check_fail_reasons": top_reasons, "discards": discards,
                     "hosts": events.get("hosts", 0), "fired": events.get("fired", 0)}}


def _model_text(m):
    if m is None:
        return None
    try:
        import onnx

        return onnx.printer.to_text(m)[:2500]
    except Exception:
        return None


# ---------------------------------------------------------------------------------------------- finalize
def finalize(ctx):
    disc = discover()
    unf = unfireable()
    per = {}
    for spec, r in zip(ctx.specs, ctx.results):
        name = spec["rule"]
        p = per.setdefault(name, {"hosts": 0, "fired": 0, "status": {}, "kind": disc.get(name, {}).get("kind")})
        if r.get("status") == "no_template":
            p["no_template"] = True
            continue
        d = r.get("data") or {}
        p["hosts"] += d.get("hosts", 0)
        p["fired"] += d.get("fired", 0)
        for k, v in (d.get("host_status") or {}).items():
            p["status"][k] = p["status"].get(k, 0) + v
        for s in d.get("sigs") or []:
            ctx.sigs.add(s)
    missing = sorted(n for n, p in per.items() if p.get("no_template"))
    if missing:
        ctx.inconclusive.append(f"discovered rule(s) without a template: {', '.join(missing)[:400]}")
    nofire = []
    for name, p in sorted(per.items()):
        if p.get("no_template"):
            continue
        base = name
        if p["fired"] == 0:
            if base in unf:
                continue
            nofire.append(name)
        elif base in unf:
            ctx.violation(f"rule={name};kind=listed_unfireable_fired;cond=-",
                          f"{name} is listed in c05_unfireable.json ({unf[base]}) but fired {p['fired']}x", None, None)
    if nofire:
        ctx.inconclusive.append(f"reach: {len(nofire)} discovered rule(s) never fired: {', '.join(nofire)[:600]}")
    n_rules = sum(1 for e in disc.values() if e["kind"] == "rule")
    n_sets = sum(1 for e in disc.values() if e["kind"] == "set")
    ctx.extra["rules_discovered"] = n_rules
    ctx.extra["rule_sets_discovered"] = n_sets
    ctx.extra["default_rule_members"] = sum(1 for e in disc.values() if e.get("default"))
    ctx.extra["per_rule"] = {n: {"hosts": p["hosts"], "fired": p["fired"], "status": p["status"]} for n, p in sorted(per.items())}
    ctx.extra["unfireable_listed"] = unf
    if len(per) < 100:
        ctx.inconclusive.append(f"reach: only {len(per)} rules/sets discovered (expected > 100)")
