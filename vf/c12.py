"""C12 — Python literals are promoted identically by converter, eager mode and builder.

Exhaustive walk over the onnx.defs schemas of the default domain.  For every (op, opset version), every tensor
input position (optional inputs, variadic head and tail included), every literal and every dtype the schema allows
for the sibling operands, the operand that is *actually fed to the op* is observed in the three front ends, without
executing the op:

  static   generated @script functions (one per schema, all positions x dtypes x literals in one body); the emitted
           FunctionProto is read back: input k of the op node <- Constant, or CastLike(Constant, sibling parameter);
           only that prefix is evaluated (Cast semantics decided by ONNX Runtime on a 2-node model, cached).
  eager    the generated OpsetN method is called under a recording BaseEvaluator (evaluator.default_as); its _eval
           sees the already-adapted inputs and returns dummies.
  builder  GraphBuilder(fresh graph).op.X(...); operand = node.inputs[k] (initializer const_value, or
           CastLike(initializer, like) when the sibling's dtype is unknown); after each layout the builder's
           _constant_cache is scanned: every cached initializer against every literal that was mapped to it.

Oracle: the rule of the property sentence (c12_gen) and bit-wise agreement (sign of zero included).
A front end that raises is a refusal, never a violation.
"""
from __future__ import annotations

import importlib.util
import os
import sys

import numpy as np

from . import c12_gen as G
from . import common

PID = "C12"
LEVEL = "exploration"
RULE = ("exhaustive over onnx.defs, default domain: every (op, opset version) with version in {18,23} (quick) / 13..23 "
        "(thorough), non-deprecated, with >=1 numeric/bool tensor input; literal at every tensor input position "
        "(single, optional, variadic first, variadic tail beyond the formal count), once with all other inputs supplied and "
        "once with only the required ones; literals {0,1,-3,2.5,-0.0,True,[1,2],[0.5]} plus the probes {0.0,1.0}; the type "
        "variable of the literal's position ranges over all its allowed dtypes among bool/(u)int8-64/f16/bf16/f32/f64, other "
        "type variables get a seeded different dtype; three observations per tuple (static graph read-back, eager recording "
        "evaluator, GraphBuilder typed + untyped siblings) compared bit-wise with each other and with the stated rule; plus "
        "GraphBuilder._constant_cache aliasing scan. List literals skipped where the input is documented scalar-only. "
        "non-trivial = tuple where all three front ends produced an operand; distinct = (op, since_version, argument index)")
ASSUMPTIONS = [
    "onnx.defs of the installed onnx package is the schema registry; deprecated schemas are outside the property",
    "sibling dtypes are restricted to bool, int8-64, uint8-64, float16, bfloat16, float, double (string/complex/float8/int4 siblings are not generated)",
    "Cast/CastLike semantics of the emitted Constant->CastLike prefix are those of ONNX Runtime (evaluated once per (constant, target dtype))",
    "a non-integral float literal cast to an integer type has no value stated by the rule: front ends are only compared pairwise there; "
    "a negative integer literal beside an unsigned sibling is undefined (out of range): dtype only",
    "eager siblings are onnxscript Tensors (what the body of an eagerly evaluated script function sees)",
    "required graph attributes (If/Loop/Scan/SequenceMap) are left out in the static script and given as empty graphs elsewhere; the op is never executed",
]
ANCHORS = [
    "onnxscript._internal.autocast:cast_inputs",
    "onnxscript._internal.autocast:cast_pyvalue_to_os_tensor",
    "onnxscript._internal.autocast:static_cast_inputs",
    "onnxscript._internal.converter:Converter._emit_const",
    "onnxscript._internal.tape_builder:BuilderBase._cast_inputs",
    "onnxscript._internal.tape_builder:BuilderBase._input_to_ir_value",
    "onnxscript._internal.builder:GraphBuilder._get_or_create_constant",
    "onnxscript._internal.builder:lift_initializers_to_constants",
]
TIMEOUT = 900.0
FRONTENDS = ("static", "eager", "builder", "builder-untyped", "builder-lifted")


def EXHAUSTIVE(tier):
    return True


def thresholds(tier):
    # <= 1/5 of what the unchanged tree gives at the quick tier (42386 tuples); the thorough tier walks 4.98x as much
    base = {"tuples": 8000, "schemas_driven": 70, "compared_3way": 8000, "rule_sibling": 4500, "rule_default": 3800,
            "static_castlike": 4500, "static_plain_constant": 3800, "builder_castlike": 4500,
            "cache_entries_scanned": 5000, "cache_shared_entries": 2500,
            "value_checked_against_rule": 30000, "value_checked_pairwise": 2600,
            "anchor:onnxscript._internal.autocast:cast_inputs": 16000,
            "anchor:onnxscript._internal.converter:Converter._emit_const": 8000,
            "anchor:onnxscript._internal.tape_builder:BuilderBase._cast_inputs": 20000,
            "anchor:onnxscript._internal.builder:GraphBuilder._get_or_create_constant": 16000,
            "graphs_lifted": 400, "lifted_constants_read": 8000,
            "infix_tuples": 900, "infix_static_ok": 900, "infix_eager_ok": 700, "infix_rule_default": 50,
            "infix_rule_sibling": 800, "infix_value_checked_against_rule": 1400}
    for fe in FRONTENDS:
        base[fe + "_ok"] = 8000
        # a front end that starts refusing a whole class of literals must not read as "held"
        for cls, n in (("int", 2400), ("float", 3400), ("bool", 800), ("list-int", 750), ("list-float", 750)):
            base[f"{fe}_ok_{cls}"] = n
    k = 4 if tier == "thorough" else 1
    th = {e: n * k for e, n in base.items()}
    th["distinct_nontrivial"] = 130 if tier == "thorough" else 100
    return th


def cases(tier, seed):
    pairs = G.walk(tier, seed)
    nchunk = 48 if tier == "thorough" else 32
    # heavy schemas (Loop, Pad, LSTM ...) are spread round-robin after sorting by name
    chunks = [[] for _ in range(nchunk)]
    for i, p in enumerate(pairs):
        chunks[i % nchunk].append(p)
    from . import c12_infix

    return [{"kind": "chunk", "i": i, "seed": seed, "schemas": c} for i, c in enumerate(chunks) if c] + c12_infix.specs(tier, seed)


# ================================================================ worker state
_S: dict = {}


def _state():
    if not _S:
        _S["dir"] = common.scratch_dir("vf-c12-")
        _S["cast"] = {}
        _S["nmod"] = 0
    return _S


def _hit(ev, k, n=1):
    ev[k] = ev.get(k, 0) + n


# ---------------------------------------------------------------- evaluating the Constant -> CastLike prefix
def cast_eval(arr, target, ev):
    """Value of CastLike(Constant(arr), y: target) as ONNX Runtime computes it -> np.ndarray | None."""
    st = _state()
    src = G.dt_of_np(arr.dtype)
    key = (src, arr.shape, arr.tobytes(), target)
    if key in st["cast"]:
        return st["cast"][key]
    res = None
    if src is not None and target in G.DT_NAME and target != G.STRING:
        from onnx import helper, numpy_helper

        from . import runner

        c = numpy_helper.from_array(arr, "c")
        y = numpy_helper.from_array(np.zeros((1,), dtype=G.np_dtype(target)), "y")
        nodes = [helper.make_node("Constant", [], ["c"], value=c), helper.make_node("Constant", [], ["y"], value=y),
                 helper.make_node("CastLike", ["c", "y"], ["o"])]
        out = "o"
        if target == G.BFLOAT16:  # ORT cannot hand a bfloat16 array to numpy: widen exactly, narrow back exactly
            nodes.append(helper.make_node("Cast", ["o"], ["o32"], to=G.FLOAT))
            out = "o32"
        g = helper.make_graph(nodes, "cast", [], [helper.make_empty_tensor_value_info(out)])
        m = helper.make_model(g, opset_imports=[helper.make_opsetid("", 21)], ir_version=10)
        s, o = runner.ort_run(m, {})
        _hit(ev, "cast_eval_ort")
        if s == "ok":
            res = np.asarray(o[0])
            if target == G.BFLOAT16:
                res = res.astype(G.np_dtype(G.BFLOAT16))
            if G.dt_of_np(res.dtype) != target:
                res = None
        else:
            _hit(ev, "cast_eval_unavailable")
    st["cast"][key] = res
    return res


def _ok(arr):
    arr = np.asarray(arr)
    dt = G.dt_of_np(arr.dtype)
    if dt is None:
        return ("ok", f"other:{arr.dtype}", list(arr.shape), None)
    return ("ok", dt, list(arr.shape), np.ascontiguousarray(arr).tobytes())


def _msg(e):
    return f"{type(e).__name__}: {e}"[:160].replace("\n", " ")


# ================================================================ static front end
_HEADER = ("from onnxscript import script\n"
           "from onnxscript.onnx_opset import opset{v} as op\n"
           "from onnxscript.onnx_types import BOOL, INT8, INT16, INT32, INT64, UINT8, UINT16, UINT32, UINT64, "
           "FLOAT16, BFLOAT16, FLOAT, DOUBLE, STRING\n\n")


def _pname(j, slot, dt):
    return f"a{j}_{slot}_{G.DT_NAME[dt] if isinstance(dt, int) else dt.upper()}"


def _static_source(version, name, stmts, params, need_seq, attrs):
    kw = "".join(f", {k}={v!r}" for k, v in sorted(attrs.items()))
    lines = [_HEADER.format(v=version), "@script(default_opset=op)"]
    sig = ", ".join(f"{p}: {ann}[2]" for p, ann in params)
    lines.append(f"def f({sig}):")
    if need_seq:
        lines.append("    sq = op.SequenceEmpty()")
    for tid, args, _li in stmts:
        lines.append(f"    r12_{tid} = op.{name}({', '.join(args)}{kw})")
    lines.append(f"    return r12_{stmts[0][0]}")
    return "\n".join(lines) + "\n"


def _static_convert(src):
    """Decorate + convert one generated function -> FunctionProto (exceptions propagate = refusal)."""
    st = _state()
    st["nmod"] += 1
    modname = f"vf_c12_gen_{os.getpid()}_{st['nmod']}"
    path = os.path.join(st["dir"], modname + ".py")
    with open(path, "w") as f:
        f.write(src)
    spec = importlib.util.spec_from_file_location(modname, path)
    mod = importlib.util.module_from_spec(spec)
    sys.modules[modname] = mod
    try:
        spec.loader.exec_module(mod)
        return mod.f.to_function_proto()
    finally:
        sys.modules.pop(modname, None)
        try:
            os.unlink(path)
        except OSError:
            pass


def _static_read(fp, tids, kmap, pdt, ev, version):
    """Read the operand of every statement back from the emitted function."""
    from onnx import numpy_helper

    prod = {}
    for n in fp.node:
        for o in n.output:
            prod[o] = n
    out = {}
    for tid in tids:
        n = prod.get(f"r12_{tid}")
        k = kmap[tid]
        if n is None:
            out[tid] = ("unobserved", "op node not found by its output name")
            continue
        if k >= len(n.input) or n.input[k] == "":
            out[tid] = ("ok", "missing", None, None)
            continue
        p = prod.get(n.input[k])
        if p is None:
            out[tid] = ("unobserved", f"operand {n.input[k]} has no producer")
            continue

        def const_of(node):
            if node is None or node.op_type != "Constant" or node.domain not in ("", "ai.onnx"):
                return None
            for a in node.attribute:
                if a.name == "value" and a.HasField("t"):
                    return numpy_helper.to_array(a.t)
            return None

        c = const_of(p)
        if c is not None:
            out[tid] = _ok(c)
            _hit(ev, "static_plain_constant")
            continue
        if p.op_type == "CastLike" and len(p.input) == 2:
            c = const_of(prod.get(p.input[0]))
            tgt = pdt.get(p.input[1])
            if c is None or tgt is None:
                out[tid] = ("unobserved", f"CastLike({p.input[0]}, {p.input[1]}) not of the form CastLike(Constant, parameter)")
                continue
            _hit(ev, "static_castlike")
            if version < 15:
                _hit(ev, "static_castlike_emitted_below_opset15")   # CastLike exists since opset 15 (a C02 matter, not judged here)
            if not isinstance(tgt, int):
                out[tid] = ("ok", f"other:{tgt}", None, None)
                continue
            r = cast_eval(c, tgt, ev)
            out[tid] = _ok(r) if r is not None else ("ok", tgt, None, None)
            continue
        out[tid] = ("unobserved", f"operand produced by {p.op_type}")
    return out


def _static_run(version, name, attrs, stmts, params, need_seq, kmap, pdt, ev, depth=0):
    """Convert a body of statements; when the converter refuses the whole body, split it to find who is refused."""
    try:
        fp = _static_convert(_static_source(version, name, stmts, params, need_seq, attrs))
    except Exception as e:  # the repository refuses (or fails on) this body
        if len(stmts) == 1:
            return {stmts[0][0]: ("refused", _msg(e))}
        _hit(ev, "static_body_split")
        out = {}
        # split by layout first, then halve
        groups: dict = {}
        if depth == 0:
            for s in stmts:
                groups.setdefault(s[2], []).append(s)
        if len(groups) <= 1:
            h = len(stmts) // 2
            groups = {0: stmts[:h], 1: stmts[h:]}
        for g in groups.values():
            out.update(_static_run(version, name, attrs, g, params, need_seq, kmap, pdt, ev, depth + 1))
        return out
    _hit(ev, "static_functions_converted")
    return _static_read(fp, [s[0] for s in stmts], kmap, pdt, ev, version)


# ================================================================ eager front end
_REC = None


def _recorder():
    global _REC
    if _REC is None:
        from onnxscript import tensor
        from onnxscript._internal import evaluator

        class Recorder(evaluator.BaseEvaluator):
            """Sees the inputs after BaseEvaluator._adapt_inputs; never runs the op."""

            def __init__(self):
                super().__init__()
                self.log = []

            def _eval(self, schema, inputs, attributes, closure):
                self.log.append(list(inputs))
                return [tensor.Tensor(np.zeros((1,), np.float32)) for _ in (schema.outputs or [None])]

        _REC = Recorder()
    return _REC


def _eager_operand(dt):
    from onnxscript import tensor

    if dt == "string":
        return tensor.Tensor(np.array(["a", "b"], dtype=object))
    if dt == "seq":
        return [tensor.Tensor(np.zeros((2,), np.float32))]
    return tensor.Tensor(np.zeros((2,), dtype=G.np_dtype(dt)))


# ================================================================ builder front end
def _ir_dt(dt):
    import onnx_ir as ir

    return ir.DataType(dt)


def _builder_operand(name, dt, typed):
    import onnx_ir as ir

    if not typed:
        return ir.Value(name=name)
    if dt == "seq":
        return ir.Value(name=name, type=ir.SequenceType(ir.TensorType(ir.DataType.FLOAT)))
    if dt == "string":
        return ir.Value(name=name, type=ir.TensorType(ir.DataType.STRING), shape=ir.Shape([2]))
    return ir.Value(name=name, type=ir.TensorType(_ir_dt(dt)), shape=ir.Shape([2]))


def _tensor_array(t):
    a = t.numpy()
    return np.asarray(a)


def _builder_read(out, k, likes, ev):
    """-> (obs, initializer ir.Value | None)"""
    import onnx_ir as ir

    v0 = out[0] if isinstance(out, (list, tuple)) else out
    if not isinstance(v0, ir.Value) or v0.producer() is None:
        return ("unobserved", "op call returned no node output"), None
    node = v0.producer()
    if k >= len(node.inputs) or node.inputs[k] is None:
        return ("ok", "missing", None, None), None
    v = node.inputs[k]
    p = v.producer()
    if p is None and v.const_value is not None:
        return _ok(_tensor_array(v.const_value)), v
    if p is not None and p.op_type == "Constant" and v.const_value is not None:
        return _ok(_tensor_array(v.const_value)), v
    if p is not None and p.op_type == "CastLike" and len(p.inputs) == 2:
        c, like = p.inputs
        tgt = likes.get(id(like))
        if c is None or c.const_value is None or tgt is None:
            return ("unobserved", "CastLike not of the form CastLike(initializer, sibling)"), None
        _hit(ev, "builder_castlike")
        if not isinstance(tgt, int):
            return ("ok", f"other:{tgt}", None, None), c
        r = cast_eval(_tensor_array(c.const_value), tgt, ev)
        return (_ok(r) if r is not None else ("ok", tgt, None, None)), c
    return ("unobserved", f"operand produced by {p.op_type if p is not None else None}"), None


def _const_node_array(node):
    """value of a Constant node as ONNX defines it, read from the node's *serialized* form -> np.ndarray | None"""
    import onnx_ir as ir
    from onnx import numpy_helper

    proto = ir.serde.serialize_node(node)
    if proto.op_type != "Constant" or proto.domain not in ("", "ai.onnx") or len(proto.attribute) != 1:
        return None
    a = proto.attribute[0]
    if a.name == "value" and a.HasField("t"):
        return numpy_helper.to_array(a.t)
    if a.name == "value_float":
        return np.array(a.f, dtype=np.float32)
    if a.name == "value_int":
        return np.array(a.i, dtype=np.int64)
    if a.name == "value_floats":
        return np.array(list(a.floats), dtype=np.float32)
    if a.name == "value_ints":
        return np.array(list(a.ints), dtype=np.int64)
    return None


def _lift_and_read(graph, traced, ev):
    """The same traced graph as a *function body*: lift_initializers_to_constants (what build_function does) and read every
    literal operand again, this time from the serialized Constant node that now produces it."""
    if not traced:
        return
    try:
        from onnxscript._internal.builder import lift_initializers_to_constants
    except Exception:
        _hit(ev, "lift_api_absent")
        return
    try:
        lift_initializers_to_constants(graph)
    except Exception as e:
        for t, _out, _likes in traced:
            t["obs"]["builder-lifted"] = ("refused", _msg(e))
        return
    _hit(ev, "graphs_lifted")
    import onnx_ir as ir

    for t, out, likes in traced:
        k = t["it"]["lay"]["k"]
        v0 = out[0] if isinstance(out, (list, tuple)) else out
        if not isinstance(v0, ir.Value) or v0.producer() is None:
            t["obs"]["builder-lifted"] = ("unobserved", "op call returned no node output")
            continue
        node = v0.producer()
        if k >= len(node.inputs) or node.inputs[k] is None:
            t["obs"]["builder-lifted"] = ("ok", "missing", None, None)
            continue
        p = node.inputs[k].producer()
        tgt = None
        if p is not None and p.op_type == "CastLike" and len(p.inputs) == 2 and p.inputs[0] is not None:
            tgt = likes.get(id(p.inputs[1]))
            p = p.inputs[0].producer()
            if tgt is None:
                t["obs"]["builder-lifted"] = ("unobserved", "CastLike not of the form CastLike(constant, sibling)")
                continue
        arr = _const_node_array(p) if p is not None else None
        if arr is None:
            t["obs"]["builder-lifted"] = ("unobserved", f"after lifting the operand is produced by {p.op_type if p is not None else None}")
            continue
        _hit(ev, "lifted_constants_read")
        if tgt is None:
            t["obs"]["builder-lifted"] = _ok(arr)
        elif not isinstance(tgt, int):
            t["obs"]["builder-lifted"] = ("ok", f"other:{tgt}", None, None)
        else:
            r = cast_eval(arr, tgt, ev)
            t["obs"]["builder-lifted"] = _ok(r) if r is not None else ("ok", tgt, None, None)


# ================================================================ one schema
def _drive(name, since, version, seed, acc):
    ev = acc["events"]
    plan = G.plan(name, since, version, seed)
    if "skip" in plan:
        _hit(ev, "schema_skipped_" + plan["skip"])
        return
    _hit(ev, "schemas_driven")
    formals, attrs, graphs = plan["formals"], plan["attrs"], plan["graphs"]
    acc["formals"] = formals
    n_fixed = len(formals) - (1 if formals[-1]["option"] == "Variadic" else 0)

    # ---- enumerate tuples
    tuples = []  # dict(tid, item, ci, lidx, E, ...)
    for it in plan["items"]:
        lay = it["lay"]
        fp_ = formals[lay["p"]]
        for ci, combo in enumerate(it["combos"]):
            for lidx, (text, val, _core) in enumerate(G.LITERALS):
                if isinstance(val, list) and not fp_["list_ok"]:
                    _hit(ev, "list_literal_skipped_scalar_only_input")
                    continue
                if G.denied(name, fp_["name"], val):
                    _hit(ev, "tuple_excluded_division_by_zero")
                    continue
                E = combo[fp_["type_str"]] if it["sharing"] else G.default_dtype(val)
                tuples.append({"tid": len(tuples), "it": it, "ci": ci, "lidx": lidx, "E": E, "obs": {}})
    _hit(ev, "tuples", len(tuples))
    if not tuples:
        return
    by_item: dict = {}
    for t in tuples:
        by_item.setdefault((t["it"]["li"], t["ci"]), []).append(t)

    # ---- static
    params, pdt, stmts, kmap, need_seq = {}, {}, [], {}, False
    for t in tuples:
        lay, combo = t["it"]["lay"], t["it"]["combos"][t["ci"]]
        args = []
        for a in lay["args"]:
            if a is None:
                args.append("None")
            elif a == "L":
                args.append(G.LITERALS[t["lidx"]][0])
            else:
                dt = G.operand_dtype(formals, combo, a[0], a[1])
                if dt == "seq":
                    need_seq = True
                    args.append("sq")
                else:
                    pn = _pname(a[0], a[1], dt)
                    params[pn] = G.DT_NAME[dt] if isinstance(dt, int) else "STRING"
                    pdt[pn] = dt
                    args.append(pn)
        stmts.append((t["tid"], args, t["it"]["li"]))
        kmap[t["tid"]] = lay["k"]
    sres = _static_run(version, name, attrs, stmts, sorted(params.items()), need_seq, kmap, pdt, ev)
    for t in tuples:
        t["obs"]["static"] = sres.get(t["tid"], ("unobserved", "no result"))

    # ---- eager
    from onnxscript import onnx_opset, tensor
    from onnxscript._internal import evaluator

    inst = onnx_opset.all_opsets.get(("", version))
    meth = getattr(inst, name, None) if inst is not None else None
    rec = _recorder()
    eager_kw = dict(attrs)
    if graphs:
        import onnx

        for gname in graphs:
            eager_kw[gname] = onnx.GraphProto()
    if meth is None:
        for t in tuples:
            t["obs"]["eager"] = ("unobserved", f"opset{version} has no method {name}")
    else:
        ops_cache = {}
        with evaluator.default_as(rec):
            for t in tuples:
                lay, combo = t["it"]["lay"], t["it"]["combos"][t["ci"]]
                args = []
                for a in lay["args"]:
                    if a is None:
                        args.append(None)
                    elif a == "L":
                        v = G.LITERALS[t["lidx"]][1]
                        args.append(list(v) if isinstance(v, list) else v)
                    else:
                        dt = G.operand_dtype(formals, combo, a[0], a[1])
                        if dt not in ops_cache:
                            ops_cache[dt] = _eager_operand(dt)
                        args.append(ops_cache[dt])
                while len(args) < n_fixed:
                    args.append(None)
                rec.log.clear()
                try:
                    meth(*args, **eager_kw)
                except Exception as e:
                    t["obs"]["eager"] = ("refused", _msg(e))
                    continue
                if len(rec.log) != 1:
                    t["obs"]["eager"] = ("unobserved", f"evaluator saw {len(rec.log)} calls")
                    continue
                ins = rec.log[0]
                k = lay["k"]
                if k >= len(ins) or ins[k] is None:
                    t["obs"]["eager"] = ("ok", "missing", None, None)
                elif isinstance(ins[k], tensor.Tensor):
                    t["obs"]["eager"] = _ok(ins[k].value)
                else:
                    t["obs"]["eager"] = ("ok", f"other:unpromoted {type(ins[k]).__name__}", None, None)

    # ---- builder (typed siblings, then siblings of unknown dtype)
    import onnx_ir as ir

    from onnxscript._internal.builder import GraphBuilder

    alias_tids = {"builder": set(), "builder-untyped": set()}
    for fe, typed in (("builder", True), ("builder-untyped", False)):
        for it in plan["items"]:
            lay = it["lay"]
            graph = ir.Graph(inputs=[], outputs=[], nodes=[], name="g", opset_imports={"": version})
            try:
                gb = GraphBuilder(graph)
            except Exception as e:
                for ci in range(len(it["combos"])):
                    for t in by_item.get((it["li"], ci), []):
                        t["obs"][fe] = ("refused", _msg(e))
                continue
            kw = dict(attrs)
            for gname in graphs:
                kw[gname] = ir.Graph(inputs=[], outputs=[], nodes=[], name=gname, opset_imports={"": version})
            uses: dict = {}   # id(initializer) -> (ir.Value, [tuple ...])
            traced: list = []  # (tuple, op result, likes) of this graph, re-read after lifting
            nval = 0
            for ci, combo in enumerate(it["combos"]):
                ts = {t["lidx"]: t for t in by_item.get((it["li"], ci), [])}
                likes, vals = {}, {}
                for a in lay["args"]:
                    if isinstance(a, list):
                        dt = G.operand_dtype(formals, combo, a[0], a[1])
                        nval += 1
                        v = _builder_operand(f"x{nval}", dt, typed)
                        graph.inputs.append(v)
                        vals[(a[0], a[1])] = v
                        likes[id(v)] = dt
                for lidx in it["order"]:
                    t = ts.get(lidx)
                    if t is None:
                        continue
                    lv = G.LITERALS[lidx][1]
                    args = [None if a is None else ((list(lv) if isinstance(lv, list) else lv) if a == "L"
                                                    else vals[(a[0], a[1])]) for a in lay["args"]]
                    try:
                        out = getattr(gb.op, name)(*args, **kw)
                    except Exception as e:
                        t["obs"][fe] = ("refused", _msg(e))
                        continue
                    obs, init = _builder_read(out, lay["k"], likes, ev)
                    t["obs"][fe] = obs
                    if init is not None:
                        uses.setdefault(id(init), (init, []))[1].append(t)
                    if typed:
                        traced.append((t, out, likes))
            # ---- aliasing scan of the constant cache of this builder
            cache = getattr(gb, "_constant_cache", None)
            if cache is None:
                _hit(ev, "builder_cache_absent")
                _lift_and_read(graph, traced, ev)
                continue
            for key, cv in cache.items():
                _hit(ev, "cache_entries_scanned")
                ent = uses.get(id(cv))
                if ent is None or cv.const_value is None:
                    continue
                arr = _tensor_array(cv.const_value)
                adt, abits = G.dt_of_np(arr.dtype), np.ascontiguousarray(arr).tobytes()
                want = {}
                for t in ent[1]:
                    lv = G.LITERALS[t["lidx"]][1]
                    # dtype the initializer itself should have: the rule's dtype (typed sibling) or the default one
                    idt = t["E"] if (typed or not t["it"]["sharing"]) else G.default_dtype(lv)
                    st_, b = G.lit_bits(lv, idt)
                    if st_ in ("exact", "bool"):
                        want.setdefault((idt, tuple(G.lit_shape(lv)), b), []).append(t)
                if len(ent[1]) > 1:
                    _hit(ev, "cache_shared_entries")
                if len(want) <= 1:
                    continue
                # one tensor, several literals whose tensors must differ: who got the wrong one?
                good = (adt, tuple(arr.shape), abits)
                first = want.get(good)
                for w, wt in sorted(want.items(), key=lambda x: str(x[0])):
                    if w == good:
                        continue
                    for t in wt:
                        alias_tids[fe].add(t["tid"])
                    a_txt = G.LITERALS[wt[0]["lidx"]][0]
                    b_txt = G.LITERALS[first[0]["lidx"]][0] if first else "?"
                    acc["viol"](_alias_key(fe, w, good, a_txt, b_txt),
                                f"GraphBuilder._constant_cache: literal {a_txt} (wanted {G.DT_NAME.get(w[0], w[0])} bytes {w[2].hex()}) is "
                                f"given the initializer {cv.name!r} created for {b_txt} ({G.DT_NAME.get(adt, adt)} bytes {abits.hex()}); "
                                f"cache key {key!r}; op.{name}(opset {version}) argument {lay['k']}",
                                {"op": name, "version": version, "k": lay["k"], "cache_key": repr(key), "initializer": cv.name,
                                 "typed_siblings": typed})
            _lift_and_read(graph, traced, ev)

    # ---- oracle
    for t in tuples:
        _judge(name, since, version, t, alias_tids, acc)


def _alias_key(fe, want, got, a_txt, b_txt):
    wdt, wshape, wb = want
    gdt, gshape, gb_ = got
    if wdt == gdt and wshape == gshape and wdt in G.FLOATS:
        a = np.frombuffer(wb, dtype=G.np_dtype(wdt)).astype(np.float64)
        b = np.frombuffer(gb_, dtype=G.np_dtype(wdt)).astype(np.float64)
        if a.shape == b.shape and np.all(a == b) and np.all(a == 0):
            return "frontend=builder;kind=cache_alias;lits=0.0/-0.0"
    if wdt != gdt:
        return "frontend=builder;kind=cache_alias;dtype=differs"
    pair = "/".join(sorted([a_txt, b_txt], key=lambda x: [l[0] for l in G.LITERALS].index(x) if x != "?" else 99))
    return f"frontend=builder;kind=cache_alias;lits={pair}"


def _judge(name, since, version, t, alias_tids, acc):
    ev = acc["events"]
    it, lay = t["it"], t["it"]["lay"]
    text, val, core = G.LITERALS[t["lidx"]]
    E = t["E"]
    st, ebits = G.lit_bits(val, E)
    eshape = G.lit_shape(val)
    rule = "sibling" if it["sharing"] else f"default:{it['why']}"
    _hit(ev, "rule_sibling" if it["sharing"] else "rule_default")
    want = "sibling" if it["sharing"] else G.DT_NAME[E]
    oks = {}
    for fe in FRONTENDS:
        o = t["obs"].get(fe, ("unobserved", "not driven"))
        if o[0] == "ok":
            _hit(ev, fe + "_ok")
            _hit(ev, f"{fe}_ok_{G.lit_class(val)}")
            oks[fe] = o
        elif o[0] == "refused":
            _hit(ev, fe + "_refused")
            acc["refusal"](fe, o[1])
        else:
            _hit(ev, fe + "_unobserved")
            acc["unobserved"](fe, o[1], name, version)
    if all(f in oks for f in ("static", "eager", "builder")):
        _hit(ev, "compared_3way")
        acc["sigs"].add(f"{name}:{since}:k{lay['k']}")
        if acc["sample"] is None and it["sharing"] and text == "-0.0" and E in G.FLOATS:
            acc["sample"] = {"op": name, "opset": version, "call": _call_text(name, t, acc["formals"]), "rule": rule,
                             "expected": [G.DT_NAME[E], eshape, (ebits or b"").hex()],
                             "observed": {fe: [G.DT_NAME.get(o[1], o[1]), o[2], (o[3] or b"").hex()] for fe, o in oks.items()}}
    where = {"op": name, "since": since, "version": version, "k": lay["k"], "call": _call_text(name, t, acc["formals"]), "rule": rule}
    for fe, o in oks.items():
        afe = "builder" if fe == "builder-lifted" else fe
        aliased = afe in alias_tids and t["tid"] in alias_tids[afe]
        got = o[1]
        if got != E:
            if aliased:
                continue
            gname = G.DT_NAME.get(got, got)
            acc["viol"](f"frontend={fe};kind=dtype;rule={'sibling' if it['sharing'] else 'default'};want={want};op-class={lay['pos']}",
                        f"{fe}: {where['call']} (opset {version}) feeds argument {lay['k']} as {gname}, the rule says {G.DT_NAME[E]} ({rule})",
                        dict(where, got=gname, expected=G.DT_NAME[E]))
            continue
        if o[2] is not None and list(o[2]) != eshape:
            acc["viol"](f"frontend={fe};kind=shape;lit={G.lit_class(val)}",
                        f"{fe}: {where['call']} (opset {version}) feeds argument {lay['k']} with shape {o[2]}, literal has shape {eshape}",
                        dict(where, got=o[2]))
            continue
        if o[3] is None:
            _hit(ev, fe + "_value_unknown")
            continue
        if st in ("exact", "bool"):
            _hit(ev, "value_checked_against_rule")
            if o[3] != ebits and not aliased:
                acc["viol"](f"frontend={fe};kind=value;lit={text};to={G.kind_class(E)}",
                            f"{fe}: {where['call']} (opset {version}) feeds argument {lay['k']} as {G.DT_NAME[E]} bytes {o[3].hex()}, "
                            f"the literal {text} is bytes {ebits.hex()}",
                            dict(where, got=o[3].hex(), expected=ebits.hex()))
    if st == "inexact":
        # the sentence states no value: the front ends must still agree with each other
        fes = [fe for fe in oks if oks[fe][1] == E and oks[fe][3] is not None]
        for i, a in enumerate(fes):
            for b in fes[i + 1:]:
                _hit(ev, "value_checked_pairwise")
                if oks[a][3] != oks[b][3] or oks[a][2] != oks[b][2]:
                    acc["viol"](f"pair={a}/{b};kind=value;lit={text};to={G.kind_class(E)}",
                                f"{where['call']} (opset {version}) argument {lay['k']} as {G.DT_NAME[E]}: {a} feeds bytes {oks[a][3].hex()}, "
                                f"{b} feeds {oks[b][3].hex()}", dict(where))
    elif st == "ub":
        _hit(ev, "value_skipped_out_of_range")


def _call_text(name, t, formals):
    it = t["it"]
    combo = it["combos"][t["ci"]]
    parts = []
    for a in it["lay"]["args"]:
        if a is None:
            parts.append("None")
        elif a == "L":
            parts.append(G.LITERALS[t["lidx"]][0])
        else:
            dt = G.operand_dtype(formals, combo, a[0], a[1])
            parts.append(f"<{G.DT_NAME[dt] if isinstance(dt, int) else dt}>")
    return f"op.{name}({', '.join(parts)})"



# ================================================================ contract
def run_case(spec):
    import warnings

    warnings.filterwarnings("ignore")
    if spec.get("kind") == "infix":
        from . import c12_infix

        return c12_infix.drive(spec, sys.modules[__name__])
    events: dict = {}
    viol: dict = {}
    refusals: dict = {}
    unobs: dict = {}

    def add_viol(key, what, detail):
        e = viol.get(key)
        if e is None:
            viol[key] = {"key": key, "what": what, "detail": dict(detail, count=1)}
        else:
            e["detail"]["count"] += 1

    def add_refusal(fe, msg):
        k = f"{fe}: {msg[:70]}"
        refusals[k] = refusals.get(k, 0) + 1

    def add_unobs(fe, why, name, version):
        k = f"{fe}: {why[:90]}"
        unobs.setdefault(k, {"n": 0, "ex": f"{name}@{version}"})["n"] += 1

    acc = {"events": events, "viol": add_viol, "refusal": add_refusal, "unobserved": add_unobs, "sigs": set(),
           "sample": None}
    for name, since, version in spec["schemas"]:
        _drive(name, since, version, spec.get("seed", 0), acc)
    top_ref = dict(sorted(refusals.items(), key=lambda x: -x[1])[:40])
    return {"status": "ok", "viol": list(viol.values()), "events": events, "nontrivial": bool(acc["sigs"]), "sig": None,
            "sample": acc["sample"],
            "data": {"sigs": sorted(acc["sigs"]), "refusals": top_ref, "unobserved": unobs}}


def finalize(ctx):
    refusals, unobs = {}, {}
    for r in ctx.results:
        d = (r or {}).get("data") or {}
        for s in d.get("sigs") or []:
            ctx.sigs.add(s)
        for k, n in (d.get("refusals") or {}).items():
            refusals[k] = refusals.get(k, 0) + n
        for k, e in (d.get("unobserved") or {}).items():
            u = unobs.setdefault(k, {"n": 0, "ex": e["ex"]})
            u["n"] += e["n"]
    ctx.extra["refusals_top"] = dict(sorted(refusals.items(), key=lambda x: -x[1])[:25])
    ctx.extra["unobserved"] = unobs
    ev = ctx.events
    # the walk claims to be exhaustive: a chunk lost to a dead or hung worker is a hole, not a pass
    lost = [(sp.get("i"), (r or {}).get("status")) for sp, r in zip(ctx.specs, ctx.results)
            if (r or {}).get("status") in ("crash", "timeout")]
    if lost:
        ctx.inconclusive.append(f"{len(lost)} chunk(s) lost to a worker crash/timeout (chunk, status): {lost[:5]}")
    # an operand the harness could not read is a hole in the observation, not a pass
    for fe in FRONTENDS:
        n_un, n_ok = ev.get(fe + "_unobserved", 0), ev.get(fe + "_ok", 0)
        if n_un > max(20, n_ok // 50):
            ctx.inconclusive.append(f"{fe}: {n_un} operands could not be read back ({n_ok} read); see coverage.unobserved")
