"""C19 - ONNX Runtime fusions preserve numerical results.

Workload: parametric pattern instances (vf.c19_models: @script functions in module-level factories) per fusion and
configuration class, plus the repository's own cut-out models as anchors.  Every instance is run
  (a) through the single fusion (its pipeline stage list, e.g. sdpa -> mha1 -> mha2) after exactly the preparation
      fuse_xformers applies (ShapeInferencePass + optimize), and
  (b) through optimize_for_ort.
Monitor: the fusion_count each fuse_* returns / optimize_for_ort reports (fired / declined per fusion and class).
Oracle: ORT (contrib ops, optimisations disabled) before vs after.  A fusion that declines is always fine.
"""
from __future__ import annotations

import re
import traceback

import numpy as np

from . import common

PID = "C19"
LEVEL = "exploration"
RULE = ("strata = fusion x configuration class (structure switches, dtype, near-miss switches), every stratum visited at every seed; "
        "the seed picks sizes (B,S,H,D,heads...), epsilon/scale constants and input data inside a stratum. Each instance: single "
        "fusion pipeline after ShapeInferencePass+optimize, and optimize_for_ort; anchors = repo cut-out models at their fixed sizes. "
        "Near-miss classes include look-alikes that must NOT be fused or must be fused faithfully: epsilon added after the square root / mean absolute "
        "value in an RMS-norm-shaped graph (inputs with a small-magnitude row), BiasGelu biases that are a vector along another axis than the last "
        "([D,1], [1,D,1] on square inputs). "
        "non-trivial = instance on which the target fusion fired (single path or optimize_for_ort) and both models ran on ORT; "
        "distinct = fusion + class + path")
ASSUMPTIONS = [
    "ONNX Runtime 1.30 CPU kernels (incl. com.microsoft contrib ops) decide; NOT_IMPLEMENTED for a dtype is inconclusive for that instance",
    "baseline of the single-fusion path is the model after ShapeInferencePass+optimize (what fuse_xformers feeds the fusions); a difference "
    "introduced by that preparation alone belongs to C03 and is only counted",
    "temporary fusion ops (ai.onnxruntime._fusion::SDPA) are judged after the lowering stage the repository pairs them with",
    "tolerances: float32 rtol 1e-3 atol 1e-4, float16 rtol 2e-2 atol 2e-2",
]
ANCHORS = [
    "onnxscript.rewriter.ort_fusions._core:fuse_xformers",
    "onnxscript.rewriter.ort_fusions._core:optimize_for_ort",
    "onnxscript.rewriter.ort_fusions._core:_pre_optimize",
    "onnxscript.rewriter._fusion_utils:check_shape",
    "onnxscript.rewriter._fusion_utils:check_shape_bool",
    "onnxscript.rewriter.ort_fusions.rms_normalization:RmsNormFusion.rewrite",
    "onnxscript.rewriter.ort_fusions.skip_normalization:SkipRmsNormFusion.rewrite",
    "onnxscript.rewriter.ort_fusions.skip_normalization:SkipLayerNormFusion.rewrite",
    "onnxscript.rewriter.ort_fusions.sdpa:SDPA.rewrite",
    "onnxscript.rewriter.ort_fusions.mha:MultiHeadAttention.rewrite",
    "onnxscript.rewriter.ort_fusions.mha_bias:FuseBiasMHA.rewrite",
    "onnxscript.rewriter.ort_fusions.mha_scale:FuseMHAScale.rewrite",
    "onnxscript.rewriter.ort_fusions.attention:AttentionFusion.rewrite",
    "onnxscript.rewriter.ort_fusions.gqa:GroupQueryAttention.rewrite",
    "onnxscript.rewriter.ort_fusions.cos_sin_cache:CosSinCacheFusion.rewrite",
    "onnxscript.rewriter.ort_fusions.rotary_embedding:RotaryEmbeddingFusion.rewrite",
    "onnxscript.rewriter.ort_fusions.bias_gelu:BiasGeluFusion.rewrite",
]
TIMEOUT = 900.0

TOL = {"f32": (1e-3, 1e-4), "f16": (2e-2, 2e-2)}

# fusions this check makes fire on the unchanged tree (reach threshold: each fires >= 1 per run)
COVERED = ["erf_gelu", "gelu", "bias_gelu", "rms_normalization", "skip_rms_normalization", "skip_layer_normalization",
           "rotary_embedding", "cos_sin_cache", "partial_rotary_embedding", "sdpa", "mha", "mha_scale", "mha_bias", "attention",
           "gqa", "packed_qkv_for_gqa", "fused_matmul", "softmax_upcast", "gemm_to_matmul_add"]
NOT_COVERED = {
    "layer_normalization": "no such fusion exists in onnxscript/rewriter/ort_fusions at the pinned commit (LayerNormalization is only an input of skip_layer_normalization)",
    "group_normalization_merge_silu": "rule set is commented out of ORT_PATTERN_REWRITE_RULES (never applied by optimize_for_ort) and matches a torch sub-module call",
    "instance_to_group_normalization": "fires, but com.microsoft::GroupNorm has no CPU kernel in this ORT build (NOT_IMPLEMENTED) - counted, never judged",
    "phi2lm/phi4lm/smollm anchors": "1.3 GB / >2 GB / 0.7-1.1 GB protos: smollm_1/2 only in the thorough tier, phi* excluded (phi4lm exceeds the protobuf limit)",
}


# ----------------------------------------------------------------------------------------------- strata
def _sz(rng, kind):
    """size samplers (JSON-able dicts)"""
    if kind == "act":
        return {"shape": rng.choice([[2, 8], [3, 4, 16], [2, 3, 4, 8], [16], [1, 1, 32]])}
    if kind == "bsd":
        return {"B": rng.choice([1, 2, 3]), "S": rng.choice([1, 4, 7]), "D": rng.choice([8, 16, 24, 64])}
    if kind == "norm_shape":
        r = rng.choice([2, 3, 3, 4])
        return {"shape": [rng.choice([1, 2, 3]) for _ in range(r - 1)] + [rng.choice([8, 16, 30])]}
    if kind == "rot":
        return {"B": rng.choice([1, 2]), "H": rng.choice([1, 2, 4]), "S": rng.choice([1, 4, 6]), "E": rng.choice([4, 8, 16])}
    if kind == "att4":
        S = rng.choice([1, 3, 8])
        return {"B": rng.choice([1, 2]), "H": rng.choice([1, 2, 4]), "S": S, "Dh": rng.choice([8, 16, 64])}
    if kind == "att3":
        return {"B": rng.choice([1, 2]), "S": rng.choice([1, 3, 8]), "H": rng.choice([1, 2, 4]), "Dh": rng.choice([8, 16, 32])}
    if kind == "gqa":
        Hkv = rng.choice([1, 2, 4])
        return {"S": rng.choice([2, 4, 8]), "P": rng.choice([4, 16]), "Hkv": Hkv, "H": Hkv * rng.choice([2, 4]), "Dh": rng.choice([16, 32])}
    if kind == "none":
        return {}
    raise ValueError(kind)


def _strata():
    """list of (maker, class switches, size sampler kind, derived-args function name or None)"""
    S = []
    for dt in ("f32", "f16"):
        for form in (1, 2, 3):
            S.append(("erf_gelu", {"form": form, "dtype": dt}, "act"))
            S.append(("erf_gelu", {"form": form, "dtype": dt, "literal": True}, "act") if form != 3 else
                     ("erf_gelu", {"form": form, "dtype": dt, "commuted": True}, "act"))
        S.append(("tanh_gelu", {"dtype": dt}, "act"))
        S.append(("tanh_gelu", {"dtype": dt, "literal": True}, "act"))
    S.append(("erf_gelu", {"form": 1, "dtype": "f32", "commuted": True}, "act"))
    S.append(("erf_gelu", {"form": 1, "dtype": "f32", "sqrt2": 1.41}, "act"))
    S.append(("erf_gelu", {"form": 2, "dtype": "f32", "half": 0.51}, "act"))
    S.append(("erf_gelu", {"form": 3, "dtype": "f32", "sqrt2": 1.5}, "act"))
    S.append(("tanh_gelu", {"dtype": "f32", "int_pow": False}, "act"))
    S.append(("tanh_gelu", {"dtype": "f32", "coef": 0.05}, "act"))
    for contrib in (False, True):
        for comm in (False, True):
            S.append(("bias_gelu", {"dtype": "f32", "contrib": contrib, "commuted": comm}, "act"))
        S.append(("bias_gelu", {"dtype": "f16", "contrib": contrib}, "act"))
    S.append(("bias_gelu", {"dtype": "f32", "contrib": False, "approximate": True}, "act"))
    S.append(("bias_gelu", {"dtype": "f32", "contrib": True, "bias_rank": 2}, "act"))
    # biases that are "a vector up to singleton dims" but NOT along the last axis (square input so that they type-check), for
    # every Gelu spelling and both operand orders; and the harmless [1,1,D] / full [D,D] forms
    for contrib in (False, True):
        for comm in (False, True):
            S.append(("bias_gelu", {"dtype": "f32", "contrib": contrib, "commuted": comm, "bias_rank": "col", "_shape": [2, 4, 4]}, "act"))
        S.append(("bias_gelu", {"dtype": "f32", "contrib": contrib, "bias_rank": "mid", "_shape": [3, 5, 5]}, "act"))
    S.append(("bias_gelu", {"dtype": "f32", "contrib": False, "bias_rank": 3}, "act"))
    S.append(("bias_gelu", {"dtype": "f32", "contrib": False, "bias_rank": "full", "_shape": [2, 4, 4]}, "act"))
    # rms norm: mul order x cast placement
    for sf in (False, True):
        S.append(("rms_norm", {"dtype": "f32", "scale_first": sf}, "norm_shape"))
        S.append(("rms_norm", {"dtype": "f16", "scale_first": sf, "cast_in": True}, "norm_shape"))
        S.append(("rms_norm", {"dtype": "f16", "scale_first": sf, "cast_in": True, "cast_scale": True}, "norm_shape"))
        S.append(("rms_norm", {"dtype": "f16", "scale_first": sf}, "norm_shape"))
    S.append(("rms_norm", {"dtype": "f32", "eps_form": "scalar"}, "norm_shape"))
    S.append(("rms_norm", {"dtype": "f32", "literal": True}, "norm_shape"))
    S.append(("rms_norm", {"dtype": "f32", "eps_form": "input"}, "norm_shape"))
    S.append(("rms_norm", {"dtype": "f32", "axis": -2}, "norm_shape"))
    S.append(("rms_norm", {"dtype": "f32", "recip": False}, "norm_shape"))
    S.append(("rms_norm", {"dtype": "f32", "pow_exp": 3.0}, "norm_shape"))
    # look-alikes that are not an RMS normalisation (inputs contain a small-magnitude row, where they differ most)
    for sf in (False, True):
        S.append(("rms_norm", {"dtype": "f32", "eps_after_sqrt": True, "scale_first": sf}, "norm_shape"))
    S.append(("rms_norm", {"dtype": "f32", "eps_after_sqrt": True, "recip": False}, "norm_shape"))
    S.append(("rms_norm", {"dtype": "f16", "eps_after_sqrt": True, "cast_in": True}, "norm_shape"))
    S.append(("rms_norm", {"dtype": "f32", "abs_mean": True}, "norm_shape"))
    S.append(("rms_norm", {"dtype": "f32", "scale_shape": "scalar"}, "norm_shape"))
    S.append(("rms_norm", {"dtype": "f32", "scale_shape": "1D"}, "norm_shape"))
    S.append(("rms_norm", {"dtype": "f32", "scale_shape": "full"}, "norm_shape"))
    for bias in ("none", "pre", "post"):
        for sf in (False, True):
            S.append(("skip_rms", {"dtype": "f32", "bias": bias, "skip_first": sf}, "bsd"))
            S.append(("skip_layer_norm", {"dtype": "f32", "bias": bias, "skip_first": sf}, "bsd"))
        S.append(("skip_rms", {"dtype": "f16", "bias": bias}, "bsd"))
        S.append(("skip_layer_norm", {"dtype": "f16", "bias": bias}, "bsd"))
    S.append(("skip_rms", {"dtype": "f32", "bias": "post", "rank2": True}, "bsd"))
    S.append(("skip_rms", {"dtype": "f32", "bias": "post", "d_mismatch": True}, "bsd"))
    S.append(("skip_rms", {"dtype": "f32", "bias": "none", "use_sum": False}, "bsd"))
    S.append(("skip_layer_norm", {"dtype": "f32", "bias": "none", "eps": None, "small_var": True}, "bsd"))
    S.append(("skip_layer_norm", {"dtype": "f32", "bias": "post", "eps": None, "small_var": True, "skip_first": True}, "bsd"))
    S.append(("skip_layer_norm", {"dtype": "f32", "bias": "pre", "eps": 1e-3, "small_var": True}, "bsd"))
    S.append(("skip_layer_norm", {"dtype": "f32", "bias": "none", "rank2": True}, "bsd"))
    S.append(("skip_layer_norm", {"dtype": "f32", "bias": "none", "no_beta": True}, "bsd"))
    S.append(("skip_layer_norm", {"dtype": "f32", "bias": "pre", "axis_pos": True}, "bsd"))
    S.append(("skip_layer_norm", {"dtype": "f32", "bias": "post", "use_sum": False}, "bsd"))
    # rotary
    for pos in ("2d", "1d"):
        for fb in (1, 2):
            S.append(("rotary", {"pos": pos, "target": "rotary_embedding", "_B": fb}, "rot"))
        for fb in (1, 2):
            S.append(("rotary", {"pos": pos, "target": "cos_sin_cache", "_B": fb}, "rot"))
        S.append(("rotary", {"pos": pos, "target": "cos_sin_cache", "const_pos": True, "_B": 1}, "rot"))
    S.append(("rotary", {"pos": "2d", "target": "cos_sin_cache", "cast": True, "dtype": "f16"}, "rot"))
    S.append(("rotary", {"pos": "2d", "target": "cos_sin_cache", "expand_freq": True}, "rot"))
    S.append(("rotary_direct", {}, "rot"))
    S.append(("rotary_direct", {"odd": True}, "rot"))
    S.append(("rotary_direct", {"off_centre": True}, "rot"))
    S.append(("rotary", {"pos": "2d", "target": "partial_rotary_embedding", "partial": True}, "rot"))
    S.append(("rotary", {"pos": "1d", "target": "partial_rotary_embedding", "partial": True, "_B": 1}, "rot"))
    S.append(("rotary", {"pos": "1d", "target": "partial_rotary_embedding", "partial": True, "_B": 2}, "rot"))
    # sdpa
    for sk in ("pre_div", "pre_mul", "post_div", "post_mul"):
        S.append(("sdpa", {"scale_kind": sk}, "att4"))
        S.append(("sdpa", {"scale_kind": sk, "custom": True, "masked": True}, "att4"))
    S.append(("sdpa", {"scale_kind": "none"}, "att4"))
    for ms in ("B1SK", "11SK", "SK", "BHSK", "B11K"):
        S.append(("sdpa", {"scale_kind": "post_mul", "masked": True, "mask_shape": ms}, "att4"))
    # masks that broadcast along the QUERY axis only show with more than one query position and more than one batch entry
    for ms in ("B11K", "111K"):
        S.append(("sdpa", {"scale_kind": "post_mul", "masked": True, "mask_shape": ms, "_S": 3, "_B": 2}, "att4"))
    S.append(("sdpa", {"scale_kind": "pre_div", "key_bshd": True}, "att4"))
    S.append(("sdpa", {"scale_kind": "post_div", "nan_guard": False}, "att4"))
    S.append(("sdpa", {"scale_kind": "post_mul", "scale_vec": True}, "att4"))
    S.append(("sdpa", {"scale_kind": "post_mul", "dv_differs": True}, "att4"))
    S.append(("sdpa", {"scale_kind": "post_mul", "skv_differs": True, "masked": True}, "att4"))
    S.append(("sdpa", {"scale_kind": "post_mul", "dtype": "f16"}, "att4"))
    # mha
    S.append(("mha", {"key_transposed": True}, "att3"))
    S.append(("mha", {"key_transposed": False}, "att3"))
    S.append(("mha", {"key_transposed": True, "past": True}, "att3"))
    for ms in ("B1SK", "11SK", "SK", "BHSK", "B11K", "1SK"):
        S.append(("mha", {"masked": True, "mask_shape": ms}, "att3"))
    S.append(("mha", {"masked": True, "mask_shape": "B1SK", "past": True}, "att3"))
    S.append(("mha", {"custom_scale": True}, "att3"))
    S.append(("mha", {"cross": True}, "att3"))
    S.append(("mha", {"rotary_": True}, "att3"))
    S.append(("mha", {"rotary_": True, "past": True}, "att3"))
    S.append(("mha", {"out_2d": True}, "att3"))
    S.append(("mha", {"kv_heads_differs": True}, "att3"))
    S.append(("mha", {"skv_differs": True}, "att3"))
    S.append(("mha", {"dtype": "f16"}, "att3"))
    for ex in (False, True):
        S.append(("mha_scale", {"existing": ex}, "att3"))
        S.append(("mha_scale", {"existing": ex, "with_bias": True}, "att3"))
    S.append(("mha_scale", {"commuted": True}, "att3"))
    S.append(("mha_scale", {"dynamic": True}, "att3"))
    S.append(("mha_scale", {"past": True}, "att3"))
    S.append(("mha_scale", {"dtype": "f16"}, "att3"))
    for which in ("qkv", "q", "k", "v", "qk"):
        S.append(("mha_bias", {"which": which}, "att3"))
    S.append(("mha_bias", {"which": "qkv", "masked": True}, "att3"))
    S.append(("mha_bias", {"which": "qkv", "scale": True}, "att3"))
    S.append(("mha_bias", {"which": "qkv", "bias_rank": 2}, "att3"))
    S.append(("mha_bias", {"which": "q", "bias_rank": 3}, "att3"))
    S.append(("mha_bias", {"which": "qkv", "skv_differs": True}, "att3"))
    S.append(("mha_bias", {"which": "qv", "dv_differs": True}, "att3"))
    # partial bias WITHOUT a value bias while the value hidden size differs from the key's: the zero filler must have Dv entries
    S.append(("mha_bias", {"which": "qk", "dv_differs": True}, "att3"))
    S.append(("mha_bias", {"which": "q", "dv_differs": True}, "att3"))
    S.append(("mha_bias", {"which": "qkv", "dtype": "f16"}, "att3"))
    for past in (False, True):
        for ns in (False, True):
            S.append(("attention", {"past": past, "no_slice": ns}, "att3"))
    S.append(("attention", {"scale": True}, "att3"))
    S.append(("attention", {"scale": True, "past": True}, "att3"))
    S.append(("attention", {"attn_bias": True}, "att3"))
    S.append(("attention", {"gap": True}, "att3"))
    S.append(("attention", {"dv_differs": True}, "att3"))
    S.append(("attention", {"dtype": "f16"}, "att3"))
    S.append(("gqa", {}, "gqa"))
    S.append(("gqa", {"groups1": True}, "gqa"))
    S.append(("gqa", {"packed": True}, "gqa"))
    S.append(("gqa", {"small_head": True}, "gqa"))
    for kind in ("tA", "tB", "mm_div", "mm_t", "tA_div", "tA_t", "tB_t", "tAB", "div_div"):
        S.append(("fused_matmul", {"kind": kind, "rank": 2, "perm_kind": "last2"}, "none"))
        S.append(("fused_matmul", {"kind": kind, "rank": 2, "perm_kind": "default"}, "none"))
        S.append(("fused_matmul", {"kind": kind, "rank": 3, "perm_kind": "last2"}, "none"))
    for kind in ("tA", "tB", "tA_t"):
        S.append(("fused_matmul", {"kind": kind, "rank": 4, "perm_kind": "last2"}, "none"))
        S.append(("fused_matmul", {"kind": kind, "rank": 3, "perm_kind": "rotate"}, "none"))
        S.append(("fused_matmul", {"kind": kind, "rank": 3, "perm_kind": "batch"}, "none"))
        S.append(("fused_matmul", {"kind": kind, "rank": 3, "perm_kind": "other"}, "none"))
        S.append(("fused_matmul", {"kind": kind, "rank": 4, "perm_kind": "swapbatch_last2", "square": True}, "none"))
    for kind in ("tA_t", "tB_t", "mm_t", "tAB"):
        S.append(("fused_matmul", {"kind": kind, "rank": 2, "perm_kind": "last2", "square": True}, "none"))
    for ds in ("one", "oneone", "vec"):
        S.append(("fused_matmul", {"kind": "mm_div", "rank": 2, "perm_kind": "last2", "div_shape": ds}, "none"))
    S.append(("fused_matmul", {"kind": "tA_div", "rank": 2, "perm_kind": "last2", "dtype": "f16"}, "none"))
    for na in (False, True):
        S.append(("softmax_upcast", {"no_axis": na}, "act"))
    S.append(("softmax_upcast", {"dtype_in": "f32"}, "act"))
    S.append(("softmax_upcast", {"up_to": "f64"}, "act"))
    S.append(("instance_to_group_norm", {}, "none"))
    S.append(("instance_to_group_norm", {"ones": False}, "none"))
    S.append(("gemm", {}, "bsd"))
    S.append(("gemm", {"explicit": False}, "bsd"))
    S.append(("gemm", {"transB": True}, "bsd"))
    S.append(("gemm", {"alpha": 0.5, "beta": 2.0}, "bsd"))
    for fb, fs in ((1, 4), (2, 1), (2, 3)):
        S.append(("gemm", {"c_rank": 2, "_B": fb, "_S": fs}, "bsd"))
    return S


STRATA = _strata()
ANCHOR_MODELS_QUICK = [("_whisper_encoder", "whisper_encoder_test"), ("_whisper_decoder", "whisper_decoder_test"),
                       ("_bart_encoder", "bart_encoder_test"), ("_rotary_embedding_models", "test_case_1"),
                       ("_rotary_embedding_models", "test_case_2"), ("_rotary_embedding_models", "partial_rotary_test_case")]
ANCHOR_MODELS_THOROUGH = ANCHOR_MODELS_QUICK + [("_smollm_1", "smollm_test_1"), ("_smollm_2", "smollm_test_2")]


def cases(tier, seed):
    reps = 1 if tier == "quick" else 22
    out = []
    for i, (maker, sw, szk) in enumerate(STRATA):
        for r in range(reps):
            rng = common.rng(PID, seed, "sizes", i, r)
            out.append({"kind": "inst", "maker": maker, "sw": sw, "sizes": _sz(rng, szk), "seed": seed, "i": i, "r": r})
    for m, f in (ANCHOR_MODELS_QUICK if tier == "quick" else ANCHOR_MODELS_THOROUGH):
        out.append({"kind": "anchor", "module": m, "factory": f, "seed": seed})
    # heavy anchors first so they overlap with the rest
    out.sort(key=lambda s: 0 if s["kind"] == "anchor" else 1)
    return out


def thresholds(tier):
    th = {"fired:" + f: 1 for f in COVERED}
    q = tier == "quick"
    th.update({"instances_judged": 60 if q else 1200, "compared_single": 30 if q else 600, "compared_full": 30 if q else 600,
               "anchors_judged": 2, "distinct_nontrivial": 40 if q else 60,
               "anchor:onnxscript.rewriter.ort_fusions._core:optimize_for_ort": 60 if q else 1200})
    return th


# ----------------------------------------------------------------------------------------------- building an instance
def build_instance(spec):
    from . import c19_models as M

    sw = dict(spec["sw"])
    sz = dict(spec["sizes"])
    for k in [k for k in sw if k.startswith("_")]:      # forced sizes (class-defining size predicates)
        sz[k[1:]] = sw.pop(k)
    spec["sizes"] = dict(sz)
    rng = np.random.default_rng(common.h32(PID, "data", spec["seed"], spec["i"], spec["r"]))
    maker = spec["maker"]
    if maker in ("erf_gelu", "tanh_gelu"):
        return getattr(M, maker)(rng, shape=sz["shape"], **sw)
    if maker == "bias_gelu":
        shape = sz["shape"] if len(sz["shape"]) > 1 else [2] + sz["shape"]
        return M.bias_gelu(rng, shape=shape, **sw)
    if maker == "softmax_upcast":
        shape = sz["shape"]
        ax = -1 if sw.get("no_axis") or len(shape) < 2 else int(rng.integers(-len(shape), len(shape)))
        return M.softmax_upcast(rng, shape, axis=ax, **sw)
    if maker == "rms_norm":
        shape = sz["shape"]
        ss = sw.pop("scale_shape", None)
        if ss == "scalar":
            sw["scale_shape"] = []
        elif ss == "1D":
            sw["scale_shape"] = [1, shape[-1]]
        elif ss == "full":
            sw["scale_shape"] = list(shape)
        eps = float(rng.choice([1e-6, 1e-5, 1e-3, 0.1]))
        return M.rms_norm(rng, shape=shape, eps=eps, **sw)
    if maker in ("skip_rms", "skip_layer_norm"):
        eps = float(rng.choice([1e-6, 1e-5, 1e-2]))
        sw = dict(sw)
        if "eps" in sw:   # a stratum may pin epsilon (None = attribute omitted)
            eps = sw.pop("eps")
        return getattr(M, maker)(rng, B=sz["B"], S=sz["S"], D=sz["D"], eps=eps, **sw)
    if maker == "rotary_direct":
        E = sz["E"] + (1 if sw.get("odd") else 0)
        return M.rotary_direct(rng, sz["B"], sz["H"], sz["S"], E, h1=(E // 2 - 1 if sw.get("off_centre") else None),
                               cos_b1=bool(rng.integers(0, 2)))
    if maker == "rotary":
        E = sz["E"]
        odd = sw.pop("odd", False)
        part = sw.pop("partial", False)
        if odd:
            E = E + 1
        partial = 0
        if part:
            partial = E
            E = E * 2
        return M.rotary(rng, sz["B"], sz["H"], sz["S"], E, partial=partial, **sw)
    if maker == "sdpa":
        Dh = sz["Dh"]
        Dv = Dh // 2 if sw.pop("dv_differs", False) else Dh
        Skv = sz["S"] + 3 if sw.pop("skv_differs", False) else sz["S"]
        return M.sdpa(rng, sz["B"], sz["H"], sz["S"], Skv, Dh, Dv, **sw)
    if maker == "mha":
        past = sw.pop("past", False)
        kvd = sw.pop("kv_heads_differs", False)
        skd = sw.pop("skv_differs", False)
        H = sz["H"]
        if kvd and H == 1:
            H = 2
        return M.mha(rng, sz["B"], sz["S"], H, sz["Dh"], P=(int(rng.choice([1, 5])) if past else 0),
                     kv_heads=(1 if kvd else None), Skv=(sz["S"] + 2 if skd else None), **sw)
    if maker == "mha_scale":
        past = sw.pop("past", False)
        return M.mha_scale(rng, sz["B"], sz["S"], sz["H"], sz["Dh"], scale=float(rng.choice([0.5, 0.125, 2.0])), P=(4 if past else 0), **sw)
    if maker == "mha_bias":
        skd = sw.pop("skv_differs", False)
        dvd = sw.pop("dv_differs", False)
        D = sz["H"] * sz["Dh"]
        return M.mha_bias(rng, sz["B"], sz["S"], sz["H"], sz["Dh"], Skv=(sz["S"] + 2 if skd else None), Dv=(D // 2 if dvd and sz["Dh"] % 2 == 0 else None), **sw)
    if maker == "attention":
        past = sw.pop("past", False)
        dvd = sw.pop("dv_differs", False)
        return M.attention(rng, sz["B"], sz["S"], sz["H"], sz["Dh"], P=(int(rng.choice([2, 6])) if past else 0),
                           Dv_h=(sz["Dh"] // 2 if dvd else None), **sw)
    if maker == "gqa":
        g1 = sw.pop("groups1", False)
        small = sw.pop("small_head", False)
        H = sz["Hkv"] if g1 else sz["H"]
        return M.gqa(rng, sz["S"], sz["P"], H, sz["Hkv"], (8 if small else sz["Dh"]), **sw)
    if maker == "fused_matmul":
        return M.fused_matmul(rng, **sw)
    if maker == "instance_to_group_norm":
        g = int(rng.choice([1, 2, 4]))
        return M.instance_to_group_norm(rng, int(rng.choice([1, 2])), g * int(rng.choice([1, 2])), 3, 4, g, **sw)
    if maker == "gemm":
        return M.gemm(rng, sz["B"], sz["S"], sz["D"], int(rng.choice([4, 6])), **sw)
    raise ValueError(maker)


def steps():
    from onnxscript.rewriter import _rewrite_rule as RR
    from onnxscript.rewriter.ort_fusions import _core as X
    from onnxscript.rewriter.ort_fusions import fused_matmul_rule_sets, instance_to_group_normalization, softmax
    from onnxscript.rewriter.rules.common import _gemm_to_matmul_add

    def ruleset(rs):
        rs = rs if isinstance(rs, RR.RewriteRuleSet) else RR.RewriteRuleSet(list(rs))
        return lambda m: rs.apply_to_model(m)

    return {
        "erf_gelu": X.fuse_erfgelu, "gelu": X.fuse_gelu, "bias_gelu": X.fuse_bias_gelu,
        "rms_normalization": X.fuse_rms_normalization, "skip_rms_normalization": X.fuse_skip_rms_normalization,
        "skip_layer_normalization": X.fuse_skip_layer_normalization, "rotary_embedding": X.fuse_rotary_embedding,
        "cos_sin_cache": X.fuse_cos_sin_cache, "partial_rotary_embedding": X.fuse_partial_rotary_embedding,
        "sdpa": lambda m: X.fuse_sdpa(m, apply_shape_inference=True), "sdpa_via_mha": X.replace_sdpa_by_mha,
        "mha1": X.fuse_mha1, "mha2": X.fuse_mha2, "mha_scale": X.fuse_mha_scale, "mha_bias": X.fuse_mha_bias,
        "attention": X.fuse_attention, "gqa": X.fuse_gqa, "packed_qkv_for_gqa": X.fuse_qkv_gqa,
        "fused_matmul": ruleset(fused_matmul_rule_sets.fused_matmul_rule_sets()),
        "softmax_upcast": ruleset(softmax.rules), "instance_to_group_normalization": ruleset(instance_to_group_normalization.rules),
        "gemm_to_matmul_add": ruleset([_gemm_to_matmul_add.gemm_to_matmul_add_rule]),
    }


def target_fired(fusion, counts):
    if fusion == "mha":
        return counts.get("mha1", 0) + counts.get("mha2", 0)
    return counts.get(fusion, 0)


def _ops(model_proto):
    out = {}
    for n in model_proto.graph.node:
        k = (n.domain + "::" if n.domain else "") + n.op_type
        out[k] = out.get(k, 0) + 1
    return out


FULL_MARKERS = {  # fusions optimize_for_ort does not count: presence of the fused operator in the result
    "fused_matmul": "com.microsoft::FusedMatMul", "instance_to_group_normalization": "com.microsoft::GroupNorm",
}


def compare(before, after, dtype):
    """-> None | (kind, text)"""
    from . import compare as C

    r, a = TOL[dtype]
    if len(before) != len(after):
        return "shape", f"output count {len(before)} vs {len(after)}"
    for i, (x, y) in enumerate(zip(before, after)):
        x, y = np.asarray(x), np.asarray(y)
        if x.shape != y.shape:
            return "shape", f"out[{i}]: shape {y.shape} after, {x.shape} before"
        if x.dtype != y.dtype:
            return "shape", f"out[{i}]: dtype {y.dtype} after, {x.dtype} before"
        d = C.compare_value(y, x, check_dtype=False, rtol=r, atol=a)
        if d:
            return "value", f"out[{i}]: {d}"
    return None


def _blame(single_blame, single_clean, fired_any, fusion, fired):
    """which fusion a failure of the optimize_for_ort path is attributed to (mechanism part of the key)"""
    if single_blame:
        return single_blame[0]
    norm = lambda k: "mha" if k in ("mha1", "mha2") else k
    suspects = [k for k in fired_any if k not in single_clean and k not in ("sdpa_via_mha",)]
    if single_clean and suspects:
        return "+".join(sorted({norm(k) for k in suspects}))
    return fusion if fired else "+".join(fired_any)


def run_instance(spec):
    import onnx
    import onnx_ir as ir
    import onnx_ir.passes.common as common_passes

    from onnxscript.optimizer import optimize
    from onnxscript.rewriter.ort_fusions import optimize_for_ort

    from . import runner

    events, viol = {}, []

    def hit(k, n=1):
        events[k] = events.get(k, 0) + n

    try:
        inst = build_instance(spec)
    except Exception as e:
        return {"status": "harness_error", "error": f"build_instance: {type(e).__name__}: {e}", "trace": traceback.format_exc()[-2000:]}
    fusion, cls = inst["fusion"], inst["cls"]
    dtype = "f16" if "f16" in cls else "f32"
    stratum = f"{fusion}|{cls}"
    try:
        proto = inst["fn"].to_model_proto(input_types=inst["in"], output_types=inst["out"])
    except Exception as e:
        return {"status": "harness_error", "error": f"to_model_proto({stratum}): {type(e).__name__}: {e}", "trace": traceback.format_exc()[-2000:]}
    for nme, tp in inst.get("value_info") or []:
        proto.graph.value_info.append(tp.to_value_info(nme) if hasattr(tp, "to_value_info") else
                                      onnx.helper.make_tensor_value_info(nme, tp.dtype, list(tp.shape)))
    feeds = inst["feeds"]
    msg = runner.checker(proto, full=False)
    if msg:
        hit("discarded_invalid")
        return {"status": "discarded_invalid", "events": events, "data": {"stratum": stratum, "why": msg[:300]}}
    st, base = runner.ort_run(proto, feeds)
    if st != "ok":
        hit("discarded_unrunnable:" + st)
        return {"status": "discarded_unrunnable", "events": events, "data": {"stratum": stratum, "why": str(base)[:300]}}
    hit("instances_judged")
    sample = {"fusion": fusion, "class": cls, "sizes": spec["sizes"], "ops": _ops(proto)}
    sigs = []
    S = steps()

    def v(kind, what, path, counts):
        viol.append({"key": f"fusion={fusion};kind={kind};cfg={cls}", "what": f"[{path}] {fusion} ({cls}, sizes {spec['sizes']}): {what}"[:700],
                     "detail": {"path": path, "counts": {k: c for k, c in counts.items() if c}, "near_miss": inst.get("near_miss")}})

    # ---------------- (a) single fusion pipeline after the fuse_xformers preparation
    try:
        m = ir.serde.deserialize_model(proto)
        common_passes.ShapeInferencePass()(m)
        optimize(m)
        prep = ir.serde.serialize_model(m)
        st1, before = runner.ort_run(prep, feeds)
    except Exception as e:
        st1, before = "prep_raises", f"{type(e).__name__}: {e}"
    single_blame = None
    single_clean = set()        # steps that fired in the single path and left the model equivalent
    if st1 != "ok":
        hit("prep_unrunnable")
    else:
        if compare(base, before, dtype) is not None:
            hit("prep_changed_result")       # C03's business; baseline stays the prepared model
        counts = {}
        raised = None
        blamed = None          # (step, kind, text): the earliest fired step after which the model no longer matches the baseline
        after_p, after, st2 = None, None, None
        for name in inst["pipe"]:
            try:
                counts[name] = int(S[name](m) or 0)
            except Exception as e:
                raised = (name, e, traceback.format_exc()[-1500:])
                break
            if not counts[name] or blamed is not None:
                continue
            hit("fired_step:" + name)
            try:
                after_p = ir.serde.serialize_model(m)
            except Exception as e:
                blamed = (name, "load", f"fused model cannot be serialised: {type(e).__name__}: {e}")
                continue
            local_fns = {(f.domain, f.name) for f in after_p.functions}
            temp = [n.op_type for n in after_p.graph.node if n.domain == "ai.onnxruntime._fusion" and (n.domain, n.op_type) not in local_fns]
            if temp:
                st2 = "temporary"
                continue
            st2, after = runner.ort_run(after_p, feeds)
            if st2 == "not_implemented":
                continue
            if st2 != "ok":
                blamed = (name, "load", f"model after {name} does not {st2} on ORT: {str(after)[:300]}")
                continue
            d = compare(before, after, dtype)
            if d:
                blamed = (name, d[0], f"after {name}: {d[1]}")
        if raised:
            hit("fusion_raised")
            single_blame = (raised[0], "raises")
            viol.append({"key": f"fusion={raised[0]};kind=raises;cfg={cls}", "what": f"[single] {raised[0]} raises {type(raised[1]).__name__}: "
                         f"{str(raised[1])[:300]} on {stratum}", "detail": {"trace": raised[2]}})
        else:
            fired = target_fired(fusion, counts)
            if blamed is not None:
                single_blame = (blamed[0], blamed[1])
                viol.append({"key": f"fusion={blamed[0]};kind={blamed[1]};cfg={cls}", "what": f"[single] {stratum} (sizes {spec['sizes']}): {blamed[2]}"[:700],
                             "detail": {"path": "single", "counts": {k: c for k, c in counts.items() if c}, "near_miss": inst.get("near_miss")}})
                hit("fired:" + ("mha" if blamed[0] in ("mha1", "mha2") else blamed[0]))
            if not fired:
                hit("declined:" + fusion)
                hit("declined_single")
            else:
                hit("fired:" + fusion)
                hit("fired_single")
                if blamed is None:
                    if st2 == "temporary":
                        hit("temporary_op_not_lowered:" + fusion)
                    elif st2 == "not_implemented":
                        hit("not_implemented:" + fusion + ":" + dtype)
                    elif st2 == "ok":
                        single_clean = {k for k, c in counts.items() if c}
                        hit("compared_single")
                        sigs.append(f"{fusion}|{cls}|single")
                        sample["single_ops_after"] = _ops(after_p)
    # ---------------- (b) optimize_for_ort
    try:
        m2 = ir.serde.deserialize_model(proto)
        m2, fc = optimize_for_ort(m2)
        full_p = ir.serde.serialize_model(m2)
        err = None
    except Exception as e:
        err = (e, traceback.format_exc()[-1500:])
    if err:
        hit("optimize_for_ort_raised")
        who = single_blame[0] if single_blame and single_blame[1] == "raises" else "optimize_for_ort"
        viol.append({"key": f"fusion={who};kind=raises;cfg={cls}", "what": f"[full] optimize_for_ort raises {type(err[0]).__name__}: "
                     f"{str(err[0])[:300]} on {stratum}", "detail": {"trace": err[1]}})
    else:
        fc = dict(fc)
        ops = _ops(full_p)
        for k, mk in FULL_MARKERS.items():
            fc[k] = ops.get(mk, 0)
        if fusion == "softmax_upcast":
            fc[k] = 0
            fc["softmax_upcast"] = int("Cast" not in ops and "Softmax" in ops)
        if fusion == "gemm_to_matmul_add":
            fc["gemm_to_matmul_add"] = int("Gemm" not in ops)
        fired_any = sorted(k for k, c in fc.items() if c)
        fired = target_fired(fusion, fc)
        for k in fired_any:
            hit("fired_full_step:" + k)
        if fired:
            hit("fired:" + fusion)
            hit("fired_full")
        st3, after = runner.ort_run(full_p, feeds)
        if st3 == "not_implemented":
            hit("not_implemented_full:" + fusion + ":" + dtype)
        elif st3 != "ok":
            if fired_any:
                blame = _blame(single_blame, single_clean, fired_any, fusion, fired)
                viol.append({"key": f"fusion={blame};kind=load;cfg={cls}", "what": f"[full] optimize_for_ort result of {stratum} (fired {fired_any}) does "
                             f"not {st3} on ORT: {str(after)[:300]}", "detail": {"path": "full", "counts": fc}})
            else:
                hit("full_unrunnable_without_fusion")      # optimize()/passes only: C03/C04's business
        else:
            hit("compared_full")
            d = compare(base, after, dtype)
            if d:
                # is the generic optimizer (no fusion) already responsible?  (C03 owns that)
                if st1 == "ok" and compare(base, before, dtype) is not None:
                    hit("full_diff_explained_by_optimize")
                elif not fired_any:
                    hit("full_diff_without_fusion")
                else:
                    blame = _blame(single_blame, single_clean, fired_any, fusion, fired)
                    viol.append({"key": f"fusion={blame};kind={d[0]};cfg={cls}", "what": f"[full] optimize_for_ort on {stratum} (fired {fired_any}, "
                                 f"sizes {spec['sizes']}): {d[1]}"[:700], "detail": {"path": "full", "counts": {k: c for k, c in fc.items() if c}}})
            if fired:
                sigs.append(f"{fusion}|{cls}|full")
        sample["full_fired"] = fired_any
    return {"status": "ok", "viol": viol, "events": events, "nontrivial": bool(sigs), "sig": None,
            "data": {"sigs": sigs, "stratum": stratum}, "sample": sample if sigs else None}


def run_anchor(spec):
    import importlib

    import onnx_ir as ir

    from onnxscript.rewriter.ort_fusions import optimize_for_ort

    from . import runner

    events, viol = {}, []

    def hit(k, n=1):
        events[k] = events.get(k, 0) + n

    name = f"{spec['module']}.{spec['factory']}"
    try:
        mod = importlib.import_module("onnxscript.rewriter.models." + spec["module"])
        np.random.seed(spec["seed"] % (2 ** 31))
        tc = getattr(mod, spec["factory"])()
        model = tc.get_onnx_model()
        feeds = tc.get_ort_inputs()
        proto = ir.serde.serialize_model(model)
    except Exception as e:
        hit("anchor_unavailable")
        return {"status": "discarded_unrunnable", "events": events, "data": {"why": f"{name}: {type(e).__name__}: {e}"[:300]}}
    st, base = runner.ort_run(proto, feeds)
    if st != "ok":
        hit("anchor_unrunnable")
        return {"status": "discarded_unrunnable", "events": events, "data": {"why": str(base)[:300]}}
    try:
        m2 = ir.serde.deserialize_model(proto)
        m2, fc = optimize_for_ort(m2)
        full_p = ir.serde.serialize_model(m2)
    except Exception as e:
        viol.append({"key": f"fusion=optimize_for_ort;kind=raises;cfg=anchor:{name}", "what": f"optimize_for_ort raises on {name}: "
                     f"{type(e).__name__}: {str(e)[:300]}", "detail": {"trace": traceback.format_exc()[-1500:]}})
        return {"status": "ok", "viol": viol, "events": events}
    fired_any = sorted(k for k, c in fc.items() if c)
    for k in fired_any:
        hit("fired_full_step:" + k)
        hit("fired:" + ("mha" if k in ("mha1", "mha2") else k))
    hit("anchors_judged")
    st3, after = runner.ort_run(full_p, feeds)
    if st3 == "not_implemented":
        hit("not_implemented_full:anchor")
    elif st3 != "ok":
        viol.append({"key": f"fusion={'+'.join(fired_any)};kind=load;cfg=anchor:{name}", "what": f"optimize_for_ort result of {name} does not {st3}: "
                     f"{str(after)[:300]}", "detail": {"counts": dict(fc)}})
    else:
        hit("compared_full")
        d = compare(base, after, "f32")
        if d:
            viol.append({"key": f"fusion={'+'.join(fired_any)};kind={d[0]};cfg=anchor:{name}", "what": f"optimize_for_ort on {name} "
                         f"(fired {fired_any}): {d[1]}"[:600], "detail": {"counts": dict(fc)}})
    return {"status": "ok", "viol": viol, "events": events, "nontrivial": bool(fired_any), "sig": f"anchor|{name}",
            "sample": {"anchor": name, "fired": {k: c for k, c in fc.items() if c}}}


def run_case(spec):
    if spec["kind"] == "anchor":
        return run_anchor(spec)
    return run_instance(spec)


def finalize(ctx):
    fired_by_stratum, declined = {}, {}
    for spec, r in zip(ctx.specs, ctx.results):
        d = r.get("data") or {}
        for s in d.get("sigs") or []:
            ctx.sigs.add(s)
        st = d.get("stratum")
        if st:
            ev = r.get("events") or {}
            f = any(k.startswith("fired:") for k in ev)
            fired_by_stratum[st] = fired_by_stratum.get(st, 0) + int(f)
            declined[st] = declined.get(st, 0) + int(not f)
    per_fusion = {}
    for k, n in ctx.events.items():
        if k.startswith("fired:"):
            per_fusion[k[6:]] = n
    ctx.extra["fired_per_fusion"] = dict(sorted(per_fusion.items()))
    ctx.extra["strata_fired"] = sum(1 for v in fired_by_stratum.values() if v)
    ctx.extra["strata_total"] = len(fired_by_stratum)
    ctx.extra["strata_never_fired"] = sorted(k for k, v in fired_by_stratum.items() if not v)[:80]
    ctx.extra["not_covered"] = dict(NOT_COVERED)
    unr = [((r.get("data") or {}).get("stratum"), (r.get("data") or {}).get("why")) for r in ctx.results
           if r.get("status", "").startswith("discarded")]
    ctx.extra["discarded"] = unr[:20]
    n = len(ctx.results) or 1
    if len(unr) > 0.2 * n:
        ctx.inconclusive.append(f"{len(unr)} of {n} instances were discarded (invalid / not runnable before any fusion)")


assert re
