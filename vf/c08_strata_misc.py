"""C08 strata, extension "misc": Python-scalar (SymInt/SymFloat/SymBool) arithmetic that torch.export spells
_operator::* / math::*, complex constructors / spectral ops through their real view, determinants, unique family,
histogram-like ops, strided creation, Sequence overloads, window functions, random samplers (shape/dtype only),
fake-quantize and quantized_decomposed, scalarisation ops (sym_size, _local_scalar_dense, is_nonzero ...).

Two kinds of registered names have a resolved target that c08_core.judge cannot call as is:

* `_operator::x` / `math::x` resolve to Python builtins (no `_schema`): the exporter calls the registered function with
  rank-0 INT64 / FLOAT / BOOL values (SymInt / SymFloat / SymBool) and Python constants.  The oracle is the builtin
  itself applied to 0-d tensors / Python numbers (`operator.add(torch.tensor(3), 2)`), for math::* the builtin applied to
  the Python value (`math.trunc(x.item())`).
* operators whose *output* is complex: torch_lib always works on the real view (trailing dim 2), so the oracle is
  `torch.view_as_real(target(...))`.

Both are expressed by `_oracle(qn, fn)`: it installs a callable stand-in in the per-process target cache of c08_core.Env
(the only thing judge() needs from a target is to be callable and to carry a `_schema` attribute).  Operators that only
have a complex implementation (is_complex metas: view_as_real, view_as_real_copy, _fft_c2c, _fft_c2r) are dropped by Env
and cannot be driven; aten::_conj has a real implementation in Env, but torch rejects real tensors for it.

The same stand-in serves aten::eq / aten::ne / aten::mul (Scalar, Scalar) - the ATen overload only takes Python numbers,
the exporter passes rank-0 values: oracle = overload applied to the operands' Python values - and aten::_linalg_det
(oracle = the `result` output; LU and pivots only serve the backward formula).
"""
from __future__ import annotations

import math

from . import c08_core as core
from .c08_gen import is_float
from .c08_strata import S, adm, lead, reg

# ---------------------------------------------------------------------------------------------
# oracle stand-ins


class _Oracle:
    """callable stand-in for a resolved target."""

    def __init__(self, fn, schema=None, name=""):
        self._fn, self._schema, self._name = fn, schema, name

    def __call__(self, *a, **k):
        return self._fn(*a, **k)

    def __repr__(self):
        return f"<oracle {self._name}>"


def _oracle(qn, fn=None, wrap=None):
    """fn: the oracle callable (default: the resolved target); wrap: post-processing of the resolved target's result."""
    E = core.env()
    cur = E._targets.get(qn)
    if isinstance(cur, _Oracle):
        return
    tgt = E.registration._get_overload(qn)
    if fn is None:
        fn = tgt
    if fn is None:
        return
    if wrap is not None:
        inner = fn
        fn = lambda *a, **k: wrap(inner(*a, **k))  # noqa: E731
    E._targets[qn] = _Oracle(fn, getattr(tgt, "_schema", None), qn)


def _real_view(x):
    torch = core.env().torch
    return torch.view_as_real(x) if isinstance(x, torch.Tensor) and x.is_complex() else x


def table(qn, rows, dts=None, lead_only=("f32", "i64", "bool"), setup=None, arg=0):
    """rows: (label, builder(g, dt) -> (args, kwargs)[, opts]); opts: mode=, scale=, all=True (every admitted dtype instead
    of the lead ones), dts=(explicit dtype list)."""
    if setup is not None:
        setup(qn)
    base = list(dts) if dts is not None else adm(qn, arg)
    for row in rows:
        lbl, b = row[0], row[1]
        o = row[2] if len(row) > 2 else {}
        if "dts" in o:
            use = [d for d in o["dts"] if d in base]
        elif o.get("all"):
            use = base
        else:
            use = lead(base, lead_only)
        for dt in use:
            yield S(f"{lbl}/{dt}", (lambda g, dt=dt, b=b: b(g, dt)), mode=o.get("mode", "value"), scale=o.get("scale", 1.0))


# ---------------------------------------------------------------------------------------------
# M1: Python arithmetic on SymInt / SymFloat / SymBool  (_operator::*, math::*)

_SYM = "misc_sym"


def _sym0(g, dt, dom):
    """a rank-0 tensor standing for a SymInt (i64) / SymFloat (f32) / SymBool (bool)."""
    return g.t([], dt, dom)


def sym_binary(qn, kinds=("i64", "f32"), doms=None, py_lhs=True, extra=None):
    """operand forms: sym-sym, sym-py, py-sym.  doms: {class label: (dom lhs, dom rhs)}.
    A SymInt never meets a Python float here: symbolic-shapes arithmetic wraps the SymInt in torch.sym_float first
    (the FX graph has `sym_float(s0)` feeding operator.mul), so the operands of one call are of one kind."""
    _oracle(qn)
    doms = doms or {"": ("any", "any")}
    for dt in kinds:
        for lbl, (da, db) in doms.items():
            p = (lbl + "/") if lbl else ""
            yield S(f"{p}sym-sym/{dt}", (lambda g, dt=dt, da=da, db=db: ([_sym0(g, dt, da), _sym0(g, dt, db)], {})))
            yield S(f"{p}sym-py/{dt}", (lambda g, dt=dt, da=da, db=db: ([_sym0(g, dt, da), g.scalar(dt, db)], {})))
            if py_lhs:
                yield S(f"{p}py-sym/{dt}", (lambda g, dt=dt, da=da, db=db: ([g.scalar(dt, da), _sym0(g, dt, db)], {})))
    for row in extra or ():
        yield S(row[0], row[1])


_ARITH = {"": ("any", "any")}
reg(_SYM, ["_operator::add", "_operator::sub", "_operator::mul"], sym_binary, doms=_ARITH)
reg(_SYM, "_operator::truediv", sym_binary, doms={"": ("any", "nz")})


def sym_floordiv(qn):
    """Python `//` on SymInts floors.  Operand signs are their own classes; in the mixed-sign classes the division is
    never exact (an exact quotient hides the difference between flooring and truncating)."""
    _oracle(qn)
    T = lambda g, v: g.torch.tensor(v, dtype=g.torch.int64)  # noqa: E731

    def pair(g, sa, sb, exact=False):
        b = g.r.randint(2, 6)
        a = b * g.r.randint(0, 4) + (0 if exact else g.r.randint(1, b - 1))
        return sa * a, sb * b

    for lbl, sa, sb in (("nonneg", 1, 1), ("neg-dividend", -1, 1), ("neg-divisor", 1, -1), ("neg-both", -1, -1)):
        yield S(f"{lbl}/sym-sym/i64", (lambda g, sa=sa, sb=sb: (lambda a, b: ([T(g, a), T(g, b)], {}))(*pair(g, sa, sb))))
        yield S(f"{lbl}/sym-py/i64", (lambda g, sa=sa, sb=sb: (lambda a, b: ([T(g, a), b], {}))(*pair(g, sa, sb))))
        yield S(f"{lbl}/py-sym/i64", (lambda g, sa=sa, sb=sb: (lambda a, b: ([a, T(g, b)], {}))(*pair(g, sa, sb))))
    yield S("exact/neg-dividend/sym-py/i64", (lambda g: (lambda a, b: ([T(g, a), b], {}))(*pair(g, -1, 1, exact=True))))
    yield S("zero-dividend/sym-py/i64", (lambda g: ([T(g, 0), g.r.randint(1, 5)], {})))
    yield S("divisor=1/sym-py/i64", (lambda g: ([T(g, g.r.randint(-9, 9)), 1], {})))


reg(_SYM, "_operator::floordiv", sym_floordiv)
reg(_SYM, "_operator::mod", sym_binary, kinds=("i64",),
    doms={"nonneg": ("pos", "pos"), "neg-dividend": ("neg", "pos"), "neg-divisor": ("pos", "neg")},
    extra=[("symfloat/sym-py/f32", lambda g: ([_sym0(g, "f32", "pos"), g.scalar("f32", "pos")], {})),
           ("symfloat/sym-sym/f32", lambda g: ([_sym0(g, "f32", "pos"), _sym0(g, "f32", "pos")], {}))])
reg(_SYM, ["_operator::eq", "_operator::ne", "_operator::lt", "_operator::le", "_operator::gt", "_operator::ge"], sym_binary,
    doms={"": ("small", "small")})


def sym_pow(qn):
    _oracle(qn)
    T = lambda g, v, dt: g.torch.tensor(v, dtype=g.E.tdt[dt])  # noqa: E731
    yield S("int-base-int-exp/sym-py/i64", (lambda g: ([T(g, g.r.randint(-3, 3), "i64"), g.r.randint(0, 3)], {})))
    yield S("int-base-int-exp/sym-sym/i64", (lambda g: ([T(g, g.r.randint(-3, 3), "i64"), T(g, g.r.randint(0, 3), "i64")], {})))
    yield S("int-base-int-exp/py-sym/i64", (lambda g: ([g.r.randint(1, 3), T(g, g.r.randint(0, 3), "i64")], {})))
    yield S("exp=0/sym-py/i64", (lambda g: ([T(g, g.r.randint(-3, 3), "i64"), 0], {})))
    yield S("float-base-float-exp/sym-sym/f32", (lambda g: ([_sym0(g, "f32", "pos"), _sym0(g, "f32", "small")], {})))
    yield S("float-base-int-exp/sym-py/f32", (lambda g: ([_sym0(g, "f32", "nz"), g.r.choice((2, 3, -1, 0))], {})))
    yield S("float-base-float-exp/sym-py/f32", (lambda g: ([_sym0(g, "f32", "pos"), g.r.choice((0.5, 1.5, -0.5))], {})))


reg(_SYM, "_operator::pow", sym_pow)


def sym_unary(qn, kinds=("i64", "f32")):
    _oracle(qn)
    for dt in kinds:
        for dom in ("pos", "neg"):
            yield S(f"{dom}/{dt}", (lambda g, dt=dt, dom=dom: ([_sym0(g, dt, dom)], {})))
        yield S(f"zero/{dt}", (lambda g, dt=dt: ([g.torch.zeros([], dtype=g.E.tdt[dt])], {})))


reg(_SYM, ["_operator::abs", "_operator::neg"], sym_unary)


def sym_logic(qn):
    _oracle(qn)
    B = lambda g: g.torch.tensor(g.r.random() < 0.5)  # noqa: E731
    yield S("sym-sym/bool", (lambda g: ([B(g), B(g)], {})))
    yield S("sym-py/bool", (lambda g: ([B(g), g.r.random() < 0.5], {})))
    yield S("py-sym/bool", (lambda g: ([g.r.random() < 0.5, B(g)], {})))
    yield S("sym-sym/i64", (lambda g: ([_sym0(g, "i64", "pos"), _sym0(g, "i64", "pos")], {})))
    yield S("sym-py/i64", (lambda g: ([_sym0(g, "i64", "pos"), g.r.randint(0, 7)], {})))


reg(_SYM, ["_operator::and_", "_operator::or_"], sym_logic)


def sym_shift(qn, right):
    _oracle(qn)
    T = lambda g, v: g.torch.tensor(v, dtype=g.torch.int64)  # noqa: E731
    yield S("nonneg/sym-py/i64", (lambda g: ([T(g, g.r.randint(0, 20)), g.r.randint(0, 3)], {})))
    yield S("nonneg/sym-sym/i64", (lambda g: ([T(g, g.r.randint(0, 20)), T(g, g.r.randint(0, 3))], {})))
    yield S("shift=0/sym-py/i64", (lambda g: ([T(g, g.r.randint(0, 20)), 0], {})))
    if right:
        yield S("neg-ok/sym-py/i64", (lambda g: ([T(g, g.r.randint(-20, -1)), g.r.randint(1, 3)], {})))


reg(_SYM, "_operator::__lshift__", sym_shift, right=False)
reg(_SYM, "_operator::__rshift__", sym_shift, right=True)


def sym_math(qn, f):
    _oracle(qn, fn=lambda x: f(x.item()))
    T = lambda g, v: g.torch.tensor(v, dtype=g.torch.float32)  # noqa: E731
    yield S("pos-nonintegral/f32", (lambda g: ([T(g, g.r.randint(0, 40) / 8.0 + 0.0625)], {})))
    yield S("neg-nonintegral/f32", (lambda g: ([T(g, -g.r.randint(0, 40) / 8.0 - 0.0625)], {})))
    yield S("integral/f32", (lambda g: ([T(g, float(g.r.randint(-5, 5)))], {})))
    yield S("half/f32", (lambda g: ([T(g, g.r.choice((-2.5, -1.5, -0.5, 0.5, 1.5, 2.5)))], {})))
    yield S("pos-nonintegral/f64", (lambda g: ([g.torch.tensor(g.r.randint(0, 40) / 8.0 + 0.0625, dtype=g.torch.float64)], {})))


reg(_SYM, "math::ceil", sym_math, f=math.ceil)
reg(_SYM, "math::floor", sym_math, f=math.floor)
reg(_SYM, "math::trunc", sym_math, f=math.trunc)


def sym_getitem(qn):
    """operator.getitem(Tensor[], int): the exporter dispatches it when the source is one Sequence-typed value."""
    _oracle(qn)
    for dt in ("f32", "i64", "bool"):
        def seq(g, dt=dt):
            return [g.t(g.r.choice(([], [2], [2, 3], [0])), dt) for _ in range(3)]
        yield S(f"index=0/{dt}", (lambda g, seq=seq: ([seq(g), 0], {})))
        yield S(f"index=last/{dt}", (lambda g, seq=seq: ([seq(g), 2], {})))
        yield S(f"index=-1/{dt}", (lambda g, seq=seq: ([seq(g), -1], {})))
        yield S(f"index=-len/{dt}", (lambda g, seq=seq: ([seq(g), -3], {})))
    yield S("single-element/f32", (lambda g: ([[g.t([2], "f32")], 0], {})))


reg(_SYM, ["_operator::getitem", "aten::getitem"], sym_getitem)


def scalar_scalar(qn):
    """aten::eq / aten::ne / aten::mul (Scalar a, Scalar b): the ATen overload takes Python numbers only, the exporter calls
    the registered function with rank-0 values for SymInt / SymFloat operands.  The oracle is the ATen overload applied to
    the Python values of the operands."""
    E = core.env()
    tgt = E.registration._get_overload(qn)
    item = lambda v: v.item() if isinstance(v, E.torch.Tensor) else v  # noqa: E731
    if tgt is not None:
        _oracle(qn, fn=lambda a, b: tgt(item(a), item(b)))
    yield S("py-py/int-int", (lambda g: ([g.r.randint(-3, 3), g.r.randint(-3, 3)], {})))
    yield S("py-py/int-int-equal", (lambda g: (lambda v: ([v, v], {}))(g.r.randint(-3, 3))))
    yield S("py-py/float-float", (lambda g: ([g.r.randint(-8, 8) / 4.0, g.r.randint(-8, 8) / 4.0], {})))
    for dt in ("i64", "f32"):
        yield S(f"sym-sym/{dt}", (lambda g, dt=dt: ([_sym0(g, dt, "small"), _sym0(g, dt, "small")], {})))
        yield S(f"sym-sym-equal/{dt}", (lambda g, dt=dt: (lambda v: ([v, v.clone()], {}))(_sym0(g, dt, "small"))))
        yield S(f"sym-py/{dt}", (lambda g, dt=dt: ([_sym0(g, dt, "small"), g.scalar(dt, "small")], {})))
        yield S(f"py-sym/{dt}", (lambda g, dt=dt: ([g.scalar(dt, "small"), _sym0(g, dt, "small")], {})))


reg(_SYM, ["aten::eq", "aten::ne", "aten::mul"], scalar_scalar)

# ---------------------------------------------------------------------------------------------
# M2: complex constructors / views / spectral ops through the real view; real implementations of conj / angle

_CX = "misc_complex"
_FL2 = ("f32", "f64")

# aten::_conj: torch rejects real tensors (internal assert: complex only) and Env keeps the real implementation only -> not drivable
reg(_CX, "aten::angle", table, rows=[
    ("nd", lambda g, dt: ([g.t(g.shape("nd"), dt)], {}), {"all": True}),
    ("neg", lambda g, dt: ([g.t(g.shape("nd"), dt, "neg")], {}), {"all": True}),
    ("zeros-signed", lambda g, dt: ([g.torch.tensor([0.0, -0.0, 1.0, -1.0], dtype=g.E.tdt[dt])], {})),
    ("0-d", lambda g, dt: ([g.t([], dt, "neg")], {})), ("size0", lambda g, dt: ([g.t(g.shape("size0"), dt)], {})),
    ("size1", lambda g, dt: ([g.t(g.shape("size1"), dt, "nz")], {})),
], lead_only=("f32",))


def _cx_setup(qn):
    _oracle(qn, wrap=_real_view)


def _pair(g, dt, sa, sb, da="any", db="any"):
    return [g.t(sa, dt, da), g.t(sb, dt, db)], {}


def _bc(g):
    return g.bcast_pair()


reg(_CX, "aten::complex", table, setup=_cx_setup, rows=[
    ("same-shape", lambda g, dt: (lambda s: _pair(g, dt, s, s))(g.shape("nd")), {"all": True}),
    ("broadcast", lambda g, dt: _pair(g, dt, *_bc(g))), ("0-d", lambda g, dt: _pair(g, dt, [], [])),
    ("0-d-imag", lambda g, dt: _pair(g, dt, g.shape("nd"), [])),
    ("size0", lambda g, dt: _pair(g, dt, [2, 0], [2, 0])), ("size1", lambda g, dt: _pair(g, dt, [1, 3], [1, 3])),
], lead_only=_FL2)
reg(_CX, "aten::polar", table, setup=_cx_setup, rows=[
    ("same-shape", lambda g, dt: (lambda s: _pair(g, dt, s, s, "pos", "any"))(g.shape("nd")), {"all": True}),
    ("broadcast", lambda g, dt: _pair(g, dt, *_bc(g), "pos", "any")), ("0-d", lambda g, dt: _pair(g, dt, [], [], "pos", "any")),
    ("abs=0", lambda g, dt: ([g.torch.zeros([3], dtype=g.E.tdt[dt]), g.t([3], dt)], {})),
    ("size0", lambda g, dt: _pair(g, dt, [0, 3], [0, 3])), ("size1", lambda g, dt: _pair(g, dt, [1], [1], "pos", "any")),
], lead_only=_FL2)
reg(_CX, ["aten::view_as_complex", "aten::view_as_complex_copy"], table, setup=_cx_setup, rows=[
    ("r2", lambda g, dt: ([g.t([g.r.randint(2, 4), 2], dt)], {}), {"all": True}),
    ("r1", lambda g, dt: ([g.t([2], dt)], {})), ("r3", lambda g, dt: ([g.t(g.dims(2) + [2], dt)], {})),
    ("size0", lambda g, dt: ([g.t([0, 2], dt)], {})), ("size1", lambda g, dt: ([g.t([1, 1, 2], dt)], {})),
], lead_only=_FL2, dts=("f16", "f32", "f64"))

_SP = "misc_spectral"


def fft_r2c(qn):
    """_fft_r2c(self, int[] dim, int normalization, bool onesided) -> complex (compared through the real view).
    torch.fft canonicalises dims to non-negative, sorted ones before it calls the ATen op."""
    _oracle(qn, wrap=_real_view)
    for dt in _FL2:
        for norm in (0, 1, 2):
            for one in (True, False):
                def b(g, dt=dt, norm=norm, one=one):
                    sh = g.dims(g.r.randint(1, 3), 2, 5)
                    return [g.t(sh, dt, "small"), [len(sh) - 1], norm, one], {}
                yield S(f"last-dim/norm={norm}/onesided={int(one)}/{dt}", b, scale=8.0)
    for dt in ("f32",):
        for one in (True, False):
            yield S(f"dim=0/r2/onesided={int(one)}/{dt}", (lambda g, dt=dt, one=one: ([g.t(g.dims(2, 2, 5), dt, "small"), [0], 0, one], {})), scale=8.0)
            yield S(f"dim=0/r1/onesided={int(one)}/{dt}", (lambda g, dt=dt, one=one: ([g.t(g.dims(1, 2, 6), dt, "small"), [0], 1, one], {})), scale=8.0)
            yield S(f"dim=middle/r3/onesided={int(one)}/{dt}", (lambda g, dt=dt, one=one: ([g.t(g.dims(3, 2, 4), dt, "small"), [1], 0, one], {})), scale=8.0)
            yield S(f"dims=0-1/r2/onesided={int(one)}/{dt}", (lambda g, dt=dt, one=one: ([g.t(g.dims(2, 2, 4), dt, "small"), [0, 1], 0, one], {})), scale=16.0)
            yield S(f"dims=1-2/r3/onesided={int(one)}/{dt}", (lambda g, dt=dt, one=one: ([g.t(g.dims(3, 2, 4), dt, "small"), [1, 2], 2, one], {})), scale=16.0)
            yield S(f"dims=all/r3/onesided={int(one)}/{dt}", (lambda g, dt=dt, one=one: ([g.t(g.dims(3, 2, 3), dt, "small"), [0, 1, 2], 1, one], {})), scale=16.0)
        yield S(f"length=1/{dt}", (lambda g, dt=dt: ([g.t([3, 1], dt, "small"), [1], 0, True], {})), scale=8.0)
        yield S(f"odd-length/onesided=1/{dt}", (lambda g, dt=dt: ([g.t([2, 5], dt, "small"), [1], 0, True], {})), scale=8.0)
        yield S(f"even-length/onesided=1/{dt}", (lambda g, dt=dt: ([g.t([2, 4], dt, "small"), [1], 0, True], {})), scale=8.0)


reg(_SP, "aten::_fft_r2c", fft_r2c)


def stft(qn):
    """stft(self, n_fft, hop_length=None, win_length=None, window=None, normalized=False, onesided=None, return_complex=None).
    The ATen overload has no `center`: the signal is framed as is.  return_complex=True is compared through the real view."""
    _oracle(qn, wrap=_real_view)

    def sig(g, dt, batch, n):
        return g.t(([batch] if batch else []) + [n], dt, "small")

    def win(g, dt, n):
        return g.t([n], dt, "prob")

    for dt in _FL2:
        yield S(f"defaults/rc=1/r1/{dt}", (lambda g, dt=dt: ([sig(g, dt, 0, 16), 8], {"return_complex": True})), scale=16.0)
        yield S(f"window=n_fft/rc=1/r2/{dt}", (lambda g, dt=dt: ([sig(g, dt, 2, 16), 8, 4, 8, win(g, dt, 8), False, True, True], {})), scale=16.0)
    dt = "f32"
    yield S(f"rc=0/r1/{dt}", (lambda g: ([sig(g, dt, 0, 16), 8, None, None, None, False, None, False], {})), scale=16.0)
    yield S(f"rc=0/r2/hop/{dt}", (lambda g: ([sig(g, dt, 3, 12), 4, 2, None, win(g, dt, 4), False, True, False], {})), scale=16.0)
    yield S(f"hop=1/{dt}", (lambda g: ([sig(g, dt, 0, 10), 4, 1, None, win(g, dt, 4), False, None, True], {})), scale=16.0)
    yield S(f"hop>n_fft/{dt}", (lambda g: ([sig(g, dt, 0, 20), 4, 6, None, win(g, dt, 4), False, None, True], {})), scale=16.0)
    yield S(f"hop=omitted-n_fft=6/{dt}", (lambda g: ([sig(g, dt, 0, 18), 6], {"return_complex": True})), scale=16.0)
    yield S(f"win_length<n_fft/no-window/{dt}", (lambda g: ([sig(g, dt, 2, 16), 8, 4, 4, None, False, None, True], {})), scale=16.0)
    yield S(f"win_length<n_fft/odd-gap/no-window/{dt}", (lambda g: ([sig(g, dt, 2, 16), 8, 4, 5, None, False, None, True], {})), scale=16.0)
    yield S(f"win_length<n_fft/short-window/{dt}", (lambda g: ([sig(g, dt, 2, 16), 8, 4, 4, win(g, dt, 4), False, None, True], {})), scale=16.0)
    yield S(f"win_length<n_fft/odd-gap/short-window/{dt}", (lambda g: ([sig(g, dt, 2, 16), 8, 4, 5, win(g, dt, 5), False, None, True], {})), scale=16.0)
    yield S(f"normalized/{dt}", (lambda g: ([sig(g, dt, 2, 16), 8, 4, None, win(g, dt, 8), True, None, True], {})), scale=16.0)
    yield S(f"normalized/r1/{dt}", (lambda g: ([sig(g, dt, 0, 16), 8, 4, None, win(g, dt, 8), True, None, True], {})), scale=16.0)
    yield S(f"onesided=False/{dt}", (lambda g: ([sig(g, dt, 2, 16), 8, 4, None, win(g, dt, 8), False, False, True], {})), scale=16.0)
    yield S(f"onesided=False/odd-n_fft/{dt}", (lambda g: ([sig(g, dt, 0, 15), 5, 2, None, win(g, dt, 5), False, False, True], {})), scale=16.0)
    yield S(f"odd-n_fft/{dt}", (lambda g: ([sig(g, dt, 2, 15), 7, 3, None, win(g, dt, 7), False, True, True], {})), scale=16.0)
    yield S(f"one-frame/{dt}", (lambda g: ([sig(g, dt, 0, 8), 8, 4, None, win(g, dt, 8), False, None, True], {})), scale=16.0)
    yield S(f"batch=1/{dt}", (lambda g: ([sig(g, dt, 1, 12), 4, 2, None, win(g, dt, 4), False, None, True], {})), scale=16.0)


reg(_SP, "aten::stft", stft)

# ---------------------------------------------------------------------------------------------
# M3: determinants

_LA = "misc_linalg"


def _mat(g, dt, batch, n, spd=False):
    torch = g.torch
    a = g.t(list(batch) + [n, n], dt if dt != "f16" else "f32", "small")
    if spd:
        a = a @ a.transpose(-1, -2) + 2.0 * torch.eye(n, dtype=a.dtype)
    return a.to(g.E.tdt[dt])


def det(qn, log=False):
    if qn == "aten::_linalg_det":
        # (result, LU, pivots): LU and pivots exist for the backward formula only; torch.linalg.det decomposes to
        # getitem(_linalg_det, 0) and the exporter maps that onto the single value the function returns -> compare `result`
        _oracle(qn, wrap=lambda r: r[0])
    for dt in [d for d in adm(qn) if is_float(d)]:
        yield S(f"n-by-n/{dt}", (lambda g, dt=dt: ([_mat(g, dt, [], g.r.randint(2, 4), log)], {})), scale=64.0)
    for dt in _FL2:
        yield S(f"batch/{dt}", (lambda g, dt=dt: ([_mat(g, dt, [g.r.randint(2, 3)], g.r.randint(2, 3), log)], {})), scale=64.0)
    dt = "f32"
    yield S(f"batch-r4/{dt}", (lambda g: ([_mat(g, dt, [2, 2], 2, log)], {})), scale=64.0)
    yield S(f"1-by-1/{dt}", (lambda g: ([_mat(g, dt, [], 1, log)], {})), scale=64.0)
    yield S(f"size0-batch/{dt}", (lambda g: ([_mat(g, dt, [0], 2, log)], {})))
    yield S(f"0-by-0/{dt}", (lambda g: ([g.torch.zeros([0, 0])], {})))
    if not log:
        yield S(f"singular/{dt}", (lambda g: ([g.torch.tensor([[1.0, 2.0], [2.0, 4.0]])], {})), scale=64.0)
        yield S(f"identity/{dt}", (lambda g: ([g.torch.eye(3)], {})))
        yield S(f"permutation-negative-det/{dt}", (lambda g: ([g.torch.tensor([[0.0, 1.0], [1.0, 0.0]])], {})))


reg(_LA, ["aten::det", "aten::linalg_det", "aten::_linalg_det"], det)
reg(_LA, "aten::logdet", det, log=True)

# ---------------------------------------------------------------------------------------------
# M4: unique family (sorted=True: the order of an unsorted result is unspecified)

_UQ = "misc_unique"


def _dups(g, shape, dt):
    """few distinct values, so that duplicates are certain."""
    n = 1
    for d in shape:
        n *= d
    if dt == "bool":
        vals = [g.r.random() < 0.5 for _ in range(n)]
    elif is_float(dt):
        vals = [g.r.choice((-1.5, 0.0, 0.25, 2.0)) for _ in range(n)]
    else:
        vals = [g.r.choice((0, 1, 3, 7) if dt == "u8" else (-2, 0, 1, 5)) for _ in range(n)]
    return g.torch.tensor(vals, dtype=g.E.tdt[dt]).reshape(list(shape))


def _skip(ri, rc=None):
    """outputs that were not requested are unspecified (torch CPU returns an empty tensor from _unique/_unique2/
    unique_consecutive but a populated one from unique_dim): never compared."""
    sk = ([] if ri else [1]) + ([] if (rc is None or rc) else [2])
    return {"skip": sk} if sk else "value"


def unique_flat(qn, counts):
    flags = [(ri, rc) for ri in (False, True) for rc in ((False, True) if counts else (None,))]
    dts = lead(adm(qn), ("f32", "i64", "i32"))
    for dt in dts:
        for ri, rc in flags:
            tail = [True, ri] + ([rc] if counts else [])
            lbl = f"inverse={int(ri)}" + (f"/counts={int(rc)}" if counts else "")
            yield S(f"{lbl}/r1/{dt}", (lambda g, dt=dt, tail=tail: ([_dups(g, [g.r.randint(3, 7)], dt)] + tail, {})), mode=_skip(ri, rc))
            yield S(f"{lbl}/r2/{dt}", (lambda g, dt=dt, tail=tail: ([_dups(g, g.dims(2, 2, 4), dt)] + tail, {})), mode=_skip(ri, rc))
    for dt in lead(dts, ("f32", "i64")):
        full = [True, True] + ([True] if counts else [])
        yield S(f"defaults/r1/{dt}", (lambda g, dt=dt: ([_dups(g, [5], dt)], {})), mode=_skip(False, False if counts else None))
        yield S(f"all/0-d/{dt}", (lambda g, dt=dt, full=full: ([g.t([], dt)] + full, {})))
        yield S(f"all/size0/{dt}", (lambda g, dt=dt, full=full: ([g.t([0], dt)] + full, {})))
        yield S(f"all/size0-r2/{dt}", (lambda g, dt=dt, full=full: ([g.t([2, 0], dt)] + full, {})))
        yield S(f"none/size0/{dt}", (lambda g, dt=dt: ([g.t([0], dt), True, False] + ([False] if counts else []), {})), mode=_skip(False, False if counts else None))
        yield S(f"all/all-equal/{dt}", (lambda g, dt=dt, full=full: ([g.t([], dt).expand([4]).clone()] + full, {})))
        yield S(f"all/distinct/{dt}", (lambda g, dt=dt, full=full: ([g.t([5], dt, "distinct")] + full, {})))
        yield S(f"all/size1/{dt}", (lambda g, dt=dt, full=full: ([g.t([1, 1], dt)] + full, {})))
    for dt in [d for d in adm(qn) if d not in dts]:
        yield S(f"all/r1/{dt}", (lambda g, dt=dt: ([_dups(g, [6], dt)] + [True, True] + ([True] if counts else []), {})))


reg(_UQ, "aten::_unique", unique_flat, counts=False)
reg(_UQ, "aten::_unique2", unique_flat, counts=True)


def unique_dim(qn):
    dts = lead(adm(qn), ("f32", "i64"))

    def rows(g, dt, n, m):
        base = [_dups(g, [m], dt) for _ in range(2)]
        return g.torch.stack([base[g.r.randrange(2)] for _ in range(n)])

    for dt in dts:
        for ri in (False, True):
            for rc in (False, True):
                lbl = f"inverse={int(ri)}/counts={int(rc)}"
                yield S(f"{lbl}/dim=0/{dt}", (lambda g, dt=dt, ri=ri, rc=rc: ([rows(g, dt, 4, 3), 0, True, ri, rc], {})), mode=_skip(ri, rc))
        yield S(f"all/dim=1/{dt}", (lambda g, dt=dt: ([rows(g, dt, 4, 3).t().contiguous(), 1, True, True, True], {})))
        yield S(f"all/dim=-1/{dt}", (lambda g, dt=dt: ([rows(g, dt, 4, 3).t().contiguous(), -1, True, True, True], {})))
        yield S(f"all/dim=-rank/{dt}", (lambda g, dt=dt: ([rows(g, dt, 4, 3), -2, True, True, True], {})))
        yield S(f"defaults/dim=0/{dt}", (lambda g, dt=dt: ([rows(g, dt, 4, 2), 0], {})), mode=_skip(False, False))
        yield S(f"all/r1/{dt}", (lambda g, dt=dt: ([_dups(g, [6], dt), 0, True, True, True], {})))
        yield S(f"all/r3-dim=0/{dt}", (lambda g, dt=dt: ([g.torch.stack([rows(g, dt, 3, 2)] * 2).permute(1, 0, 2).contiguous(), 0, True, True, True], {})))
        yield S(f"all/one-row/{dt}", (lambda g, dt=dt: ([rows(g, dt, 1, 3), 0, True, True, True], {})))
    yield S("all/size0-other-dim/f32", (lambda g: ([g.t([3, 0], "f32"), 0, True, True, True], {})))


reg(_UQ, "aten::unique_dim", unique_dim)


def unique_consecutive(qn):
    def runs(g, dt, n):
        out, v = [], g.r.randint(-2, 3)
        for _ in range(n):
            if g.r.random() < 0.5:
                v = g.r.randint(-2, 3)
            out.append(v)
        return g.torch.tensor(out, dtype=g.E.tdt[dt])

    for dt in ("i64", "i32"):
        for ri in (False, True):
            for rc in (False, True):
                lbl = f"inverse={int(ri)}/counts={int(rc)}"
                yield S(f"{lbl}/dim=None/r1/{dt}", (lambda g, dt=dt, ri=ri, rc=rc: ([runs(g, dt, 7), ri, rc], {})), mode=_skip(ri, rc))
        yield S(f"all/dim=0/r1/{dt}", (lambda g, dt=dt: ([runs(g, dt, 7), True, True, 0], {})))
        yield S(f"all/dim=None-explicit/r1/{dt}", (lambda g, dt=dt: ([runs(g, dt, 7), True, True, None], {})))
        yield S(f"all/dim=None/r2/{dt}", (lambda g, dt=dt: ([runs(g, dt, 6).reshape(2, 3), True, True], {})))
        yield S(f"defaults/r1/{dt}", (lambda g, dt=dt: ([runs(g, dt, 6)], {})), mode=_skip(False, False))
    dt = "i64"
    yield S(f"all/returning-value/{dt}", (lambda g: ([g.torch.tensor([1, 1, 2, 2, 1, 1, 3]), True, True], {})))
    yield S(f"all/all-equal/{dt}", (lambda g: ([g.torch.tensor([4, 4, 4]), True, True], {})))
    yield S(f"all/one-element/{dt}", (lambda g: ([g.torch.tensor([4]), True, True], {})))
    yield S(f"all/size0/{dt}", (lambda g: ([g.torch.zeros([0], dtype=g.torch.int64), True, True], {})))
    yield S(f"all/0-d/{dt}", (lambda g: ([g.torch.tensor(3), True, True], {})))
    yield S(f"all/dim=-1/r1/{dt}", (lambda g: ([runs(g, dt, 6), True, True, -1], {})))
    yield S(f"all/dim=0/r2/{dt}", (lambda g: ([g.torch.tensor([[1, 2], [1, 2], [3, 4]]), True, True, 0], {})))
    yield S("all/dim=None/r1/f32", (lambda g: ([g.torch.tensor([1.5, 1.5, 2.0, 1.5]), True, True], {})))


reg(_UQ, "aten::unique_consecutive", unique_consecutive)

# ---------------------------------------------------------------------------------------------
# M5: histogram-like / data-dependent ops

_HD = "misc_datadep"


def bincount(qn):
    def x(g, dt, n, hi=6):
        return g.torch.tensor([g.r.randint(0, hi) for _ in range(n)], dtype=g.E.tdt[dt])

    for dt in ("i64", "i32"):
        yield S(f"minlength=omitted/{dt}", (lambda g, dt=dt: ([x(g, dt, g.r.randint(3, 8))], {})))
        yield S(f"minlength=0/{dt}", (lambda g, dt=dt: ([x(g, dt, 6), None, 0], {})))
        yield S(f"minlength>max/{dt}", (lambda g, dt=dt: ([x(g, dt, 5, 3), None, 9], {})))
        yield S(f"minlength<max/{dt}", (lambda g, dt=dt: ([g.torch.cat([x(g, dt, 4), g.torch.tensor([7], dtype=g.E.tdt[dt])]), None, 3], {})))
    dt = "i64"
    yield S(f"size0/{dt}", (lambda g: ([g.torch.zeros([0], dtype=g.torch.int64)], {})))
    yield S(f"size0-minlength/{dt}", (lambda g: ([g.torch.zeros([0], dtype=g.torch.int64), None, 4], {})))
    yield S(f"all-zero/{dt}", (lambda g: ([g.torch.zeros([4], dtype=g.torch.int64)], {})))
    yield S(f"one-element/{dt}", (lambda g: ([g.torch.tensor([g.r.randint(0, 5)])], {})))
    yield S(f"weights-f32/{dt}", (lambda g: ([x(g, dt, 5), g.t([5], "f32")], {})))
    yield S(f"weights-i64/{dt}", (lambda g: ([x(g, dt, 5), g.t([5], "i64")], {})))
    yield S("minlength=omitted/u8", (lambda g: ([x(g, "u8", 5)], {})))


reg(_HD, "aten::bincount", bincount)


def histc(qn):
    """values on a 1/8 grid; bin edges either dyadic (exact in both implementations) or far from that grid."""
    for dt in _FL2:
        yield S(f"dyadic-edges/bins=4/{dt}", (lambda g, dt=dt: ([g.t([g.r.randint(4, 12)], dt), 4, -2.0, 2.0], {})))
        yield S(f"dyadic-edges/bins=8/nd/{dt}", (lambda g, dt=dt: ([g.t(g.dims(2, 2, 4), dt), 8, -4.0, 4.0], {})))
    dt = "f32"
    yield S(f"outside-range/{dt}", (lambda g: ([g.t([10], dt), 4, -1.0, 1.0], {})))
    yield S(f"value=max-included/{dt}", (lambda g: ([g.torch.tensor([2.0, 2.0, -2.0, 0.0, 1.999]), 4, -2.0, 2.0], {})))
    yield S(f"value=inner-edge/{dt}", (lambda g: ([g.torch.tensor([-1.0, 0.0, 1.0, 1.0]), 4, -2.0, 2.0], {})))
    yield S(f"thirds/{dt}", (lambda g: ([g.t([10], dt, "prob"), 3, 0.0, 1.0], {})))
    yield S(f"bins=1/{dt}", (lambda g: ([g.t([6], dt), 1, -1.0, 1.0], {})))
    yield S(f"int-bounds/{dt}", (lambda g: ([g.t([8], dt), 4, -2, 2], {})))
    yield S(f"defaults-data-range/{dt}", (lambda g: ([g.t([8], dt, "distinct")], {})))
    yield S(f"min=max-data-range/bins=4/{dt}", (lambda g: ([g.t([8], dt, "distinct"), 4], {})))
    yield S(f"0-d/{dt}", (lambda g: ([g.t([], dt, "unit"), 4, -1.0, 1.0], {})))
    yield S(f"size0/{dt}", (lambda g: ([g.t([0], dt), 4, -1.0, 1.0], {})))
    yield S("dyadic-edges/bins=4/f16", (lambda g: ([g.t([6], "f16"), 4, -2.0, 2.0], {})))


reg(_HD, "aten::histc", histc)


def _sparse(g, shape, dt):
    x = g.t(shape, dt, "nz")
    keep = g.t(shape, "bool")
    return x * keep.to(x.dtype) if dt != "bool" else keep


reg(_HD, "aten::nonzero", table, rows=[
    ("nd", lambda g, dt: ([_sparse(g, g.shape("nd"), dt)], {}), {"all": True}),
    ("r1", lambda g, dt: ([_sparse(g, [6], dt)], {})), ("r3", lambda g, dt: ([_sparse(g, g.dims(3, 2, 3), dt)], {})),
    ("all-zero", lambda g, dt: ([g.torch.zeros([2, 3], dtype=g.E.tdt[dt])], {})), ("none-zero", lambda g, dt: ([g.t([2, 3], dt, "nz") if dt != "bool" else g.torch.ones([2, 3], dtype=g.torch.bool)], {})),
    ("0-d-nonzero", lambda g, dt: ([g.t([], dt, "nz") if dt != "bool" else g.torch.tensor(True)], {})),
    ("0-d-zero", lambda g, dt: ([g.torch.zeros([], dtype=g.E.tdt[dt])], {})),
    ("size0", lambda g, dt: ([g.t(g.shape("size0"), dt)], {})), ("size1", lambda g, dt: ([g.t(g.shape("size1"), dt, "nz") if dt != "bool" else g.torch.ones([1, 1], dtype=g.torch.bool)], {})),
])


def _ms(g, dt, sx, sm, extra=0, src_shape=None, allf=None):
    x = g.t(sx, dt)
    m = g.t(sm, "bool")
    if allf is not None:
        m = g.torch.full(sm, allf, dtype=g.torch.bool)
    need = int(m.expand(g.torch.broadcast_shapes(tuple(sx), tuple(sm))).sum()) if len(sm) <= len(sx) else int(m.sum())
    n = need + extra
    src = g.t([n], dt, "pos" if dt != "bool" else "any")
    if src_shape == "r2":
        src = g.t([n, 2], dt, "pos" if dt != "bool" else "any")
    return [x, m, src], {}


reg(_HD, "aten::masked_scatter", table, rows=[
    ("same-shape/exact-source", lambda g, dt: (lambda s: _ms(g, dt, s, s))(g.shape("nd")), {"all": True}),
    ("same-shape/longer-source", lambda g, dt: (lambda s: _ms(g, dt, s, s, extra=3))(g.dims(2))),
    ("same-shape/r2-source", lambda g, dt: (lambda s: _ms(g, dt, s, s, src_shape="r2"))(g.dims(2))),
    ("mask-broadcast-trailing", lambda g, dt: (lambda a, b: _ms(g, dt, [a, b], [b], extra=1))(*g.dims(2))),
    ("mask-broadcast-size1", lambda g, dt: (lambda a, b: _ms(g, dt, [a, b], [a, 1], extra=1))(*g.dims(2))),
    ("mask-0-d", lambda g, dt: _ms(g, dt, [2, 3], [], extra=0)),
    ("mask-all-false", lambda g, dt: _ms(g, dt, [2, 3], [2, 3], extra=2, allf=False)),
    ("mask-all-true", lambda g, dt: _ms(g, dt, [2, 3], [2, 3], allf=True)),
    ("0-d", lambda g, dt: _ms(g, dt, [], [], extra=1)), ("size0", lambda g, dt: _ms(g, dt, [0, 3], [0, 3], extra=1)),
    ("r1", lambda g, dt: _ms(g, dt, [5], [5], extra=1)),
], lead_only=("bool", "f32"))  # the annotation ties self, mask and source to ONE type variable: only bool tensors are admitted


def repeat_interleave_tensor(qn):
    """repeat_interleave.Tensor(Tensor repeats, *, SymInt? output_size=None): index i repeated repeats[i] times."""
    def rep(g, dt, n, lo=0):
        return g.torch.tensor([g.r.randint(lo, 3) for _ in range(n)], dtype=g.E.tdt[dt])

    for dt in ("i64", "i32"):
        yield S(f"with-zeros/{dt}", (lambda g, dt=dt: ([g.torch.cat([rep(g, dt, g.r.randint(2, 4)), g.torch.tensor([0, 2], dtype=g.E.tdt[dt])])], {})))
        yield S(f"positive/{dt}", (lambda g, dt=dt: ([rep(g, dt, g.r.randint(2, 5), 1)], {})))
    dt = "i64"
    yield S(f"one-element/{dt}", (lambda g: ([g.torch.tensor([3])], {})))
    yield S(f"all-ones/{dt}", (lambda g: ([g.torch.ones([4], dtype=g.torch.int64)], {})))
    yield S(f"size0/{dt}", (lambda g: ([g.torch.zeros([0], dtype=g.torch.int64)], {})))
    yield S(f"output_size/{dt}", (lambda g: (lambda r: ([r], {"output_size": int(r.sum())}))(rep(g, dt, 4, 1))))
    yield S(f"output_size=None/{dt}", (lambda g: ([rep(g, dt, 4, 1)], {"output_size": None})))


reg(_HD, "aten::repeat_interleave.Tensor", repeat_interleave_tensor)

# ---------------------------------------------------------------------------------------------
# M6: strided views / creation, Sequence overloads, windows

_SV = "misc_strided"


def as_strided(qn):
    def mk(size, stride, off=None, n=24, form="positional"):
        def b(g, dt):
            x = g.t([n], dt) if not isinstance(n, list) else g.t(n, dt)
            if form == "omitted":
                return [x, list(size), list(stride)], {}
            return [x, list(size), list(stride), off], {}
        return b

    rows = [
        ("contiguous-r2", mk([3, 4], [4, 1], 0), {"all": True}),
        ("transpose", mk([4, 3], [1, 4], 0)), ("offset", mk([2, 3], [3, 1], 5)), ("offset=omitted", mk([2, 3], [3, 1], form="omitted")),
        ("offset=None", mk([2, 3], [3, 1], None)), ("overlapping-windows", mk([5, 3], [1, 1], 0)), ("stride=0-broadcast", mk([3, 4], [0, 1], 2)),
        ("r1", mk([5], [2], 1)), ("r3", mk([2, 2, 3], [6, 3, 1], 0)), ("r3-permuted", mk([3, 2, 2], [1, 6, 3], 0)), ("r4", mk([2, 1, 2, 3], [6, 6, 3, 1], 1)),
        ("0-d", mk([], [], 3)), ("size0", mk([0, 3], [3, 1], 0)), ("size1", mk([1, 1], [7, 5], 2)), ("from-r2", mk([3, 2], [1, 3], 0, n=[2, 3])),
        ("from-r2-offset", mk([2, 2], [3, 1], 1, n=[3, 3])), ("diagonal", mk([3], [4], 0, n=[3, 3])),
    ]
    yield from table(qn, rows, lead_only=("f32", "i64"))


reg(_SV, "aten::as_strided", as_strided)


def strided_creation(qn, new):
    tdt = core.env().tdt
    cases = [("contiguous", [2, 3], [3, 1]), ("transposed", [2, 3], [1, 2]), ("r1", [4], [1]), ("0-d", [], []), ("size0", [0, 3], [3, 1]),
             ("size1", [1, 1], [1, 1]), ("r3", [2, 1, 3], [3, 3, 1]), ("stride=0", [2, 3], [0, 0])]
    for lbl, size, stride in cases:
        for dk in (("omitted", "f64") if lbl == "contiguous" else ("omitted",)) if not new else (("omitted", "f64", "None") if lbl == "contiguous" else ("omitted",)):
            kw = {} if dk == "omitted" else {"dtype": None if dk == "None" else tdt[dk]}
            if new:
                for src in (("f32", "i64") if lbl in ("contiguous", "0-d") else ("f32",)):
                    yield S(f"{lbl}/dtype={dk}/{src}", (lambda g, size=size, stride=stride, kw=kw, src=src: ([g.t([2], src), list(size), list(stride)], dict(kw))), mode="shape_only")
            else:
                yield S(f"{lbl}/dtype={dk}", (lambda g, size=size, stride=stride, kw=kw: ([list(size), list(stride)], dict(kw))), mode="shape_only")
    if not new:
        for dk in ("i64", "bool", "f16", "None"):
            kw = {"dtype": None if dk == "None" else tdt[dk]}
            yield S(f"r2/dtype={dk}", (lambda g, kw=kw: ([[3, 2], [2, 1]], dict(kw))), mode="shape_only")
        yield S("r2/all-factory-kwargs", (lambda g: ([[3, 2], [2, 1]], {"dtype": tdt["f32"], "layout": g.torch.strided, "device": g.torch.device("cpu"), "pin_memory": False})), mode="shape_only")
    else:
        for dk in ("i64", "bool", "f16"):
            yield S(f"r2/dtype={dk}/f32", (lambda g, dk=dk: ([g.t([2], "f32"), [3, 2], [2, 1]], {"dtype": tdt[dk]})), mode="shape_only")
        for src in ("u8", "bool", "f16", "i32"):
            yield S(f"r2/dtype=omitted/{src}", (lambda g, src=src: ([g.t([2], src), [3, 2], [2, 1]], {})), mode="shape_only")


reg(_SV, "aten::empty_strided", strided_creation, new=False)
reg(_SV, "aten::new_empty_strided", strided_creation, new=True)


def atleast_seq(qn):
    def seq(g, dt, shapes):
        return [[g.t(s, dt) for s in shapes]], {}

    for dt in lead(core.DTYPES, ("f32", "i64", "bool")):
        yield S(f"mixed-ranks/{dt}", (lambda g, dt=dt: seq(g, dt, [[], [3], [2, 3], [2, 1, 3]])))
        yield S(f"all-0-d/{dt}", (lambda g, dt=dt: seq(g, dt, [[], []])))
    for dt in ("f32",):
        yield S(f"single-0-d/{dt}", (lambda g: seq(g, dt, [[]])))
        yield S(f"single-r1/{dt}", (lambda g: seq(g, dt, [[4]])))
        yield S(f"single-r2/{dt}", (lambda g: seq(g, dt, [[2, 3]])))
        yield S(f"r4/{dt}", (lambda g: seq(g, dt, [[2, 1, 2, 2], [3]])))
        yield S(f"size0/{dt}", (lambda g: seq(g, dt, [[0], [2, 0], []])))
        yield S(f"size1/{dt}", (lambda g: seq(g, dt, [[1], [1, 1]])))
    for dt in ("f16", "f64", "i32", "u8"):
        yield S(f"mixed-ranks/{dt}", (lambda g, dt=dt: seq(g, dt, [[], [3], [2, 3]])))


reg(_SV, ["aten::atleast_1d.Sequence", "aten::atleast_2d.Sequence", "aten::atleast_3d.Sequence"], atleast_seq)


def window(qn):
    tdt = core.env().tdt
    for n, lbl in ((8, "even-8"), (7, "odd-7"), (2, "even-2"), (3, "odd-3"), (1, "length=1"), (0, "length=0"), (16, "even-16")):
        yield S(f"{lbl}/dtype=omitted", (lambda g, n=n: ([n], {})), scale=4.0)
    for dk in ("f32", "f64", "f16", "None"):
        yield S(f"even-6/dtype={dk}", (lambda g, dk=dk: ([6], {"dtype": None if dk == "None" else tdt[dk]})), scale=4.0)
    yield S("odd-5/dtype=f64", (lambda g: ([5], {"dtype": tdt["f64"]})), scale=4.0)
    yield S("even-6/all-factory-kwargs", (lambda g: ([6], {"dtype": tdt["f32"], "layout": g.torch.strided, "device": g.torch.device("cpu"), "pin_memory": False})), scale=4.0)


reg(_SV, ["aten::hann_window", "aten::hamming_window", "aten::blackman_window"], window)

# ---------------------------------------------------------------------------------------------
# M7: random samplers: dtype and shape only

_RN = "misc_random"
_SO = {"mode": "shape_only"}


def _p(g, shape, dt):
    return g.t(shape, dt, "prob")


reg(_RN, "aten::bernoulli", table, rows=[
    ("nd", lambda g, dt: ([_p(g, g.shape("nd"), dt)], {}), {"all": True, **_SO}), ("0-d", lambda g, dt: ([_p(g, [], dt)], {}), _SO),
    ("size0", lambda g, dt: ([_p(g, g.shape("size0"), dt)], {}), _SO), ("size1", lambda g, dt: ([_p(g, g.shape("size1"), dt)], {}), _SO),
], lead_only=("f32",))
reg(_RN, "aten::bernoulli.p", table, rows=[
    ("nd", lambda g, dt: ([g.t(g.shape("nd"), dt), 0.5], {}), {"all": True, **_SO}), ("0-d", lambda g, dt: ([g.t([], dt), 0.25], {}), _SO),
    ("size0", lambda g, dt: ([g.t(g.shape("size0"), dt), 0.5], {}), _SO), ("size1", lambda g, dt: ([g.t(g.shape("size1"), dt), 0.5], {}), _SO),
    ("p=0", lambda g, dt: ([g.t([2, 3], dt), 0.0], {})), ("p=1", lambda g, dt: ([g.t([2, 3], dt), 1.0], {})),
], lead_only=("f32", "i64"))
reg(_RN, "aten::multinomial", table, rows=[
    ("r1/replacement=omitted", lambda g, dt: ([_p(g, [5], dt), 3], {}), {"all": True, **_SO}),
    ("r2/replacement=omitted", lambda g, dt: ([_p(g, [2, 5], dt), 3], {}), {"all": True, **_SO}),
    ("r1/replacement=True", lambda g, dt: ([_p(g, [3], dt), 6, True], {}), _SO), ("r2/replacement=True", lambda g, dt: ([_p(g, [2, 3], dt), 6, True], {}), _SO),
    ("r1/num_samples=1", lambda g, dt: ([_p(g, [4], dt), 1], {}), _SO), ("r2/num_samples=1", lambda g, dt: ([_p(g, [3, 4], dt), 1], {}), _SO),
    ("r2/batch=1", lambda g, dt: ([_p(g, [1, 4], dt), 2], {}), _SO), ("r1/replacement=False", lambda g, dt: ([_p(g, [4], dt), 4, False], {}), _SO),
], lead_only=("f32",))
_NSH = [("nd", "nd"), ("0-d", "0-d"), ("size0", "size0"), ("size1", "size1")]
reg(_RN, "aten::normal.Tensor_Tensor", table, rows=[
    (sc, (lambda g, dt, sc=sc: (lambda s: ([g.t(s, dt), _p(g, s, dt)], {}))(g.shape(sc))), {"all": sc == "nd", **_SO}) for sc, _ in _NSH
] + [("broadcast", lambda g, dt: (lambda a, b: ([g.t(a, dt), _p(g, b, dt)], {}))(*g.bcast_pair()), _SO),
     ("0-d-std", lambda g, dt: ([g.t(g.shape("nd"), dt), _p(g, [], dt)], {}), _SO), ("0-d-mean", lambda g, dt: ([g.t([], dt), _p(g, g.shape("nd"), dt)], {}), _SO)],
    lead_only=("f32",))
reg(_RN, "aten::normal.Tensor_float", table, rows=[
    (sc, (lambda g, dt, sc=sc: ([g.t(g.shape(sc), dt), 2.0], {})), {"all": sc == "nd", **_SO}) for sc, _ in _NSH
] + [("std=omitted", lambda g, dt: ([g.t(g.shape("nd"), dt)], {}), _SO), ("std=pyint", lambda g, dt: ([g.t(g.shape("nd"), dt), 2], {}), _SO)], lead_only=("f32",))
reg(_RN, "aten::normal.float_Tensor", table, arg=1, rows=[
    (sc, (lambda g, dt, sc=sc: ([1.5, _p(g, g.shape(sc), dt)], {})), {"all": sc == "nd", **_SO}) for sc, _ in _NSH
] + [("mean=pyint", lambda g, dt: ([1, _p(g, g.shape("nd"), dt)], {}), _SO)], lead_only=("f32",))


def normal_ff(qn):
    tdt = core.env().tdt
    for lbl, size in (("nd", [2, 3]), ("r1", [4]), ("0-d", []), ("size0", [0, 3]), ("size1", [1, 1]), ("r4", [2, 1, 2, 2])):
        yield S(f"{lbl}/dtype=omitted", (lambda g, size=size: ([0.5, 2.0, list(size)], {})), mode="shape_only")
    for dk in ("f32", "f64", "f16", "None"):
        yield S(f"nd/dtype={dk}", (lambda g, dk=dk: ([0.0, 1.0, [2, 3]], {"dtype": None if dk == "None" else tdt[dk]})), mode="shape_only")
    yield S("nd/pyint-mean-std", (lambda g: ([0, 1, [2, 2]], {})), mode="shape_only")
    yield S("nd/all-factory-kwargs", (lambda g: ([0.0, 1.0, [2, 2]], {"dtype": tdt["f32"], "layout": g.torch.strided, "device": g.torch.device("cpu"), "pin_memory": False})), mode="shape_only")


reg(_RN, "aten::normal.float_float", normal_ff)
reg(_RN, "aten::normal_functional", table, rows=[
    (sc, (lambda g, dt, sc=sc: ([g.t(g.shape(sc), dt)], {})), {"all": sc == "nd", **_SO}) for sc, _ in _NSH
] + [("mean-std", lambda g, dt: ([g.t(g.shape("nd"), dt), 1.5, 0.5], {}), _SO), ("mean-only", lambda g, dt: ([g.t(g.shape("nd"), dt), 1.5], {}), _SO),
     ("0-d/mean-std", lambda g, dt: ([g.t([], dt), 1.5, 0.5], {}), _SO)], lead_only=("f32",), dts=("f16", "f32", "f64"))

# ---------------------------------------------------------------------------------------------
# M8: fake-quantize and quantized_decomposed (scales are powers of two and inputs sit on a 1/8 grid: x/scale is exact in
# every implementation, so rounding ties are real ties (round-half-even on both sides) and not rounding noise)

_QZ = "misc_quant"
_RANGES = [("u8", 0, 255), ("i8", -128, 127), ("u7", 0, 127)]


def _qx(g, shape, dt, wide=False):
    x = g.t(shape, dt)
    return x * 64.0 if wide else x


def fq_tensor(qn, tensor_qparams):
    torch = core.env().torch

    def qp(g, scale, zp, sdt="f32", zdt="f32", shape=()):
        # tensor_qparams: the annotation ties scale and zero_point to one type variable -> float32 zero_point is the admitted form
        if not tensor_qparams:
            return [scale, zp]
        return [torch.full(list(shape), scale, dtype=g.E.tdt[sdt]), torch.full(list(shape), zp, dtype=g.E.tdt[zdt])]

    for dt in [d for d in adm(qn) if is_float(d)]:
        yield S(f"range=u8/nd/{dt}", (lambda g, dt=dt: ([_qx(g, g.shape("nd"), dt)] + qp(g, 0.25, 10) + [0, 255], {})))
    dt = "f32"
    for rl, lo, hi in _RANGES:
        zp = 3 if lo == 0 else -3
        yield S(f"range={rl}/ties/{dt}", (lambda g, lo=lo, hi=hi, zp=zp: ([_qx(g, [12], dt)] + qp(g, 0.25, zp) + [lo, hi], {})))
        yield S(f"range={rl}/saturating/{dt}", (lambda g, lo=lo, hi=hi, zp=zp: ([_qx(g, [12], dt, wide=True)] + qp(g, 0.5, zp) + [lo, hi], {})))
        yield S(f"range={rl}/zero_point=0/{dt}", (lambda g, lo=lo, hi=hi: ([_qx(g, [2, 4], dt)] + qp(g, 0.125, 0) + [lo, hi], {})))
    yield S(f"range=u8/zero_point=max/{dt}", (lambda g: ([_qx(g, [8], dt)] + qp(g, 0.5, 255) + [0, 255], {})))
    yield S(f"range=i8/zero_point=min/{dt}", (lambda g: ([_qx(g, [8], dt)] + qp(g, 0.5, -128) + [-128, 127], {})))
    yield S(f"range=u8/scale=2/{dt}", (lambda g: ([_qx(g, [8], dt, wide=True)] + qp(g, 2.0, 100) + [0, 255], {})))
    yield S(f"range=u8/0-d/{dt}", (lambda g: ([_qx(g, [], dt)] + qp(g, 0.25, 10) + [0, 255], {})))
    yield S(f"range=u8/size0/{dt}", (lambda g: ([_qx(g, [0, 3], dt)] + qp(g, 0.25, 10) + [0, 255], {})))
    yield S(f"range=u4-unsupported/{dt}", (lambda g: ([_qx(g, [4], dt)] + qp(g, 0.25, 3) + [0, 15], {})))
    if tensor_qparams:
        yield S(f"range=u8/qparams-shape-1/{dt}", (lambda g: ([_qx(g, [6], dt)] + qp(g, 0.25, 10, shape=(1,)) + [0, 255], {})))
        yield S(f"range=i8/zero_point-i64/{dt}", (lambda g: ([_qx(g, [6], dt)] + qp(g, 0.25, -5, zdt="i64") + [-128, 127], {})))
        yield S(f"range=u8/zero_point-i32/{dt}", (lambda g: ([_qx(g, [6], dt)] + qp(g, 0.25, 5, zdt="i32") + [0, 255], {})))
        yield S(f"range=u8/scale-f64/{dt}", (lambda g: ([_qx(g, [6], dt)] + qp(g, 0.25, 5, sdt="f64") + [0, 255], {})))


reg(_QZ, "aten::fake_quantize_per_tensor_affine", fq_tensor, tensor_qparams=False)
reg(_QZ, "aten::fake_quantize_per_tensor_affine.tensor_qparams", fq_tensor, tensor_qparams=True)


def _chan(g, c, zlo, zhi, sdt="f32", zdt="i32"):
    torch = g.torch
    sc = torch.tensor([g.r.choice((0.125, 0.25, 0.5, 1.0)) for _ in range(c)], dtype=g.E.tdt[sdt])
    zp = torch.tensor([g.r.randint(zlo, zhi) for _ in range(c)], dtype=g.E.tdt[zdt])
    return sc, zp


def fq_channel(qn):
    def mk(dt, shape, axis, lo, hi, wide=False, zdt="i32"):
        def b(g):
            c = shape[axis]
            sc, zp = _chan(g, c, max(lo, -8), min(hi, 8) if lo < 0 else 8, zdt=zdt)
            return [_qx(g, shape, dt, wide), sc, zp, axis, lo, hi], {}
        return b

    for dt in [d for d in adm(qn) if is_float(d)]:
        yield S(f"range=u8/axis=0/r2/{dt}", mk(dt, [3, 4], 0, 0, 255))
    dt = "f32"
    for rl, lo, hi in _RANGES:
        yield S(f"range={rl}/axis=1/r3/{dt}", mk(dt, [2, 3, 2], 1, lo, hi))
        yield S(f"range={rl}/saturating/{dt}", mk(dt, [3, 4], 0, lo, hi, wide=True))
    yield S(f"range=u8/axis=last/r2/{dt}", mk(dt, [3, 4], 1, 0, 255))
    yield S(f"range=u8/axis=last/r4/{dt}", mk(dt, [2, 2, 2, 3], 3, 0, 255))
    yield S(f"range=i8/axis=0/r1/{dt}", mk(dt, [5], 0, -128, 127))
    yield S(f"range=u8/one-channel/{dt}", mk(dt, [1, 4], 0, 0, 255))
    yield S(f"range=u8/size0-other/{dt}", mk(dt, [3, 0], 0, 0, 255))
    yield S(f"range=u8/zero_point-f32/{dt}", mk(dt, [3, 4], 0, 0, 255, zdt="f32"))
    yield S(f"range=u4-unsupported/{dt}", mk(dt, [3, 4], 0, 0, 15))


reg(_QZ, "aten::fake_quantize_per_channel_affine", fq_channel)


def _qd_setup(qn):
    import torch.ao.quantization.fx._decomposed  # noqa: F401  (registers the quantized_decomposed library)

    E = core.env()
    if E._targets.get(qn) is None:
        E._targets.pop(qn, None)


_QDT = [("u8", 0, 255), ("i8", -128, 127)]


def qd_per_tensor(qn, quantize, form):
    """The .tensor / .tensor2 overloads pass scale / zero_point (/ quant_min / quant_max) as tensors, but the one function
    registered for all three declares them as Python scalars (attributes): the annotation admits no tensor there, so these
    tuples are outside the domain (status outside_annotation) - a few strata are kept as evidence."""
    rows = list(_qd_per_tensor(qn, quantize, form))
    return rows if form == "default" else rows[:3] + rows[-2:]


def _qd_per_tensor(qn, quantize, form):
    """form: 'default' (python scale/zero_point), 'tensor' (tensor scale/zero_point), 'tensor2' (+ tensor quant_min/max)."""
    _qd_setup(qn)
    torch = core.env().torch
    tdt = core.env().tdt

    def params(g, scale, zp, lo, hi):
        if form == "default":
            return [scale, zp, lo, hi]
        s, z = torch.tensor(scale, dtype=torch.float32), torch.tensor(zp, dtype=torch.int64)
        if form == "tensor":
            return [s, z, lo, hi]
        return [s, z, torch.tensor(lo, dtype=torch.int64), torch.tensor(hi, dtype=torch.int64)]

    def qin(g, qd, shape, lo, hi):
        n = 1
        for d in shape:
            n *= d
        return torch.tensor([g.r.randint(lo, hi) for _ in range(n)], dtype=tdt[qd]).reshape(list(shape))

    for qd, lo, hi in _QDT:
        zp = 3 if lo == 0 else -3
        if quantize:
            yield S(f"{qd}/ties/f32", (lambda g, qd=qd, lo=lo, hi=hi, zp=zp: ([_qx(g, [12], "f32")] + params(g, 0.25, zp, lo, hi) + [tdt[qd]], {})))
            yield S(f"{qd}/saturating/f32", (lambda g, qd=qd, lo=lo, hi=hi, zp=zp: ([_qx(g, [12], "f32", wide=True)] + params(g, 0.5, zp, lo, hi) + [tdt[qd]], {})))
            yield S(f"{qd}/nd/f32", (lambda g, qd=qd, lo=lo, hi=hi, zp=zp: ([_qx(g, g.shape("nd"), "f32")] + params(g, 0.125, zp, lo, hi) + [tdt[qd]], {})))
            yield S(f"{qd}/zero_point=0/0-d/f32", (lambda g, qd=qd, lo=lo, hi=hi: ([_qx(g, [], "f32")] + params(g, 0.25, 0, lo, hi) + [tdt[qd]], {})))
            yield S(f"{qd}/size0/f32", (lambda g, qd=qd, lo=lo, hi=hi, zp=zp: ([_qx(g, [0, 2], "f32")] + params(g, 0.25, zp, lo, hi) + [tdt[qd]], {})))
        else:
            for od in ("omitted", "None", "f32", "f16"):
                kw = {} if od == "omitted" else {"out_dtype": None if od == "None" else tdt[od]}
                yield S(f"{qd}/out_dtype={od}/nd", (lambda g, qd=qd, lo=lo, hi=hi, zp=zp, kw=kw: ([qin(g, qd, g.shape("nd"), lo, hi)] + params(g, 0.25, zp, lo, hi) + [tdt[qd]], dict(kw))))
            yield S(f"{qd}/zero_point=0/0-d", (lambda g, qd=qd, lo=lo, hi=hi: ([qin(g, qd, [], lo, hi)] + params(g, 0.5, 0, lo, hi) + [tdt[qd]], {})))
            yield S(f"{qd}/extremes", (lambda g, qd=qd, lo=lo, hi=hi, zp=zp: ([torch.tensor([lo, hi, zp], dtype=tdt[qd])] + params(g, 0.5, zp, lo, hi) + [tdt[qd]], {})))
            yield S(f"{qd}/size0", (lambda g, qd=qd, lo=lo, hi=hi, zp=zp: ([qin(g, qd, [0, 2], lo, hi)] + params(g, 0.25, zp, lo, hi) + [tdt[qd]], {})))
    if quantize:
        yield S("u8/narrow-range-0-127/f32", (lambda g: ([_qx(g, [12], "f32", wide=True)] + params(g, 0.5, 3, 0, 127) + [tdt["u8"]], {})))
        yield S("i8/narrow-range-sym-127/f32", (lambda g: ([_qx(g, [12], "f32", wide=True)] + params(g, 0.5, 0, -127, 127) + [tdt["i8"]], {})))
        yield S("i16/nd/f32", (lambda g: ([_qx(g, [6], "f32")] + params(g, 0.25, 5, -32768, 32767) + [tdt["i16"]], {})))
        yield S("i32/nd/f32", (lambda g: ([_qx(g, [6], "f32")] + params(g, 0.25, 5, -(2 ** 31), 2 ** 31 - 1) + [tdt["i32"]], {})))
        yield S("u8/ties/f16", (lambda g: ([_qx(g, [8], "f16")] + params(g, 0.25, 3, 0, 255) + [tdt["u8"]], {})))
        yield S("u8/non-dyadic-scale/f32", (lambda g: ([g.t([8], "f32", "nonint")] + params(g, 0.1, 3, 0, 255) + [tdt["u8"]], {})))
    else:
        yield S("i32/out_dtype=omitted", (lambda g: ([qin(g, "i32", [5], -1000, 1000)] + params(g, 0.25, 7, -(2 ** 31), 2 ** 31 - 1) + [tdt["i32"]], {})))
        yield S("i16/out_dtype=omitted", (lambda g: ([qin(g, "i16", [5], -1000, 1000)] + params(g, 0.25, 7, -32768, 32767) + [tdt["i16"]], {})))
        yield S("u8/non-dyadic-scale", (lambda g: ([qin(g, "u8", [6], 0, 255)] + params(g, 0.1, 3, 0, 255) + [tdt["u8"]], {})), scale=4.0)


for _f, _sfx in (("default", ""), ("tensor", ".tensor"), ("tensor2", ".tensor2")):
    reg(_QZ, f"quantized_decomposed::quantize_per_tensor{_sfx}", qd_per_tensor, quantize=True, form=_f)
    reg(_QZ, f"quantized_decomposed::dequantize_per_tensor{_sfx}", qd_per_tensor, quantize=False, form=_f)


def qd_per_channel(qn, quantize, exists=True):
    rows = list(_qd_per_channel(qn, quantize))
    return rows if exists else rows[:3]   # .tensor / .tensor2 do not exist in the installed torch (status no_target)


def _qd_per_channel(qn, quantize):
    _qd_setup(qn)
    torch = core.env().torch
    tdt = core.env().tdt

    def mk(qd, lo, hi, shape, axis, wide=False, sdt="f32", zdt="i64", zp_none=False, kw=None, src="f32"):
        def b(g):
            c = shape[axis]
            sc, zp = _chan(g, c, max(lo, -8), 8, sdt=sdt, zdt=zdt)
            if quantize:
                x = _qx(g, shape, src, wide)
            else:
                n = 1
                for d in shape:
                    n *= d
                x = torch.tensor([g.r.randint(lo, hi) for _ in range(n)], dtype=tdt[qd]).reshape(list(shape))
            return [x, sc, None if zp_none else zp, axis, lo, hi, tdt[qd]], dict(kw or {})
        return b

    for qd, lo, hi in _QDT:
        yield S(f"{qd}/axis=0/r2", mk(qd, lo, hi, [3, 4], 0))
        yield S(f"{qd}/axis=1/r3", mk(qd, lo, hi, [2, 3, 2], 1))
        yield S(f"{qd}/axis=last/r2", mk(qd, lo, hi, [3, 4], 1))
        yield S(f"{qd}/scales-f64", mk(qd, lo, hi, [3, 4], 0, sdt="f64"))
        yield S(f"{qd}/zero_points-i32", mk(qd, lo, hi, [3, 4], 0, zdt="i32"))
        if quantize:
            yield S(f"{qd}/saturating", mk(qd, lo, hi, [3, 4], 0, wide=True))
        else:
            yield S(f"{qd}/zero_points=None", mk(qd, lo, hi, [3, 4], 0, zp_none=True))
            for od in ("None", "f32", "f16"):
                yield S(f"{qd}/out_dtype={od}", mk(qd, lo, hi, [3, 4], 0, kw={"out_dtype": None if od == "None" else tdt[od]}))
    yield S("u8/axis=-1/r2", mk("u8", 0, 255, [3, 4], -1))
    yield S("u8/one-channel", mk("u8", 0, 255, [1, 4], 0))
    yield S("u8/r1", mk("u8", 0, 255, [5], 0))
    yield S("u8/size0-other", mk("u8", 0, 255, [3, 0], 0))
    if quantize:
        yield S("u8/narrow-range-0-127", mk("u8", 0, 127, [3, 4], 0, wide=True))
        yield S("i8/narrow-range-sym-127", mk("i8", -127, 127, [3, 4], 0, wide=True))
        yield S("u8/input-f16", mk("u8", 0, 255, [3, 4], 0, src="f16"))


for _sfx in ("", ".tensor", ".tensor2"):
    reg(_QZ, f"quantized_decomposed::quantize_per_channel{_sfx}", qd_per_channel, quantize=True, exists=not _sfx)
    reg(_QZ, f"quantized_decomposed::dequantize_per_channel{_sfx}", qd_per_channel, quantize=False, exists=not _sfx)

# ---------------------------------------------------------------------------------------------
# M9: scalarisation / metadata ops

_SC = "misc_scalarize"


def _one(g, dt, shape, dom="nz"):
    if dt == "bool":
        return g.torch.full(list(shape), g.r.random() < 0.5, dtype=g.torch.bool)
    return g.t(shape, dt, dom)


reg(_SC, "aten::_local_scalar_dense", table, rows=[
    ("shape-1", lambda g, dt: ([_one(g, dt, [1])], {}), {"all": True}), ("0-d", lambda g, dt: ([_one(g, dt, [])], {}), {"all": True}),
    ("shape-1-1", lambda g, dt: ([_one(g, dt, [1, 1])], {})),
])
_Z = lambda g, dt, shape, v: g.torch.full(list(shape), v, dtype=g.E.tdt[dt])  # noqa: E731
reg(_SC, "aten::is_nonzero", table, rows=[
    ("0-d/nonzero", lambda g, dt: ([_one(g, dt, [])], {}), {"all": True}), ("0-d/zero", lambda g, dt: ([_Z(g, dt, [], 0)], {}), {"all": True}),
    ("0-d/negative-zero", lambda g, dt: ([_Z(g, dt, [], -0.0)], {}), {"dts": ("f32",)}),
    ("0-d/fraction", lambda g, dt: ([_Z(g, dt, [], 0.25)], {}), {"dts": ("f32", "f16")}),
    ("rank>0/shape-1/nonzero", lambda g, dt: ([_one(g, dt, [1])], {}), {"all": True}),
    ("rank>0/shape-1/zero", lambda g, dt: ([_Z(g, dt, [1], 0)], {})),
    ("rank>0/shape-1-1/nonzero", lambda g, dt: ([_one(g, dt, [1, 1])], {})),
    ("rank>0/shape-1/fraction", lambda g, dt: ([_Z(g, dt, [1], 0.25)], {}), {"dts": ("f32",)}),
])
reg(_SC, "aten::sym_size.int", table, rows=[
    ("dim=0", lambda g, dt: ([g.t(g.dims(g.r.randint(1, 4)), dt), 0], {}), {"all": True}),
    ("dim=last", lambda g, dt: (lambda s: ([g.t(s, dt), len(s) - 1], {}))(g.dims(g.r.randint(2, 4)))),
    ("dim=middle", lambda g, dt: ([g.t(g.dims(3), dt), 1], {})),
    ("dim=-1", lambda g, dt: ([g.t(g.dims(g.r.randint(1, 3)), dt), -1], {})),
    ("dim=-rank", lambda g, dt: (lambda s: ([g.t(s, dt), -len(s)], {}))(g.dims(g.r.randint(2, 3)))),
    ("size0-dim", lambda g, dt: ([g.t([2, 0, 3], dt), 1], {})), ("size1-dim", lambda g, dt: ([g.t([3, 1], dt), 1], {})),
    ("r1", lambda g, dt: ([g.t([g.r.randint(2, 6)], dt), 0], {})),
], lead_only=("f32", "i64", "bool"))
reg(_SC, "aten::sym_storage_offset", table, rows=[
    ("nd", lambda g, dt: ([g.t(g.shape("nd"), dt)], {}), {"all": True}), ("0-d", lambda g, dt: ([g.t([], dt)], {})),
    ("size0", lambda g, dt: ([g.t(g.shape("size0"), dt)], {})),
])
reg(_SC, "prims::device_put", table, rows=[
    ("nd", lambda g, dt: ([g.t(g.shape("nd"), dt), g.torch.device("cpu")], {}), {"all": True}),
    ("0-d", lambda g, dt: ([g.t([], dt), g.torch.device("cpu")], {})), ("size0", lambda g, dt: ([g.t(g.shape("size0"), dt), g.torch.device("cpu")], {})),
    ("size1", lambda g, dt: ([g.t(g.shape("size1"), dt), g.torch.device("cpu")], {})),
    ("non_blocking=False", lambda g, dt: ([g.t(g.shape("nd"), dt), g.torch.device("cpu"), False], {})),
    ("non_blocking=True", lambda g, dt: ([g.t(g.shape("nd"), dt), g.torch.device("cpu"), True], {})),
])


def prims_resize(qn):
    """prims::resize(a, shape): "gives a tensor with no elements a new shape ... its values are uninitialized" (torch/_prims):
    the documented domain is a tensor with no elements (plus the trivial same-shape call); dtype and shape only."""
    for dt in lead(adm(qn), ("f32", "i64", "bool")):
        yield S(f"same-shape/{dt}", (lambda g, dt=dt: (lambda s: ([g.t(s, dt), list(s)], {}))(g.dims(2))))
        yield S(f"0-d-to-0-d/{dt}", (lambda g, dt=dt: ([g.t([], dt), []], {})))
        yield S(f"grow/from-empty-r1/{dt}", (lambda g, dt=dt: ([g.t([0], dt), g.dims(2)], {})), mode="shape_only")
        yield S(f"grow/from-empty-r1-to-r1/{dt}", (lambda g, dt=dt: ([g.t([0], dt), [g.r.randint(2, 5)]], {})), mode="shape_only")
        yield S(f"grow/from-empty-r2/{dt}", (lambda g, dt=dt: ([g.t([0, 3], dt), [2, 3]], {})), mode="shape_only")
        yield S(f"grow/from-empty-to-0-d/{dt}", (lambda g, dt=dt: ([g.t([0], dt), []], {})), mode="shape_only")
        yield S(f"empty-to-empty/{dt}", (lambda g, dt=dt: ([g.t([0], dt), [2, 0]], {})))


reg(_SC, "prims::resize", prims_resize)
