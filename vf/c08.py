"""C08 — torch_lib operator implementations agree with PyTorch.

(1) direct: every covered registered overload x argument class (stratum) is bound through the ATen
    schema the exporter's way, traced under the exporter's real OpRecorder, run on ORT, compared with
    torch eager calling the resolved OpOverload itself.
(2) end-to-end: small nn.Modules composed of covered ops, torch.onnx.export(dynamo=True), ORT vs eager.
"""
from __future__ import annotations

import math

from . import common

PID = "C08"
LEVEL = "exploration"
RULE = ("stratified: strata = registered overload x argument class (shape class: 0-d / size-0 / size-1 / n-d / broadcast pair; "
        "operand kind: tensor vs python scalar; dim class: -rank / last / multi / None; keepdim; omitted optionals; alpha; "
        "rounding_mode; dtype of the 7 that the function's annotation admits); every stratum is visited at every seed, the seed "
        "only picks shapes (rank 0-4, dims 0-5) and values inside it; thorough repeats each stratum to ~200 tuples per overload. "
        "direct: ATen-schema binding (positional by position, keyword-only by name) -> meta.function under "
        "_building.OpRecorder(opset18) -> ir.Model -> ORT vs torch eager (structure, dtype, shape, values by dtype tolerance); "
        "ORT != torch but onnx.reference == torch => disputed. end-to-end: fixed compositions of 2-5 covered ops as nn.Module, "
        "torch.onnx.export(dynamo=True), every intermediate returned so the first deviating op names the mechanism. "
        "non-trivial = torch accepted the tuple, the annotation admits it and >=1 node was recorded; distinct = (overload, class)")
ASSUMPTIONS = [
    "torch eager (CPU) calling the resolved OpOverload is the oracle; tuples torch rejects are outside the operator's domain",
    "the domain is further restricted to dtypes the torch_lib function's annotation admits (op_signature type constraints, "
    "shared type variables bind operands to one dtype); python scalars are given only in the tensor's own dtype category "
    "(the exporter's type-promotion pass removes the other combinations before torch_lib is called)",
    "torch.onnx._internal.exporter (_get_overload, OpRecorder, _convert_fx_arg_to_onnx_arg convention, dtype=None -> -1) of the "
    "installed PyTorch is the exporter's convention",
    "ONNX Runtime 1.30 CPU with optimisations disabled decides; onnx.reference may only dispute",
    "no undefined-behaviour inputs: no integer division by zero, no float->int casts of nan/inf/out-of-range, indices in range, "
    "small integers (no overflow); NaN/inf inputs only for the is* predicates",
    "trace-time exceptions are refusals (counted per overload in evidence), ORT NOT_IMPLEMENTED is inconclusive for the tuple",
]
ANCHORS = [
    "onnxscript.function_libs.torch_lib.ops.core:aten_div_mode.func",
    "onnxscript.function_libs.torch_lib.ops.core:aten_sum_dim_IntList.func",
    "onnxscript.function_libs.torch_lib.ops.core:aten_add.func",
    "onnxscript.function_libs.torch_lib.ops.core:aten_addmm.func",
    "onnxscript.function_libs.torch_lib.ops.core:aten_slice.func",
    "onnxscript.function_libs.torch_lib.registration:torch_op",
    "onnxscript._framework_apis.torch_2_5:get_torchlib_ops",
]
TIMEOUT = 900.0

NCHUNK = {"quick": 2, "thorough": 6}
REPS_TARGET = 200


def thresholds(tier):
    return {}


def _families():
    from . import c08_strata

    return c08_strata.FAMILIES


def cases(tier, seed):
    out = []
    fams = _families()
    for fam in sorted(fams):
        n = NCHUNK.get(tier, 2)
        n = max(1, min(n, len(fams[fam])))
        for i in range(n):
            out.append({"kind": "direct", "family": fam, "i": i, "n": n, "seed": seed, "tier": tier})
    return out


def worker_init():
    from . import c08_core

    c08_core.env()
    c08_core.coverage_install()


def run_direct(spec):
    from . import c08_core as core
    from . import c08_strata as st
    from .c08_gen import G

    fam, tier, seed = spec["family"], spec["tier"], spec["seed"]
    only = spec.get("only")
    qns = sorted(st.FAMILIES[fam])
    qns = [q for k, q in enumerate(qns) if k % spec["n"] == spec["i"]]
    events, viol, sigs, per, notes = {}, {}, [], {}, {"refused": {}, "disputed": [], "checker": [], "not_implemented": {}}

    def hit(k, n=1):
        events[k] = events.get(k, 0) + n

    E = core.env()
    for qn in qns:
        if only and qn not in only:
            continue
        if qn not in E.metas:
            hit("overload_not_registered")
            continue
        try:
            strata = st.strata(fam, qn)
        except Exception as e:  # a recipe bug is a harness error
            raise RuntimeError(f"recipe for {qn} failed: {type(e).__name__}: {e}") from e
        reps = 1 if tier == "quick" else max(1, math.ceil(REPS_TARGET / max(1, len(strata))))
        po = per.setdefault(qn, {"function": E.metas[qn].function.name, "strata": len(strata)})
        for s in strata:
            if spec.get("cls") and s.cls != spec["cls"]:
                continue
            for rep in range(reps):
                g = G(common.rng(PID, seed, qn, s.cls, rep))
                try:
                    args, kwargs = s.build(g)
                except Exception as e:
                    raise RuntimeError(f"builder {qn} [{s.cls}] failed: {type(e).__name__}: {e}") from e
                r = core.judge(qn, s.cls, args, kwargs, mode=s.mode, scale=s.scale)
                stt = r["status"]
                hit("direct_cases")
                hit("direct_" + stt)
                po[stt] = po.get(stt, 0) + 1
                for k, v in r.get("events", {}).items():
                    hit(k, v)
                if stt in ("ok", "violation", "disputed"):
                    sigs.append(f"{qn}|{s.cls}")
                if stt == "violation":
                    v = r["viol"]
                    if v["key"] not in viol:
                        viol[v["key"]] = v
                        v["detail"]["count"] = 1
                    else:
                        viol[v["key"]]["detail"]["count"] += 1
                elif stt == "refused":
                    d = notes["refused"].setdefault(qn, {})
                    if len(d) < 4:
                        d.setdefault(s.cls, r.get("info"))
                elif stt == "disputed" and len(notes["disputed"]) < 8:
                    notes["disputed"].append(r.get("info"))
                elif stt == "not_implemented":
                    notes["not_implemented"].setdefault(qn, r.get("info"))
                if r.get("checker") and len(notes["checker"]) < 6:
                    notes["checker"].append(r["checker"])
    cov = core.coverage_take()
    return {"status": "ok", "viol": list(viol.values()), "events": events, "nontrivial": True, "sig": None,
            "sample": None, "data": {"sigs": sigs, "per": per, "notes": notes, "cov": cov}}


def run_case(spec):
    if spec["kind"] == "direct":
        return run_direct(spec)
    raise ValueError(spec["kind"])


def finalize(ctx):
    per, cov = {}, {}
    refused, disputed, checker, notimpl = {}, [], [], {}
    for r in ctx.results:
        d = r.get("data") or {}
        for s in d.get("sigs") or []:
            ctx.sigs.add(s)
        for qn, po in (d.get("per") or {}).items():
            per[qn] = po
        for fn, lines in (d.get("cov") or {}).items():
            cov.setdefault(fn, set()).update(lines)
        n = d.get("notes") or {}
        refused.update(n.get("refused") or {})
        disputed.extend(n.get("disputed") or [])
        checker.extend(n.get("checker") or [])
        notimpl.update(n.get("not_implemented") or {})
    covered = sorted(q for q, po in per.items() if po.get("ok", 0) + po.get("violation", 0) + po.get("disputed", 0) > 0)
    ctx.extra["covered_overloads"] = covered
    ctx.extra["covered_overloads_count"] = len(covered)
    ctx.events["overloads_covered"] = len(covered)
    ctx.extra["overloads_never_compared"] = sorted(set(per) - set(covered))
    ctx.extra["refused_samples"] = dict(list(sorted(refused.items()))[:60])
    ctx.extra["disputed_samples"] = disputed[:12]
    ctx.extra["checker_reject_samples"] = checker[:12]
    ctx.extra["not_implemented_overloads"] = dict(list(sorted(notimpl.items()))[:40])
    ctx.extra["body_lines_hit"] = {"functions_entered": len(cov), "lines": sum(len(v) for v in cov.values())}
    ctx.events["aten_bodies_entered"] = len(cov)
    ctx.events["aten_body_lines_hit"] = sum(len(v) for v in cov.values())
    ctx.samples[:] = [{"overload": q, **per[q]} for q in covered[:6]]
