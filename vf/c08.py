"""C08 — torch_lib operator implementations agree with PyTorch.

(1) direct: every covered registered overload x argument class (stratum) is bound through the ATen
    schema the exporter's way, traced under the exporter's real OpRecorder, run on ORT, compared with
    torch eager calling the resolved OpOverload itself.
(2) end-to-end: small nn.Modules composed of covered ops, torch.onnx.export(dynamo=True), ORT vs eager.
"""
from __future__ import annotations

import math

from . import common

PID = "C08"
LEVEL = "exploration"
RULE = ("stratified: strata = registered overload x argument class (shape class: 0-d / size-0 / size-1 / n-d / broadcast pair; "
        "operand kind: tensor vs python scalar; dim class: -rank / last / multi / None; keepdim; omitted optionals; alpha; "
        "rounding_mode; dtype of the 7 that the function's annotation admits); every stratum is visited at every seed, the seed "
        "only picks shapes (rank 0-4, dims 0-5) and values inside it; thorough repeats each stratum to ~200 tuples per overload. "
        "direct: ATen-schema binding (positional by position, keyword-only by name) -> meta.function under "
        "_building.OpRecorder(opset18) -> ir.Model -> ORT vs torch eager (structure, dtype, shape, values by dtype tolerance); "
        "ORT != torch but onnx.reference == torch => disputed. end-to-end: fixed compositions of 2-5 covered ops as nn.Module, "
        "torch.onnx.export(dynamo=True), every intermediate returned so the first deviating op names the mechanism. "
        "non-trivial = torch accepted the tuple, the annotation admits it and >=1 node was recorded; distinct = (overload, class)")
ASSUMPTIONS = [
    "torch eager (CPU) calling the resolved OpOverload is the oracle; tuples torch rejects are outside the operator's domain",
    "the domain is further restricted to dtypes the torch_lib function's annotation admits (op_signature type constraints; a type "
    "variable shared by several parameters binds them to one dtype)",
    "the exporter runs InsertTypePromotion before torch_lib is called: a tuple in which the op's promotion rule "
    "(torch.onnx._internal.fx.passes.type_promotion) would rewrite an argument (tensor dtype or python scalar whose equivalent dtype "
    "differs from the promoted one) never reaches the function in that form and is skipped (status promoted_away); the end-to-end "
    "driver covers those combinations through the real pass",
    "torch.onnx._internal.exporter (_get_overload, OpRecorder, _convert_fx_arg_to_onnx_arg convention, dtype=None -> -1) of the "
    "installed PyTorch is the exporter's convention",
    "ONNX Runtime 1.30 CPU with optimisations disabled decides; onnx.reference may only dispute, and only deviations that can be a "
    "runtime quirk: not output element types (fixed by ONNX type inference) and not load-time rejections that onnx's own strict "
    "type/shape inference confirms",
    "no undefined-behaviour inputs: no integer division by zero, no float->int casts of nan/inf/non-integral/out-of-range values, "
    "indices in range, distinct scatter indices where duplicates are order-dependent, small integers (no overflow), distinct values "
    "for sort/topk/arg* (ties only in the dedicated first-occurrence stratum); NaN/inf inputs only for the is* predicates and "
    "isclose(equal_nan)",
    "value-less outputs are compared by dtype/shape only (rand*, empty*, dropout in training, unsorted topk); the auxiliary "
    "save_mean/save_invstd/running-stat outputs of the batch-norm overloads are not compared (eager CPU returns empty tensors in "
    "inference mode)",
    "trace-time exceptions are refusals (counted per overload in evidence), ORT NOT_IMPLEMENTED is inconclusive for the tuple; an "
    "onnx.checker complaint about a graph that ORT executes correctly is counted (checker_rejects), not a violation",
    "end-to-end: float64 outputs are held to float32 tolerance (an upstream float32 value may have been widened); a deviation at a "
    "discontinuous op is judged only when its operands are bit-identical on both sides; export failures are refusals",
]
ANCHORS = [
    "onnxscript.function_libs.torch_lib.ops.core:aten_div_mode.func",
    "onnxscript.function_libs.torch_lib.ops.core:aten_sum_dim_IntList.func",
    "onnxscript.function_libs.torch_lib.ops.core:aten_add.func",
    "onnxscript.function_libs.torch_lib.ops.core:aten_addmm.func",
    "onnxscript.function_libs.torch_lib.ops.core:aten_slice.func",
    "onnxscript._framework_apis.torch_2_5:get_torchlib_ops",
]
TIMEOUT = 1800.0   # per spec (a bundle of strata or of 10-25 exported modules); generous: the box is shared

PER_SPEC = {"quick": 9, "thorough": 3}   # overloads per direct spec
REPS_TARGET = 200


def thresholds(tier):
    # <= 1/5 of what the unchanged tree gives in the quick tier (thorough gives more of everything)
    return {"direct_ok": 1200, "ort_ran": 1200, "traced": 1300, "overloads_covered": 69, "distinct_nontrivial": 1300,
            "aten_bodies_entered": 50, "e2e_compared": 5, "e2e_dispatches_to_repo_torchlib": 35,
            "anchor:onnxscript.function_libs.torch_lib.ops.core:aten_div_mode.func": 12,
            "anchor:onnxscript.function_libs.torch_lib.ops.core:aten_sum_dim_IntList.func": 20}


def _families():
    from . import c08_strata

    return c08_strata.FAMILIES


E2E = {"quick": (80, 10), "thorough": (1500, 25)}   # (modules, modules per spec)


def cases(tier, seed):
    out = []
    n_mod, per = E2E.get(tier, E2E["quick"])
    for lo in range(0, n_mod, per):
        out.append({"kind": "e2e", "lo": lo, "hi": min(n_mod, lo + per), "seed": seed, "tier": tier})
    fams = _families()
    for fam in sorted(fams):
        n = max(1, -(-len(fams[fam]) // PER_SPEC.get(tier, 9)))
        for i in range(n):
            out.append({"kind": "direct", "family": fam, "i": i, "n": n, "seed": seed, "tier": tier})
    return out


_dispatched = {}


def worker_init():
    from . import c08_core

    E = c08_core.env()
    E.torch.set_num_threads(1)
    c08_core.coverage_install()
    # pass-through monitor on the exporter's dispatcher: which registered function was chosen for an FX node
    from torch.onnx._internal.exporter import _core as ecore
    from torch.onnx._internal.exporter import _dispatching

    orig = _dispatching.dispatch

    def dispatch(node, registry):
        r = orig(node, registry)
        try:
            f = r[0]
            if f is not None:
                nm = getattr(f, "name", None) or getattr(f, "__name__", repr(f))
                mod_ = getattr(getattr(f, "func", None) or getattr(f, "function", None) or f, "__module__", "")
                _dispatched[(str(node.target), nm, mod_)] = _dispatched.get((str(node.target), nm, mod_), 0) + 1
        except Exception:
            pass
        return r

    _dispatching.dispatch = dispatch
    if getattr(ecore, "_dispatching", None) is _dispatching:
        pass  # _core calls _dispatching.dispatch through the module attribute


def run_direct(spec):
    from . import c08_core as core
    from . import c08_strata as st
    from .c08_gen import G

    fam, tier, seed = spec["family"], spec["tier"], spec["seed"]
    only = spec.get("only")
    qns = sorted(st.FAMILIES[fam])
    qns = [q for k, q in enumerate(qns) if k % spec["n"] == spec["i"]]
    events, viol, sigs, per, notes = {}, {}, [], {}, {"refused": {}, "disputed": [], "checker": [], "not_implemented": {}}

    def hit(k, n=1):
        events[k] = events.get(k, 0) + n

    E = core.env()
    for qn in qns:
        if only and qn not in only:
            continue
        if qn not in E.metas:
            hit("overload_not_registered")
            continue
        try:
            strata = st.strata(fam, qn)
        except Exception as e:  # a recipe bug is a harness error
            raise RuntimeError(f"recipe for {qn} failed: {type(e).__name__}: {e}") from e
        reps = 1 if tier == "quick" else max(1, math.ceil(REPS_TARGET / max(1, len(strata))))
        po = per.setdefault(qn, {"function": E.metas[qn].function.name, "strata": len(strata)})
        for s in strata:
            if spec.get("cls") and s.cls != spec["cls"]:
                continue
            for rep in range(reps):
                g = G(common.rng(PID, seed, qn, s.cls, rep))
                try:
                    args, kwargs = s.build(g)
                except Exception as e:
                    raise RuntimeError(f"builder {qn} [{s.cls}] failed: {type(e).__name__}: {e}") from e
                r = core.judge(qn, s.cls, args, kwargs, mode=s.mode, scale=s.scale)
                stt = r["status"]
                hit("direct_cases")
                hit("direct_" + stt)
                po[stt] = po.get(stt, 0) + 1
                for k, v in r.get("events", {}).items():
                    hit(k, v)
                if stt in ("ok", "violation", "disputed"):
                    sigs.append(f"{qn}|{s.cls}")
                if stt == "violation":
                    v = r["viol"]
                    if v["key"] not in viol:
                        viol[v["key"]] = v
                        v["detail"]["count"] = 1
                    else:
                        viol[v["key"]]["detail"]["count"] += 1
                elif stt == "refused":
                    d = notes["refused"].setdefault(qn, {})
                    if len(d) < 4:
                        d.setdefault(s.cls, r.get("info"))
                elif stt == "disputed" and len(notes["disputed"]) < 8:
                    notes["disputed"].append(r.get("info"))
                elif stt == "not_implemented":
                    notes["not_implemented"].setdefault(qn, r.get("info"))
                if r.get("checker") and len(notes["checker"]) < 6:
                    notes["checker"].append(r["checker"])
    cov = core.coverage_take()
    return {"status": "ok", "viol": list(viol.values()), "events": events, "nontrivial": True, "sig": None,
            "sample": None, "data": {"sigs": sigs, "per": per, "notes": notes, "cov": cov}}


def run_e2e(spec):
    from . import c08_core as core
    from . import c08_e2e as e2e

    events, viol, sigs, notes = {}, {}, [], {"refused": [], "disputed": [], "other": []}
    ops_used = {}
    _dispatched.clear()
    for i in range(spec["lo"], spec["hi"]):
        if spec.get("index") is not None and i != spec["index"]:
            continue
        r = e2e.run_module(i, spec["seed"])
        stt = r["status"]
        events["e2e_modules"] = events.get("e2e_modules", 0) + 1
        k = "e2e_" + stt if not stt.startswith("e2e_") else stt
        events[k] = events.get(k, 0) + 1
        if stt in ("ok", "violation", "e2e_disputed"):
            events["e2e_compared"] = events.get("e2e_compared", 0) + 1
            sigs.append("e2e|" + "+".join(r.get("ops", [])))
            for o in r.get("ops", []):
                ops_used[o] = ops_used.get(o, 0) + 1
        if stt == "violation":
            v = r["viol"]
            if v["key"] not in viol:
                viol[v["key"]] = v
        elif stt == "e2e_refused" and len(notes["refused"]) < 6:
            notes["refused"].append(f"module#{i} {'+'.join(r.get('ops', []))}: {r.get('info')}")
        elif stt == "e2e_disputed" and len(notes["disputed"]) < 6:
            notes["disputed"].append(f"module#{i}: {r.get('info')}")
        elif stt not in ("ok", "violation") and len(notes["other"]) < 6:
            notes["other"].append(f"module#{i} {stt}: {r.get('info')}")
    disp = [[t, f, m, n] for (t, f, m), n in sorted(_dispatched.items())]
    events["e2e_dispatches"] = sum(d[3] for d in disp)
    events["e2e_dispatches_to_repo_torchlib"] = sum(d[3] for d in disp if d[2].startswith("onnxscript.function_libs.torch_lib"))
    return {"status": "ok", "viol": list(viol.values()), "events": events, "nontrivial": True, "sig": None, "sample": None,
            "data": {"sigs": sigs, "e2e_notes": notes, "e2e_ops": ops_used, "e2e_dispatched": disp, "cov": core.coverage_take()}}


def run_case(spec):
    if spec["kind"] == "direct":
        return run_direct(spec)
    if spec["kind"] == "e2e":
        return run_e2e(spec)
    raise ValueError(spec["kind"])


def finalize(ctx):
    per, cov = {}, {}
    refused, disputed, checker, notimpl = {}, [], [], {}
    for r in ctx.results:
        d = r.get("data") or {}
        for s in d.get("sigs") or []:
            ctx.sigs.add(s)
        for qn, po in (d.get("per") or {}).items():
            per[qn] = po
        for fn, lines in (d.get("cov") or {}).items():
            cov.setdefault(fn, set()).update(lines)
        n = d.get("notes") or {}
        refused.update(n.get("refused") or {})
        disputed.extend(n.get("disputed") or [])
        checker.extend(n.get("checker") or [])
        notimpl.update(n.get("not_implemented") or {})
    e2e_ops, e2e_disp, e2e_notes = {}, {}, {"refused": [], "disputed": [], "other": []}
    for r in ctx.results:
        d = r.get("data") or {}
        for o, n_ in (d.get("e2e_ops") or {}).items():
            e2e_ops[o] = e2e_ops.get(o, 0) + n_
        for t, f, m, n_ in d.get("e2e_dispatched") or []:
            e2e_disp[f] = e2e_disp.get(f, 0) + n_
        for k_, v_ in (d.get("e2e_notes") or {}).items():
            e2e_notes[k_].extend(v_)
    ctx.extra["e2e_templates_compared"] = len(e2e_ops)
    ctx.extra["e2e_functions_dispatched"] = dict(sorted(e2e_disp.items(), key=lambda kv: -kv[1])[:80])
    ctx.events["e2e_distinct_functions_dispatched"] = len(e2e_disp)
    ctx.extra["e2e_refused_samples"] = e2e_notes["refused"][:10]
    ctx.extra["e2e_disputed_samples"] = e2e_notes["disputed"][:10]
    ctx.extra["e2e_other_samples"] = e2e_notes["other"][:10]
    covered = sorted(q for q, po in per.items() if po.get("ok", 0) + po.get("violation", 0) + po.get("disputed", 0) > 0)
    ctx.extra["covered_overloads"] = covered
    ctx.extra["covered_overloads_count"] = len(covered)
    ctx.events["overloads_covered"] = len(covered)
    ctx.extra["overloads_never_compared"] = sorted(set(per) - set(covered))
    ctx.extra["refused_samples"] = dict(list(sorted(refused.items()))[:60])
    ctx.extra["disputed_samples"] = disputed[:12]
    ctx.extra["checker_reject_samples"] = checker[:12]
    ctx.extra["not_implemented_overloads"] = dict(list(sorted(notimpl.items()))[:40])
    ctx.extra["body_lines_hit"] = {"functions_entered": len(cov), "lines": sum(len(v) for v in cov.values())}
    ctx.events["aten_bodies_entered"] = len(cov)
    ctx.events["aten_body_lines_hit"] = sum(len(v) for v in cov.values())
    ctx.samples[:] = [{"overload": q, **per[q]} for q in covered[:6]]
