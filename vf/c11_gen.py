"""C11 generator: index expressions as source text, their component classes and the NumPy reading.

A *component* is a JSON-able list:
  ["int", v]                 integer constant, v in [-d, d-1]
  ["full"]                   ':'
  ["slice", s, e, st]        constant slice, s/e in {None} u [-d-1, d+1], st in {None, 1, 2, -1, -2}
  ["ti"]                     scalar INT64 tensor index (graph input i<axis>, swept over [-d, d-1] at run time)
  ["I"]                      1-D INT64 tensor index (graph input I<axis>)
  ["dyn", k]                 dynamic slice, template DYN[k] over graph inputs b<axis> (base) and j<axis> (length)
An *expression* is a list of components, one per leading axis (len <= rank).
"""
from __future__ import annotations

import itertools

import numpy as np

STEPS_ALL = [None, 1, 2, -1, -2]
STEPS_R2 = [None, 1, -1, 2]

# dynamic slice templates ({b}: scalar INT64 input, any value in [-d-1, d+1]; {j}: scalar INT64 input in J_VALUES)
DYN = [
    "{b}:{b}+{j}",      # documented: A[i:i+j, k]
    "{b}+1:{b}+2",      # documented: A[i+1:i+2]
    "{b}:",
    ":{b}",
    "{b}:{b}+{j}:2",
    "{b}::-1",
    ":{b}:-1",
    "{b}:{b}-{j}:-1",
]
J_VALUES = [0, 1, 2, 3]

CLASSES = ["int", "negint", "full", "pslice", "pslice_d", "nslice", "nslice_ds", "nslice_de", "nslice_dse",
           "ti", "I", "dyn"]
STATIC_CLASSES = CLASSES[:9]
TENSOR_CLASSES = CLASSES[9:]


def bounds(d):
    return [None] + list(range(-d - 1, d + 2))


def ints(d):
    return [["int", v] for v in range(-d, d)]


def slices(d, steps):
    out = []
    for st in steps:
        for s in bounds(d):
            for e in bounds(d):
                if s is None and e is None and st is None:
                    continue  # that is ':' (same AST)
                out.append(["slice", s, e, st])
    return out


def static_components(d, steps):
    return ints(d) + [["full"]] + slices(d, steps)


def tensor_components():
    return [["ti"], ["I"]] + [["dyn", k] for k in range(len(DYN))]


def comp_class(c):
    k = c[0]
    if k == "int":
        return "int" if c[1] >= 0 else "negint"
    if k == "slice":
        _, s, e, st = c
        if st is not None and st < 0:
            suf = ("s" if s is None else "") + ("e" if e is None else "")
            return "nslice" + ("_d" + suf if suf else "")
        return "pslice_d" if (s is None or e is None) else "pslice"
    return k  # full, ti, I, dyn


def comp_text(c, axis):
    k = c[0]
    if k == "int":
        return str(c[1])
    if k == "full":
        return ":"
    if k == "slice":
        _, s, e, st = c
        t = ("" if s is None else str(s)) + ":" + ("" if e is None else str(e))
        if st is not None:
            t += ":" + str(st)
        return t
    if k == "ti":
        return f"i{axis}"
    if k == "I":
        return f"I{axis}"
    if k == "dyn":
        return DYN[c[1]].format(b=f"b{axis}", j=f"j{axis}")
    raise ValueError(c)


def expr_text(expr):
    return "X[" + ", ".join(comp_text(c, a) for a, c in enumerate(expr)) + "]"


def expr_vars(expr):
    """Graph inputs (beyond X) the expression needs, in a fixed order."""
    out = []
    for a, c in enumerate(expr):
        if c[0] == "ti":
            out.append(f"i{a}")
        elif c[0] == "I":
            out.append(f"I{a}")
        elif c[0] == "dyn":
            t = DYN[c[1]]
            out.append(f"b{a}")
            if "{j}" in t:
                out.append(f"j{a}")
    return out


def in_stated_region(expr):
    """Forms on which NumPy and the documented per-axis reading (tutorial: a slice is 'equivalent to a 1-dimensional
    tensor', one Gather per axis) are the *same function*.  Excluded, because the property sentence is silent there /
    NumPy's own rule is the advanced-indexing special case:
      * more than one 1-D tensor index (NumPy zips them, the documented reading is an outer product);
      * a 1-D tensor index and a scalar index (int or scalar tensor) that are not adjacent (NumPy moves the
        broadcast dimension to the front)."""
    kinds = [c[0] for c in expr]
    if kinds.count("I") > 1:
        return False
    if "I" in kinds:
        p = kinds.index("I")
        for q, k in enumerate(kinds):
            if k in ("int", "ti") and abs(q - p) > 1:
                # separated by at least one slice/full component (anything between them that is not scalar)
                between = kinds[min(p, q) + 1:max(p, q)]
                if any(b not in ("int", "ti") for b in between):
                    return False
    return True


def form_of(expr, binding=None):
    """Coarse component-class description used in violation keys; a scalar tensor index that is negative at run
    time is 'negti'."""
    out = []
    for a, c in enumerate(expr):
        cl = comp_class(c)
        if cl == "ti" and binding is not None and int(binding.get(f"i{a}", 0)) < 0:
            cl = "negti"
        out.append(cl)
    return "+".join(out)


def I_values(d):
    cand = [[0], [d - 1, 0], [-1, -d], [0, 0, d - 1], [], [d - 1, -d, 0, -1]]
    out = []
    for c in cand:
        if c not in out:
            out.append(c)
    return out


def var_range(name, shape):
    a = int(name[1:])
    d = shape[a]
    if name[0] == "i":
        return list(range(-d, d))
    if name[0] == "b":
        return list(range(-d - 1, d + 2))
    if name[0] == "j":
        return list(J_VALUES)
    if name[0] == "I":
        return I_values(d)
    raise ValueError(name)


def bindings_for(names, shape, cap, rnd):
    """Run-time bindings of the tensor-valued inputs: the full product if small, else every value of every variable at
    least once plus a deterministic random fill."""
    names = sorted(set(names))
    if not names:
        return [{}]
    ranges = [var_range(n, shape) for n in names]
    total = 1
    for r in ranges:
        total *= len(r)
    if total <= cap:
        return [dict(zip(names, vals)) for vals in itertools.product(*ranges)]
    out = []
    m = max(len(r) for r in ranges)
    for k in range(m):
        out.append({n: r[k % len(r)] for n, r in zip(names, ranges)})
    seen = {repr(sorted(b.items())) for b in out}
    tries = 0
    while len(out) < cap and tries < 20 * cap:
        tries += 1
        b = {n: rnd.choice(r) for n, r in zip(names, ranges)}
        key = repr(sorted(b.items()))
        if key not in seen:
            seen.add(key)
            out.append(b)
    return out


def numpy_eval(expr, X, binding):
    """NumPy's reading of the same source text (scalar tensors as Python ints, 1-D tensors as int64 arrays)."""
    env = {"X": X}
    for k, v in binding.items():
        env[k] = np.array(v, dtype=np.int64) if k[0] == "I" else int(v)
    return eval(expr_text(expr), {"__builtins__": {}}, env)  # noqa: S307 - our own generated text


def make_X(shape, dtype):
    n = int(np.prod(shape))
    return np.arange(n).reshape(shape).astype(np.int64 if dtype == "int64" else np.float32)


def function_source(name, exprs, dtype, var_names):
    ann = "INT64" if dtype == "int64" else "FLOAT"
    params = [f"X: {ann}[...]"]
    for v in var_names:
        params.append(f"{v}: INT64[...]" if v[0] == "I" else f"{v}: INT64")
    rets = ", ".join(expr_text(e) for e in exprs)
    return (f"@script(default_opset=op)\n"
            f"def {name}({', '.join(params)}):\n"
            f"    return {rets}\n")


MODULE_HEADER = ("from onnxscript import script\n"
                 "from onnxscript.onnx_opset import opset18 as op\n"
                 "from onnxscript.onnx_types import FLOAT, INT64\n\n")


# ------------------------------------------------------------------ enumeration of the workload
def rank1_exprs(d):
    comps = static_components(d, STEPS_ALL) + tensor_components()
    return [[c] for c in comps]


def rank2_static_exprs(shape):
    c0 = static_components(shape[0], STEPS_R2)
    c1 = static_components(shape[1], STEPS_R2)
    for a in c0:
        yield [a]
    for a in c0:
        for b in c1:
            yield [a, b]


def sample_component(cls, d, rnd):
    """A concrete component of the given class for a dim of size d (None if the class is empty for that d)."""
    if cls == "int":
        return ["int", rnd.randrange(0, d)]
    if cls == "negint":
        return ["int", rnd.choice([-1, -d, rnd.randrange(-d, 0)])]
    if cls == "full":
        return ["full"]
    if cls in ("ti", "I"):
        return [cls]
    if cls == "dyn":
        return ["dyn", rnd.randrange(len(DYN))]
    bs = list(range(-d - 1, d + 2))
    if cls == "pslice":
        return ["slice", rnd.choice(bs), rnd.choice(bs), rnd.choice([None, 1, 2])]
    if cls == "pslice_d":
        s, e = rnd.choice([(None, rnd.choice(bs)), (rnd.choice(bs), None), (None, None)])
        st = rnd.choice([1, 2]) if (s is None and e is None) else rnd.choice([None, 1, 2])
        return ["slice", s, e, st]
    st = rnd.choice([-1, -2])
    if cls == "nslice":
        return ["slice", rnd.choice(bs), rnd.choice(bs), st]
    if cls == "nslice_ds":
        return ["slice", None, rnd.choice(bs), st]
    if cls == "nslice_de":
        return ["slice", rnd.choice(bs), None, st]
    if cls == "nslice_dse":
        return ["slice", None, None, st]
    raise ValueError(cls)


def sampled_exprs(rank, n_per_stratum, rnd, dims):
    """Stratified sample: every tuple of component classes (length 1..rank) is a stratum; inside a stratum the shape
    and the concrete components are drawn from rnd.  Yields (shape, expr)."""
    for length in range(1 if rank > 1 else 1, rank + 1):
        if rank == 3 and length == 1:
            continue  # covered by rank 1/2
        for combo in itertools.product(CLASSES, repeat=length):
            probe = [[c] if c in ("full", "ti", "I") else (["int", 0] if c in ("int", "negint") else
                     (["dyn", 0] if c == "dyn" else ["slice", 0, 0, None])) for c in combo]
            if not in_stated_region(probe):
                continue
            for _ in range(n_per_stratum):
                shape = [rnd.choice(dims) for _ in range(rank)]
                expr = [sample_component(c, shape[a], rnd) for a, c in enumerate(combo)]
                yield shape, expr


# ------------------------------------------------------------------ mechanism explainer (keys only, never verdicts)
class _KeyOf:
    def __getitem__(self, k):
        return k


def _resolve(expr, binding):
    """-> list of (kind, value) per axis with dynamic pieces evaluated: kind in int|ti|I|slice|full"""
    out = []
    for a, c in enumerate(expr):
        k = c[0]
        if k == "int":
            out.append(("int", int(c[1])))
        elif k == "full":
            out.append(("full", None))
        elif k == "slice":
            out.append(("slice", slice(c[1], c[2], c[3])))
        elif k == "ti":
            out.append(("ti", int(binding[f"i{a}"])))
        elif k == "I":
            out.append(("I", np.array(binding[f"I{a}"], dtype=np.int64)))
        else:
            env = {"S": _KeyOf(), f"b{a}": int(binding[f"b{a}"]), f"j{a}": int(binding.get(f"j{a}", 0))}
            out.append(("slice", eval("S[" + comp_text(c, a) + "]", {"__builtins__": {}}, env)))  # noqa: S307
    return out


def emulate(path, expr, X, binding, clamp=False, unshifted=False):
    """NumPy emulation of the *structure* of the two implementations (Slice[+Squeeze] stage, then one Gather per
    remaining index), with two switchable deviations:
      clamp     : a negative-step start below -d is clamped to index 0 as ONNX Slice specifies (NumPy: empty result)
      unshifted : Gather uses the original axis number although lower axes were already removed
    With both off it is NumPy.  Only used to name the mechanism of an established difference."""
    from . import c11_spec

    comps = _resolve(expr, binding)
    L = [a for a, (k, _) in enumerate(comps) if k == "slice"]
    if path == "graph":
        S = [a for a, (k, _) in enumerate(comps) if k == "int"]
        T = [a for a, (k, _) in enumerate(comps) if k in ("ti", "I")]
        if L or len(S) > 1:
            squeeze, gathers = S, T
        else:
            squeeze, gathers = [], T + S
    else:
        S = [a for a, (k, _) in enumerate(comps) if k in ("int", "ti")]
        N = [a for a, (k, _) in enumerate(comps) if k == "I"]
        if not L and len(S) == 1:
            squeeze, gathers = [], S + N
        else:
            squeeze, gathers = S, N
    r = X
    big, small = (1 << 63) - 1, -(1 << 63)
    for a in L:
        sl = comps[a][1]
        if clamp:
            st = 1 if sl.step is None else int(sl.step)
            s = (0 if st > 0 else big) if sl.start is None else int(sl.start)
            e = (big if st > 0 else small) if sl.stop is None else int(sl.stop)
            r = c11_spec.slice13(r, [s], [e], [a], [st])
        else:
            r = r[(slice(None),) * a + (sl,)]
    for a in squeeze:
        r = np.take(r, [comps[a][1]], axis=a)
    if squeeze:
        r = r.reshape([d for i, d in enumerate(r.shape) if i not in squeeze])
    removed = list(squeeze)
    for a in gathers:
        k, v = comps[a]
        ax = a if unshifted else a - sum(1 for q in removed if q < a)
        if ax >= r.ndim:
            raise IndexError("axis")
        d = r.shape[ax]
        ind = np.asarray(v, dtype=np.int64)
        if ((ind < -d) | (ind >= d)).any():
            raise IndexError("index")
        r = np.take(r, np.where(ind < 0, ind + d, ind), axis=ax)
        if k != "I":
            removed.append(a)
    return r


MECHANISMS = [
    ("onnx_slice_clamps_neg_step_start", dict(clamp=True, unshifted=False)),
    ("gather_axis_not_shifted_after_rank_reduction", dict(clamp=False, unshifted=True)),
    ("gather_axis_not_shifted+onnx_slice_clamps_neg_step_start", dict(clamp=True, unshifted=True)),
]


def explain(path, expr, X, binding, got):
    """Name of the first known deviation whose prediction reproduces the observed tensor exactly, else None."""
    got = np.asarray(got)
    for name, kw in MECHANISMS:
        try:
            p = np.asarray(emulate(path, expr, X, binding, **kw))
        except Exception:
            continue
        if p.shape == got.shape and np.array_equal(p.astype(np.float64), got.astype(np.float64)):
            return name
    return None
