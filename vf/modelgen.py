"""Typed random ONNX model generator — *generation by execution*.

A model is grown node by node while concrete example tensors are kept for every value: an
op constructor picks operands from the pool, the node is evaluated on ORT (single-node
model) on the example tensors and its outputs join the pool with the dtype/shape that
execution produced.  A node that fails to execute is not added, so every emitted model is
valid and runnable by construction.  In symbolic mode every value carries TWO example
tensors obtained under two different bindings of the symbolic input dims; a constant that
depends on a shape is only emitted when both bindings agree on it, so the model is valid
for more than one shape without any hand-written symbolic shape rules.

UB avoidance: each value carries `mag` (an upper bound on |x| for the allowed inputs) and
`clean` (cannot be NaN/inf); float->int casts, integer arithmetic and index operands are
only built from values for which the result is defined.
"""
from __future__ import annotations

import numpy as np
import onnx
from onnx import TensorProto as TP
from onnx import helper as oh
from onnx import numpy_helper as nph

from . import runner

F32, F64, I64, I32, BOOL, F16 = np.float32, np.float64, np.int64, np.int32, np.bool_, np.float16
INPUT_MAG = 100.0
# "P" is a symbolic dim that happens to be 1 while the model is generated (the batch size of an export run): everything that only
# works because P is 1 there (broadcasting against it, squeezing it) is legal at generation time, and a binding on which the
# original then fails is discarded by the check - what must not happen is that the optimizer RELIES on P being 1
BIND_A = {"N": 2, "M": 3, "K": 5, "P": 1}
BIND_B = {"N": 3, "M": 5, "K": 4, "P": 1}
SYMS = ["N", "M", "K"]


def np2tp(dt):
    return oh.np_dtype_to_tensor_dtype(np.dtype(dt))


class V:
    __slots__ = ("name", "arrs", "kind", "mag", "clean", "seq", "decl", "nondet", "ddshape", "sym", "norank")

    def __init__(self, name, arrs, kind, mag=INPUT_MAG, clean=True, seq=False, decl=None, nondet=False, ddshape=False):
        self.name, self.arrs, self.kind = name, arrs, kind
        self.mag, self.clean, self.seq, self.decl = mag, clean, seq, decl
        self.nondet = nondet
        # the SHAPE observed at generation time depends on input data (NonZero and anything computed from it): it must
        # not be declared as a static shape (a declaration the optimizer may rely on would be a lie for other inputs)
        self.ddshape = ddshape
        # symbolic mode: the value's shape may depend on a symbolic input dim (an ancestor has one). Being equal under the two
        # generation bindings does not make such a shape static (Slice(x[?x3], 0, 5) has 5 rows for ?=7 and ?=6, 1 row for ?=1)
        self.sym = False
        # the RANK depends on a symbolic dim (axes-less Squeeze of a value with symbolic dims): the value is terminal (never
        # picked as an operand) and, as a graph output, is declared with an element type only
        self.norank = False

    @property
    def a(self):
        return self.arrs[0]

    @property
    def dtype(self):
        return self.arrs[0].dtype if not self.seq else self.arrs[0][0].dtype

    @property
    def shape(self):
        return self.arrs[0].shape

    @property
    def rank(self):
        return self.arrs[0].ndim

    def static(self):
        """True if the shape is the same under all bindings (and does not depend on input data)."""
        return not self.ddshape and all(x.shape == self.arrs[0].shape for x in self.arrs)

    def is_float(self):
        return self.dtype.kind == "f"

    def is_int(self):
        return self.dtype.kind in "iu"


class Bail(Exception):
    pass


class Gen:
    def __init__(self, rng, opset=18, symbolic=False, ir_version=10, prefix="v", outer=None, depth=0):
        self.rng = rng
        self.opset = opset
        self.symbolic = symbolic
        self.nb = 2 if symbolic else 1
        self.ir_version = ir_version
        self.prefix = prefix
        self.vals: list[V] = []
        self.nodes: list = []
        self.inits: list = []          # TensorProto
        self.inputs: list[V] = []
        self.init_inputs: list[V] = []  # initializers that are also graph inputs
        self.functions: list = []
        self.events: dict[str, int] = {}
        self.outer = outer              # enclosing Gen for subgraphs
        self.depth = depth
        self._n = outer._n_ref if outer else [0]
        self._n_ref = self._n
        self.captured: set[str] = set()
        self.force_out: list = []

    # ------------------------------------------------------------------ names / pool
    def fresh(self, hint="t"):
        self._n[0] += 1
        return f"{self.prefix}{hint}{self._n[0]}"

    def hit(self, k):
        self.events[k] = self.events.get(k, 0) + 1
        if self.outer:
            self.outer.hit(k)

    def visible(self):
        out = list(self.vals)
        g = self.outer
        while g is not None:
            out.extend(g.vals)
            g = g.outer
        return out

    def pick(self, pred=None, what="value"):
        c = [v for v in self.visible() if not v.seq and not v.norank and (pred is None or pred(v))]
        if not c:
            raise Bail(f"no {what}")
        # prefer recent values so chains form
        c.sort(key=lambda v: v.name)
        w = [1 + 3 * (i / len(c)) for i in range(len(c))]
        return self.rng.choices(c, weights=w, k=1)[0]

    def floats(self, v):
        return v.dtype == np.dtype(F32)

    # ------------------------------------------------------------------ constants
    def const(self, arr, how=None, mag=None):
        """Introduce a constant as Constant node or initializer (both forms are generated)."""
        arr = np.asarray(arr)
        how = how or self.rng.choice(["init", "init", "node"])
        name = self.fresh("c")
        if how == "init":
            self.inits.append(nph.from_array(arr, name))
        else:
            self.nodes.append(oh.make_node("Constant", [], [name], value=nph.from_array(arr, name + "_v")))
        m = float(np.max(np.abs(arr.astype(np.float64)))) if arr.size and arr.dtype.kind in "fiu" and np.isfinite(arr.astype(np.float64)).all() else (0.0 if arr.dtype.kind == "b" or arr.size == 0 else float("inf"))
        v = V(name, [arr] * self.nb, "const", mag=m if mag is None else mag,
              clean=bool(arr.dtype.kind != "f" or np.isfinite(arr).all()))
        self.vals.append(v)
        return v

    def i64(self, xs, how=None):
        return self.const(np.asarray(xs, dtype=np.int64), how)

    # ------------------------------------------------------------------ node evaluation
    def _referenced(self, nodes):
        names = []

        def walk(ns, local):
            for n in ns:
                for i in n.input:
                    if i and i not in local and i not in names:
                        names.append(i)
                for a in n.attribute:
                    subs = ([a.g] if a.HasField("g") else []) + list(a.graphs)
                    for g in subs:
                        l2 = set(local) | {x.name for x in g.input} | {x.name for x in g.initializer}
                        walk(g.node, l2)
                        for nn in g.node:
                            l2.update(nn.output)
                local.update(n.output)

        walk(nodes, set())
        return names

    def lookup(self, name):
        for v in self.visible():
            if v.name == name:
                return v
        return None

    def run_nodes(self, nodes, out_names, extra_inits=()):
        """Evaluate `nodes` under every binding; returns list (per output) of per-binding arrays."""
        refs = self._referenced(nodes)
        feeds_per_b = [dict() for _ in range(self.nb)]
        ginputs = []
        for r in refs:
            v = self.lookup(r)
            if v is None:
                if any(t.name == r for t in extra_inits):
                    continue
                raise Bail(f"unknown ref {r}")
            if v.seq:
                ginputs.append(oh.make_tensor_sequence_value_info(r, np2tp(v.dtype), None))
            else:
                ginputs.append(oh.make_tensor_value_info(r, np2tp(v.dtype), None))
            for b in range(self.nb):
                feeds_per_b[b][r] = v.arrs[b]
        g = oh.make_graph(list(nodes), "n", ginputs, [oh.make_empty_tensor_value_info(o) for o in out_names],
                          initializer=list(extra_inits))
        m = oh.make_model(g, opset_imports=[oh.make_opsetid("", self.opset)] + [oh.make_opsetid(f.domain, 1) for f in self._all_functions()],
                          ir_version=self.ir_version, functions=self._all_functions())
        try:
            sess = runner.ort_session(m)
        except Exception as e:
            raise Bail(f"load: {str(e)[:120]}")
        res = [[] for _ in out_names]
        for b in range(self.nb):
            st, out = runner.ort_run(m, feeds_per_b[b], session=sess)
            if st != "ok":
                raise Bail(f"run: {str(out)[:120]}")
            for k, o in enumerate(out):
                res[k].append(o)
        return res

    def _all_functions(self):
        g, fs = self, []
        while g is not None:
            fs = list(g.functions) + fs
            g = g.outer
        return fs

    def add(self, op, ins, nout=1, mag=None, clean=None, domain="", kind="node", **attrs):
        """Append one node after evaluating it.  `ins` are V or None (omitted optional)."""
        outs = [self.fresh("t") for _ in range(nout)]
        node = oh.make_node(op, [i.name if i is not None else "" for i in ins], outs, domain=domain, **attrs)
        return self.add_nodes([node], outs, ins, mag, clean, tag=op)

    def add_nodes(self, nodes, outs, ins, mag=None, clean=None, tag=None):
        res = self.run_nodes(nodes, outs)
        self.nodes.extend(nodes)
        vs = []
        in_clean = all(i.clean for i in ins if i is not None)
        in_mag = max([i.mag for i in ins if i is not None] or [0.0])
        for o, arrs in zip(outs, res):
            seq = isinstance(arrs[0], list)
            if not seq:
                arrs = [np.asarray(a) for a in arrs]
            c = in_clean if clean is None else clean
            # what execution shows overrides optimism
            if not seq:
                for a in arrs:
                    if a.dtype.kind == "f" and a.size and not np.isfinite(a).all():
                        c = False
            v = V(o, arrs, "node", mag=in_mag if mag is None else mag, clean=c, seq=seq,
                  nondet=(any(i.nondet for i in ins if i is not None) and tag not in ("Shape", "Size")) or bool(getattr(self, "_mark_nondet", False)),
                  ddshape=tag in ("NonZero", "Compress", "Unique") or any(i.ddshape for i in ins if i is not None) or bool(getattr(self, "_mark_dd", False)))
            v.sym = any(i.sym for i in ins if i is not None) or bool(getattr(self, "_mark_sym", False))
            vs.append(v)
            self.vals.append(v)
        if tag:
            self.hit("op:" + tag)
        for i in ins:
            if i is not None and i not in self.vals:
                self.captured.add(i.name)
        return vs if len(vs) != 1 else vs[0]

    # ------------------------------------------------------------------ inputs
    def new_input(self, dtype=None, rank=None, shape=None):
        rng = self.rng
        dtype = dtype or rng.choice([F32, F32, F32, F32, I64, I32, F64, BOOL])   # no float16: ORT's CPU EP elevates f16 ops to f32 depending on graph structure
        if shape is None:
            rank = rng.choice([0, 1, 2, 2, 3, 3, 4]) if rank is None else rank
            shape = []
            for _ in range(rank):
                if self.symbolic and rng.random() < 0.55:
                    shape.append(rng.choice(SYMS + [None]) if rng.random() > 0.12 else "P")
                else:
                    shape.append(rng.choice([1, 2, 3, 4, 2, 3, 5, 0] if rng.random() < 0.06 else [1, 2, 3, 4, 2, 3, 5]))
        name = self.fresh("x")
        arrs = []
        unn = {}
        for b, bind in enumerate([BIND_A, BIND_B][: self.nb]):
            conc = []
            for k, d in enumerate(shape):
                if isinstance(d, str):
                    conc.append(bind[d])
                elif d is None:
                    conc.append([7, 6][b])
                else:
                    conc.append(d)
            arrs.append(example_input(rng, dtype, conc))
        v = V(name, arrs, "input", mag=INPUT_MAG if np.dtype(dtype).kind != "b" else 1.0, clean=True, decl=list(shape))
        v.sym = any(not isinstance(d, int) for d in shape)
        self.inputs.append(v)
        self.vals.append(v)
        self.hit("input")
        return v

    def new_init_input(self):
        """An initializer that is also a graph input (an overridable default)."""
        rng = self.rng
        dtype = rng.choice([F32, F32, I64])
        shape = rng.choice([[], [1], [3], [2, 3]])
        arr = example_input(rng, dtype, shape)
        name = self.fresh("ii")
        self.inits.append(nph.from_array(arr, name))
        v = V(name, [arr] * self.nb, "init_input", mag=INPUT_MAG, clean=True, decl=list(shape))
        self.init_inputs.append(v)
        self.vals.append(v)
        self.hit("init_input")
        return v


def example_input(rng, dtype, shape, style=None):
    """Input tensors: 0, +-1, negatives, a large magnitude, small fractions; no NaN/inf."""
    n = int(np.prod(shape)) if len(shape) else 1
    dt = np.dtype(dtype)
    style = style or rng.choice(["mixed", "mixed", "small", "edge"])
    if dt.kind == "b":
        a = np.array([rng.random() < 0.5 for _ in range(n)], dtype=bool)
    elif dt.kind in "iu":
        pool = [0, 1, -1, 2, -2, 3, 7, -5, 10, 100, -100] if dt.kind == "i" else [0, 1, 2, 3, 7, 10, 100]
        if style == "small":
            pool = [0, 1, -1, 2, 3] if dt.kind == "i" else [0, 1, 2, 3]
        a = np.array([rng.choice(pool) for _ in range(n)], dtype=dt)
    else:
        if style == "edge":
            pool = [0.0, -0.0, 1.0, -1.0, 0.5, -0.5, 100.0, -100.0, 1e-3, -1e-3, 2.0, 3.0, 1e-6]
            a = np.array([rng.choice(pool) for _ in range(n)], dtype=np.float64)
        elif style == "small":
            a = np.array([rng.uniform(-2, 2) for _ in range(n)])
        else:
            a = np.array([rng.choice([rng.uniform(-3, 3), rng.uniform(-100, 100), 0.0, 1.0, -1.0]) for _ in range(n)])
        a = a.astype(dt)
    return a.reshape(shape)


# ====================================================================== op constructors
# each takes (g: Gen) and either adds node(s) or raises Bail
def _f32(v):
    return v.dtype == np.dtype(F32)


def _anyfloat(v):
    return v.dtype.kind == "f"


def _num(v):
    return v.dtype.kind in "fiu"


def _bc_ok(a, b):
    """numpy broadcastability under every binding."""
    for x, y in zip(a.arrs, b.arrs):
        try:
            np.broadcast_shapes(x.shape, y.shape)
        except ValueError:
            return False
    return True


def op_unary_float(g):
    x = g.pick(_anyfloat)
    op = g.rng.choice(["Abs", "Neg", "Relu", "Sigmoid", "Tanh", "Floor", "Ceil", "Round", "Sign", "Erf", "Softplus",
                       "Identity", "LeakyRelu", "Elu", "HardSigmoid", "Softsign", "Selu"])
    attrs = {}
    if op == "LeakyRelu":
        attrs["alpha"] = g.rng.choice([0.01, 0.2, 0.0])
    if op == "Elu" and g.rng.random() < 0.5:
        attrs["alpha"] = 0.5
    if op == "HardSigmoid" and g.rng.random() < 0.5:
        attrs.update(alpha=1.0 / 6.0, beta=0.5)
    mag = x.mag if op in ("Abs", "Neg", "Relu", "Floor", "Ceil", "Round", "Identity", "LeakyRelu", "Softplus") else max(2.0, x.mag if op in ("Elu", "Selu") else 1.0)
    if op in ("Floor", "Ceil", "Softplus", "Selu", "Elu"):
        mag = 2 * mag + 1
    return g.add(op, [x], mag=mag, **attrs)


def op_unary_wild(g):
    x = g.pick(_anyfloat)
    op = g.rng.choice(["Exp", "Log", "Sqrt", "Reciprocal"])
    return g.add(op, [x], mag=float("inf"), clean=False)


def op_binary(g):
    a = g.pick(_num)
    b = _operand_like(g, a)
    if g.rng.random() < 0.5:
        a, b = b, a
    op = g.rng.choice(["Add", "Sub", "Mul", "Max", "Min", "Add", "Mul"])
    if op in ("Max", "Min") and g.opset < 12 and a.dtype.kind != "f":
        raise Bail("minmax int")
    mag = a.mag * b.mag if op == "Mul" else (a.mag + b.mag if op in ("Add", "Sub") else max(a.mag, b.mag))
    lim = 1e30 if a.dtype.kind == "f" else (2.0**30 if a.dtype.itemsize == 4 else 2.0**61)
    if mag > lim:
        if a.dtype.kind != "f":
            raise Bail("int overflow")
        return g.add(op, [a, b], mag=float("inf"), clean=False)
    return g.add(op, [a, b], mag=mag)


def _operand_like(g, a, allow_const=True):
    """Another operand of a's dtype, broadcast-compatible under all bindings."""
    r = g.rng.random()
    if allow_const and r < 0.4:
        dt = a.dtype
        shp = g.rng.choice([[], [], [1], [1, 1], list(a.shape[-1:]) if a.static() and a.rank else []])
        n = int(np.prod(shp)) if shp else 1
        if dt.kind == "f":
            vals = [g.rng.choice([0.0, 1.0, -1.0, 2.0, 0.5, 1e-9, 1.0 + 1e-7, -0.0, 3.0, 1e-6, -2.5]) for _ in range(n)]
        elif dt.kind == "b":
            vals = [g.rng.random() < 0.5 for _ in range(n)]
        else:
            vals = [g.rng.choice([0, 1, -1, 2, 3] if dt.kind == "i" else [0, 1, 2, 3]) for _ in range(n)]
        return g.const(np.array(vals, dtype=dt).reshape(shp))
    return g.pick(lambda v: v.dtype == a.dtype and _bc_ok(a, v), "bc operand")


def op_div(g):
    a = g.pick(_num)
    if a.dtype.kind == "f" and g.rng.random() < 0.4:
        b = g.pick(lambda v: v.dtype == a.dtype and _bc_ok(a, v))
        return g.add("Div", [a, b], mag=float("inf"), clean=False)
    dt = a.dtype
    c = g.rng.choice([1, 2, -2, 3, 4, -1]) if dt.kind != "u" else g.rng.choice([1, 2, 3])
    if dt.kind == "f":
        c = g.rng.choice([1.0, 2.0, -0.5, 4.0, 1.0])
    b = g.const(np.array(c, dtype=dt))
    return g.add("Div", [a, b], mag=a.mag * 2 + 1)


def op_mod(g):
    a = g.pick(lambda v: v.dtype.kind in "iu" or v.dtype == np.dtype(F32))
    dt = a.dtype
    if dt.kind == "f":
        b = g.const(np.array(g.rng.choice([2.0, 3.0, -3.0, 0.5]), dtype=dt))
        return g.add("Mod", [a, b], fmod=1, mag=a.mag)
    b = g.const(np.array(g.rng.choice([2, 3, -3, 5] if dt.kind == "i" else [2, 3, 5]), dtype=dt))
    kw = {"fmod": g.rng.choice([0, 1])} if g.rng.random() < 0.6 else {}
    if kw.get("fmod") == 1 and dt.itemsize == 8 and not a.mag < 2 ** 52:
        # ORT computes integer fmod through double: Mod[fmod=1](int64 max, 3) = 2 there, 1 exactly (numpy, onnx.reference)
        kw["fmod"] = 0
    return g.add("Mod", [a, b], mag=a.mag + 5, **kw)


def op_pow(g):
    a = g.pick(_f32)
    e = g.const(np.array(g.rng.choice([2.0, 3.0, 1.0, 0.0, 0.5, -1.0]), dtype=F32))
    return g.add("Pow", [a, e], mag=float("inf"), clean=False)


def op_compare(g):
    a = g.pick(_num)
    b = _operand_like(g, a)
    op = g.rng.choice(["Less", "Greater", "Equal", "LessOrEqual", "GreaterOrEqual"])
    return g.add(op, [a, b], mag=1.0, clean=True)


def op_logical(g):
    a = g.pick(lambda v: v.dtype.kind == "b")
    if g.rng.random() < 0.3:
        return g.add("Not", [a], mag=1.0)
    b = _operand_like(g, a)
    return g.add(g.rng.choice(["And", "Or", "Xor"]), [a, b], mag=1.0)


def op_where(g):
    c = g.pick(lambda v: v.dtype.kind == "b")
    a = g.pick(lambda v: _num(v) and _bc_ok(c, v))
    b = _operand_like(g, a)
    if not all(_try_bc3(x, y, z) for x, y, z in zip(c.arrs, a.arrs, b.arrs)):
        raise Bail("bc3")
    return g.add("Where", [c, a, b], mag=max(a.mag, b.mag))


def _try_bc3(x, y, z):
    try:
        np.broadcast_shapes(x.shape, y.shape, z.shape)
        return True
    except ValueError:
        return False


def op_matmul(g):
    a = g.pick(lambda v: _f32(v) and v.rank >= 2 and v.static())
    k = a.shape[-1]
    n = g.rng.choice([1, 2, 3])
    b = g.const(np.array([g.rng.choice([0.0, 1.0, -1.0, 0.5, 2.0]) for _ in range(k * n)], dtype=F32).reshape(k, n)) \
        if g.rng.random() < 0.6 else g.pick(lambda v: _f32(v) and v.rank == 2 and v.static() and v.shape[0] == k)
    out = g.add("MatMul", [a, b], mag=a.mag * b.mag * max(k, 1))
    if g.rng.random() < 0.5 and out.rank == 2:
        bias = g.const(np.array([g.rng.choice([0.0, 1.0, -0.5]) for _ in range(out.shape[-1])], dtype=F32))
        return g.add("Add", [out, bias] if g.rng.random() < 0.5 else [bias, out], mag=out.mag + 1)
    return out


def op_gemm(g):
    a = g.pick(lambda v: _f32(v) and v.rank == 2 and v.static())
    tA, tB = g.rng.choice([0, 1]), g.rng.choice([0, 1])
    m, k = (a.shape[1], a.shape[0]) if tA else a.shape
    n = g.rng.choice([1, 2, 3])
    bshape = (n, k) if tB else (k, n)
    b = g.const(np.array([g.rng.choice([0.0, 1.0, -1.0, 0.5]) for _ in range(k * n)], dtype=F32).reshape(bshape))
    attrs = {}
    if tA:
        attrs["transA"] = 1
    if tB:
        attrs["transB"] = 1
    if g.rng.random() < 0.4:
        attrs["alpha"] = g.rng.choice([0.5, 2.0, 1.0])
    if g.rng.random() < 0.4:
        attrs["beta"] = g.rng.choice([0.5, 0.0, 1.0])
    ins = [a, b]
    if g.rng.random() < 0.6:
        ins.append(g.const(np.ones(g.rng.choice([(n,), (1, n), (m, n), ()]), dtype=F32) * 0.5))
    return g.add("Gemm", ins, mag=a.mag * max(k, 1) * 2 + 1, **attrs)


def op_reshape(g):
    x = g.pick(lambda v: v.rank >= 1)
    r = g.rng.random()
    attrs = {}
    if x.static() and r < 0.5:
        n = int(np.prod(x.shape))
        if n == 0:
            raise Bail("zero")
        cands = [[n], [-1], [1, n], [n, 1], [-1, 1]]
        for d in (2, 3, 4, 5, 6):
            if n % d == 0:
                cands += [[d, n // d], [d, -1], [-1, d]]
        tgt = g.rng.choice(cands)
    else:
        # binding-independent targets
        tgt = g.rng.choice([[-1], [0, -1], [-1, 1], [1, -1]] + ([[0, 0, -1]] if x.rank >= 3 else []))
        if g.opset >= 14 and g.rng.random() < 0.1 and 0 not in tgt:
            attrs["allowzero"] = 1
    s = g.i64(tgt)
    return g.add("Reshape", [x, s], mag=x.mag, **attrs)


def op_flatten(g):
    x = g.pick(lambda v: v.rank >= 1)
    return g.add("Flatten", [x], mag=x.mag, **({"axis": g.rng.randrange(-x.rank, x.rank + 1)} if g.rng.random() < 0.7 else {}))


def op_transpose(g):
    x = g.pick(lambda v: v.rank >= 2)
    perm = list(range(x.rank))
    g.rng.shuffle(perm)
    return g.add("Transpose", [x], mag=x.mag, **({"perm": perm} if g.rng.random() < 0.85 else {}))


def op_unsqueeze(g):
    x = g.pick(lambda v: v.rank <= 3)
    ax = g.rng.randrange(-(x.rank + 1), x.rank + 1)
    if g.opset >= 13:
        return g.add("Unsqueeze", [x, g.i64([ax])], mag=x.mag)
    return g.add("Unsqueeze", [x], axes=[ax], mag=x.mag)


def op_squeeze(g):
    x = g.pick(lambda v: v.rank >= 1 and all(1 in a.shape for a in v.arrs) and v.static())
    axes = [i for i, d in enumerate(x.shape) if d == 1]
    ax = g.rng.choice(axes)
    if g.rng.random() < 0.5:
        ax -= x.rank
    if g.opset >= 13:
        return g.add("Squeeze", [x] + ([g.i64([ax])] if g.rng.random() < 0.8 else []), mag=x.mag)
    return g.add("Squeeze", [x], axes=[ax], mag=x.mag)


def op_concat(g):
    x = g.pick(lambda v: v.rank >= 1)
    ax = g.rng.randrange(x.rank)
    others = [v for v in g.visible() if not v.seq and v.dtype == x.dtype and v.rank == x.rank and v is not x and all(
        all(p == q for i, (p, q) in enumerate(zip(a.shape, b.shape)) if i != ax) for a, b in zip(v.arrs, x.arrs))]
    ins = [x] + ([g.rng.choice(others)] if others and g.rng.random() < 0.7 else [x])
    if g.rng.random() < 0.25 and x.static():
        shp = list(x.shape)
        shp[ax] = 0
        ins.insert(g.rng.randrange(len(ins) + 1), g.const(np.zeros(shp, dtype=x.dtype)))
        g.hit("motif:concat_empty")
    return g.add("Concat", ins, axis=ax if g.rng.random() < 0.5 else ax - x.rank, mag=max(i.mag for i in ins))


def op_split(g):
    x = g.pick(lambda v: v.rank >= 1 and v.static() and min(v.shape) >= 2)
    ax = g.rng.choice([i for i, d in enumerate(x.shape) if d >= 2])
    d = x.shape[ax]
    r = g.rng.random()
    if r < 0.4 and d % 2 == 0:
        return g.add("Split", [x], nout=2, axis=ax, mag=x.mag, **({"num_outputs": 2} if g.opset >= 18 else {}))[g.rng.randrange(2)]
    k = g.rng.randrange(1, d)
    if g.opset >= 13:
        return g.add("Split", [x, g.i64([k, d - k])], nout=2, axis=ax, mag=x.mag)[g.rng.randrange(2)]
    return g.add("Split", [x], nout=2, axis=ax, split=[k, d - k], mag=x.mag)[g.rng.randrange(2)]


def op_slice(g):
    x = g.pick(lambda v: v.rank >= 1)
    ax = g.rng.randrange(x.rank)
    dmin = min(a.shape[ax] for a in x.arrs)
    form = g.rng.choice(["full", "head", "tail", "step2", "neg", "mid"])
    INTMAX = 2**63 - 1
    if form == "full":
        st, en, sp = 0, g.rng.choice([INTMAX, 2**31, 1000]), 1
        g.hit("motif:slice_full")
    elif form == "head":
        st, en, sp = 0, max(1, dmin - 1), 1
    elif form == "tail":
        st, en, sp = 1, INTMAX, 1
    elif form == "step2":
        st, en, sp = 0, INTMAX, 2
    elif form == "neg":
        st, en, sp = -1, -INTMAX, -1
    else:
        st, en, sp = 1, -1, 1
    ins = [x, g.i64([st]), g.i64([en]), g.i64([ax if g.rng.random() < 0.6 else ax - x.rank])]
    if sp != 1 or g.rng.random() < 0.4:
        ins.append(g.i64([sp]))
    return g.add("Slice", ins, mag=x.mag)


def op_gather(g):
    x = g.pick(lambda v: v.rank >= 1)
    ax = g.rng.randrange(x.rank)
    dmin = min(a.shape[ax] for a in x.arrs)
    if dmin == 0:
        raise Bail("empty")
    form = g.rng.choice(["scalar", "vec", "neg"])
    if form == "scalar":
        idx = g.const(np.array(g.rng.randrange(dmin), dtype=np.int64))
    elif form == "neg":
        idx = g.const(np.array([-1], dtype=np.int64))
    else:
        idx = g.i64([g.rng.randrange(dmin) for _ in range(g.rng.choice([1, 2, 3]))])
    return g.add("Gather", [x, idx], axis=ax, mag=x.mag)


def op_expand(g):
    x = g.pick(lambda v: v.rank <= 3)
    if x.static() and g.rng.random() < 0.7:
        tgt = list(x.shape)
        for i, d in enumerate(tgt):
            if d == 1 and g.rng.random() < 0.6:
                tgt[i] = g.rng.choice([2, 3])
        r = g.rng.random()
        if r < 0.3:
            tgt = [g.rng.choice([1, 2])] + tgt
        elif r < 0.5:
            tgt = [1] * len(tgt)       # expand by all-ones: identity by broadcasting rule
        s = g.i64(tgt)
    else:
        y = g.pick(lambda v: _bc_ok(x, v) and all(np.broadcast_shapes(a.shape, b.shape) == b.shape for a, b in zip(x.arrs, v.arrs)))
        s = g.add("Shape", [y], mag=8)
        g.hit("motif:expand_shape_of")
    return g.add("Expand", [x, s], mag=x.mag)


def op_tile(g):
    x = g.pick(lambda v: 1 <= v.rank <= 3)
    return g.add("Tile", [x, g.i64([g.rng.choice([1, 2]) for _ in range(x.rank)])], mag=x.mag)


def op_pad(g):
    x = g.pick(lambda v: _f32(v) and 1 <= v.rank <= 4)
    pads = [g.rng.choice([0, 0, 1, 2]) for _ in range(2 * x.rank)]
    ins = [x, g.i64(pads)]
    if g.rng.random() < 0.5:
        ins.append(g.const(np.array(g.rng.choice([0.0, 1.5]), dtype=F32)))
    return g.add("Pad", ins, mag=max(x.mag, 2), **({"mode": g.rng.choice(["constant", "edge"])} if g.rng.random() < 0.3 and min(x.shape) > 0 else {}))


def op_shape(g):
    x = g.pick(lambda v: v.rank >= 1)
    attrs = {}
    if g.opset >= 15 and g.rng.random() < 0.4:
        attrs["start"] = g.rng.randrange(-x.rank, x.rank)
        if g.rng.random() < 0.5:
            attrs["end"] = g.rng.randrange(-x.rank, x.rank + 1)
    return g.add("Shape", [x], mag=8, **attrs)


def op_size(g):
    x = g.pick()
    return g.add("Size", [x], mag=4096)


def _smallint(v):
    return v.dtype == np.dtype(np.int64) and v.rank == 1 and v.mag <= 64 and v.static() and 1 <= v.shape[0] <= 4 and all((a >= 0).all() for a in v.arrs)


def op_constant_of_shape(g):
    s = g.pick(_smallint) if g.rng.random() < 0.6 else g.i64([g.rng.choice([0, 1, 2, 3]) for _ in range(g.rng.choice([1, 2]))])
    if any(int(np.prod(a)) > 4096 for a in s.arrs):
        raise Bail("big")
    dt = g.rng.choice([F32, I64, BOOL, I32, F64])
    val = {F32: 1.5, I64: 7, BOOL: True, I32: -2, F64: 0.25}[dt]
    attrs = {"value": nph.from_array(np.array([val], dtype=dt))} if g.rng.random() < 0.8 else {}
    return g.add("ConstantOfShape", [s], mag=8, **attrs)


def op_range(g):
    st, lim, d = g.rng.choice([(0, 5, 1), (1, 8, 2), (5, 0, -1), (0, 0, 1)])
    dt = g.rng.choice([I64, F32])
    return g.add("Range", [g.const(np.array(st, dtype=dt)), g.const(np.array(lim, dtype=dt)), g.const(np.array(d, dtype=dt))], mag=8)


_CASTS = [F32, F64, I64, I32, BOOL]


def op_cast(g):
    x = g.pick(lambda v: v.dtype.kind in "fiub")
    to = g.rng.choice(_CASTS)
    to_kind = np.dtype(to).kind
    if x.dtype.kind == "f" and to_kind in "iu":
        if not x.clean or x.mag > 2**30:
            raise Bail("float->int of wild value")
    if to == F16 and x.mag > 6e4:
        raise Bail("f16 overflow")
    if x.dtype.kind in "iu" and to_kind == "i" and np.dtype(to).itemsize < x.dtype.itemsize and x.mag > 2**30:
        raise Bail("narrowing")
    attrs = {"to": np2tp(to)}
    return g.add("Cast", [x], mag=x.mag + 1, **attrs)


def op_castlike(g):
    if g.opset < 15:
        raise Bail("opset")
    x = g.pick(lambda v: v.dtype.kind in "fiub")
    like = g.pick(lambda v: v.dtype.kind in "fiub")
    if x.dtype.kind == "f" and like.dtype.kind in "iu" and (not x.clean or x.mag > 2**30):
        raise Bail("ub")
    if like.dtype == np.dtype(F16) and x.mag > 6e4:
        raise Bail("f16")
    if x.dtype.kind in "iu" and like.dtype.kind in "iu" and like.dtype.itemsize < x.dtype.itemsize and x.mag > 2**30:
        raise Bail("narrow")
    return g.add("CastLike", [x, like], mag=x.mag + 1)


def op_reduce(g):
    x = g.pick(lambda v: _num(v) and v.rank >= 1 and v.dtype != np.dtype(F16))
    op = g.rng.choice(["ReduceSum", "ReduceMean", "ReduceMax", "ReduceMin", "ReduceProd", "ReduceL2", "ReduceSumSquare"])
    if x.dtype.kind != "f" and op in ("ReduceMean", "ReduceL2"):
        op = "ReduceSum"
    if op in ("ReduceMax", "ReduceMin") and any(0 in a.shape for a in x.arrs):
        raise Bail("empty max")
    axes = sorted(set(g.rng.randrange(-x.rank, x.rank) % x.rank for _ in range(g.rng.choice([1, 1, 2]))))
    if any(a.size == 0 for a in x.arrs):
        raise Bail("reduction over a size-0 axis: ORT 1.30 returns a size-0 result where the spec says size 1")
    if g.rng.random() < 0.5:
        axes = [a - x.rank for a in axes]
    attrs = {}
    if g.rng.random() < 0.6:
        attrs["keepdims"] = g.rng.choice([0, 1])
    n = max(int(np.prod(a.shape)) for a in x.arrs) or 1
    mag = x.mag * n if op in ("ReduceSum", "ReduceL2") else (x.mag ** min(n, 8) if op == "ReduceProd" else (x.mag * x.mag * n if op == "ReduceSumSquare" else x.mag))
    lim = 1e30 if x.dtype.kind == "f" else 2.0**30
    clean = None
    if mag > lim:
        if x.dtype.kind != "f":
            raise Bail("int overflow")
        mag, clean = float("inf"), False
    axes_as_input = (op == "ReduceSum" and g.opset >= 13) or g.opset >= 18
    if axes_as_input:
        ins = [x]
        r = g.rng.random()
        if r < 0.8:
            ins.append(g.i64(axes))
        elif r < 0.9 and g.rng.random() < 0.5:
            attrs["noop_with_empty_axes"] = 1
        return g.add(op, ins, mag=mag, clean=clean, **attrs)
    return g.add(op, [x], axes=axes, mag=mag, clean=clean, **attrs)


def op_argmax(g):
    x = g.pick(lambda v: _num(v) and v.rank >= 1 and v.dtype != np.dtype(F16) and all(0 not in a.shape for a in v.arrs) and v.clean)
    attrs = {"axis": g.rng.randrange(-x.rank, x.rank)}
    if g.rng.random() < 0.5:
        attrs["keepdims"] = g.rng.choice([0, 1])
    return g.add(g.rng.choice(["ArgMax", "ArgMin"]), [x], mag=8, **attrs)


def op_softmax(g):
    x = g.pick(lambda v: _f32(v) and v.rank >= 1)
    return g.add(g.rng.choice(["Softmax", "LogSoftmax"]), [x], mag=200, **({"axis": g.rng.randrange(-x.rank, x.rank)} if g.rng.random() < 0.7 else {}))


def op_cumsum(g):
    x = g.pick(lambda v: _num(v) and v.rank >= 1 and v.dtype in (np.dtype(F32), np.dtype(I64), np.dtype(I32), np.dtype(F64)))
    n = max(a.shape[0] for a in x.arrs) + 5
    attrs = {}
    if g.rng.random() < 0.4:
        attrs["exclusive"] = 1
    if g.rng.random() < 0.4:
        attrs["reverse"] = 1
    return g.add("CumSum", [x, g.const(np.array(g.rng.randrange(-x.rank, x.rank), dtype=np.int64))], mag=x.mag * 8, **attrs)


def op_clip(g):
    x = g.pick(lambda v: _num(v) and v.dtype in (np.dtype(F32), np.dtype(I64), np.dtype(F64)))
    if g.opset < 12 and x.dtype.kind != "f":
        raise Bail("clip int")
    lo, hi = g.rng.choice([(-1, 1), (0, 6), (-5, -2), (3, 1), (0, 0), (-100, 100), (2, 30)])
    ins = [x]
    r = g.rng.random()
    mk = lambda c: g.const(np.array(c, dtype=x.dtype))
    if r < 0.6:
        ins += [mk(lo), mk(hi)]
    elif r < 0.75:
        ins += [mk(lo)]
    elif r < 0.9:
        ins += [None, mk(hi)]
    return g.add("Clip", ins, mag=max(x.mag, 100))


def op_isnan(g):
    x = g.pick(_f32)
    return g.add(g.rng.choice(["IsNaN", "IsInf"]), [x], mag=1, clean=True)


def op_dropout(g):
    if g.opset >= 12 and g.depth == 0 and g.rng.random() < 0.2:
        # training_mode only known at run time (a BOOL graph input): must not be simplified either way
        x = g.pick(lambda v: _f32(v) and all(a.size >= 16 for a in v.arrs))
        tm = next((v for v in g.inputs if v.dtype.kind == "b" and v.rank == 0), None)
        if tm is None:
            if len(g.inputs) >= 5:
                raise Bail("inputs")
            tm = g.new_input(dtype=BOOL, shape=[])
        g.hit("motif:dropout_runtime_training_mode")
        g._mark_nondet = True
        try:
            out = g.add("Dropout", [x, g.const(np.array(0.5, dtype=F32)), tm], mag=x.mag * 2)
        finally:
            g._mark_nondet = False
        g.force_out.append(out)
        return out
    x = g.pick(_f32)
    ins = [x]
    r = g.rng.random()
    if g.opset >= 12:
        if r < 0.5:
            ins.append(g.const(np.array(g.rng.choice([0.0, 0.5]), dtype=F32)))
            if r < 0.3:
                ins.append(g.const(np.array(False)))
    nout = g.rng.choice([1, 2])
    attrs = {}
    if g.opset < 12 and r < 0.6:
        # the attribute form of the ratio (opsets 7-11); inference semantics: the data output is x whatever the ratio
        attrs["ratio"] = g.rng.choice([0.0, 0.0, 0.5])
        g.hit("motif:dropout_ratio_attr")
    out = g.add("Dropout", ins, nout=nout, mag=x.mag, **attrs)
    g.hit("motif:dropout")
    if nout == 2 and g.depth == 0 and g.rng.random() < 0.5:
        # the mask as a graph output that no node consumes (a matched Dropout must then stay)
        g.force_out.append(out[1])
        g.hit("motif:dropout_mask_is_output")
    return out


def op_trilu(g):
    if g.opset < 14:
        raise Bail("opset")
    x = g.pick(lambda v: v.rank >= 2 and _num(v) and v.dtype != np.dtype(F16))
    ins = [x] + ([g.const(np.array(g.rng.choice([-1, 0, 1]), dtype=np.int64))] if g.rng.random() < 0.5 else [])
    return g.add("Trilu", ins, mag=x.mag, **({"upper": 0} if g.rng.random() < 0.5 else {}))


def op_onehot(g):
    idx = g.i64([g.rng.randrange(0, 3) for _ in range(g.rng.choice([1, 3]))])
    return g.add("OneHot", [idx, g.const(np.array(3, dtype=np.int64)), g.const(np.array([0.0, 1.0], dtype=F32))], mag=1,
                 **({"axis": g.rng.choice([0, -1, 1])} if g.rng.random() < 0.5 else {}))


def op_topk(g):
    x = g.pick(lambda v: v.dtype in (np.dtype(F32), np.dtype(I64)) and v.rank >= 1 and v.clean and all(a.shape[-1] >= 2 and a.size > 0 for a in v.arrs))
    vals, idx = g.add("TopK", [x, g.i64([g.rng.choice([1, 2])])], nout=2, mag=x.mag, **({"largest": 0} if g.rng.random() < 0.3 else {}))
    idx.mag = 8
    return vals


def op_nonzero(g):
    # rank >= 1: for a rank-0 input the spec (and onnx shape inference) says the result is [0, n], ORT returns [1, n]
    # not on a nondeterministic value: the result's SHAPE would be random, and shapes of nondeterministic outputs are compared
    x = g.pick(lambda v: (_num(v) or v.dtype.kind == "b") and v.rank >= 1 and not v.nondet)
    return g.add("NonZero", [x], mag=8)


def op_conv(g):
    C = g.rng.choice([1, 2, 3])
    x = g.pick(lambda v: _f32(v) and v.rank == 4 and v.static() and v.shape[1] == C and min(v.shape[2:]) >= 3) \
        if g.rng.random() < 0.5 else None
    if x is None:
        x = g.new_input(F32, shape=[g.rng.choice([1, 2]), C, g.rng.choice([4, 5]), g.rng.choice([4, 5])])
    C = x.shape[1]
    if g.rng.random() < 0.5:
        pads = [g.rng.choice([0, 1]) for _ in range(8)]
        pads[0] = pads[1] = pads[4] = pads[5] = 0
        ins = [x, g.i64(pads)] + ([g.const(np.array(0.0, dtype=F32))] if g.rng.random() < 0.5 else [])
        x = g.add("Pad", ins, mag=x.mag)
        g.hit("motif:pad_conv")
    O = g.rng.choice([1, 2])
    grp = C if (g.rng.random() < 0.2 and O % C == 0) else 1
    w = g.const(np.array([g.rng.choice([0.0, 1.0, -1.0, 0.5]) for _ in range(O * (C // grp) * 9)], dtype=F32).reshape(O, C // grp, 3, 3), how="init")
    attrs = {}
    if grp != 1:
        attrs["group"] = grp
    r = g.rng.random()
    if r < 0.3:
        attrs["pads"] = [g.rng.choice([0, 1]) for _ in range(4)]
    elif r < 0.5:
        attrs["auto_pad"] = g.rng.choice(["SAME_UPPER", "SAME_LOWER", "VALID"])
    if g.rng.random() < 0.3:
        attrs["strides"] = [g.rng.choice([1, 2])] * 2
    if g.rng.random() < 0.2:
        attrs["dilations"] = [1, 1]
    ins = [x, w] + ([g.const(np.array([0.5] * O, dtype=F32), how="init")] if g.rng.random() < 0.5 else [])
    y = g.add("Conv", ins, mag=x.mag * 9 * C + 1, **attrs)
    if g.rng.random() < 0.5:
        mk = lambda lo, hi: g.const(np.array([g.rng.uniform(lo, hi) for _ in range(O)], dtype=F32), how="init")
        y = g.add("BatchNormalization", [y, mk(0.5, 2), mk(-1, 1), mk(-1, 1), mk(0.5, 2)], mag=y.mag * 4 + 4,
                  **({"epsilon": g.rng.choice([1e-3, 0.1, 0.5])} if g.rng.random() < 0.6 else {}))   # a large epsilon: ignoring it shows far above tolerance
        g.hit("motif:conv_bn")
    return y


def op_pool(g):
    x = g.pick(lambda v: _f32(v) and v.rank == 4 and v.static() and min(v.shape[2:]) >= 2 and v.clean)
    return g.add(g.rng.choice(["MaxPool", "AveragePool"]), [x], kernel_shape=[2, 2], mag=x.mag,
                 **({"strides": [1, 1]} if g.rng.random() < 0.5 else {}))


def op_layernorm(g):
    if g.opset < 17:
        raise Bail("opset")
    x = g.pick(lambda v: _f32(v) and v.rank >= 2 and v.static() and v.shape[-1] >= 2 and v.clean and v.mag < 1e6)
    d = x.shape[-1]
    sc = g.const(np.array([g.rng.uniform(0.5, 2) for _ in range(d)], dtype=F32))
    ins = [x, sc] + ([g.const(np.array([g.rng.uniform(-1, 1) for _ in range(d)], dtype=F32))] if g.rng.random() < 0.5 else [])
    return g.add("LayerNormalization", ins, mag=10 * d, **({"epsilon": 1e-3} if g.rng.random() < 0.3 else {}))


# ------------------------------------------------------------------ sequences
def op_sequence(g):
    x = g.pick(lambda v: v.rank >= 1 and v.static() and v.shape[0] >= 2 and v.dtype in (np.dtype(F32), np.dtype(I64)))
    form = g.rng.choice(["construct_at", "split_to_seq_at", "split_concat"])
    if form == "construct_at":
        y = g.pick(lambda v: v.dtype == x.dtype and not v.seq)
        s = g.add("SequenceConstruct", [x, y], mag=max(x.mag, y.mag))
        return g.add("SequenceAt", [s, g.const(np.array(g.rng.choice([0, 1, -1]), dtype=np.int64))], mag=s.mag)
    ax = 0
    ins = [x]
    attrs = {"axis": ax}
    r = g.rng.random()
    if r < 0.4:
        ins.append(g.const(np.array(1, dtype=np.int64)))
        if g.rng.random() < 0.5:
            attrs["keepdims"] = g.rng.choice([0, 1])
    elif r < 0.7:
        k = g.rng.randrange(1, x.shape[0])
        ins.append(g.i64([k, x.shape[0] - k]))
    else:
        attrs["keepdims"] = g.rng.choice([0, 1])
    s = g.add("SplitToSequence", ins, mag=x.mag, **attrs)
    g.hit("motif:split_to_sequence")
    if form == "split_to_seq_at":
        return g.add("SequenceAt", [s, g.const(np.array(g.rng.choice([0, 1, -1]), dtype=np.int64))], mag=x.mag)
    return g.add("ConcatFromSequence", [s], axis=0, mag=x.mag, **({"new_axis": 1} if g.rng.random() < 0.3 and attrs.get("keepdims", 1) == 0 else {}))


# ------------------------------------------------------------------ optimizer-targeted motifs
def m_noop_arith(g):
    x = g.pick(lambda v: v.dtype in (np.dtype(F32), np.dtype(I64), np.dtype(F64)))
    op, c = g.rng.choice([("Add", 0), ("Sub", 0), ("Mul", 1), ("Div", 1), ("Add", 1e-9), ("Mul", 1 + 1e-7), ("Add", -0.0), ("Mul", 0)])
    if x.dtype.kind != "f":
        c = int(round(c))
    shp = g.rng.choice([[], [1], [1, 1], [1] * (x.rank + 1)])
    k = g.const(np.full(shp, c, dtype=x.dtype))
    ins = [x, k] if (op in ("Sub", "Div") or g.rng.random() < 0.5) else [k, x]
    g.hit("motif:noop_arith")
    return g.add(op, ins, mag=x.mag + 1)


def m_cast_cast(g):
    x = g.pick(lambda v: v.dtype.kind in "fiub" and v.clean and v.mag < 2**20)
    t1, t2 = g.rng.choice(_CASTS), g.rng.choice(_CASTS)
    if x.dtype.kind == "f" and np.dtype(t1).kind in "iu" and False:
        raise Bail("ub")
    y = g.add("Cast", [x], to=np2tp(t1), mag=x.mag + 1)
    g.hit("motif:cast_cast")
    return g.add("Cast", [y], to=np2tp(t2), mag=x.mag + 1)


I8, I16, U8, U16, U32, U64 = np.int8, np.int16, np.uint8, np.uint16, np.uint32, np.uint64
_CASTS_WIDE = [F32, F64, I64, I32, BOOL, I8, I16, U8, U16, U32, U64]


def m_cast_chain(g):
    """Cast chains of length 2-3 through the whole integer family (signed/unsigned, 8-64 bit).  Only conversions with one
    defined meaning are emitted: integer -> integer wraps modulo 2^n (numpy, ORT and onnx.reference agree), integer/bool ->
    float is exact for |v| <= 100, anything -> bool is != 0; float -> integer is only emitted towards a signed type of >= 32
    bits (in range for the magnitudes generated; float -> unsigned of a negative value and out-of-range float -> narrow
    integer are undefined).  Intermediates of a type outside the basic set are hidden from later picks (ORT lacks kernels
    for most operators on them); the chain ends in a basic type."""
    x = g.pick(lambda v: v.dtype.kind in "fib" and v.clean and v.mag <= 100)
    k = g.rng.choice([2, 2, 3])
    types = [g.rng.choice(_CASTS_WIDE) for _ in range(k - 1)] + [g.rng.choice(_CASTS)]
    if x.dtype.kind in "ib" and g.rng.random() < 0.5:
        types[0] = g.rng.choice([I8, I16, I32, U8, U16])
    cls = "free"
    if x.dtype.kind == "i" and g.rng.random() < 0.35:
        # signedness families: (narrow) signed -> wider unsigned -> wide (a negative value wraps to a large positive one and
        # must stay that), and unsigned -> same-width signed -> wide
        if g.rng.random() < 0.6:
            sg, un = g.rng.choice([(I8, U16), (I8, U32), (I8, U64), (I16, U32), (I16, U64), (I32, U64), (I8, U8), (I16, U16)])
            cls = "signed>wider_unsigned"
        else:
            sg, un = g.rng.choice([(U8, I8), (U16, I16), (U8, I16), (U16, I32)])
            cls = "unsigned>signed"
        # the source is a signed-integer GRAPH INPUT (its values include negatives on every feed), the result a graph output
        srcs = [v for v in g.inputs if v.dtype.kind == "i" and v.kind == "input"] if g.depth == 0 else []
        if srcs:
            x = g.rng.choice(srcs)
        elif g.depth == 0 and len(g.inputs) < 5:
            x = g.new_input(dtype=g.rng.choice([I64, I32]), rank=g.rng.choice([1, 2]))
        types = ([sg] if np.dtype(sg) != x.dtype else []) + [un, g.rng.choice([I64, I32, F32, F64])]
    cur, hidden = x, []
    for t in types:
        kd = np.dtype(t).kind
        if cur.dtype.kind == "f" and (kd == "u" or (kd == "i" and np.dtype(t).itemsize < 4)):
            raise Bail("float -> unsigned / narrow integer is undefined for some values")
        cur = g.add("Cast", [cur], to=np2tp(t), mag=100 if kd != "b" else 1)
        hidden.append(cur)
    for v in hidden[:-1]:
        if v.dtype not in [np.dtype(t) for t in _CASTS] and v in g.vals:
            g.vals.remove(v)
    g.hit("motif:cast_chain")
    g.hit("motif:cast_chain:" + cls)
    if cls != "free" and g.depth == 0:
        g.force_out.append(cur)
    return cur


def m_concat_zero_other_axis(g):
    """Concat of operands that are EMPTY along an axis other than the concat axis (float[2,0] ++ float[3,0] on axis 0 is
    float[5,0]): nothing to copy, but every operand still contributes its length along the concat axis."""
    rank = g.rng.choice([2, 2, 3])
    ax = g.rng.randrange(rank)
    zax = g.rng.choice([i for i in range(rank) if i != ax])
    dt = g.rng.choice([F32, F32, I64])
    base = [g.rng.choice([1, 2, 3]) for _ in range(rank)]
    base[zax] = 0
    ins = []
    for k in range(g.rng.choice([2, 2, 3])):
        shp = list(base)
        shp[ax] = g.rng.choice([1, 2, 3, 0] if k else [2, 3])
        if g.depth == 0 and len(g.inputs) < 5 and g.rng.random() < 0.4:
            ins.append(g.new_input(dtype=dt, shape=shp))
        else:
            ins.append(g.const(np.zeros(shp, dtype=dt)))
    g.hit("motif:concat_zero_other_axis")
    out = g.add("Concat", ins, axis=ax if g.rng.random() < 0.5 else ax - rank, mag=0.0)
    if g.depth == 0:
        g.force_out.append(out)
        if g.rng.random() < 0.5:
            g.force_out.append(g.add("Shape", [out], mag=8))
    return out


def m_reshape_reshape(g):
    x = g.pick(lambda v: v.rank >= 1 and v.static() and int(np.prod(v.shape)) > 0)
    n = int(np.prod(x.shape))
    y = g.add("Reshape", [x, g.i64(g.rng.choice([[n], [-1], [1, n], [n, 1]]))], mag=x.mag)
    g.hit("motif:reshape_reshape")
    return g.add("Reshape", [y, g.i64(g.rng.choice([list(x.shape), [-1], [1, -1]]))], mag=x.mag)


def m_transpose_transpose(g):
    x = g.pick(lambda v: v.rank >= 2)
    p1 = list(range(x.rank))
    g.rng.shuffle(p1)
    p2 = list(range(x.rank))
    if g.rng.random() < 0.5:
        p2 = [p1.index(i) for i in range(x.rank)]   # inverse -> identity
    else:
        g.rng.shuffle(p2)
    y = g.add("Transpose", [x], perm=p1, mag=x.mag)
    g.hit("motif:transpose_transpose")
    return g.add("Transpose", [y], perm=p2, mag=x.mag)


def m_clip_relu(g):
    x = g.pick(_f32)
    mk = lambda c: g.const(np.array(c, dtype=F32))
    form = g.rng.choice(["relu_clip", "clip_relu", "clip_clip", "relu_relu", "minmax", "maxmin"])
    g.hit("motif:clip_relu:" + form)
    lo, hi = g.rng.choice([(-5.0, -2.0), (0.0, 10.0), (-1.0, 1.0), (20.0, 30.0), (3.0, 1.0)])
    lo2, hi2 = g.rng.choice([(-5.0, -2.0), (0.0, 10.0), (-1.0, 1.0), (20.0, 30.0)])
    if form == "relu_clip":
        return g.add("Clip", [g.add("Relu", [x], mag=x.mag), mk(lo), mk(hi)], mag=100)
    if form == "clip_relu":
        return g.add("Relu", [g.add("Clip", [x, mk(lo), mk(hi)], mag=100)], mag=100)
    if form == "clip_clip":
        return g.add("Clip", [g.add("Clip", [x, mk(lo), mk(hi)], mag=100), mk(lo2), mk(hi2)], mag=100)
    if form == "relu_relu":
        return g.add("Relu", [g.add("Relu", [x], mag=x.mag)], mag=x.mag)
    shp = g.rng.choice([[], [1], [1, 1]])
    c1, c2 = g.const(np.full(shp, lo, dtype=F32)), g.const(np.full(shp, hi, dtype=F32))
    if form == "minmax":
        return g.add("Max", [g.add("Min", [x, c2], mag=100), c1], mag=100)
    return g.add("Min", [g.add("Max", [x, c1], mag=100), c2], mag=100)


def m_shape_chain(g):
    """Shape -> Gather/Slice -> (Unsqueeze/Concat) -> Reshape/Expand/ConstantOfShape."""
    x = g.pick(lambda v: v.rank >= 2)
    s = g.add("Shape", [x], mag=8)
    form = g.rng.choice(["gather_reshape", "slice_concat_reshape", "cos", "abs_shape", "size_mul", "gather_add", "cast_gather", "cast_gather",
                         "rank2_gather", "rank2_gather"])
    g.hit("motif:shape_chain:" + form)
    if form == "rank2_gather":
        # the shape vector is lifted to rank 2 (Unsqueeze / Reshape) and then indexed along axis 0: the result is a ROW or a
        # [1,1] element, not a dim — a folder that keeps treating the value as a shape vector gets rank and contents wrong
        lift = g.rng.choice(["unsq0", "unsq1", "reshape_row", "reshape_col"])
        if lift == "unsq0":
            u = g.add("Unsqueeze", [s, g.i64([0])], mag=8) if g.opset >= 13 else g.add("Unsqueeze", [s], axes=[0], mag=8)
            idx = g.i64([0])
        elif lift == "unsq1":
            u = g.add("Unsqueeze", [s, g.i64([1])], mag=8) if g.opset >= 13 else g.add("Unsqueeze", [s], axes=[1], mag=8)
            idx = g.i64([g.rng.randrange(x.rank)])
        elif lift == "reshape_row":
            u = g.add("Reshape", [s, g.i64([1, x.rank])], mag=8)
            idx = g.i64([0])
        else:
            u = g.add("Reshape", [s, g.i64([x.rank, 1])], mag=8)
            idx = g.i64([g.rng.randrange(x.rank)])
        r = g.add("Gather", [u, idx], axis=0, mag=8)
        if g.rng.random() < 0.5:
            r = g.add("ReduceProd", [r], keepdims=0, mag=4096)
        if g.depth == 0:
            g.force_out.append(r)
        return r
    if form == "cast_gather":
        # Shape -> Cast(non-INT64) -> Gather(1-D const indices): the gathered value is NOT an int64 dim any more
        to = g.rng.choice([TP.FLOAT, TP.INT32, TP.BOOL, TP.DOUBLE])
        c = g.add("Cast", [s], to=to, mag=8)
        idx = g.i64([g.rng.randrange(x.rank) for _ in range(g.rng.choice([1, 1, 2]))])
        r = g.add("Gather", [c, idx], axis=0, mag=8)
        if to == TP.FLOAT and g.rng.random() < 0.5:
            r = g.add("Div", [r, g.const(np.array(2.0, dtype=F32))], mag=8)
        if g.depth == 0:
            g.force_out.append(r)
        return r
    if form == "gather_reshape":
        d0 = g.add("Gather", [s, g.const(np.array(0, dtype=np.int64))], mag=8)
        d0u = g.add("Unsqueeze", [d0, g.i64([0])], mag=8) if g.opset >= 13 else g.add("Unsqueeze", [d0], axes=[0], mag=8)
        tgt = g.add("Concat", [d0u, g.i64([-1])], axis=0, mag=8)
        return g.add("Reshape", [x, tgt], mag=x.mag)
    if form == "slice_concat_reshape":
        head = g.add("Slice", [s, g.i64([0]), g.i64([1])], mag=8)
        tgt = g.add("Concat", [head, g.i64([-1])], axis=0, mag=8)
        return g.add("Reshape", [x, tgt], mag=x.mag)
    if form == "cos":
        return g.add("ConstantOfShape", [s], value=nph.from_array(np.array([2.0], dtype=F32)), mag=2)
    if form == "abs_shape":
        a = g.add("Abs", [s], mag=8)
        return g.add("Reshape", [x, a], mag=x.mag)
    if form == "size_mul":
        n = g.add("Size", [x], mag=4096)
        return g.add("Mul", [n, g.const(np.array(2, dtype=np.int64))], mag=8192)
    d = g.add("Gather", [s, g.const(np.array(-1, dtype=np.int64))], mag=8)
    return g.add("Add", [d, g.const(np.array(0, dtype=np.int64))], mag=9)


def m_identity_out(g):
    x = g.pick()
    y = g.add("Identity", [x], mag=x.mag)
    g.hit("motif:identity")
    if g.depth == 0 and g.rng.random() < 0.5:
        # graph outputs that are Identity of one value: once, or twice of the SAME value (both must survive, in order)
        g.force_out.append(y)
        if g.rng.random() < 0.6:
            y2 = g.add("Identity", [x], mag=x.mag)
            g.force_out.append(y2)
            g.hit("motif:identity_twice_as_outputs")
    return y


def m_const_fold_chain(g):
    """An all-constant subexpression (the reference evaluator folds it)."""
    dt = g.rng.choice([F32, I64, F32, F64])
    a = g.const(example_input(g.rng, dt, g.rng.choice([[], [3], [2, 3]]), "small"))
    g.hit("motif:const_chain")
    steps = g.rng.choice([1, 2, 3])
    cur = a
    for _ in range(steps):
        k = g.rng.choice(["neg", "add", "mul", "reshape", "cast", "reduce", "concat", "transpose", "unsq", "where", "sqrt", "div"])
        if k == "neg":
            cur = g.add("Neg", [cur], mag=cur.mag)
        elif k == "add":
            cur = g.add("Add", [cur, g.const(np.array(g.rng.choice([1, 2, -3]), dtype=cur.dtype))], mag=cur.mag + 3)
        elif k == "mul":
            cur = g.add("Mul", [cur, g.const(np.array(g.rng.choice([2, -1, 3]), dtype=cur.dtype))], mag=cur.mag * 3)
        elif k == "reshape" and cur.rank >= 1:
            cur = g.add("Reshape", [cur, g.i64([-1])], mag=cur.mag)
        elif k == "cast" and cur.clean and cur.mag < 2**20:
            cur = g.add("Cast", [cur], to=np2tp(g.rng.choice([F32, I64, F64, I32])), mag=cur.mag + 1)
        elif k == "reduce" and cur.rank >= 1 and cur.dtype != np.dtype(F16):
            axes = [0]
            cur = g.add("ReduceSum", [cur, g.i64(axes)], keepdims=g.rng.choice([0, 1]), mag=cur.mag * 8) if g.opset >= 13 else g.add("ReduceSum", [cur], axes=axes, mag=cur.mag * 8)
        elif k == "concat" and cur.rank >= 1:
            cur = g.add("Concat", [cur, cur], axis=0, mag=cur.mag)
        elif k == "transpose" and cur.rank >= 2:
            cur = g.add("Transpose", [cur], mag=cur.mag)
        elif k == "unsq":
            cur = g.add("Unsqueeze", [cur, g.i64([0])], mag=cur.mag) if g.opset >= 13 else g.add("Unsqueeze", [cur], axes=[0], mag=cur.mag)
        elif k == "sqrt" and cur.dtype.kind == "f":
            cur = g.add("Sqrt", [g.add("Abs", [cur], mag=cur.mag)], mag=cur.mag + 1)
        elif k == "div" and cur.dtype.kind == "f":
            cur = g.add("Div", [cur, g.const(np.array(3.0, dtype=cur.dtype))], mag=cur.mag)
    # make the folded value matter
    try:
        y = g.pick(lambda v: v.dtype == cur.dtype and v.kind != "const" and _bc_ok(cur, v))
        return g.add("Add", [y, cur], mag=y.mag + cur.mag)
    except Bail:
        return cur


def m_init_input_chain(g):
    """A foldable-looking chain fed by an initializer that is also a graph input (must not be folded)."""
    ii = g.new_init_input()
    g.hit("motif:init_input_chain")
    c = g.const(np.array(2, dtype=ii.dtype))
    y = g.add(g.rng.choice(["Mul", "Add"]), [ii, c], mag=ii.mag * 2 + 2)
    if g.rng.random() < 0.5:
        y = g.add("Neg", [y], mag=y.mag)
    try:
        x = g.pick(lambda v: v.dtype == y.dtype and v.kind in ("input", "node") and _bc_ok(y, v))
        return g.add("Add", [x, y], mag=x.mag + y.mag)
    except Bail:
        return y


def m_cse(g):
    """Two nodes that are identical / differ in one attribute only (CSE must merge only identical ones)."""
    x = g.pick(lambda v: _f32(v) and v.rank >= 1)
    g.hit("motif:cse")
    form = g.rng.choice(["same", "attr_differs", "dup_init"])
    if form == "same":
        a = g.add("Relu", [x], mag=x.mag)
        b = g.add("Relu", [x], mag=x.mag)
    elif form == "attr_differs":
        a = g.add("LeakyRelu", [x], alpha=0.1, mag=x.mag)
        b = g.add("LeakyRelu", [x], alpha=0.2, mag=x.mag)
    else:
        c1 = g.const(np.array([1.5], dtype=F32), how="init")
        c2 = g.const(np.array([1.5], dtype=F32), how="init")
        a = g.add("Add", [x, c1], mag=x.mag + 2)
        b = g.add("Mul", [x, c2], mag=x.mag * 2)
    return g.add("Sub", [a, b], mag=a.mag + b.mag)


def m_unsq_unsq(g):
    if g.opset < 13:
        raise Bail("opset")
    x = g.pick(lambda v: v.rank <= 2)
    g.hit("motif:unsqueeze_unsqueeze")
    y = g.add("Unsqueeze", [x, g.i64([g.rng.randrange(0, x.rank + 1)])], mag=x.mag)
    return g.add("Unsqueeze", [y, g.i64([g.rng.randrange(0, y.rank + 1)])], mag=x.mag)


def m_flatten_reshape(g):
    x = g.pick(lambda v: v.rank >= 2)
    g.hit("motif:flatten")
    return g.add("Flatten", [x], axis=g.rng.choice([0, 1, x.rank, -1]), mag=x.mag)


def m_random(g):
    """Genuinely nondeterministic ops: must be preserved (never folded); values are not compared, only dtype/shape
    and the fact that two runs still differ."""
    form = g.rng.choice(["uniform", "normal_like", "dropout_train", "uniform_const_chain", "bernoulli_const", "dropout_train_const"])
    g.hit("motif:random:" + form)
    g._mark_nondet = True
    try:
        if form == "uniform":
            r = g.add("RandomUniform", [], shape=[4, 6], dtype=TP.FLOAT, mag=1, clean=True)
        elif form == "uniform_const_chain":
            # all inputs constant: only the nondeterminism guard keeps this from being folded
            r0 = g.add("RandomNormal", [], shape=[32], dtype=TP.FLOAT, mag=10, clean=True)
            g._mark_nondet = False
            r = g.add("Mul", [r0, g.const(np.array(2.0, dtype=F32))], mag=20)
        elif form == "bernoulli_const":
            # all inputs constant (probabilities): only the nondeterminism guard keeps this from being folded
            if g.opset < 15:
                raise Bail("opset")
            r = g.add("Bernoulli", [g.const(np.full((32,), 0.5, dtype=F32))], mag=1, clean=True)
        elif form == "dropout_train_const":
            # all inputs constant and training_mode=True: must not be folded into one fixed draw
            if g.opset < 12:
                raise Bail("opset")
            r = g.add("Dropout", [g.const(np.full((32,), 2.0, dtype=F32)), g.const(np.array(0.5, dtype=F32)), g.const(np.array(True))], mag=4)
        elif form == "normal_like":
            x = g.pick(lambda v: _f32(v) and v.static() and all(a.size >= 16 for a in v.arrs))
            r = g.add("RandomNormalLike", [x], mag=10, clean=True)
        else:
            if g.opset < 12:
                raise Bail("opset")
            x = g.pick(lambda v: _f32(v) and all(a.size >= 16 for a in v.arrs))
            r = g.add("Dropout", [x, g.const(np.array(0.5, dtype=F32)), g.const(np.array(True))], mag=x.mag * 2)
    finally:
        g._mark_nondet = False
    if g.depth == 0:
        g.force_out.append(r)
    return r


# ------------------------------------------------------------------ control flow
def _body(g, kind, ninputs=()):
    sub = Gen(g.rng, g.opset, g.symbolic, g.ir_version, prefix=g.prefix, outer=g, depth=g.depth + 1)
    return sub


def op_if(g, max_body=4):
    if g.depth >= 2:
        raise Bail("depth")
    r = g.rng.random()
    if r < 0.35:
        cond = g.const(np.array(g.rng.random() < 0.5), how=g.rng.choice(["init", "node"]))
        g.hit("motif:if_const_cond")
    else:
        try:
            cond = g.pick(lambda v: v.dtype.kind == "b" and v.rank == 0)
        except Bail:
            x = g.pick(lambda v: v.dtype in (np.dtype(F32), np.dtype(I64)) and all(a.size > 0 for a in v.arrs) and v.clean and v.mag < 1e6)
            s = g.add("ReduceSum", [x], keepdims=0, mag=x.mag * 64)
            cond = g.add("Greater", [s, g.const(np.array(0, dtype=x.dtype))], mag=1, clean=True)
    # both branches must yield the same dtype (and rank) — generate then-branch, then fit else-branch
    nbr = g.rng.choice([1, 1, 2])
    branches = []
    want = None
    for bi in range(2):
        for attempt in range(6):
            sub = Gen(g.rng, g.opset, g.symbolic, g.ir_version, prefix=g.prefix, outer=g, depth=g.depth + 1)
            grow(sub, g.rng.randrange(1, max_body + 1), allow_inputs=False)
            cands = [v for v in sub.vals if v.kind == "node" and not v.seq]
            if want is not None:
                cands = [v for v in cands if all(v.dtype == w.dtype and all(a.shape == b.shape for a, b in zip(v.arrs, w.arrs)) for w in [want[0]])]
            if len(cands) >= 1:
                outs = [g.rng.choice(cands)]
                if want is None:
                    want = outs
                branches.append((sub, outs))
                break
        else:
            raise Bail("if branches")
    graphs = []
    for sub, outs in branches:
        graphs.append(oh.make_graph(sub.nodes, g.fresh("body"), [], [oh.make_empty_tensor_value_info(o.name) for o in outs],
                                    initializer=sub.inits))
    out = g.fresh("t")
    node = oh.make_node("If", [cond.name], [out], then_branch=graphs[0], else_branch=graphs[1])
    nd = any(v.nondet for sub, _ in branches for v in sub.vals) or any(
        (g.lookup(r) is not None and g.lookup(r).nondet) for sub, _ in branches for r in sub.captured)
    g._mark_nondet = nd
    g._mark_dd = any(v.ddshape for sub, _ in branches for v in sub.vals) or any(
        (g.lookup(r) is not None and g.lookup(r).ddshape) for sub, _ in branches for r in sub.captured)
    g._mark_sym = any(v.sym for sub, _ in branches for v in sub.vals) or any(
        (g.lookup(r) is not None and g.lookup(r).sym) for sub, _ in branches for r in sub.captured)
    try:
        v = g.add_nodes([node], [out], [cond], mag=max(b[1][0].mag for b in branches),
                        clean=all(b[1][0].clean for b in branches), tag="If")
    finally:
        g._mark_nondet = False
        g._mark_dd = False
        g._mark_sym = False
    return v


def op_loop(g, max_body=3):
    if g.depth >= 2:
        raise Bail("depth")
    x = g.pick(lambda v: v.dtype in (np.dtype(F32), np.dtype(I64)) and v.static() and v.clean and v.mag <= 1e3)
    trips = g.rng.choice([0, 1, 2, 3])
    M = g.const(np.array(trips, dtype=np.int64))
    it, cin, st = g.fresh("it"), g.fresh("cin"), g.fresh("st")
    sub = Gen(g.rng, g.opset, g.symbolic, g.ir_version, prefix=g.prefix, outer=g, depth=g.depth + 1)
    stv = V(st, list(x.arrs), "input", mag=x.mag, clean=True)
    itv = V(it, [np.array(1, dtype=np.int64)] * g.nb, "input", mag=4, clean=True)
    sub.vals += [stv, itv]
    # body: new_state = f(state, captured...) with same dtype/shape
    k = sub.const(np.array(g.rng.choice([1, 2]), dtype=x.dtype))
    form = g.rng.choice(["add", "mul", "add_outer", "add_iter"])
    if form == "add":
        ns = sub.add("Add", [stv, k], mag=x.mag + 8)
    elif form == "mul":
        ns = sub.add("Mul", [stv, k], mag=x.mag * 8)
    elif form == "add_outer":
        ns = sub.add("Add", [stv, x], mag=x.mag * 4)
    else:
        itc = sub.add("Cast", [itv], to=np2tp(x.dtype), mag=4)
        ns = sub.add("Add", [stv, itc], mag=x.mag + 16)
    scan = sub.add("Neg", [ns], mag=ns.mag) if g.rng.random() < 0.5 else None
    cond_out = g.fresh("co")
    sub.nodes.append(oh.make_node("Identity", [cin], [cond_out]))
    body_outs = [cond_out, ns.name] + ([scan.name] if scan is not None else [])
    body = oh.make_graph(sub.nodes, g.fresh("loop"),
                         [oh.make_tensor_value_info(it, TP.INT64, []), oh.make_tensor_value_info(cin, TP.BOOL, []),
                          oh.make_tensor_value_info(st, np2tp(x.dtype), None)],
                         [oh.make_tensor_value_info(cond_out, TP.BOOL, [])] + [oh.make_empty_tensor_value_info(o) for o in body_outs[1:]],
                         initializer=sub.inits)
    condv = g.const(np.array(True)) if g.rng.random() < 0.6 else None
    outs = [g.fresh("t")] + ([g.fresh("t")] if scan is not None else [])
    node = oh.make_node("Loop", [M.name, condv.name if condv else "", x.name], outs, body=body)
    g._mark_nondet = any(v.nondet for v in sub.vals) or any((g.lookup(r) is not None and g.lookup(r).nondet) for r in sub.captured)
    g._mark_dd = any(v.ddshape for v in sub.vals) or any((g.lookup(r) is not None and g.lookup(r).ddshape) for r in sub.captured)
    g._mark_sym = any(v.sym for v in sub.vals) or any((g.lookup(r) is not None and g.lookup(r).sym) for r in sub.captured)
    try:
        vs = g.add_nodes([node], outs, [M, x] + ([condv] if condv else []), mag=x.mag * 64 + 64, tag="Loop")
    finally:
        g._mark_nondet = False
        g._mark_dd = False
        g._mark_sym = False
    return vs[0] if isinstance(vs, list) else vs


def op_function_call(g):
    """A model-local function with an attribute reference, called with an attribute value."""
    x = g.pick(_f32)
    top = g
    while top.outer is not None:
        top = top.outer
    fname = f"F{len(top.functions)}"
    dom = "local.test"
    form = g.rng.choice(["leaky", "scale_const", "two_nodes", "reshape_reshape", "clip_clip", "flatten", "min_max"])
    attr_names = ["alpha"]
    if form in ("reshape_reshape", "clip_clip", "flatten", "min_max"):
        # bodies that match a default rewrite rule whose replacement creates an initializer (a function cannot own one):
        # only reached when functions survive, i.e. rewrite() or optimize(inline=False)
        attr_names = []
        g.hit("motif:function_rule_body")
        g.hit("motif:function_rule_body:" + form)
        if form == "reshape_reshape":
            x = g.pick(lambda v: _f32(v) and v.rank >= 1 and v.static() and not (g.symbolic and v.sym) and int(np.prod(v.shape)) > 0)
            n = int(np.prod(x.shape))
            nodes = [oh.make_node("Constant", [], ["s1"], value=nph.from_array(np.array([1, n], dtype=np.int64), "s1v")),
                     oh.make_node("Constant", [], ["s2"], value=nph.from_array(np.array(list(x.shape), dtype=np.int64), "s2v")),
                     oh.make_node("Reshape", ["a", "s1"], ["r1"]), oh.make_node("Reshape", ["r1", "s2"], ["b"])]
        elif form == "clip_clip":
            if g.opset < 11:
                raise Bail("opset")
            cs = [("lo1", -1.0), ("hi1", 4.0), ("lo2", 0.5), ("hi2", 2.5)]
            nodes = [oh.make_node("Constant", [], [k], value=nph.from_array(np.array(c, dtype=F32), k + "v")) for k, c in cs]
            nodes += [oh.make_node("Clip", ["a", "lo1", "hi1"], ["c1"]), oh.make_node("Clip", ["c1", "lo2", "hi2"], ["b"])]
        elif form == "min_max":
            if g.opset < 12:
                raise Bail("opset")
            cs = [("lo", -1.0), ("hi", 2.5)]
            nodes = [oh.make_node("Constant", [], [k], value=nph.from_array(np.array(c, dtype=F32), k + "v")) for k, c in cs]
            nodes += [oh.make_node("Max", ["a", "lo"], ["c1"]), oh.make_node("Min", ["c1", "hi"], ["b"])]
        else:
            x = g.pick(lambda v: _f32(v) and v.rank >= 1)
            nodes = [oh.make_node("Relu", ["a"], ["t"]), oh.make_node("Flatten", ["t"], ["b"], axis=g.rng.choice([0, 1]))]
    elif form == "leaky":
        n1 = oh.make_node("LeakyRelu", ["a"], ["b"])
        n1.attribute.append(oh.make_attribute_ref_name_to_attr("alpha", "alpha") if hasattr(oh, "make_attribute_ref_name_to_attr") else _ref_attr("alpha", "alpha", onnx.AttributeProto.FLOAT))
        nodes = [n1]
    elif form == "scale_const":
        c = oh.make_node("Constant", [], ["k"])
        c.attribute.append(_ref_attr("value_float", "alpha", onnx.AttributeProto.FLOAT))
        nodes = [c, oh.make_node("Mul", ["a", "k"], ["b"])]
    else:
        n1 = oh.make_node("Elu", ["a"], ["t"])
        n1.attribute.append(_ref_attr("alpha", "alpha", onnx.AttributeProto.FLOAT))
        nodes = [n1, oh.make_node("Add", ["t", "a"], ["b"])]
    f = oh.make_function(dom, fname, ["a"], ["b"], nodes, [oh.make_opsetid("", g.opset)], attributes=attr_names)
    top.functions.append(f)
    try:
        kw = {"alpha": g.rng.choice([0.5, 2.0, 0.1])} if attr_names else {}
        out = g.add(fname, [x], domain=dom, mag=x.mag * 4, kind="call", **kw)
    except Bail:
        top.functions.pop()
        raise
    g.hit("motif:function_call")
    return out


def _ref_attr(name, ref, typ):
    a = onnx.AttributeProto()
    a.name = name
    a.ref_attr_name = ref
    a.type = typ
    return a


BASIC_OPS = [
    (op_unary_float, 8), (op_unary_wild, 2), (op_binary, 10), (op_div, 3), (op_mod, 2), (op_pow, 1), (op_compare, 4),
    (op_logical, 2), (op_where, 3), (op_matmul, 4), (op_gemm, 2), (op_reshape, 5), (op_flatten, 2), (op_transpose, 4),
    (op_unsqueeze, 3), (op_squeeze, 3), (op_concat, 4), (op_split, 3), (op_slice, 5), (op_gather, 4), (op_expand, 4),
    (op_tile, 1), (op_pad, 2), (op_shape, 3), (op_size, 1), (op_constant_of_shape, 2), (op_range, 1), (op_cast, 5),
    (op_castlike, 2), (op_reduce, 5), (op_argmax, 1), (op_softmax, 2), (op_cumsum, 1), (op_clip, 3), (op_isnan, 1),
    (op_dropout, 2), (op_trilu, 1), (op_onehot, 1), (op_topk, 1), (op_nonzero, 1), (op_conv, 2), (op_pool, 1),
    (op_layernorm, 1), (op_sequence, 3),
]
def m_sibling_ifs(g):
    """k sibling If nodes with a constant (foldable) condition whose branches each own an initializer of the SAME name:
    sibling scopes may reuse names; an optimizer that inlines the taken branches must keep them apart."""
    if g.depth != 0:
        raise Bail("depth")
    x = g.pick(lambda v: v.dtype == np.dtype(F32) and v.clean and v.mag < 1e6 and not v.seq)
    k = g.rng.choice([2, 3, 3, 4])
    wname = g.fresh("w") + "_shared"
    how = g.rng.choice(["init", "node", "size_eq"])
    if how == "size_eq":
        # the exporter idiom: Equal(Size(Shape(x)), rank) — constant after shape folding
        sz = g.add("Size", [g.add("Shape", [x], mag=8)], mag=8)
        cond = g.add("Equal", [sz, g.const(np.array(x.rank, dtype=np.int64))], mag=1, clean=True)
    else:
        cond = g.const(np.array(g.rng.random() < 0.7), how=how)
    g.hit(f"motif:sibling_ifs:{k}:{how}")
    acc = None
    for j in range(k):
        graphs = []
        for b, opn in enumerate(("Add", "Mul")):
            o = g.fresh("t")
            w = nph.from_array(np.array(float(j + 1 + 3 * b), dtype=F32), wname)
            graphs.append(oh.make_graph([oh.make_node(opn, [x.name, wname], [o])], g.fresh("body"), [],
                                        [oh.make_empty_tensor_value_info(o)], initializer=[w]))
        out = g.fresh("t")
        node = oh.make_node("If", [cond.name], [out], then_branch=graphs[0], else_branch=graphs[1])
        v = g.add_nodes([node], [out], [cond, x], mag=x.mag * 8 + 8, tag="If")
        acc = v if acc is None else g.add("Add", [acc, v], mag=acc.mag + v.mag)
    g.force_out.append(acc)
    return acc


MOTIFS = [
    (m_noop_arith, 5), (m_cast_cast, 3), (m_cast_chain, 3), (m_concat_zero_other_axis, 2), (m_reshape_reshape, 3), (m_transpose_transpose, 3), (m_clip_relu, 4),
    (m_shape_chain, 5), (m_identity_out, 3), (m_const_fold_chain, 5), (m_init_input_chain, 2), (m_cse, 2),
    (m_unsq_unsq, 2), (m_flatten_reshape, 1), (m_random, 2), (m_sibling_ifs, 1),
]
CONTROL = [(op_if, 3), (op_loop, 2), (op_function_call, 2)]


def m_dropout_mask_live(g):
    """Dropout whose optional second output (the mask) is alive: consumed by another node and/or a graph output.  The mask has
    the data's element type up to opset 9 and is BOOL from opset 10; ratio / training_mode are inputs only from opset 12."""
    x = g.pick(_f32)
    ins = [x]
    attrs = {}
    if g.opset >= 12:
        if g.rng.random() < 0.6:
            ins.append(g.const(np.array(g.rng.choice([0.0, 0.5]), dtype=F32)))
    elif g.rng.random() < 0.75:
        # ratio 0 is the value the default rule set looks for (dropout_zero)
        attrs["ratio"] = g.rng.choice([0.0, 0.0, 0.25, 0.5])
    out, mask = g.add("Dropout", ins, nout=2, mag=x.mag, **attrs)
    g.hit("motif:dropout_mask_live")
    how = g.rng.choice(["output", "output", "consume", "both"])
    r = out
    if how in ("consume", "both"):
        if mask.dtype.kind == "b":
            r = g.add("Where", [mask, out, g.const(np.array(0.0, dtype=F32))], mag=x.mag)
        else:
            r = g.add("Mul", [out, mask], mag=x.mag)
    if how in ("output", "both"):
        g.force_out.append(mask)
    return r


# table of the legacy-opset stratum (default-domain opset 7..12): everything above plus the live-mask Dropout
LEGACY_EXTRA = [(m_dropout_mask_live, 6)]


def grow(g, n_nodes, allow_inputs=True, table=None):
    table = table or (BASIC_OPS + MOTIFS + (CONTROL if g.depth < 2 else []))
    fns, ws = zip(*table)
    tries = 0
    target = len(g.nodes) + n_nodes
    while len(g.nodes) < target and tries < n_nodes * 12:
        tries += 1
        if allow_inputs and (not g.inputs or (g.rng.random() < 0.08 and len(g.inputs) < 4)):
            g.new_input()
            continue
        if not g.visible():
            g.const(example_input(g.rng, F32, [2, 3], "small"))
        fn = g.rng.choices(fns, weights=ws, k=1)[0]
        mark = (len(g.nodes), len(g.inits), len(g.vals), len(g.functions), len(g.inputs), len(g.init_inputs), len(g.force_out))
        try:
            fn(g)
        except Bail:
            # roll back anything half-added by the constructor (constants etc.)
            del g.nodes[mark[0]:], g.inits[mark[1]:], g.vals[mark[2]:], g.functions[mark[3]:]
            del g.inputs[mark[4]:], g.init_inputs[mark[5]:], g.force_out[mark[6]:]
            g.hit("bail")
        except (ValueError, IndexError, TypeError) as e:
            del g.nodes[mark[0]:], g.inits[mark[1]:], g.vals[mark[2]:], g.functions[mark[3]:]
            del g.inputs[mark[4]:], g.init_inputs[mark[5]:], g.force_out[mark[6]:]
            g.hit("bail_exc")


def _decl_vi(v, symbolic):
    if v.seq:
        return oh.make_tensor_sequence_value_info(v.name, np2tp(v.dtype), None)
    shape = v.decl if v.decl is not None else list(v.shape)
    return oh.make_tensor_value_info(v.name, np2tp(v.dtype), shape)


def finish(g, n_outputs=None, name="gen"):
    """Choose outputs and assemble a ModelProto.  Returns (model, info)."""
    rng = g.rng
    used = set()
    for n in g.nodes:
        used.update(n.input)
    cands = [v for v in g.vals if v.kind in ("node",) and not v.norank]
    if not cands:
        raise Bail("no outputs")
    leaves = [v for v in cands if v.name not in used]
    n_outputs = n_outputs or rng.choice([1, 1, 2, 3])
    outs = []
    pool = leaves[:]
    rng.shuffle(pool)
    outs.extend(pool[:n_outputs])
    if len(outs) < n_outputs:
        rest = [v for v in cands if v not in outs]
        rng.shuffle(rest)
        outs.extend(rest[: n_outputs - len(outs)])
    for v in g.force_out:
        if v not in outs and v in g.vals:
            outs.append(v)
    # make every remaining leaf an output too with small probability (else it is dead code: DCE fodder)
    for v in leaves:
        if v not in outs and rng.random() < 0.3:
            outs.append(v)
    gin = [_decl_vi(v, g.symbolic) for v in g.inputs] + [_decl_vi(v, False) for v in g.init_inputs]
    gout = []
    for v in outs:
        if v.seq:
            gout.append(oh.make_tensor_sequence_value_info(v.name, np2tp(v.dtype), None))
        elif v.kind == "node" and v.decl is not None:
            # a motif that knows the symbolic shape of its result (same shape as one of the inputs) declares it
            gout.append(oh.make_tensor_value_info(v.name, np2tp(v.dtype), list(v.decl)))
        elif v.static() and not (g.symbolic and v.sym):
            gout.append(oh.make_tensor_value_info(v.name, np2tp(v.dtype), list(v.shape)))
        else:
            gout.append(oh.make_tensor_value_info(v.name, np2tp(v.dtype), [None] * v.rank))
    graph = oh.make_graph(g.nodes, name, gin, gout, initializer=g.inits)
    imports = [oh.make_opsetid("", g.opset)]
    if g.functions:
        imports.append(oh.make_opsetid(g.functions[0].domain, 1))
    m = oh.make_model(graph, opset_imports=imports, ir_version=g.ir_version, functions=g.functions,
                      producer_name="verif-modelgen")
    info = {
        "inputs": [{"name": v.name, "dtype": str(v.dtype), "decl": v.decl} for v in g.inputs],
        "init_inputs": [{"name": v.name, "dtype": str(v.dtype), "shape": list(v.shape)} for v in g.init_inputs],
        "outputs": [v.name for v in outs],
        "nondet_outputs": [v.name for v in outs if v.nondet],
        "events": dict(g.events),
        "n_nodes": len(g.nodes),
    }
    return m, info


def generate(rng, opset=18, n_nodes=12, symbolic=False, table=None):
    g = Gen(rng, opset=opset, symbolic=symbolic)
    for _ in range(rng.choice([1, 2, 2, 3])):
        g.new_input()
    grow(g, n_nodes, table=table)
    return finish(g)


def make_feeds(rng, info, binding=None, style=None, which=0):
    """Concrete inputs for a generated model.  `binding` maps symbol -> size (symbolic mode)."""
    feeds = {}
    unn = 0
    for i in info["inputs"]:
        shape = []
        for d in i["decl"]:
            if isinstance(d, str):
                shape.append((binding or BIND_A)[d])
            elif d is None:
                shape.append((binding or {}).get(f"?{unn}", 7))
                unn += 1
            else:
                shape.append(d)
        feeds[i["name"]] = example_input(rng, np.dtype(i["dtype"]), shape, style)
    return feeds


# ====================================================================== shape-driven motifs (symbolic mode, C09)
def s_expand_before_binary(g):
    """Expand(x, Shape(y)) feeding a binary op with y (expand-before-binary rules, strategies 1-3)."""
    y = g.pick(lambda v: _f32(v) and v.rank >= 1)
    x = g.pick(lambda v: _f32(v) and v.rank <= y.rank and all(
        _np_bc_to(a.shape, b.shape) for a, b in zip(v.arrs, y.arrs)))
    form = g.rng.choice(["shape_of", "const", "concat_dims"])
    if form == "shape_of":
        s = g.add("Shape", [y], mag=8)
    elif form == "const":
        if not y.static():
            raise Bail("needs static")
        s = g.i64(list(y.shape))
    else:
        sh = g.add("Shape", [y], mag=8)
        parts = []
        for i in range(y.rank):
            parts.append(g.add("Slice", [sh, g.i64([i]), g.i64([i + 1])], mag=8))
        s = g.add("Concat", parts, axis=0, mag=8) if len(parts) > 1 else parts[0]
    e = g.add("Expand", [x, s], mag=x.mag)
    g.hit("motif:expand_before_binary:" + form)
    if g.rng.random() < 0.4:
        # three parties: the expand shape comes from y, the OTHER operand of the binary op is a third value that merely
        # broadcasts against it (its dims may be other symbols that are 1 while the model is generated)
        others = [v for v in g.visible() if not v.seq and not v.norank and _f32(v) and v is not y and v is not x and 1 <= v.rank <= y.rank and all(
            _np_bc_to(a.shape, b.shape) for a, b in zip(v.arrs, y.arrs))]
        if others:
            y = g.rng.choice(others)
            g.hit("motif:expand_before_binary:third_operand")
    op = g.rng.choice(["Add", "Mul", "Sub", "Max", "Where"])
    if op == "Where":
        c = g.add("Greater", [y, g.const(np.array(0.0, dtype=F32))], mag=1)
        return g.add("Where", [c, e, y], mag=max(x.mag, y.mag))
    ins = [e, y] if g.rng.random() < 0.5 else [y, e]
    return g.add(op, ins, mag=x.mag * y.mag + x.mag + y.mag)


def s_expand_three_party(g):
    """BinaryOp(Expand(x, Shape(z)), y) with inputs of its own: z carries a symbol (N/M/K) on an axis where x is 1 or absent
    and y carries ANOTHER symbol there - "P", which is 1 while the model is generated.  Removing the Expand is only right if
    y supplies the axis, which it does not when P is bound to 1 and the other symbol is not."""
    if g.depth != 0 or len(g.inputs) > 2:
        raise Bail("inputs")
    sym = g.rng.choice(["N", "M", "K"])
    tail = g.rng.choice([[], [3], [2, 3]])
    z = g.new_input(dtype=F32, shape=[sym] + tail)
    y = g.new_input(dtype=F32, shape=["P"] + tail)
    xs = g.rng.choice([[1] + tail, tail, [1] * (1 + len(tail))]) if tail else [1]
    x = g.new_input(dtype=F32, shape=xs) if g.rng.random() < 0.5 else g.const(example_input(g.rng, F32, xs, "small"))
    form = g.rng.choice(["shape_of", "concat_dims"])
    sh = g.add("Shape", [z], mag=8)
    if form == "concat_dims":
        parts = [g.add("Slice", [sh, g.i64([i]), g.i64([i + 1])], mag=8) for i in range(z.rank)]
        sh = g.add("Concat", parts, axis=0, mag=8) if len(parts) > 1 else parts[0]
    e = g.add("Expand", [x, sh], mag=x.mag)
    op = g.rng.choice(["Add", "Mul", "Sub", "Max"])
    out = g.add(op, [e, y] if g.rng.random() < 0.5 else [y, e], mag=x.mag * y.mag + x.mag + y.mag)
    g.hit("motif:expand_before_binary:three_party")
    g.hit("motif:expand_before_binary:shape_of")     # the check applies the expand rule set when it sees this motif
    g.force_out.append(out)
    return out


def _np_bc_to(a, b):
    try:
        return np.broadcast_shapes(a, b) == tuple(b)
    except ValueError:
        return False


def s_reshape_by_shape(g):
    """Reshape(x, f(Shape(x))) — identity / materialisable targets."""
    x = g.pick(lambda v: v.rank >= 1)
    s = g.add("Shape", [x], mag=8)
    form = g.rng.choice(["identity", "abs", "cast", "head_minus1", "swap"])
    g.hit("motif:reshape_by_shape:" + form)
    attrs = {}
    if g.opset >= 14 and g.rng.random() < 0.3:
        attrs["allowzero"] = g.rng.choice([0, 1])
    if form == "identity":
        return g.add("Reshape", [x, s], mag=x.mag, **attrs)
    if form == "abs":
        return g.add("Reshape", [x, g.add("Abs", [s], mag=8)], mag=x.mag, **attrs)
    if form == "cast":
        c = g.add("Cast", [g.add("Cast", [s], to=TP.INT32, mag=8)], to=TP.INT64, mag=8)
        return g.add("Reshape", [x, c], mag=x.mag, **attrs)
    if form == "head_minus1":
        head = g.add("Slice", [s, g.i64([0]), g.i64([1])], mag=8)
        return g.add("Reshape", [x, g.add("Concat", [head, g.i64([-1])], axis=0, mag=8)], mag=x.mag)
    if x.rank < 2:
        raise Bail("rank")
    a = g.add("Gather", [s, g.i64([x.rank - 1])], mag=8)
    b = g.add("Slice", [s, g.i64([0]), g.i64([x.rank - 1])], mag=8)
    y = g.add("Transpose", [x], perm=[x.rank - 1] + list(range(x.rank - 1)), mag=x.mag)
    return g.add("Reshape", [y, g.add("Concat", [a, b], axis=0, mag=8)], mag=x.mag)


def s_reshape_roundtrip_repeated(g):
    """x with a REPEATED symbolic dim ([N,N], [N,N,3], [2,M,M]) is flattened, passed through a unary op and reshaped back
    with Shape(x): the output shape has ONE distinct symbol but TWO unknown dims (no single -1 can stand for both)."""
    if g.depth != 0 or len(g.inputs) >= 5:
        raise Bail("inputs")
    sym = g.rng.choice(SYMS)
    shape = g.rng.choice([[sym, sym], [sym, sym, 3], [2, sym, sym], [sym, 1, sym]])
    x = g.new_input(dtype=F32, shape=shape)
    g.hit("motif:reshape_roundtrip_repeated")
    f = g.add("Reshape", [x, g.i64([-1])], mag=x.mag)
    u = g.add(g.rng.choice(["Relu", "Neg", "Abs"]), [f], mag=x.mag)
    r = g.add("Reshape", [u, g.add("Shape", [x], mag=8)], mag=x.mag)
    r.decl = list(shape)     # same shape as x, by construction: the graph output is declared with the repeated symbol
    g.force_out.append(r)
    return r


def s_slice_by_shape(g):
    """Slice whose ends come from Shape (collapse-slice rules)."""
    x = g.pick(lambda v: v.rank >= 1)
    ax = g.rng.randrange(x.rank)
    s = g.add("Shape", [x], mag=8)
    d = g.add("Slice", [s, g.i64([ax]), g.i64([ax + 1])], mag=8)
    form = g.rng.choice(["full", "full_step", "head"])
    g.hit("motif:slice_by_shape:" + form)
    if form == "full":
        return g.add("Slice", [x, g.i64([0]), d, g.i64([ax])], mag=x.mag)
    if form == "full_step":
        return g.add("Slice", [x, g.i64([0]), d, g.i64([ax]), g.i64([1])], mag=x.mag)
    return g.add("Slice", [x, g.i64([0]), g.add("Sub", [d, g.i64([1])], mag=8), g.i64([ax])], mag=x.mag)


def s_scatter_all(g):
    """ScatterND that overwrites everything along axis 0 (redundant-scatter rules)."""
    x = g.pick(lambda v: _f32(v) and v.rank >= 1 and all(a.shape[0] >= 1 for a in v.arrs))
    upd = g.pick(lambda v: _f32(v) and all(a.shape == b.shape for a, b in zip(v.arrs, x.arrs)))
    form = g.rng.choice(["range_dyn", "static"])
    g.hit("motif:scatter_all:" + form)
    if form == "static":
        if not x.static():
            raise Bail("static")
        idx = g.i64(np.arange(x.shape[0]).reshape(-1, 1))
    else:
        explicit = g.opset >= 16 and g.rng.random() < 0.6
        s = g.add("Shape", [x], mag=8, **({"start": 0} if explicit else {}))
        n = g.add("Gather", [s, g.const(np.array(0, dtype=np.int64))], mag=8, **({"axis": 0} if explicit else {}))
        r = g.add("Range", [g.const(np.array(0, dtype=np.int64)), n, g.const(np.array(1, dtype=np.int64))], mag=8)
        idx = g.add("Unsqueeze", [r, g.i64([-1])], mag=8) if g.opset >= 13 else g.add("Unsqueeze", [r], axes=[1], mag=8)
        if explicit:
            g.hit("motif:scatter_all:explicit_attrs")
            return g.add("ScatterND", [x, idx, upd], reduction="none", mag=max(x.mag, upd.mag))
    return g.add("ScatterND", [x, idx, upd], mag=max(x.mag, upd.mag))


def s_scatter_all_shape_start(g):
    """ScatterND that overwrites the first M rows of data[N, ...] with rows taken from Shape(data, start=k): only part of
    the tensor is overwritten unless the two dims happen to be equal under the binding."""
    if g.opset < 16 or g.depth != 0 or len(g.inputs) >= 5:
        raise Bail("opset")
    # pairs (a, b) with a >= b under both generation bindings
    a, b = g.rng.choice([(p, q) for p in SYMS for q in SYMS if p != q and BIND_A[p] >= BIND_A[q] and BIND_B[p] >= BIND_B[q]])
    form = g.rng.choice(["2d", "3d"])
    if form == "2d":
        x = g.new_input(dtype=F32, shape=[a, b])          # data [N, M]
        u = g.new_input(dtype=F32, shape=[b, b])          # updates [M, M]: rows 0..M-1 of data are overwritten
        k = 1
    else:
        x = g.new_input(dtype=F32, shape=[a, 2, b])
        u = g.new_input(dtype=F32, shape=[b, 2, b])
        k = 2
    if not all(xa.shape[0] >= ua.shape[0] for xa, ua in zip(x.arrs, u.arrs)):
        raise Bail("generation bindings must give N >= M")
    g.hit("motif:scatter_all_shape_start")
    # attributes spelled out the way the redundant-scatter pattern spells them (an attribute constant in a pattern only
    # matches a node that carries the attribute)
    s = g.add("Shape", [x], start=k, mag=8)
    n = g.add("Gather", [s, g.const(np.array(0, dtype=np.int64))], axis=0, mag=8)
    r = g.add("Range", [g.const(np.array(0, dtype=np.int64)), n, g.const(np.array(1, dtype=np.int64))], mag=8)
    idx = g.add("Unsqueeze", [r, g.i64([-1])], mag=8)
    out = g.add("ScatterND", [x, idx, u], reduction="none", mag=max(x.mag, u.mag))
    g.force_out.append(out)
    return out


def s_expand_as_anonymous(g):
    """Expand(x, Shape(y)) where x and y are declared with ANONYMOUS leading dims ([?, N] both): nothing says the two
    unknown dims are equal, so the Expand is not an identity (x may be [1, N] while y is [3, N])."""
    if g.depth != 0 or len(g.inputs) >= 5:
        raise Bail("inputs")
    sym = g.rng.choice(SYMS)
    tail = g.rng.choice([[sym], [3], [sym, 2]])
    x = g.new_input(dtype=F32, shape=[None] + tail)
    y = g.new_input(dtype=F32, shape=[None] + tail)
    g.hit("motif:expand_as_anonymous")
    out = g.add("Expand", [x, g.add("Shape", [y], mag=8)], mag=x.mag)
    g.force_out.append(out)
    return out


def s_matmul_reshape(g):
    """Reshape -> MatMul -> Reshape (broadcast-to-matmul rules)."""
    x = g.pick(lambda v: _f32(v) and v.rank == 3 and v.static())
    b, m, k = x.shape
    n = g.rng.choice([2, 3])
    w = g.const(np.array([g.rng.choice([0.0, 1.0, -1.0, 0.5]) for _ in range(k * n)], dtype=F32).reshape(k, n))
    g.hit("motif:matmul_reshape")
    x2 = g.add("Reshape", [x, g.i64([b * m, k])], mag=x.mag)
    y = g.add("MatMul", [x2, w], mag=x.mag * k)
    return g.add("Reshape", [y, g.i64([b, m, n])], mag=y.mag)


def s_size_range(g):
    x = g.pick(lambda v: v.rank >= 1)
    g.hit("motif:size_range")
    n = g.add("Size", [x], mag=4096)
    s = g.add("Shape", [x], mag=8)
    p = g.add("ReduceProd", [s], keepdims=0, mag=4096)
    return g.add("Sub", [n, p], mag=8192)


def s_squeeze_unsqueeze(g):
    if g.opset < 13:
        raise Bail("opset")
    x = g.pick(lambda v: v.rank <= 3)
    ax = g.rng.randrange(0, x.rank + 1)
    g.hit("motif:squeeze_unsqueeze")
    y = g.add("Unsqueeze", [x, g.i64([ax])], mag=x.mag)
    return g.add("Squeeze", [y, g.i64([ax])] if g.rng.random() < 0.7 else [y], mag=x.mag)


def _one_dim(g):
    """A one-element (rank-1) or scalar INT64 value that is a dim of some value, in one of the spellings exporters use."""
    x = g.pick(lambda v: v.rank >= 1)
    i = g.rng.randrange(x.rank)
    form = g.rng.choice(["gather1d", "gather0d", "startend", "slice"] if g.opset >= 15 else ["gather1d", "gather0d", "slice"])
    if form == "startend":
        return g.add("Shape", [x], start=i, end=i + 1, mag=8), 1
    s = g.add("Shape", [x], mag=8)
    if form == "gather1d":
        return g.add("Gather", [s, g.i64([g.rng.choice([i, i - x.rank])])], axis=0, mag=8), 1
    if form == "gather0d":
        return g.add("Gather", [s, g.const(np.array(i, dtype=np.int64))], axis=0, mag=8), 0
    return g.add("Slice", [s, g.i64([i]), g.i64([i + 1])], mag=8), 1


_DIM_OPS = ["Sub", "Sub", "Sub", "Add", "Add", "Mul", "Div", "Neg", "Min", "Max", "Mod"]


def s_dim_arith(g):
    """Integer arithmetic over dims: a chain of 1-2 operators out of Add/Sub/Mul/Div/Neg/Min/Max/Mod over Shape-derived
    one-element values and small constants, then a CONSUMER that a dim-tracking folder treats specially: Abs (identity only
    if the value cannot be negative), use as (part of) a shape for ConstantOfShape / Expand / Reshape, or nothing (the value
    itself is a graph output).  Must hold for EVERY binding: a difference of two dims can be negative, a quotient truncates,
    a dim can be 0.  (A binding on which the original fails - negative size - is discarded by the check.)"""
    cur, rc = _one_dim(g)
    vals = [(cur, rc)]
    if g.rng.random() < 0.8:
        vals.append(_one_dim(g))
    trail = []
    for _ in range(g.rng.choice([1, 1, 2])):
        op = g.rng.choice(_DIM_OPS)
        if op == "Neg":
            cur = g.add(op, [cur], mag=4096)
        else:
            if len(vals) > 1 and g.rng.random() < 0.7:
                other, ro = vals[g.rng.randrange(1, len(vals))]
            else:
                c = g.rng.choice([1, 2, 3, 5]) if op in ("Div", "Mod") else g.rng.choice([0, 1, 2, 3, 5, -1])
                ro = g.rng.choice([0, 1])
                other = g.const(np.array([c] if ro else c, dtype=np.int64))
            if op in ("Div", "Mod") and other.kind != "const":
                op = "Sub"          # a dim can be bound to 0: no division by a dim
            ins = [cur, other] if (op in ("Div", "Mod") or g.rng.random() < 0.6) else [other, cur]
            cur = g.add(op, ins, mag=4096)
            rc = max(rc, ro)
        trail.append(op)
    consumer = g.rng.choice(["abs", "abs", "abs", "none", "none", "shape_cos", "shape_concat_reshape"])
    if consumer == "abs":
        cur = g.add("Abs", [cur], mag=4096)
    elif consumer == "shape_cos":
        if cur.rank == 0:
            cur = g.add("Unsqueeze", [cur, g.i64([0])], mag=4096) if g.opset >= 13 else g.add("Unsqueeze", [cur], axes=[0], mag=4096)
        cur = g.add("ConstantOfShape", [cur], value=nph.from_array(np.array([1], dtype=np.int64)), mag=1)
    elif consumer == "shape_concat_reshape":
        x = g.pick(lambda v: v.rank >= 1 and not v.ddshape)
        if cur.rank == 0:
            cur = g.add("Unsqueeze", [cur, g.i64([0])], mag=4096) if g.opset >= 13 else g.add("Unsqueeze", [cur], axes=[0], mag=4096)
        tgt = g.add("Concat", [cur, g.i64([-1])], axis=0, mag=4096)
        cur = g.add("Reshape", [x, tgt], mag=x.mag)
    elif g.rng.random() < 0.3 and cur.rank == 1 and g.opset >= 13:
        cur = g.add("Squeeze", [cur, g.i64([0])], mag=4096)
    g.hit("motif:dim_arith")
    for op in set(trail):
        g.hit("motif:dim_arith:op:" + op)
    g.hit("motif:dim_arith:consumer:" + consumer)
    if g.depth == 0:
        g.force_out.append(cur)
    return cur


def s_squeeze_noaxes_sym(g):
    """Squeeze WITHOUT axes on a value whose shape has symbolic dims: the identity under the generation bindings (no dim is
    1), but it removes an axis as soon as a symbol is bound to 1.  The rank of its result is data dependent, so the value is
    never picked as an operand; what is observed is a rank-stable function of it: Shape (shows the rank), Reshape to 1-D
    (shows the values), Size."""
    if g.depth != 0:
        raise Bail("depth")
    x = g.pick(lambda v: v.rank >= 1 and v.sym and not v.ddshape)
    y = g.add("Squeeze", [x], mag=x.mag)
    y.norank = True
    how = g.rng.choice(["shape", "shape", "flat", "size"])
    if how == "shape":
        r = g.add("Shape", [y], mag=8)
    elif how == "flat":
        r = g.add("Reshape", [y, g.i64([-1])], mag=x.mag)
    else:
        r = g.add("Size", [y], mag=4096)
    r.sym = True
    g.hit("motif:squeeze_noaxes_sym")
    g.force_out.append(r)
    return r


SYM_MOTIFS = [
    (s_expand_before_binary, 8), (s_expand_three_party, 3), (s_reshape_by_shape, 8), (s_slice_by_shape, 5), (s_scatter_all, 3), (s_matmul_reshape, 2),
    (s_size_range, 2), (s_squeeze_unsqueeze, 2), (s_dim_arith, 9), (s_squeeze_noaxes_sym, 2), (s_reshape_roundtrip_repeated, 2), (s_scatter_all_shape_start, 2), (s_expand_as_anonymous, 2), (m_shape_chain, 8), (op_expand, 5), (op_reshape, 4), (op_shape, 3),
    (op_constant_of_shape, 2), (m_noop_arith, 3), (m_identity_out, 2), (op_gather, 2), (op_concat, 2), (op_slice, 2),
]
SYM_TABLE = [(f, w) for f, w in BASIC_OPS if f not in (op_conv, op_pool, op_sequence, op_topk, op_nonzero)] + SYM_MOTIFS + \
    [(op_if, 1), (m_reshape_reshape, 2), (m_transpose_transpose, 2), (m_cast_cast, 1), (m_cast_chain, 1), (m_const_fold_chain, 2)]


def symbols_of(info):
    """Names of the bindable dims of a generated symbolic model: 'N','M','K' and '?k' for unnamed dims."""
    syms, unn = [], 0
    for i in info["inputs"]:
        for d in i["decl"]:
            if isinstance(d, str) and d not in syms:
                syms.append(d)
            elif d is None:
                syms.append(f"?{unn}")
                unn += 1
    return syms
