"""C15 model generator in *carrier* mode: every place a ModelProto can carry information the property names is populated.

build(params, scratch) -> (ModelProto, aside_functions, info).  Pure function of `params` (JSON-able).
Models are valid by construction (onnx.checker is still applied by the check as precondition filter).
"""
from __future__ import annotations

import os
import struct

import numpy as np
import onnx
from onnx import TensorProto, helper

DT = TensorProto
IR_FOR_OPSET = {18: 8, 19: 9, 20: 9, 21: 10, 22: 10, 23: 11, 24: 12, 25: 13}
MIN_IR = {17: 9, 18: 9, 19: 9, 20: 9, 21: 10, 22: 10, 23: 11, 24: 12, 25: 13, 26: 13}
DTYPE_NAMES = {v: k for k, v in TensorProto.DataType.items()}
ALL_DTYPES = [d for d in sorted(DTYPE_NAMES) if d != 0]

# bit-pattern banks (little-endian element patterns), odd payloads first
BANK = {
    1: [0x7FC12345, 0x80000000, 0x00000001, 0xFFC00001, 0x807FFFFF, 0x7F7FFFFF, 0x3F800000, 0x7F800000, 0xFF800000, 0x00000000],
    11: [0x7FF8000000012345, 0x8000000000000000, 0x0000000000000001, 0xFFF8000000000001, 0x800FFFFFFFFFFFFF, 0x3FF0000000000000,
         0x7FF0000000000000],
    10: [0x7E01, 0x8000, 0x0001, 0xFE55, 0x83FF, 0x3C00, 0x7C00, 0xFC00, 0x7BFF],
    16: [0x7FC1, 0x8000, 0x0001, 0xFFC5, 0x807F, 0x3F80, 0x7F80, 0xFF80],
    17: [0x7F, 0x80, 0x01, 0xFF, 0x38, 0x7E, 0x00],          # e4m3fn: 0x7f/0xff NaN, 0x80 = -0
    18: [0x80, 0x01, 0x7F, 0xFF, 0x40, 0x00],                # e4m3fnuz: 0x80 NaN
    19: [0x7D, 0x80, 0x01, 0xFE, 0x7C, 0xFC, 0x3C, 0x00],    # e5m2: 0x7d.. NaN, 0x7c inf
    20: [0x80, 0x01, 0x7F, 0xFF, 0x44, 0x00],                # e5m2fnuz
    24: [0xFF, 0x00, 0x7F, 0x80, 0x01, 0xFE],                # e8m0: 0xff NaN
    14: [0x7FC12345, 0x80000000, 0x00000001, 0x3F800000, 0xBF800000, 0x7F800000],
    15: [0x7FF8000000012345, 0x8000000000000000, 0x0000000000000001, 0x3FF0000000000000],
}
WIDTH = {1: 4, 11: 8, 10: 2, 16: 2, 17: 1, 18: 1, 19: 1, 20: 1, 24: 1, 14: 4, 15: 8, 6: 4, 7: 8, 12: 4, 13: 8, 2: 1, 3: 1, 4: 2, 5: 2, 9: 1}
INT_BANK = {
    6: [-2 ** 31, 2 ** 31 - 1, -1, 0, 1, 123456], 7: [-2 ** 63, 2 ** 63 - 1, -1, 0, 1, 2 ** 40], 12: [2 ** 32 - 1, 0, 1, 2 ** 31],
    13: [2 ** 64 - 1, 0, 1, 2 ** 63], 2: [255, 0, 1, 128], 3: [-128, 127, -1, 0], 4: [65535, 0, 1, 32768], 5: [-32768, 32767, -1, 0],
    9: [1, 0, 1, 1, 0],
}
SUB = {21: (4, False), 22: (4, True), 23: (4, False), 25: (2, False), 26: (2, True)}   # bits, signed
STRINGS = [b"", b"plain", "ünicöde ☃".encode(), b"\x00\xff\xfe binary", b"a" * 40, b" lead/trail "]
SHAPES = [[3], [2, 2], [], [0], [0, 3], [5], [1, 1, 2], [2, 0, 2]]


def nelem(shape):
    n = 1
    for d in shape:
        n *= d
    return n


def elem_bytes(dtype, n, rot=0):
    """Raw little-endian bytes of n elements of dtype, cycling through the odd-payload bank."""
    if dtype in BANK:
        w = WIDTH[dtype]
        per = 2 if dtype in (14, 15) else 1
        bank = BANK[dtype]
        return b"".join(bank[(rot + i) % len(bank)].to_bytes(w, "little") for i in range(n * per))
    if dtype in INT_BANK:
        w = WIDTH[dtype]
        bank = INT_BANK[dtype]
        signed = dtype in (3, 5, 6, 7)
        return b"".join(int(bank[(rot + i) % len(bank)]).to_bytes(w, "little", signed=signed) for i in range(n))
    if dtype in SUB:
        bits, signed = SUB[dtype]
        per = 8 // bits
        vals = [(rot + i * 5 + 1) % (1 << bits) for i in range(n)]
        out = bytearray((n + per - 1) // per)
        for i, v in enumerate(vals):
            out[i // per] |= v << (bits * (i % per))
        return bytes(out)
    raise ValueError(dtype)


def make_tensor(name, dtype, shape, form, rot=0, scratch=None, meta=True):
    """form: raw | typed | external."""
    t = TensorProto()
    t.name = name
    t.data_type = dtype
    t.dims.extend(shape)
    n = nelem(shape)
    if dtype == 8:
        t.string_data.extend(STRINGS[(rot + i) % len(STRINGS)] for i in range(n))
        form = "typed"
    else:
        raw = elem_bytes(dtype, n, rot)
        if form == "typed":
            _fill_typed(t, dtype, raw, n)
        elif form == "external":
            fn = f"ext_{name}.bin"
            off = 16 * (rot % 3)
            with open(os.path.join(scratch, fn), "wb") as f:
                f.write(b"\xAA" * off + raw + b"\xBB" * 7)
            t.data_location = TensorProto.EXTERNAL
            for k, v in (("location", fn), ("offset", str(off)), ("length", str(len(raw)))):
                e = t.external_data.add()
                e.key, e.value = k, v
        else:
            t.raw_data = raw
    if meta:
        t.doc_string = f"doc of {name} ({DTYPE_NAMES[dtype]}, {form})"
        if _IR10[0]:
            e = t.metadata_props.add()
            e.key, e.value = "tensor_key", f"tensor_val_{name}"
    return t


def _fill_typed(t, dtype, raw, n):
    w = WIDTH.get(dtype)
    if dtype in (1, 14):
        # float_data goes through Python floats: keep only patterns that survive f32->f64->f32 (all but signalling NaNs)
        t.float_data.extend(struct.unpack("<f", raw[i:i + 4])[0] for i in range(0, len(raw), 4))
    elif dtype in (11, 15):
        t.double_data.extend(struct.unpack("<d", raw[i:i + 8])[0] for i in range(0, len(raw), 8))
    elif dtype == 7:
        t.int64_data.extend(struct.unpack("<q", raw[i:i + 8])[0] for i in range(0, len(raw), 8))
    elif dtype in (12, 13):
        t.uint64_data.extend(int.from_bytes(raw[i:i + w], "little") for i in range(0, len(raw), w))
    elif dtype in (3, 5, 6):
        t.int32_data.extend(int.from_bytes(raw[i:i + w], "little", signed=True) for i in range(0, len(raw), w))
    elif dtype in SUB:
        t.int32_data.extend(raw)                      # one packed byte per entry
    else:
        t.int32_data.extend(int.from_bytes(raw[i:i + w], "little") for i in range(0, len(raw), w))


_IR10 = [True]      # node / graph / function / tensor / value metadata_props, function value_info and overload exist since IR 10


def _meta(obj, tag):
    if not _IR10[0] and obj.DESCRIPTOR.name != "ModelProto":
        return
    e = obj.metadata_props.add()
    e.key, e.value = f"k_{tag}", f"v_{tag}"
    e = obj.metadata_props.add()
    e.key, e.value = "shared_key", f"value at {tag}"


def _vi(name, et, shape, tag=None):
    v = helper.make_tensor_value_info(name, et, shape)
    if tag:
        v.doc_string = f"doc of value {name}"
        _meta(v, tag)
    return v


def _node(op, ins, outs, name, domain="", carriers=True, **attrs):
    n = helper.make_node(op, list(ins), list(outs), name=name, domain=domain, **attrs)
    if carriers:
        n.doc_string = f"doc of node {name}"
        _meta(n, f"node_{name}")
    return n


def reshape_types(opset):
    s = onnx.defs.get_schema("Reshape", opset, "")
    for tc in s.type_constraints:
        if tc.type_param_str == "T":
            return set(tc.allowed_type_strs)
    return set()


_TSTR = {1: "float", 2: "uint8", 3: "int8", 4: "uint16", 5: "int16", 6: "int32", 7: "int64", 8: "string", 9: "bool", 10: "float16",
         11: "double", 12: "uint32", 13: "uint64", 14: "complex64", 15: "complex128", 16: "bfloat16", 17: "float8e4m3fn",
         18: "float8e4m3fnuz", 19: "float8e5m2", 20: "float8e5m2fnuz", 21: "uint4", 22: "int4", 23: "float4e2m1", 24: "float8e8m0",
         25: "uint2", 26: "int2"}


def make_functions(opset, p):
    """Model-local functions in domain vf.fn: Scale (used), Chain (used, calls Scale), Orphan (unused), Twin overloads."""
    fs = []

    def fn(name, inputs, outputs, nodes, attrs=(), attr_protos=(), overload="", extra_ops=()):
        f = helper.make_function("vf.fn", name, list(inputs), list(outputs), nodes,
                                 opset_imports=[helper.make_opsetid("", opset)] + [helper.make_opsetid(d, v) for d, v in extra_ops],
                                 attributes=list(attrs), attribute_protos=list(attr_protos), doc_string=f"doc of function {name}")
        if overload:
            f.overload = overload
        _meta(f, f"func_{name}{overload}")
        if _IR10[0]:
            v = f.value_info.add()
            v.CopyFrom(_vi(nodes[0].output[0], DT.FLOAT, None, tag=f"fvi_{name}"))
        return f

    k = helper.make_tensor("kv", DT.FLOAT, [], [float(p.get("fk", 2.0))])
    fs.append(fn("Scale", ["a"], ["r"], [
        _node("Constant", [], ["k"], "fs_const", value=k),
        _node("Mul", ["a", "k"], ["m"], "fs_mul"),
        helper.make_node("LeakyRelu", ["m"], ["r"], name="fs_leaky", alpha=0.25)],
        ))
    # attribute with default (attribute_proto) and reference attribute
    alpha_default = helper.make_attribute("alpha", 0.125)
    leaky = helper.make_node("LeakyRelu", ["s"], ["r"], name="fc_leaky")
    ra = leaky.attribute.add()
    ra.name, ra.type, ra.ref_attr_name = "alpha", onnx.AttributeProto.FLOAT, "alpha"
    fs.append(fn("Chain", ["a", "b"], ["r"], [
        _node("Add", ["a", "b"], ["ab"], "fc_add"),
        _node("Scale", ["ab"], ["s"], "fc_call", domain="vf.fn"),
        leaky], attr_protos=[alpha_default], extra_ops=[("vf.fn", 1)]))
    fs.append(fn("Orphan", ["a"], ["r"], [_node("Neg", ["a"], ["n"], "fo_neg"), _node("Abs", ["n"], ["r"], "fo_abs")]))
    if p.get("overloads") and _IR10[0]:
        fs.append(fn("Twin", ["a"], ["r"], [_node("Relu", ["a"], ["r"], "ft_relu")], overload="v1"))
        fs.append(fn("Twin", ["a"], ["r"], [_node("Sigmoid", ["a"], ["r"], "ft_sig")], overload="v2"))
    return fs


def build(p: dict, scratch: str):
    """p: {"opset", "dtypes": [[dtype, shape_idx, form, live]], "features": [...], "sym": bool, ...}"""
    opset = p["opset"]
    irv = p.get("ir_version") or IR_FOR_OPSET[opset]
    feats = set(p.get("features", []))
    _IR10[0] = irv >= 10
    d0 = "N" if p.get("sym") else 2
    nodes, inits, vinfo, outputs = [], [], [], []
    inputs = [_vi("x", DT.FLOAT, [d0, 3], tag="in_x"), _vi("y", DT.FLOAT, [d0, 3], tag="in_y")]
    cur = "x"

    def step(op, ins, tag, **attrs):
        nonlocal cur
        out = f"v_{tag}"
        nodes.append(_node(op, ins, [out], f"n_{tag}", **attrs))
        vinfo.append(_vi(out, DT.FLOAT, [d0, 3], tag=f"vi_{tag}"))
        cur = out
        return out

    # --- foldable constants
    if "fold" in feats:
        nodes.append(_node("Constant", [], ["c1"], "n_c1", value=make_tensor("c1v", 1, [3], p.get("bias_form", "raw")
                                                                             if p.get("bias_form") != "external" else "typed", rot=5)))
        nodes.append(_node("Constant", [], ["c2"], "n_c2", value_floats=[0.5, 0.25, 4.0]))
        nodes.append(_node("Add", ["c1", "c2"], ["c3"], "n_c3"))
        step("Mul", [cur, "c3"], "folded")
    # --- rewrite-able patterns
    if "castcast" in feats:
        nodes.append(_node("Cast", [cur], ["cc1"], "n_cc1", to=11))
        vinfo.append(_vi("cc1", DT.DOUBLE, [d0, 3], tag="vi_cc1"))
        step("Cast", ["cc1"], "cc2", to=1)
    if "negneg" in feats:
        nodes.append(_node("Neg", [cur], ["ng1"], "n_ng1"))
        step("Neg", ["ng1"], "ng2")
    if "transpose2" in feats:
        nodes.append(_node("Transpose", [cur], ["tp1"], "n_tp1", perm=[1, 0]))
        step("Transpose", ["tp1"], "tp2", perm=[1, 0])
    if "identity" in feats:
        step("Identity", [cur], "idt")
    # --- model-local functions
    functions, aside = [], []
    if "functions" in feats or "aside_functions" in feats:
        fl = make_functions(opset, p)
        step("Chain", [cur, "y"], "call_chain", domain="vf.fn", alpha=0.5)
        step("Scale", [cur], "call_scale", domain="vf.fn")
        if p.get("overloads") and irv >= 10:
            step("Twin", [cur], "call_twin", domain="vf.fn")
            nodes[-1].overload = "v2"
        if "aside_functions" in feats:
            aside = [f for f in fl if f.name != "Orphan"]
        else:
            functions = fl
    # --- dead code
    if "dead" in feats:
        nodes.append(_node("Exp", ["y"], ["dead1"], "n_dead1"))
        nodes.append(_node("Sqrt", ["dead1"], ["dead2"], "n_dead2"))
        vinfo.append(_vi("dead2", DT.FLOAT, [d0, 3], tag="vi_dead2"))
    # --- subgraph with its own initializer and metadata
    if "if" in feats:
        then_nodes = [_node("Add", [cur, "sub_k"], ["t_out"], "n_then_add")]
        if "aside_kernel" in feats and aside:
            # an operation of the functions' domain for which NO expansion is supplied (a real custom kernel), used only inside a
            # body: replacing the other functions must leave it - and the import of its domain - alone
            then_nodes = [_node("Kernel", [cur], ["t_k"], "n_then_kernel", domain="vf.fn"),
                          _node("Add", ["t_k", "sub_k"], ["t_out"], "n_then_add")]
        tb = helper.make_graph(then_nodes, "then_g", [], [_vi("t_out", DT.FLOAT, [d0, 3])],
                               initializer=[make_tensor("sub_k", 1, [3], "raw", rot=2)])
        tb.doc_string = "doc of then graph"
        _meta(tb, "then_graph")
        eb = helper.make_graph([_node("Sub", [cur, "y"], ["e_out"], "n_else_sub")], "else_g", [], [_vi("e_out", DT.FLOAT, [d0, 3])])
        nodes.append(_node("ReduceSum", ["y"], ["rs"], "n_rs", keepdims=0))
        nodes.append(_node("Greater", ["rs", "zero_f"], ["cnd"], "n_gt"))
        inits.append(make_tensor("zero_f", 1, [], "typed", rot=9))
        step("If", ["cnd"], "if", then_branch=tb, else_branch=eb)
    final = step("Add", [cur, "bias"], "final")
    inits.append(make_tensor("bias", 1, [3], p.get("bias_form", "raw"), rot=p.get("rot", 0), scratch=scratch))
    outputs.append(_vi(final, DT.FLOAT, [d0, 3], tag="out_main"))
    vinfo = [v for v in vinfo if v.name != final]

    # --- initializers of many element types
    ok_reshape = reshape_types(opset)
    shp_needed = {}
    sparse = []
    for k, (dt, sidx, form, live) in enumerate(p.get("dtypes", [])):
        if irv < MIN_IR.get(dt, 3):
            continue
        shape = SHAPES[sidx % len(SHAPES)]
        name = f"w_{DTYPE_NAMES[dt].lower()}_{k}"
        if form == "external" and nelem(shape) == 0:
            form = "raw"
        t = make_tensor(name, dt, shape, form, rot=k + p.get("rot", 0), scratch=scratch)
        inits.append(t)
        if live and f"tensor({_TSTR[dt]})" in ok_reshape:
            rank = 1 + (k % 2)
            sname = f"shp{rank}"
            shp_needed[rank] = sname
            out = f"o_{name}"
            nodes.append(_node("Reshape", [name, sname], [out], f"n_rs_{name}"))
            outputs.append(_vi(out, dt, [f"r{rank}_{i}_{k}" for i in range(rank)], tag=f"out_{name}"))
    for rank, sname in sorted(shp_needed.items()):
        inputs.append(_vi(sname, DT.INT64, [rank], tag=f"in_{sname}"))
    if "sparse" in feats:
        vals = make_tensor("sp_w", 1, [2], "raw", rot=1, meta=False)
        idx = helper.make_tensor("sp_w_idx", DT.INT64, [2], [1, 4])
        sparse.append(helper.make_sparse_tensor(vals, idx, [6]))
    g = helper.make_graph(nodes, p.get("gname", "carrier_graph"), inputs, outputs, initializer=inits, value_info=vinfo,
                          doc_string="doc of main graph", sparse_initializer=sparse)
    _meta(g, "graph")
    opsets = [helper.make_opsetid("", opset)]
    if functions or aside:
        opsets.append(helper.make_opsetid("vf.fn", 1))
    if "unused_opsets" in feats:
        opsets += [helper.make_opsetid("vf.unused", 3), helper.make_opsetid("ai.onnx.ml", 3)]
    m = helper.make_model(g, opset_imports=opsets, ir_version=irv, producer_name="vf.c15 producer", producer_version="1.2.3-carrier",
                          domain="vf.model.domain", model_version=p.get("model_version", 42), doc_string="doc of model",
                          functions=functions)
    _meta(m, "model")
    if p.get("explicit_defaults"):
        # fields explicitly set to their default value (the property lets these vanish)
        for n_ in m.graph.node:
            if n_.domain == "":
                n_.domain = ""
                break
        for t_ in m.graph.initializer:
            if t_.data_location != TensorProto.EXTERNAL:
                t_.data_location = TensorProto.DEFAULT
                break
        if len(m.graph.value_info):
            m.graph.value_info[0].doc_string = ""
    info = {"aside": len(aside), "functions": len(functions), "inits": len(inits), "nodes": len(nodes)}
    return m, aside, info


# --------------------------------------------------------------------------------------------
# parameter generation (stratified)
# --------------------------------------------------------------------------------------------

FEATURES = ["fold", "castcast", "negneg", "transpose2", "identity", "functions", "dead", "if", "sparse", "unused_opsets"]


def gen_params(rng, idx: int):
    opset = [18, 19, 20, 21, 22, 23, 24, 25][idx % 8]
    feats = [f for f in FEATURES if rng.random() < 0.6]
    # strata: every feature at least every other model; aside_functions variant for replace_functions
    forced = FEATURES[idx % len(FEATURES)]
    if forced not in feats:
        feats.append(forced)
    if idx % 4 == 3:
        feats = [f for f in feats if f != "functions"] + ["aside_functions"]
        if idx % 8 == 7:
            feats += ["aside_kernel"] + ([] if "if" in feats else ["if"])
    legal = [d for d in ALL_DTYPES if IR_FOR_OPSET[opset] >= MIN_IR.get(d, 3)]
    rng.shuffle(legal)
    # rotate through all dtypes over consecutive models: ~9 per model
    base = ALL_DTYPES[(idx * 9) % len(ALL_DTYPES):] + ALL_DTYPES[:(idx * 9) % len(ALL_DTYPES)]
    chosen = [d for d in base if d in legal][:9] + legal[:2]
    dts = []
    for k, d in enumerate(chosen):
        form = rng.choice(["raw", "typed", "raw", "external"]) if d != 8 else "typed"
        dts.append([d, rng.randrange(len(SHAPES)), form, rng.random() < 0.6])
    return {"opset": opset, "features": feats, "dtypes": dts, "sym": rng.random() < 0.4, "overloads": rng.random() < 0.4,
            "bias_form": rng.choice(["raw", "typed", "external"]), "rot": rng.randrange(10), "fk": rng.choice([2.0, -0.5, 3.5]),
            "explicit_defaults": rng.random() < 0.3, "model_version": rng.choice([42, 1, 2 ** 40])}
