"""Merge /verif/kf/*.json fragments into /verif/known_findings.json (python -m vf.kf_merge).

Fragments are the per-property source of truth; known_findings.json is the committed file
the checks read.  Never called by a check at run time.
"""
import glob
import json
import os

from . import common


def main():
    out, seen = [], set()
    for p in sorted(glob.glob(os.path.join(common.VERIF_DIR, "kf", "*.json"))):
        with open(p) as f:
            d = json.load(f)
        for e in d.get("findings", []):
            k = (e["property"], e["key"])
            if k in seen:
                continue
            seen.add(k)
            out.append(e)
    dst = os.path.join(common.VERIF_DIR, "known_findings.json")
    tmp = dst + f".tmp{os.getpid()}"
    with open(tmp, "w") as f:
        json.dump({"findings": out}, f, indent=1)
    os.replace(tmp, dst)   # atomic: checks running concurrently never see a partial file
    print(f"known_findings.json: {len(out)} entries "
          f"({sum(1 for e in out if e.get('status') == 'open')} open)")


if __name__ == "__main__":
    main()
