"""Known findings: /verif/known_findings.json, committed, never written at run time.

Entry: {"property": "C05", "key": "<mechanism key or fnmatch pattern>", "what": "...",
        "status": "open" | "fixed", "commit": "<sha for fixed>", "component": "..."}
An `open` entry turns violations whose key matches into KNOWN-FINDING lines; a `fixed`
entry suppresses nothing.
"""
from __future__ import annotations

import fnmatch
import json
import os

from . import common

PATH = os.path.join(common.VERIF_DIR, "known_findings.json")


def load(pid: str):
    if os.environ.get("VERIF_NO_KNOWN") == "1":
        return []
    try:
        with open(PATH) as f:
            data = json.load(f)
    except FileNotFoundError:
        return []
    return [e for e in data.get("findings", []) if e.get("property") == pid and e.get("status") == "open"]


def match(entries, key: str):
    for e in entries:
        k = e.get("key", "")
        if k == key or fnmatch.fnmatchcase(key, k):
            return e
    return None
