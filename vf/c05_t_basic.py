"""C05 templates, part 1: no-op arithmetic, dropout, casts, expand, reshape, transpose, squeeze/unsqueeze, flatten, slices."""
from __future__ import annotations

import numpy as np

from .c05_templates import S, Skip, template

KINDS = ("init", "const", "init_input", "input")


def pick_shape(h, rank, lo=1, hi=4):
    return [h.rng.randint(lo, hi) for _ in range(rank)]


# ------------------------------------------------------------------------------------------ x*1, x+0, x-0, x/1
@template("noop_arith")
def t_noop_arith(p):
    op = p["op"]
    ident = 1.0 if op in ("Mul", "Div") else 0.0
    commut = op in ("Mul", "Add")

    def mk(c, side="r", kind="init", cshape=(), dtype="float32", rank=2, sym=False, opset=18, alts=None, pool=None):
        def fn(h):
            h.opset = opset
            h.exact = True
            shp = pick_shape(h, rank)
            decl = (["N"] + shp[1:]) if (sym and rank) else shp
            x = h.inp(dtype, decl, rt=shp, pool=pool)
            cv = np.full(cshape, c, dtype=dtype)
            a = [np.full(cshape, v, dtype=dtype) for v in (alts or [])]
            cn = h.operand(cv, kind, alts=a)
            y = h.node(op, [x, cn] if side == "r" else [cn, x])
            h.out(y)
        return fn

    other = 2.0 if ident == 1.0 else 3.0
    out = [
        S("exact_r", "c=exact", mk(ident)),
        S("exact_const_node", "c=exact", mk(ident, kind="const")),
        S("exact_rank0", "c=exact", mk(ident, rank=0)),
        S("exact_rank4_sym", "c=exact", mk(ident, rank=4, sym=True)),
        S("exact_int64", "c=exact", mk(ident, dtype="int64")),
        S("exact_f16", "c=exact", mk(ident, dtype="float16", opset=13)),
        S("exact_f64_opset21", "c=exact", mk(ident, dtype="float64", opset=21)),
        S("init_input", "overridable-initializer", mk(ident, kind="init_input", alts=[other, -1.5])),
        S("graph_input", "c=graph-input", mk(ident, kind="input", alts=[other, -1.5])),
        S("eps9_f32", "c~exact", mk(ident + 1e-9 if ident == 0 else ident, pool=[1e-9, 0.0, -1e-9])),
        S("eps9_f64", "c~exact", mk(ident + 1e-9, dtype="float64", pool=[1e-9, 0.0, 1.0])),
        S("eps6_f32", "c~exact", mk(ident + 1e-6, pool=[1e-6, 0.0, 1.0, 3.0])),
        S("eps6_f64", "c~exact", mk(ident + 1e-6, dtype="float64", pool=[1e-6, 0.0, 1.0, 3.0])),
        S("off_1e-3", "c=off(1e-3)", mk(ident + 1e-3)),
        S("negated", "c=-exact", mk(-ident if ident else -0.0)),
        S("cshape_1", "cshape=[1]", mk(ident, cshape=(1,), rank=0)),
        S("cshape_11", "cshape=[1,1]", mk(ident, cshape=(1, 1), rank=1)),
    ]
    out.append(S("exact_l", "c=exact", mk(ident, side="l")))
    out.append(S("eps9_l_f64", "c~exact", mk(ident + 1e-9, side="l", dtype="float64", pool=[1e-9, 0.0, 1.0])))
    return out


# ------------------------------------------------------------------------------------------ Dropout
@template("dropout")
def t_dropout(p):
    def old(ratio, opset, mask=None, dtype="float32"):
        def fn(h):
            h.opset = opset
            h.exact = True
            x = h.inp(dtype, pick_shape(h, h.rng.randint(1, 3)))
            if mask is None:
                y = h.node("Dropout", [x], ratio=ratio)
                h.out(y)
            else:
                y, mk_ = h.node("Dropout", [x], nout=2, ratio=ratio)
                h.out(y)
                if mask == "used":
                    h.out(mk_)
        return fn

    def new(ratio, opset, training=None, attr_training=None):
        def fn(h):
            h.opset = opset
            h.exact = True
            x = h.inp("float32", pick_shape(h, 2))
            ins = [x]
            if ratio is not None:
                ins.append(h.operand(np.array(ratio, np.float32), "init"))
            if training is not None:
                if ratio is None:
                    ins.append("")
                ins.append(h.operand(np.array(training, np.bool_), "init"))
            y = h.node("Dropout", ins, training_mode=attr_training)
            h.out(y)
        return fn

    return [
        S("attr_ratio0_opset7", "ratio=0", old(0.0, 7)),
        S("attr_ratio0_opset10", "ratio=0", old(0.0, 10)),
        S("attr_ratio0_opset11_f64", "ratio=0", old(0.0, 11, dtype="float64")),
        S("attr_ratio0_mask_unused", "ratio=0;mask", old(0.0, 10, mask="unused")),
        S("attr_ratio0_mask_used", "ratio=0;mask-used", old(0.0, 10, mask="used")),
        S("attr_ratio_eps", "ratio~0", old(1e-9, 10)),
        S("attr_ratio_half", "ratio=0.5", old(0.5, 10)),
        S("attr_ratio_absent", "ratio-absent", old(None, 10)),
        S("input_ratio0_opset13", "ratio-input", new(0.0, 13)),
        S("input_training_false", "training-input", new(None, 13, training=False)),
        S("plain_opset13", "plain", new(None, 13)),
        S("attr_training_mode_opset13", "training_mode-attr", new(None, 13, attr_training=0)),
        S("attr_training_mode_opset22", "training_mode-attr", new(None, 22, attr_training=0)),
    ]


# ------------------------------------------------------------------------------------------ Cast
from onnx import TensorProto as TP  # noqa: E402

_NP_OF = {TP.FLOAT: "float32", TP.DOUBLE: "float64", TP.FLOAT16: "float16", TP.INT32: "int32", TP.INT64: "int64",
          TP.UINT8: "uint8", TP.BOOL: "bool", TP.INT8: "int8", TP.STRING: "str", TP.INT16: "int16", TP.UINT16: "uint16",
          TP.UINT32: "uint32", TP.UINT64: "uint64"}


@template("cast_identity")
def t_cast_identity(p):
    def mk(src, to, rank=2, opset=18, saturate=None, sym=False):
        def fn(h):
            h.opset = opset
            h.exact = True
            shp = pick_shape(h, rank)
            x = h.inp(_NP_OF[src], (["N"] + shp[1:]) if sym and rank else shp, rt=shp)
            y = h.node("Cast", [x], to=to, saturate=saturate)
            h.out(y)
        return fn

    out = []
    for t in (TP.FLOAT, TP.DOUBLE, TP.FLOAT16, TP.INT32, TP.INT64, TP.UINT8, TP.BOOL, TP.STRING):
        out.append(S(f"same_{_NP_OF[t]}", "same-type", mk(t, t)))
    out += [
        S("same_rank0", "same-type", mk(TP.FLOAT, TP.FLOAT, rank=0)),
        S("same_sym_opset13", "same-type", mk(TP.INT64, TP.INT64, rank=3, opset=13, sym=True)),
        S("same_saturate_opset21", "same-type;saturate", mk(TP.FLOAT, TP.FLOAT, opset=21, saturate=0)),
        S("diff_f32_f64", "different-type", mk(TP.FLOAT, TP.DOUBLE)),
        S("diff_f32_i32", "different-type", mk(TP.FLOAT, TP.INT32, rank=1)),
        S("diff_i64_i32", "different-type", mk(TP.INT64, TP.INT32)),
        S("diff_bool_f32", "different-type", mk(TP.BOOL, TP.FLOAT)),
    ]
    return out


@template("cast_cast")
def t_cast_cast(p):
    def mk(src, mid, to, rank=2, opset=18, tap=None, pool=None, post=None):
        def fn(h):
            h.opset = opset
            shp = pick_shape(h, rank)
            gen = None
            if src == TP.STRING:
                words = ["1.5", "-2", "0.001", "65504", "3e-5", "7", "1e10", "-0.25"]
                r = h.rng.random()
                gen = (lambda k: np.array([words[(i + k) % len(words)] for i in range(int(np.prod(shp)))], dtype=object).reshape(shp))
            x = h.inp(_NP_OF[src], shp, pool=pool, gen=gen)
            a = h.node("Cast", [x], to=mid)
            b = h.node("Cast", [a], to=to)
            h.out(h.node("Cast", [b], to=post) if post else b)
            if tap:
                h.tap(a, tap)
        return fn

    halfway = [1.0 + 2.0**-11 + 2.0**-30, 2049.0, 1.00048828125, 65519.99, 1e-8, 6.1e-5]
    out = [
        S("f32_f32_f16", "T2=FLOAT;T3=FLOAT16", mk(TP.FLOAT, TP.FLOAT, TP.FLOAT16)),
        S("f64_f32_f16", "T1=DOUBLE;T2=FLOAT;T3=FLOAT16", mk(TP.DOUBLE, TP.FLOAT, TP.FLOAT16, pool=halfway)),
        S("i64_f32_f16", "T1=INT64;T2=FLOAT;T3=FLOAT16", mk(TP.INT64, TP.FLOAT, TP.FLOAT16, pool=[2049, 4099, 16777217, 65520, -2049])),
        S("i32_f32_f16", "T1=INT32;T2=FLOAT;T3=FLOAT16", mk(TP.INT32, TP.FLOAT, TP.FLOAT16, rank=1)),
        S("u8_f32_f16", "T1=UINT8;T2=FLOAT;T3=FLOAT16", mk(TP.UINT8, TP.FLOAT, TP.FLOAT16)),
        S("bool_f32_f16", "T1=BOOL;T2=FLOAT;T3=FLOAT16", mk(TP.BOOL, TP.FLOAT, TP.FLOAT16)),
        S("str_f32_f16", "T1=STRING;T2=FLOAT;T3=FLOAT16", mk(TP.STRING, TP.FLOAT, TP.FLOAT16, rank=1)),
        S("f16_f32_f16", "T1=FLOAT16;T2=FLOAT;T3=FLOAT16", mk(TP.FLOAT16, TP.FLOAT, TP.FLOAT16, opset=13)),
        S("f32_f32_bf16", "T2=FLOAT;T3=BFLOAT16", mk(TP.FLOAT, TP.FLOAT, TP.BFLOAT16, opset=21, post=TP.FLOAT)),
        S("f64_f32_bf16", "T1=DOUBLE;T2=FLOAT;T3=BFLOAT16", mk(TP.DOUBLE, TP.FLOAT, TP.BFLOAT16, post=TP.FLOAT)),
        S("mid_extra_output", "intermediate-is-output", mk(TP.DOUBLE, TP.FLOAT, TP.FLOAT16, tap="output")),
        S("mid_extra_consumer", "intermediate-has-consumer", mk(TP.DOUBLE, TP.FLOAT, TP.FLOAT16, tap="consumer")),
        S("f32_f16_f32", "T2=FLOAT16;T3=FLOAT", mk(TP.FLOAT, TP.FLOAT16, TP.FLOAT)),
        S("f32_i32_f32", "T2=INT32;T3=FLOAT", mk(TP.FLOAT, TP.INT32, TP.FLOAT, pool=[2.5, -2.5])),
        S("f32_f64_f16", "T2=DOUBLE;T3=FLOAT16", mk(TP.FLOAT, TP.DOUBLE, TP.FLOAT16)),
        S("i64_f32_i64", "T2=FLOAT;T3=INT64", mk(TP.INT64, TP.FLOAT, TP.INT64)),
    ]
    # the integer family, enumerated: T1 -> T2 -> T3 with T2 of other signedness and/or width.  integer -> integer casts wrap
    # modulo 2^n (numpy, ORT and onnx.reference agree), so dropping the middle cast is only right when T2 keeps every value
    # of T1 *or* T3 discards what T2 discarded
    bits = {TP.INT8: 8, TP.UINT8: 8, TP.INT16: 16, TP.UINT16: 16, TP.INT32: 32, TP.UINT32: 32, TP.INT64: 64, TP.UINT64: 64}
    signed = {TP.INT8, TP.INT16, TP.INT32, TP.INT64}
    for t1 in (TP.INT8, TP.INT16, TP.INT32, TP.UINT8):
        for t2 in (TP.UINT8, TP.UINT16, TP.UINT32, TP.UINT64, TP.INT8, TP.INT16, TP.INT64):
            if t1 == t2:
                continue
            rel = "w" if bits[t2] > bits[t1] else ("n" if bits[t2] < bits[t1] else "e")
            cls = f"int:{'s' if t1 in signed else 'u'}>{'s' if t2 in signed else 'u'}{rel}"
            pool = [-1, -100, 5, 127, -128, 0, 100] if t1 in signed else [0, 1, 200, 255, 127, 128]
            for t3 in (TP.INT64, TP.FLOAT):
                out.append(S(f"int_{_NP_OF[t1]}_{_NP_OF[t2]}_{_NP_OF[t3]}", cls, mk(t1, t2, t3, rank=1, pool=pool)))
    # integer -> float -> float: the middle cast rounds every value beyond the float's significand (2^24 / 2^53 / 2^11), so it
    # is only removable when the float type holds every value of the integer type
    sig = {TP.FLOAT: 24, TP.DOUBLE: 53, TP.FLOAT16: 11}
    big = {TP.INT16: [2049, 4099, -2049, 32767, 5], TP.INT32: [16777217, -16777217, 33554435, 2147483647, 5],
           TP.UINT32: [16777217, 4294967295, 33554435, 7], TP.INT64: [2**53 + 1, -(2**53 + 1), 16777217, 2**60 + 2**36 + 1, 3],
           TP.UINT64: [2**53 + 1, 16777217, 2**62 + 2**11 + 1, 3]}
    for t1, vals in big.items():
        for t2 in (TP.FLOAT, TP.DOUBLE, TP.FLOAT16):
            if t2 == TP.FLOAT16 and t1 != TP.INT16:
                continue        # out of float16 range
            exact = bits[t1] - (1 if t1 in signed else 0) <= sig[t2]
            for t3 in (TP.DOUBLE, TP.FLOAT):
                if t3 == t2:
                    continue
                out.append(S(f"intfloat_{_NP_OF[t1]}_{_NP_OF[t2]}_{_NP_OF[t3]}", f"int>float:{'exact' if exact else 'rounds'}",
                             mk(t1, t2, t3, rank=1, pool=vals)))
    return out


# ------------------------------------------------------------------------------------------ Expand -> Identity
@template("expand_identity")
def t_expand_identity(p):
    def mk(xshape, eshape, kind="init", dtype="float32", decl=None, opset=18, alts=None, pool=None):
        def fn(h):
            h.opset = opset
            h.exact = True
            x = h.inp(dtype, None if decl == "none" else (decl if decl is not None else list(xshape)), rt=list(xshape), pool=pool)
            s = h.operand(np.array(eshape, np.int64), kind, alts=[np.array(a, np.int64) for a in (alts or [])])
            h.out(h.node("Expand", [x, s]))
        return fn

    return [
        S("same_2d", "shape==x.shape", mk([3, 4], [3, 4])),
        S("same_1d_const", "shape==x.shape", mk([5], [5], kind="const")),
        S("same_4d_i64", "shape==x.shape", mk([2, 1, 3, 2], [2, 1, 3, 2], dtype="int64", opset=13)),
        S("same_bool", "shape==x.shape", mk([2, 3], [2, 3], dtype="bool")),
        S("same_f16_opset21", "shape==x.shape", mk([2, 3], [2, 3], dtype="float16", opset=21)),
        S("same_rank0", "shape==x.shape;rank0", mk([], [])),
        S("same_string", "shape==x.shape", mk([2, 2], [2, 2], dtype="str")),
        S("ones_in_shape", "shape has 1 where x has n", mk([3, 4], [1, 4])),
        S("lower_rank_shape", "shape rank < x rank", mk([3, 4], [4])),
        S("higher_rank_shape", "shape rank > x rank", mk([3, 4], [1, 3, 4])),
        S("real_expand", "real expansion", mk([1, 4], [3, 4])),
        S("symbolic_x", "x symbolic", mk([3, 4], [3, 4], decl=["N", 4])),
        S("unknown_x_shape", "x shape unknown", mk([3, 4], [3, 4], decl="none")),
        S("init_input", "overridable-initializer", mk([1, 4], [1, 4], kind="init_input", alts=[[3, 4], [2, 4]])),
        S("graph_input", "shape=graph-input", mk([1, 4], [1, 4], kind="input", alts=[[3, 4]])),
    ]


# ------------------------------------------------------------------------------------------ Reshape(Reshape(x))
@template("reshape_reshape")
def t_reshape_reshape(p):
    def mk(xs, s1, s2, k1="init", k2="init", az1=None, az2=None, dtype="float32", decl=None, opset=18, tap=None,
           alts2=None, clash=False):
        def fn(h):
            h.opset = opset
            h.exact = True
            x = h.inp(dtype, decl if decl is not None else list(xs), rt=list(xs))
            a = h.operand(np.array(s1, np.int64), k1, name="s1")
            b = h.operand(np.array(s2, np.int64), k2, name="s2", alts=[np.array(v, np.int64) for v in (alts2 or [])])
            r1 = h.node("Reshape", [x, a], allowzero=az1)
            if clash:
                # an unrelated branch that owns an initializer named like the one the rule will create
                r2 = h.node("Reshape", [r1, b], outs=["rr_out"], allowzero=az2)
                other = h.inp(dtype, [int(np.prod(xs))], name="y")
                from onnx import numpy_helper
                h.inits.append(numpy_helper.from_array(np.array([1, -1], np.int64), "rr_out/shape"))
                h.out(r2)
                h.out(h.node("Reshape", [other, "rr_out/shape"]))
            else:
                r2 = h.node("Reshape", [r1, b], allowzero=az2)
                h.out(r2)
            if tap:
                h.tap(r1, tap)
        return fn

    return [
        S("static_pos", "s2>0", mk([2, 3, 4], [6, 4], [4, 6])),
        S("static_pos_const_nodes", "s2>0", mk([2, 3, 4], [6, 4], [3, 8], k1="const", k2="const")),
        S("s2_minus1", "s2 has -1", mk([2, 3, 4], [6, 4], [-1, 2])),
        S("s2_one_zero", "s2 has one 0", mk([2, 3, 4], [6, 4], [0, 2, 2])),
        S("s2_zero_copies_changed_dim", "s2 has one 0", mk([2, 3, 4], [4, 6], [0, 2, 3])),
        S("s2_zero_and_minus1", "s2 has 0 and -1", mk([2, 3, 4], [6, 4], [0, -1])),
        S("s2_two_zeros", "s2 has two 0", mk([2, 3, 4], [2, 3, 4], [0, 0, 4])),
        S("s2_zero_allowzero", "s2 has 0;allowzero=1", mk([0, 4], [4, 0], [0, 2, 2], az1=1, az2=1)),
        S("allowzero1_no_zero", "allowzero=1", mk([2, 3, 4], [6, 4], [4, 6], az2=1)),
        S("s1_graph_input", "s1=graph-input", mk([2, 3, 4], [6, 4], [4, 6], k1="input")),
        S("s2_init_input", "overridable-initializer", mk([2, 3, 4], [6, 4], [4, 6], k2="init_input", alts2=[[6, 4], [2, 12]])),
        S("s2_graph_input", "s2=graph-input", mk([2, 3, 4], [6, 4], [4, 6], k2="input", alts2=[[6, 4]])),
        S("symbolic_x_minus1", "x symbolic;s2 has -1", mk([2, 3, 4], [-1, 4], [-1, 2], decl=["N", 3, 4])),
        S("symbolic_x_zero", "x symbolic;s2 has one 0", mk([2, 3, 4], [-1, 12], [0, 3, 4], decl=["N", 3, 4])),
        S("opset13_i64", "s2>0", mk([2, 6], [3, 4], [12], dtype="int64", opset=13)),
        S("opset21_bool", "s2>0", mk([2, 6], [3, 4], [1, 12], dtype="bool", opset=21)),
        S("mid_is_output", "intermediate-is-output", mk([2, 3, 4], [6, 4], [4, 6], tap="output")),
        S("mid_has_consumer", "intermediate-has-consumer", mk([2, 3, 4], [6, 4], [4, 6], tap="consumer")),
        S("initializer_name_clash", "new-initializer-name-exists", mk([2, 3, 4], [6, 4], [4, 6], clash=True), forms=("inferred", "bare")),
    ]


# ------------------------------------------------------------------------------------------ Slice,Slice -> Split
@template("slice_split")
def t_slice_split(p):
    def mk(shape, opset=18, axis=-1, dtype="float32", kind="init", decl=None, swap=True, e1=None, b1=None, steps=False,
           tind="int64"):
        def fn(h):
            h.opset = opset
            h.exact = True
            L = shape[-1]
            half = L // 2 if b1 is None else b1
            ax = axis if axis < 0 else len(shape) - 1
            x = h.inp(dtype, decl if decl is not None else list(shape), rt=list(shape))
            def c(v):
                return h.operand(np.array([v], tind), kind)
            ins0 = [x, c(0), c(half), c(ax)]
            ins1 = [x, c(half), c(L if e1 is None else e1), c(ax)]
            if steps:
                ins0.append(c(1))
                ins1.append(c(1))
            if swap:
                s1 = h.node("Slice", ins1)
                s0 = h.node("Slice", ins0)
            else:
                s0 = h.node("Slice", ins0)
                s1 = h.node("Slice", ins1)
            h.out(s0, s1)
        return fn

    return [
        S("even_opset18", "L even;opset>=18", mk([2, 6])),
        S("even_opset21_rank4", "L even;opset>=18", mk([2, 1, 3, 4], opset=21, axis=3)),
        S("even_rank1_const", "L even;opset>=18", mk([8], kind="const")),
        S("even_int32_indices", "L even;opset>=18", mk([3, 4], tind="int32")),
        S("even_i64_data_opset19", "L even;opset>=18", mk([3, 4], dtype="int64", opset=19)),
        S("even_sym_leading", "L even;opset>=18", mk([3, 4], decl=["N", 4])),
        S("even_natural_order", "L even;opset>=18", mk([2, 6], swap=False)),
        S("odd_opset18", "L odd", mk([2, 5])),
        S("odd_L3_rank3", "L odd", mk([2, 2, 3], opset=20)),
        S("L1", "L=1", mk([3, 1])),
        S("even_opset13", "opset<18", mk([2, 6], opset=13)),
        S("even_opset17", "opset<18", mk([2, 6], opset=17)),
        S("odd_opset13", "opset<18", mk([2, 5], opset=13)),
        S("end_intmax", "e1=INT64_MAX", mk([2, 6], e1=2**63 - 1)),
        S("not_half", "b1!=L//2", mk([2, 6], b1=2)),
        S("with_steps", "steps given", mk([2, 6], steps=True)),
        S("graph_input_bounds", "bounds=graph-input", mk([2, 6], kind="input")),
        S("init_input_bounds", "overridable-initializer", mk([2, 6], kind="init_input")),
        S("sym_last", "L symbolic", mk([2, 6], decl=[2, "L"])),
    ]


# ------------------------------------------------------------------------------------------ Transpose
def _perm(h, rank):
    pm = list(range(rank))
    h.rng.shuffle(pm)
    return pm


@template("transpose_identity")
def t_transpose_identity(p):
    def mk(rank, perm="id", dtype="float32", opset=18, sym=False):
        def fn(h):
            h.opset = opset
            h.exact = True
            shp = pick_shape(h, rank, 1, 4)
            x = h.inp(dtype, (["N"] + shp[1:]) if sym and rank else shp, rt=shp)
            pm = list(range(rank)) if perm == "id" else (None if perm is None else list(reversed(range(rank))) if perm == "rev" else perm)
            h.out(h.node("Transpose", [x], perm=pm))
        return fn

    return [S(f"identity_rank{r}", "perm=identity", mk(r)) for r in (1, 2, 3, 4)] + [
        S("identity_i64_opset13", "perm=identity", mk(3, dtype="int64", opset=13)),
        S("identity_bool_opset21", "perm=identity", mk(2, dtype="bool", opset=21)),
        S("identity_string", "perm=identity", mk(2, dtype="str")),
        S("identity_sym", "perm=identity", mk(3, sym=True)),
        S("no_perm_rank1", "perm absent", mk(1, perm=None)),
        S("no_perm_rank2", "perm absent", mk(2, perm=None)),
        S("reverse_rank3", "perm!=identity", mk(3, perm="rev")),
        S("swap_last", "perm!=identity", mk(3, perm=[0, 2, 1])),
    ]


@template("transpose_transpose")
def t_transpose_transpose(p):
    def mk(rank, mode="random", dtype="float32", opset=18, tap=None, sym=False, p1=None, p2=None):
        def fn(h):
            h.opset = opset
            h.exact = True
            shp = [h.rng.randint(1, 3) + i for i in range(rank)]
            x = h.inp(dtype, (["N"] + shp[1:]) if sym else shp, rt=shp)
            a = _perm(h, rank) if p1 is None else p1
            if mode == "inverse":
                b = [a.index(i) for i in range(rank)]
            elif mode == "no_perm1":
                a, b = None, _perm(h, rank)
            elif mode == "no_perm2":
                b = None
            else:
                b = _perm(h, rank) if p2 is None else p2
            t1 = h.node("Transpose", [x], perm=a)
            t2 = h.node("Transpose", [t1], perm=b)
            h.out(t2)
            if tap:
                h.tap(t1, tap)
        return fn

    return [
        S("random_rank2", "perms random", mk(2)), S("random_rank3", "perms random", mk(3)),
        S("random_rank4", "perms random", mk(4)), S("random_rank4_i64", "perms random", mk(4, dtype="int64", opset=13)),
        S("random_rank3_sym", "perms random", mk(3, sym=True, opset=21)),
        S("fixed_rank3_cyc", "perms cyclic", mk(3, p1=[1, 2, 0], p2=[1, 2, 0])),
        S("fixed_rank4_a", "perms fixed", mk(4, p1=[2, 0, 3, 1], p2=[3, 1, 0, 2])),
        S("fixed_rank4_b", "perms fixed", mk(4, p1=[1, 3, 0, 2], p2=[0, 2, 1, 3])),
        S("inverse_rank3", "perms inverse", mk(3, mode="inverse", p1=[2, 0, 1])),
        S("inverse_rank4", "perms inverse", mk(4, mode="inverse")),
        S("inverse_string", "perms inverse", mk(2, mode="inverse", dtype="str", p1=[1, 0])),
        S("first_without_perm", "perm absent", mk(3, mode="no_perm1")),
        S("second_without_perm", "perm absent", mk(3, mode="no_perm2")),
        S("mid_is_output", "intermediate-is-output", mk(3, tap="output")),
        S("mid_has_consumer", "intermediate-has-consumer", mk(3, tap="consumer")),
    ]


# ------------------------------------------------------------------------------------------ Unsqueeze(Unsqueeze)
@template("unsqueeze_unsqueeze")
def t_unsqueeze_unsqueeze(p):
    def mk(rank, a1, a2, kind="init", dtype="float32", opset=18, tap=None, sym=False, alts=None):
        def fn(h):
            h.opset = opset
            h.exact = True
            shp = [2 + i for i in range(rank)]
            x = h.inp(dtype, (["N"] + shp[1:]) if sym and rank else shp, rt=shp)
            c1 = h.operand(np.array(a1, np.int64), kind)
            c2 = h.operand(np.array(a2, np.int64), kind, alts=[np.array(v, np.int64) for v in (alts or [])])
            u1 = h.node("Unsqueeze", [x, c1])
            u2 = h.node("Unsqueeze", [u1, c2])
            h.out(u2)
            if tap:
                h.tap(u1, tap)
        return fn

    out = []
    for (a1, a2) in [(0, 0), (0, 1), (0, 2), (0, 3), (1, 0), (1, 1), (1, 2), (1, 3), (2, 0), (2, 1), (2, 2), (2, 3)]:
        out.append(S(f"r2_a{a1}_{a2}", "axes single non-negative", mk(2, [a1], [a2])))
    out += [
        S("r0_0_0", "axes single non-negative", mk(0, [0], [0])),
        S("r0_0_1", "axes single non-negative", mk(0, [0], [1])),
        S("r3_const_3_1", "axes single non-negative", mk(3, [3], [1], kind="const", opset=13)),
        S("r3_sym_i64_1_4", "axes single non-negative", mk(3, [1], [4], dtype="int64", sym=True, opset=21)),
        S("neg_first", "axes negative", mk(2, [-1], [0])),
        S("neg_second", "axes negative", mk(2, [0], [-1])),
        S("multi_axes", "axes multi", mk(2, [0, 1], [2])),
        S("init_input", "overridable-initializer", mk(2, [0], [1], kind="init_input", alts=[[3], [0]])),
        S("graph_input", "axes=graph-input", mk(2, [0], [1], kind="input", alts=[[3]])),
        S("mid_is_output", "intermediate-is-output", mk(2, [0], [1], tap="output")),
        S("mid_has_consumer", "intermediate-has-consumer", mk(2, [0], [1], tap="consumer")),
    ]
    import itertools
    seen = set()
    for a1 in ([0], [1], [2], [3], [0, 2], [2, 0], [1, 3]):
        r1 = 3 + len(a1)
        for k2 in (2, 3):
            for a2 in itertools.permutations(range(r1 + k2), k2):
                # keep the grid small and pointed: axes2 that straddle an axis of the first Unsqueeze, in every order
                if not (min(a2) <= max(a1) <= max(a2)) or len(seen) >= 160:
                    continue
                if sum(a2) % 3 and tuple(sorted(a2)) != a2 and len(a1) > 1:
                    continue
                key = (tuple(a1), a2)
                if key in seen:
                    continue
                seen.add(key)
                srt = "sorted" if list(a2) == sorted(a2) else "unsorted"
                out.append(S(f"multi_{'_'.join(map(str, a1))}__{'_'.join(map(str, a2))}", f"axes multi;second {srt}", mk(3, list(a1), list(a2))))
    return out


# ------------------------------------------------------------------------------------------ Reshape(Squeeze(x), [-1])
@template("squeeze_reshape")
def t_squeeze_reshape(p):
    def mk(shape, decl=None, target=(-1,), kind="init", dtype="float32", opset=18, axes=None, tap=None, alts=None):
        def fn(h):
            h.opset = opset
            h.exact = True
            x = h.inp(dtype, decl if decl is not None else list(shape), rt=list(shape))
            ins = [x]
            if axes is not None:
                ins.append(h.operand(np.array(axes, np.int64), "init"))
            sq = h.node("Squeeze", ins)
            t = h.operand(np.array(target, np.int64), kind, alts=[np.array(v, np.int64) for v in (alts or [])])
            h.out(h.node("Reshape", [sq, t]))
            if tap:
                h.tap(sq, tap)
        return fn

    return [
        S("x1d_n5", "x rank1", mk([5])), S("x1d_n1", "x rank1;size1", mk([1])),
        S("x1d_sym_n3", "x rank1;symbolic", mk([3], decl=["N"])),
        S("x1d_sym_n1", "x rank1;symbolic;size1", mk([1], decl=["N"])),
        S("x1d_i64_const_opset13", "x rank1", mk([4], dtype="int64", kind="const", opset=13)),
        S("x1d_bool_opset21", "x rank1", mk([1], dtype="bool", opset=21)),
        S("x2d", "x rank2", mk([1, 4])), S("x0d", "x rank0", mk([])),
        S("x_unknown_rank", "x rank unknown", mk([5], decl="none")),
        S("with_axes", "squeeze axes given", mk([1], axes=[0])),
        S("target_5", "target!=[-1]", mk([5], target=(5,))),
        S("target_2d", "target!=[-1]", mk([4], target=(2, -1))),
        S("init_input", "overridable-initializer", mk([6], kind="init_input")),
        S("graph_input", "target=graph-input", mk([6], kind="input")),
        S("mid_is_output", "intermediate-is-output", mk([1], tap="output")),
        S("mid_has_consumer", "intermediate-has-consumer", mk([1], tap="consumer")),
    ]


# ------------------------------------------------------------------------------------------ Flatten -> Reshape
@template("flatten")
def t_flatten(p):
    def mk(shape, axis=None, decl=None, dtype="float32", opset=18, clash=False):
        def fn(h):
            h.opset = opset
            h.exact = True
            x = h.inp(dtype, None if decl == "none" else (decl if decl is not None else list(shape)), rt=list(shape), name="fx")
            y = h.node("Flatten", [x], axis=axis)
            h.out(y)
            if clash:
                from onnx import numpy_helper
                nm = x + "/shape"
                h.inits.append(numpy_helper.from_array(np.array([-1, 1], np.int64), nm))
                other = h.inp(dtype, [4], name="y")
                h.out(h.node("Reshape", [other, nm]))
        return fn

    out = []
    for ax in (0, 1, 2, 3, -1, -2, -3):
        out.append(S(f"static_r3_axis{ax}", "static", mk([2, 3, 4], axis=ax)))
    out += [
        S("static_r3_default", "static;axis default", mk([2, 3, 4])),
        S("static_r1_axis0", "static", mk([5], axis=0)), S("static_r1_axis1", "static", mk([5], axis=1)),
        S("static_r0", "static;rank0", mk([], axis=0)),
        S("static_r4_axis2_i64_opset13", "static", mk([2, 1, 3, 2], axis=2, dtype="int64", opset=13)),
        S("static_r2_bool_opset21", "static", mk([2, 3], axis=1, dtype="bool", opset=21)),
        S("sym_batch_axis1", "symbolic dim0", mk([2, 3, 4], axis=1, decl=["N", 3, 4])),
        S("sym_batch_axis0", "symbolic dim0", mk([2, 3, 4], axis=0, decl=["N", 3, 4])),
        S("sym_batch_axis2", "symbolic dim0", mk([2, 3, 4], axis=2, decl=["N", 3, 4])),
        S("sym_batch_axis3", "symbolic dim0", mk([2, 3, 4], axis=3, decl=["N", 3, 4])),
        S("sym_batch_axis-1", "symbolic dim0", mk([2, 3, 4], axis=-1, decl=["N", 3, 4])),
        S("sym_two_axis2", "two symbolic dims", mk([2, 3, 4], axis=2, decl=["N", 3, "M"])),
        S("sym_two_axis1", "two symbolic dims", mk([2, 3, 4], axis=1, decl=["N", 3, "M"])),
        S("sym_all_axis1", "all symbolic", mk([2, 3, 4], axis=1, decl=["A", "B", "C"])),
        S("unknown_rank_axis1", "rank unknown", mk([2, 3, 4], axis=1, decl="none")),
        S("unknown_rank_axis0", "rank unknown", mk([2, 3, 4], axis=0, decl="none")),
        S("unknown_rank_axis-1", "rank unknown", mk([2, 3, 4], axis=-1, decl="none")),
        S("unknown_rank_axis2", "rank unknown", mk([2, 3, 4], axis=2, decl="none")),
        S("initializer_name_clash", "new-initializer-name-exists", mk([2, 3], axis=1, clash=True), forms=("inferred", "bare")),
    ]
    return out


# ------------------------------------------------------------------------------------------ redundant Slice
INT64_MAX = 2**63 - 1
INT64_MIN = -(2**63)


@template("collapse_slice")
def t_collapse_slice(p):
    def mk(shape, starts, ends, axes, steps, decl=None, kind="init", dtype="float32", opset=18, tind="int64", scalar=False,
           alts_end=None):
        def fn(h):
            h.opset = opset
            h.exact = True
            x = h.inp(dtype, None if decl == "none" else (decl if decl is not None else list(shape)), rt=list(shape))
            def c(v, alts=None):
                arr = np.array(v, tind)
                return h.operand(arr, kind, alts=[np.array(a, tind) for a in (alts or [])])
            ins = [x, c(starts), c(ends, alts_end), c(axes), c(steps)]
            h.out(h.node("Slice", ins))
        return fn

    return [
        S("full_end_eq_dim", "start=0;end>=dim;step=1", mk([3, 4], [0], [4], [1], [1])),
        S("full_end_gt_dim", "start=0;end>=dim;step=1", mk([3, 4], [0], [100], [0], [1])),
        S("full_end_intmax", "start=0;end=INT64_MAX;step=1", mk([3, 4], [0], [INT64_MAX], [1], [1])),
        S("full_neg_axis", "start=0;end>=dim;step=1", mk([3, 4, 2], [0], [4], [-2], [1])),
        S("full_intmax_neg_axis_const", "start=0;end=INT64_MAX;step=1", mk([3, 4, 2], [0], [INT64_MAX], [-1], [1], kind="const", opset=13)),
        S("full_int32_idx", "start=0;end>=dim;step=1", mk([3, 4], [0], [4], [1], [1], tind="int32")),
        S("full_i64_data_rank1_opset21", "start=0;end>=dim;step=1", mk([5], [0], [5], [0], [1], dtype="int64", opset=21)),
        S("full_rank4_bool", "start=0;end>=dim;step=1", mk([2, 1, 3, 2], [0], [3], [2], [1], dtype="bool")),
        S("full_multi_axis", "two axes full", mk([3, 4], [0, 0], [3, 4], [0, 1], [1, 1])),
        S("full_multi_axis_intmax", "two axes full", mk([3, 4], [0, 0], [INT64_MAX, INT64_MAX], [0, 1], [1, 1])),
        S("sym_axis_intmax", "sliced dim symbolic;end=INT64_MAX", mk([3, 4], [0], [INT64_MAX], [0], [1], decl=["N", 4])),
        S("sym_axis_end_big", "sliced dim symbolic;end finite", mk([3, 4], [0], [100], [0], [1], decl=["N", 4])),
        S("sym_other_axis", "other dim symbolic", mk([3, 4], [0], [4], [1], [1], decl=["N", 4])),
        S("unknown_shape_intmax", "x shape unknown;end=INT64_MAX", mk([3, 4], [0], [INT64_MAX], [0], [1], decl="none")),
        S("anon_axis_real_slice", "sliced dim anonymous;start=1;end<dim", mk([5, 4], [1], [3], [0], [1], decl=[None, 4])),
        S("anon_axis_tail", "sliced dim anonymous;start=1;end=INT64_MAX", mk([5, 4], [1], [INT64_MAX], [0], [1], decl=[None, 4])),
        S("anon_two_axes_real_slice", "all dims anonymous;start=1", mk([5, 4], [1], [3], [1], [1], decl=[None, None])),
        S("end_short", "end<dim", mk([3, 4], [0], [3], [1], [1])),
        S("end_neg1", "end=-1", mk([3, 4], [0], [-1], [1], [1])),
        S("start_1", "start=1", mk([3, 4], [1], [4], [1], [1])),
        S("start_neg_dim", "start=-dim", mk([3, 4], [-4], [4], [1], [1])),
        S("step_2", "step=2", mk([3, 4], [0], [4], [1], [2])),
        S("step_2_dim1", "step=2;dim=1", mk([3, 1], [0], [1], [1], [2])),
        S("reverse", "step=-1", mk([3, 4], [-1], [INT64_MIN], [1], [-1])),
        S("reverse_dim1", "step=-1;dim=1", mk([3, 1], [-1], [INT64_MIN], [1], [-1])),
        S("init_input_end", "overridable-initializer", mk([3, 4], [0], [4], [1], [1], kind="init_input", alts_end=[[2], [1]])),
        S("graph_input_all", "bounds=graph-input", mk([3, 4], [0], [4], [1], [1], kind="input", alts_end=[[2]])),
    ]


# ------------------------------------------------------------------------------------------ Cast(ConstantOfShape)
@template("cast_cos")
def t_cast_cos(p):
    with_value = p["value"]

    def mk(vdtype, value, to, shape_kind="input", opset=18, tap=None, post=None, shp=(2, 3)):
        def fn(h):
            from onnx import numpy_helper
            h.opset = opset
            if shape_kind == "input":
                s = h.inp("int64", [len(shp)], gen=lambda k: np.array(shp, np.int64) + (k % 2), name="shape")
            else:
                s = h.operand(np.array(shp, np.int64), shape_kind, name="shape")
            val = numpy_helper.from_array(np.array([value], dtype=vdtype), "v") if with_value else None
            c = h.node("ConstantOfShape", [s], value=val)
            y = h.node("Cast", [c], to=to)
            h.out(h.node("Cast", [y], to=post) if post else y)
            if tap:
                h.tap(c, tap)
        return fn

    if not with_value:
        out = [S(f"default_to_{n}", f"to={n}", mk("float32", 0, t)) for n, t in
               [("FLOAT16", TP.FLOAT16), ("DOUBLE", TP.DOUBLE), ("INT64", TP.INT64), ("INT32", TP.INT32), ("UINT8", TP.UINT8),
                ("BOOL", TP.BOOL), ("FLOAT", TP.FLOAT), ("INT8", TP.INT8)]]
        out += [
            S("default_to_STRING", "to=STRING", mk("float32", 0, TP.STRING)),
            S("default_to_BFLOAT16", "to=BFLOAT16", mk("float32", 0, TP.BFLOAT16, post=TP.FLOAT)),
            S("shape_init_opset13", "to=INT64", mk("float32", 0, TP.INT64, shape_kind="init", opset=13)),
            S("shape_const_opset21", "to=FLOAT16", mk("float32", 0, TP.FLOAT16, shape_kind="const", opset=21)),
            S("scalar_shape", "to=INT64;shape=[]", mk("float32", 0, TP.INT64, shape_kind="init", shp=())),
            S("mid_is_output", "intermediate-is-output", mk("float32", 0, TP.INT64, tap="output")),
            S("mid_has_consumer", "intermediate-has-consumer", mk("float32", 0, TP.INT64, tap="consumer")),
        ]
        return out
    return [
        S("f32_to_f16", "FLOAT->FLOAT16", mk("float32", 1.5, TP.FLOAT16)),
        S("f32_to_f16_inexact", "FLOAT->FLOAT16", mk("float32", 0.1, TP.FLOAT16)),
        S("f32_to_f64", "FLOAT->DOUBLE", mk("float32", 0.1, TP.DOUBLE)),
        S("f64_to_f32", "DOUBLE->FLOAT", mk("float64", 0.1, TP.FLOAT)),
        S("f64_big_to_f32", "DOUBLE->FLOAT;overflow to inf", mk("float64", 1e300, TP.FLOAT)),
        S("f32_frac_to_i32", "FLOAT->INT32;fraction", mk("float32", 2.7, TP.INT32)),
        S("f32_negfrac_to_i64", "FLOAT->INT64;fraction", mk("float32", -2.7, TP.INT64)),
        S("f32_to_bool", "FLOAT->BOOL", mk("float32", 0.5, TP.BOOL)),
        S("f32_zero_to_bool", "FLOAT->BOOL", mk("float32", 0.0, TP.BOOL)),
        S("f32_to_u8", "FLOAT->UINT8", mk("float32", 200.0, TP.UINT8)),
        S("i64_to_f32", "INT64->FLOAT", mk("int64", 16777217, TP.FLOAT)),
        S("i64_to_f64", "INT64->DOUBLE", mk("int64", 2**53 + 1, TP.DOUBLE)),
        S("i64_to_i32", "INT64->INT32", mk("int64", -5, TP.INT32)),
        S("i64_to_f16_big", "INT64->FLOAT16;overflow to inf", mk("int64", 70000, TP.FLOAT16)),
        S("i32_300_to_u8", "INT->UINT8;out of range", mk("int32", 300, TP.UINT8)),
        S("i32_neg_to_u8", "INT->UINT8;out of range", mk("int32", -1, TP.UINT8)),
        S("i64_big_to_i32", "INT64->INT32;out of range", mk("int64", 2**40 + 3, TP.INT32)),
        S("bool_to_f32", "BOOL->FLOAT", mk("bool", True, TP.FLOAT)),
        S("bool_to_i64", "BOOL->INT64", mk("bool", True, TP.INT64)),
        S("u8_to_i8", "UINT8->INT8", mk("uint8", 100, TP.INT8)),
        S("f16_to_f32", "FLOAT16->FLOAT", mk("float16", 0.1, TP.FLOAT, opset=13)),
        S("f32_to_string", "to=STRING", mk("float32", 1.5, TP.STRING)),
        S("i64_to_string", "to=STRING", mk("int64", 7, TP.STRING)),
        S("f32_to_bf16", "to=BFLOAT16", mk("float32", 0.1, TP.BFLOAT16, post=TP.FLOAT, opset=21)),
        S("shape_init", "FLOAT->INT64", mk("float32", 3.0, TP.INT64, shape_kind="init")),
        S("shape_const_scalar", "FLOAT->FLOAT16;shape=[]", mk("float32", 3.0, TP.FLOAT16, shape_kind="const", shp=())),
        S("mid_is_output", "intermediate-is-output", mk("float32", 1.5, TP.FLOAT16, tap="output")),
        S("mid_has_consumer", "intermediate-has-consumer", mk("float32", 1.5, TP.FLOAT16, tap="consumer")),
    ]


# ------------------------------------------------------------------------------------------ materialize Reshape shape
@template("materialize_reshape")
def t_materialize_reshape(p):
    def mk(mode, opset=18, decl=None, az=None, dtype="float32", xs=(2, 3, 4), declare=None):
        def fn(h):
            h.opset = opset
            h.exact = True
            xs_ = list(xs)
            x = h.inp(dtype, decl if decl is not None else xs_, rt=xs_)
            if mode == "shape_of_other":
                # target shape = Shape(y) of a second input with a static / symbolic declaration
                tgt = [xs_[0] * xs_[1], xs_[2]]
                y = h.inp(dtype, (["M", tgt[1]] if decl else tgt), rt=tgt, name="y")
                s = h.node("Shape", [y])
            elif mode == "concat_chain":
                sh = h.node("Shape", [x])
                d0 = h.node("Gather", [sh, h.operand(np.array([0], np.int64), "init")], axis=0)
                s = h.node("Concat", [d0, h.operand(np.array([-1], np.int64), "init")], axis=0)
            elif mode == "concat_chain_zero":
                # dynamic shape [0, -1]: 0 means "copy dim 0" (allowzero absent)
                sh = h.node("Shape", [x])
                d2 = h.node("Gather", [sh, h.operand(np.array([2], np.int64), "init")], axis=0)
                z = h.node("Sub", [d2, d2])
                s = h.node("Concat", [z, h.operand(np.array([-1], np.int64), "init")], axis=0)
            elif mode == "graph_input":
                s = h.inp("int64", [2], gen=lambda k: np.array([xs_[0], xs_[1] * xs_[2]], np.int64), name="s")
            elif mode == "zero_size":
                s = h.node("Shape", [h.inp(dtype, [0, xs_[2]], name="y")])
            else:
                raise ValueError(mode)
            r = h.node("Reshape", [x, s], allowzero=az)
            h.out(r, shape=declare)
        return fn

    return [
        S("shape_of_static", "output static", mk("shape_of_other")),
        S("shape_of_static_opset14", "output static", mk("shape_of_other", opset=14)),
        S("shape_of_static_opset21_i64", "output static", mk("shape_of_other", opset=21, dtype="int64")),
        S("shape_of_static_opset13", "opset<14", mk("shape_of_other", opset=13, declare=[6, 4])),
        S("concat_chain_static", "output static", mk("concat_chain")),
        S("concat_chain_opset13", "opset<14", mk("concat_chain", opset=13, declare=[2, 12])),
        S("concat_chain_sym_batch", "one symbolic dim", mk("concat_chain", decl=["N", 3, 4])),
        S("concat_chain_sym_two", "two symbolic dims", mk("concat_chain", decl=["N", 3, "M"])),
        S("shape_of_sym", "one symbolic dim", mk("shape_of_other", decl=["N", 3, 4])),
        S("concat_zero_copy", "dynamic shape has 0 (copy)", mk("concat_chain_zero")),
        S("graph_input_shape", "shape=graph-input", mk("graph_input")),
        S("graph_input_shape_declared_out", "shape=graph-input;output declared static", mk("graph_input", declare=[2, 12])),
        S("graph_input_shape_declared_sym", "shape=graph-input;output declared one symbolic", mk("graph_input", declare=["B", 12])),
        S("allowzero_attr", "allowzero=1 present", mk("shape_of_other", az=1)),
        S("zero_size_output", "output has 0 dim", mk("zero_size", xs=(0, 3, 4))),
    ]


# ------------------------------------------------------------------------------------------ ScatterND no-ops
@template("scatter_static")
def t_scatter_static(p):
    def mk(shape, idx="full", decl=None, dtype="float32", opset=18, reduction=None, kind="init", udecl=None):
        def fn(h):
            h.opset = opset
            h.exact = True
            n = shape[0]
            d = h.inp(dtype, decl if decl is not None else list(shape), rt=list(shape), name="data")
            u = h.inp(dtype, udecl if udecl is not None else (decl if decl is not None else list(shape)), rt=list(shape), name="upd")
            if idx == "full":
                iv = [[i] for i in range(n)]
            elif idx == "perm":
                iv = [[i] for i in reversed(range(n))]
            elif idx == "neg":
                iv = [[i - n] for i in range(n)]
            elif idx == "partial":
                iv = [[i] for i in range(n - 1)]
            ind = h.operand(np.array(iv, np.int64).reshape(len(iv), 1), kind, name="idx")
            if idx == "partial":
                u = h.node("Slice", [u, h.operand(np.array([0], np.int64), "init"), h.operand(np.array([n - 1], np.int64), "init")])
            h.out(h.node("ScatterND", [d, ind, u], reduction=reduction))
        return fn

    return [
        S("full_r2", "indices=0..n-1", mk([3, 4])), S("full_r1", "indices=0..n-1", mk([4])),
        S("full_r3_i64_opset13", "indices=0..n-1", mk([2, 3, 2], dtype="int64", opset=13)),
        S("full_n1_const_opset21", "indices=0..n-1", mk([1, 3], kind="const", opset=21)),
        S("full_bool_opset16", "indices=0..n-1", mk([2, 2], dtype="bool", opset=16)),
        S("full_reduction_none", "reduction=none", mk([3, 4], reduction="none")),
        S("full_reduction_add", "reduction!=none", mk([3, 4], reduction="add")),
        S("full_reduction_mul", "reduction!=none", mk([3, 4], reduction="mul")),
        S("full_reduction_max", "reduction!=none", mk([3, 4], reduction="max")),
        S("full_reduction_min_i64", "reduction!=none", mk([3, 4], reduction="min", dtype="int64")),
        S("sym_dim0", "data dim0 symbolic", mk([3, 4], decl=["N", 4])),
        S("sym_dim1", "data dim1 symbolic", mk([3, 4], decl=[3, "M"])),
        S("sym_dim0_upd_static", "data dim0 symbolic;updates static", mk([3, 4], decl=["N", 4], udecl=[3, 4])),
        S("permuted", "indices permuted", mk([3, 4], idx="perm")),
        S("negative", "indices negative", mk([3, 4], idx="neg")),
        S("partial", "indices partial", mk([3, 4], idx="partial")),
        S("idx_init_input", "overridable-initializer", mk([3, 4], kind="init_input")),
        S("idx_graph_input", "indices=graph-input", mk([3, 4], kind="input")),
    ]


@template("scatter_dynamic")
def t_scatter_dynamic(p):
    def mk(shape, axis, decl=None, dtype="float32", opset=18, start=0, gaxis=0, reduction="none", tdata="transpose",
           unsq=(-1,), rng_start=0, rng_step=1, kind="init"):
        def fn(h):
            h.opset = opset
            h.exact = True
            rank = len(shape)
            ax = axis % rank
            d = h.inp(dtype, decl if decl is not None else list(shape), rt=list(shape), name="data")
            perm = [ax] + [i for i in range(rank) if i != ax]
            tshape = [shape[i] for i in perm]
            if tdata == "transpose":
                td = h.node("Transpose", [d], perm=perm)
            elif tdata == "other_same":
                td = h.inp(dtype, tshape, name="td")
            elif tdata == "other_longer":
                tshape = [tshape[0] + 2] + tshape[1:]
                td = h.inp(dtype, tshape, name="td")
            ushape = [shape[ax] - rng_start] + tshape[1:]
            u = h.inp(dtype, ushape, name="upd")
            sh = h.node("Shape", [d], start=start)
            dim = h.node("Gather", [sh, h.operand(np.array(axis, np.int64), kind)], axis=gaxis)
            rg = h.node("Range", [h.operand(np.array(rng_start, np.int64), "init"), dim, h.operand(np.array(rng_step, np.int64), "init")])
            ix = h.node("Unsqueeze", [rg, h.operand(np.array(list(unsq), np.int64), "init")])
            h.out(h.node("ScatterND", [td, ix, u], reduction=reduction))
        return fn

    return [
        S("axis0_r2", "canonical", mk([3, 4], 0)), S("axis1_r2", "canonical", mk([3, 4], 1)),
        S("axis2_r3_i64", "canonical", mk([2, 3, 4], 2, dtype="int64", opset=16)),
        S("axis_neg1_r3", "canonical;axis negative", mk([2, 3, 4], -1, opset=21)),
        S("axis1_sym", "canonical;symbolic", mk([3, 4], 1, decl=["N", "M"])),
        S("axis0_sym_static_mix", "canonical;symbolic", mk([3, 4], 0, decl=["N", 4])),
        S("other_same_dim", "transposed_data unrelated;same dim0", mk([3, 4], 0, tdata="other_same")),
        S("other_longer_dim", "transposed_data unrelated;longer dim0", mk([3, 4], 0, tdata="other_longer")),
        S("no_start_attr", "Shape without start", mk([3, 4], 0, start=None)),
        S("reduction_absent", "reduction absent", mk([3, 4], 0, reduction=None)),
        S("reduction_add", "reduction=add", mk([3, 4], 0, reduction="add")),
        S("unsqueeze_axis1", "unsqueeze axes=[1]", mk([3, 4], 0, unsq=(1,))),
        S("range_step1_start1", "range start=1", mk([3, 4], 0, rng_start=1, tdata="other_same")),
        S("axis_init_input", "overridable-initializer", mk([3, 3], 0, kind="init_input")),
        S("axis_graph_input", "axis=graph-input", mk([3, 3], 0, kind="input")),
    ]
