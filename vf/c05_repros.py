"""C05: standalone reproductions of the known findings in /verif/kf/C05.json.

Independent of the harness: onnx text models + onnxruntime + the rule under test only.
    cd /verif && PYTHONPATH=/verif /venv/bin/python -m vf.c05_repros            # all
    cd /verif && PYTHONPATH=/verif /venv/bin/python -m vf.c05_repros relu_clip  # names containing the argument
Each entry prints the ORT result before and after RewriteRuleSet([rule]).apply_to_model, or the exception /
load error.  `infer=True` adds value_info with onnx.shape_inference first (what optimize() sees).
"""
from __future__ import annotations

import sys

import numpy as np
import onnx
import onnxruntime as ort

H18 = '<ir_version: 8, opset_import: ["" : 18]>\n'
H13 = '<ir_version: 8, opset_import: ["" : 13]>\n'
H23 = '<ir_version: 11, opset_import: ["" : 23]>\n'
f = np.float32


def _rule(path):
    import importlib

    mod, attr = path.rsplit(":", 1)
    obj = getattr(importlib.import_module(mod), attr)
    if callable(obj) and not hasattr(obj, "apply_to_model"):
        obj = obj()
    return obj


def _run(model, feeds):
    so = ort.SessionOptions()
    so.graph_optimization_level = ort.GraphOptimizationLevel.ORT_DISABLE_ALL
    so.log_severity_level = 4
    try:
        s = ort.InferenceSession(model.SerializeToString(), so, providers=["CPUExecutionProvider"])
        return [np.asarray(o) for o in s.run(None, feeds)]
    except Exception as e:
        return f"ORT: {type(e).__name__}: {str(e)[:160]}"


C = "onnxscript.rewriter.rules.common"
FU = "onnxscript.rewriter.rules.fusion"
X4 = {"x": np.array([-7, -1, 0, 25], f)}

R = [
    # name, rule, model text, feeds, infer
    ("overridable_initializer_add0", f"{C}:add_0_rule", H18 + "g (float[4] x, float c = {0}) => (float[4] y) { y = Add(x, c) }",
     {**X4, "c": np.array(5, f)}, True),
    ("initializer_name_clash_reshape", f"{C}:reshape_reshape_rule", H18 + """g (float[2,3,4] x, float[24] y) => (float[4,6] rr_out, float[1,24] z)
       <int64[2] s1 = {6,4}, int64[2] s2 = {4,6}, int64[2] "rr_out/shape" = {1,-1}>
       { t = Reshape(x, s1)  rr_out = Reshape(t, s2)  z = Reshape(y, "rr_out/shape") }""",
     {"x": np.zeros((2, 3, 4), f), "y": np.zeros(24, f)}, True),
    ("eps_matched_as_zero", f"{C}:add_0_rule", H18 + "g (float[4] x) => (float[4] y) <float c = {1e-9}> { y = Add(x, c) }", X4, True),
    ("almost_one_matched_as_one", f"{C}:mul_by_1_rule", H18 + "g (float[4] x) => (float[4] y) <float c = {1.000001}> { y = Mul(x, c) }", X4, True),
    ("hardswish_approx_constants", f"{C}:fuse_hardswish_rules", H18 + """g (float[4] x) => (float[4] y)
       <float b = {3.00015}, float lo = {0}, float hi = {6}, float d = {6}>
       { a = Add(x, b)  c = Clip(a, lo, hi)  m = Mul(c, x)  y = Div(m, d) }""", {"x": np.array([-2.5, 1, 2.9, 0.5], f)}, True),
    ("slice_split_opset13", f"{C}:slice_split_rule", H13 + """g (float[2,6] x) => (float[2,3] a, float[2,3] b)
       <int64[1] z = {0}, int64[1] h = {3}, int64[1] e = {6}, int64[1] ax = {-1}>
       { b = Slice(x, h, e, ax)  a = Slice(x, z, h, ax) }""", {"x": np.arange(12, dtype=f).reshape(2, 6)}, True),
    ("slice_split_odd", f"{C}:slice_split_rule", H18 + """g (float[2,5] x) => (float[2,2] a, float[2,3] b)
       <int64[1] z = {0}, int64[1] h = {2}, int64[1] e = {5}, int64[1] ax = {-1}>
       { b = Slice(x, h, e, ax)  a = Slice(x, z, h, ax) }""", {"x": np.arange(10, dtype=f).reshape(2, 5)}, True),
    ("slice_split_L1", f"{C}:slice_split_rule", H18 + """g (float[3,1] x) => (float[3,0] a, float[3,1] b)
       <int64[1] z = {0}, int64[1] h = {0}, int64[1] e = {1}, int64[1] ax = {-1}>
       { b = Slice(x, h, e, ax)  a = Slice(x, z, h, ax) }""", {"x": np.ones((3, 1), f)}, True),
    ("materialize_reshape_opset13", f"{C}:materialize_reshape_shape_rule", H13 + """g (float[2,3,4] x, float[6,4] y) => (float[6,4] r)
       { s = Shape(y)  r = Reshape(x, s) }""", {"x": np.zeros((2, 3, 4), f), "y": np.zeros((6, 4), f)}, False),
    ("hardswish_opset13", f"{C}:fuse_hardswish_rules", H13 + """g (float[4] x) => (float[4] y)
       <float b = {3}, float lo = {0}, float hi = {6}, float d = {6}>
       { a = Add(x, b)  c = Clip(a, lo, hi)  m = Mul(c, x)  y = Div(m, d) }""", X4, True),
    ("minmax_rank_change", f"{C}:max_min_rule", H18 + """g (float[4] x) => (float[1,4] y) <float[1,1] lo = {2}, float[1,1] hi = {8}>
       { t = Max(x, lo)  y = Min(t, hi) }""", X4, True),
    ("hardswish_rank_change", f"{C}:fuse_hardswish_rules", H18 + """g (float[4] x) => (float[1,4] y)
       <float[1,1] b = {3}, float lo = {0}, float hi = {6}, float[1,1] d = {6}>
       { a = Add(x, b)  c = Clip(a, lo, hi)  m = Mul(c, x)  y = Div(m, d) }""", X4, True),
    ("expand_leading_ones", f"{C}:expand_before_binary_op_rules", H18 + """g (float[4] x, float[4] y) => (float[1,1,4] z) <int64[3] s = {1,1,4}>
       { e = Expand(x, s)  z = Add(e, y) }""", {**X4, "y": np.ones(4, f)}, True),
    ("expand_prelu_slope", f"{C}:expand_before_binary_op_rules", H18 + """g (float[1,4] x, float[3,4] y) => (float[3,4] z) <int64[2] s = {3,4}>
       { e = Expand(x, s)  z = PRelu(e, y) }""", {"x": np.ones((1, 4), f), "y": np.ones((3, 4), f)}, True),
    ("expand_mod_fmod_dropped", f"{C}:expand_before_binary_op_rules", H18 + """g (int64[1,4] x, int64[3,4] y) => (int64[3,4] z) <int64[2] s = {3,4}>
       { e = Expand(x, s)  z = Mod <fmod = 1> (e, y) }""", {"x": np.array([[-7, 7, -5, 5]]), "y": np.full((3, 4), 3)}, True),
    ("expand_bitshift_direction_dropped", f"{C}:expand_before_binary_op_rules", H18 + """g (uint8[1,4] x, uint8[3,4] y) => (uint8[3,4] z) <int64[2] s = {3,4}>
       { e = Expand(x, s)  z = BitShift <direction = "RIGHT"> (e, y) }""", {"x": np.array([[16, 8, 4, 2]], np.uint8), "y": np.ones((3, 4), np.uint8)}, True),
    ("relu_clip_max_negative", f"{C}:successive_relu_clip_rule", H18 + """g (float[4] x) => (float[4] y) <float lo = {-5}, float hi = {-2}>
       { t = Clip(x, lo, hi)  y = Relu(t) }""", X4, True),
    ("clip_clip_disjoint", f"{C}:successive_clip_rule", H18 + """g (float[4] x) => (float[4] y) <float a = {0}, float b = {10}, float c = {20}, float d = {30}>
       { t = Clip(x, a, b)  y = Clip(t, c, d) }""", X4, True),
    ("clip_clip_no_dtype", f"{C}:successive_clip_rule", H18 + """g (float[4] x) => (float[4] y) <float a = {0}, float b = {10}, float c = {2}, float d = {8}>
       { t = Clip(x, a, b)  y = Clip(t, c, d) }""", X4, False),
    ("matmul_add_bias_rank3", f"{C}:matmul_add_to_gemm_rule", H18 + """g (float[3,4] a, float[4,5] b, float[1,3,5] c) => (float[1,3,5] y)
       { m = MatMul(a, b)  y = Add(m, c) }""", {"a": np.ones((3, 4), f), "b": np.ones((4, 5), f), "c": np.ones((1, 3, 5), f)}, True),
    ("gemm_to_matmul_transB", f"{C}:gemm_to_matmul_add_rule", H18 + """g (float[2,3,4] a, float[4,4] b, float[4] c) => (float[2,3,4] y)
       <int64[2] sa = {6,4}, int64[3] sc = {2,3,4}>
       { r = Reshape(a, sa)  g1 = Gemm <alpha = 1.0, beta = 1.0, transB = 1> (r, b, c)  y = Reshape(g1, sc) }""",
     {"a": np.arange(24, dtype=f).reshape(2, 3, 4), "b": np.arange(16, dtype=f).reshape(4, 4), "c": np.zeros(4, f)}, True),
    ("gemm_to_matmul_C_rank2", f"{C}:gemm_to_matmul_add_rule", H18 + """g (float[2,3,4] a, float[4,5] b, float[6,5] c) => (float[2,3,5] y)
       <int64[2] sa = {6,4}, int64[3] sc = {2,3,5}>
       { r = Reshape(a, sa)  g1 = Gemm <alpha = 1.0, beta = 1.0> (r, b, c)  y = Reshape(g1, sc) }""",
     {"a": np.ones((2, 3, 4), f), "b": np.ones((4, 5), f), "c": np.ones((6, 5), f)}, True),
    ("two_reshapes_matmul_adversarial", f"{C}:two_reshapes_matmul_reshape_rule", H18 + """g (float[1,4,4] a, float[4,4,1] b) => (float[4,4,1] y)
       <int64[2] sa = {4,4}, int64[2] sb = {4,4}, int64[3] sc = {4,4,1}>
       { ra = Reshape(a, sa)  rb = Reshape(b, sb)  m = MatMul(ra, rb)  y = Reshape(m, sc) }""",
     {"a": np.arange(16, dtype=f).reshape(1, 4, 4), "b": np.arange(16, dtype=f).reshape(4, 4, 1)}, True),
    ("pad_convinteger_zero_point", f"{C}:fuse_pad_into_conv_integer_rule", H18 + """g (uint8[1,1,3,3] x) => (int32[1,1,3,3] y)
       <int64[8] p = {0,0,1,1,0,0,1,1}, uint8[1,1,3,3] w = {1,1,1,1,1,1,1,1,1}, uint8 zp = {5}>
       { t = Pad(x, p)  y = ConvInteger(t, w, zp) }""", {"x": np.full((1, 1, 3, 3), 5, np.uint8)}, True),
    ("batchnorm_training_mode", f"{C}:fuse_batchnorm_into_gemm_rule", H18 + """g (float[3,4] x) => (float[3,2] y)
       <float[4,2] w = {1,0,0,1,1,1,0,2}, float[2] s = {1,1}, float[2] b = {0,0}, float[2] m = {0,0}, float[2] v = {1,1}>
       { t = Gemm(x, w)  y, rm, rv = BatchNormalization <training_mode = 1> (t, s, b, m, v) }""",
     {"x": np.arange(12, dtype=f).reshape(3, 4)}, True),
    ("batchnorm_gemm_beta", f"{C}:fuse_batchnorm_into_gemm_rule", H18 + """g (float[3,4] x) => (float[3,2] y)
       <float[4,2] w = {1,0,0,1,1,1,0,2}, float[2] c = {4,8}, float[2] s = {1,1}, float[2] b = {0,0}, float[2] m = {1,1}, float[2] v = {1,1}>
       { t = Gemm <beta = 0.5> (x, w, c)  y = BatchNormalization(t, s, b, m, v) }""", {"x": np.zeros((3, 4), f)}, True),
    ("conv_affine_rank4_constants", f"{C}:conv_affine_fusion_rule", H18 + """g (float[1,1,3,3] x) => (float[1,1,3,3] y)
       <float[1,1,1,1] w = {2}, float[1] b = {1}, float[1,1,1,1] s = {2}, float[1,1,1,1] o = {0.5}>
       { c = Conv(x, w, b)  m = Mul(c, s)  y = Add(m, o) }""", {"x": np.ones((1, 1, 3, 3), f)}, True),
    ("cast_constant_of_shape_string", f"{C}:cast_constant_of_shape_without_value_rule", H18 + """g (int64[2] s) => (string[?,?] y)
       { c = ConstantOfShape(s)  y = Cast <to = 8> (c) }""", {"s": np.array([2, 2])}, True),
    ("scatter_static_reduction_add", f"{C}:no_op_static_scatter_nd_rule", H18 + """g (float[3,2] d, float[3,2] u) => (float[3,2] y) <int64[3,1] i = {0,1,2}>
       { y = ScatterND <reduction = "add"> (d, i, u) }""", {"d": np.ones((3, 2), f), "u": np.full((3, 2), 2, f)}, True),
    ("rms_norm_mixed_precision", f"{FU}._rms_normalization:_rule1", H23 + """g (float16[2,4] x, float[4] sc) => (float[2,4] y)
       <float p = {2}, int64[1] ax = {-1}, float e = {1e-6}>
       { xc = Cast <to = 1> (x)  q = Pow(xc, p)  m = ReduceMean <keepdims = 1, noop_with_empty_axes = 0> (q, ax)  a = Add(m, e)
         r = Sqrt(a)  rr = Reciprocal(r)  n = Mul(xc, rr)  y = Mul(n, sc) }""",
     {"x": np.ones((2, 4), np.float16), "sc": np.ones(4, f)}, True),
    ("rms_norm_opset22", f"{FU}._rms_normalization:_rule1", '<ir_version: 10, opset_import: ["" : 22]>\n' + """g (float[2,4] x, float[4] sc) => (float[2,4] y)
       <float p = {2}, int64[1] ax = {-1}, float e = {1e-6}>
       { q = Pow(x, p)  m = ReduceMean <keepdims = 1, noop_with_empty_axes = 0> (q, ax)  a = Add(m, e)
         r = Sqrt(a)  rr = Reciprocal(r)  n = Mul(x, rr)  y = Mul(n, sc) }""", {"x": np.ones((2, 4), f), "sc": np.ones(4, f)}, True),
    ("layer_norm_eps_rank", f"{FU}._layer_norm:_layer_norm_rule", H18 + """g (float[3,4] x, float[4] sc) => (float[1,3,4] y)
       <int64[1] ax = {-1}, float[1,1,1] e = {1e-5}>
       { m = ReduceMean <keepdims = 1> (x, ax)  d = Sub(x, m)  dd = Mul(d, d)  v = ReduceMean <keepdims = 1> (dd, ax)  a = Add(v, e)
         s = Sqrt(a)  r = Reciprocal(s)  n = Mul(d, r)  y = Mul(n, sc) }""", {"x": np.arange(12, dtype=f).reshape(3, 4), "sc": np.ones(4, f)}, True),
    ("layer_norm_bias_rank4", f"{FU}._layer_norm:_layer_norm_with_bias_rule", H18 + """g (float[2,3,4] x, float[4] sc, float[1,1,1,4] b) => (float[1,2,3,4] y)
       { n = LayerNormalization(x, sc)  y = Add(n, b) }""", {"x": np.ones((2, 3, 4), f), "sc": np.ones(4, f), "b": np.ones((1, 1, 1, 4), f)}, True),
    ("layer_norm_bias_three_outputs", f"{FU}._layer_norm:_layer_norm_with_bias_rule", H18 + """g (float[2,3,4] x, float[4] sc, float[4] b) => (float[2,3,4] y)
       { n, mean, inv = LayerNormalization(x, sc)  y = Add(n, b) }""", {"x": np.ones((2, 3, 4), f), "sc": np.ones(4, f), "b": np.ones(4, f)}, True),
    ("cast_constant_of_shape_overflow", f"{C}:cast_constant_of_shape_rule", H18 + """g (int64[1] s) => (uint8[?] y)
       { c = ConstantOfShape <value = int32[1] {300}> (s)  y = Cast <to = 2> (c) }""", {"s": np.array([3])}, True),
    ("scatter_static_symbolic_dim", f"{C}:no_op_static_scatter_nd_rule", H18 + """g (float[N,2] d, float[N,2] u) => (float[N,2] y) <int64[3,1] i = {0,1,2}>
       { y = ScatterND(d, i, u) }""", {"d": np.ones((3, 2), f), "u": np.full((3, 2), 2, f)}, True),
    ("minmin_no_constants", f"{C}:min_min_rule", H18 + "g (float[4] x) => (float[4] y) { t = Min(x)  y = Min(t) }", X4, True),
    ("minmax_inner_no_constant", f"{C}:min_max_rule", H18 + "g (float[4] x) => (float[4] y) <float lo = {2}> { t = Min(x)  y = Max(t, lo) }", X4, True),
    ("minmax_mixed_rank_constants", f"{C}:max_min_rule", H18 + """g (float[4] x) => (float[4] y) <float a = {2}, float[1] b = {3}, float hi = {8}>
       { t = Max(x, a, b)  y = Min(t, hi) }""", X4, True),
]


def _rotary_model(opset=23, dtype="float", fbatch=2):
    irv = 11 if opset >= 23 else 10
    return f'<ir_version: {irv}, opset_import: ["" : {opset}]>\n' + f"""g ({dtype}[2,2,3,4] x, {dtype}[{fbatch},3,2] fr) => ({dtype}[2,2,3,4] y)
       <int64[1] one = {{1}}, int64[1] z = {{0}}, int64[1] h = {{2}}, int64[1] big = {{9223372036854775807}}, int64[1] ax = {{3}}, int64[1] st = {{1}}>
       {{ rep = Concat <axis = -1> (fr, fr)  c = Cos(rep)  s = Sin(rep)  c4 = Unsqueeze(c, one)  s4 = Unsqueeze(s, one)
          x1 = Slice(x, z, h, ax, st)  x2 = Slice(x, h, big, ax, st)  nx2 = Neg(x2)  rot = Concat <axis = -1> (nx2, x1)
          a = Mul(x, c4)  b = Mul(rot, s4)  y = Add(a, b) }}"""


R += [
    ("rotary_opset22", f"{FU}._rotary_embedding:_rule", _rotary_model(22), {"x": np.ones((2, 2, 3, 4), f), "fr": np.ones((2, 3, 2), f)}, True),
    ("rotary_double", f"{FU}._rotary_embedding:_rule", _rotary_model(23, "double"),
     {"x": np.ones((2, 2, 3, 4)), "fr": np.ones((2, 3, 2))}, True),
    ("rotary_freqs_batch1", f"{FU}._rotary_embedding:_rule", _rotary_model(23, "float", 1),
     {"x": np.ones((2, 2, 3, 4), f), "fr": np.ones((1, 3, 2), f)}, True),
]


def _gqa_model(causal=True, tap=False):
    extra_out = ", float[2,4,5,4] rk" if tap else ""
    return H23 + f"""g (float[2,4,3,4] q, float[2,2,3,4] k, float[2,2,3,4] v, float[2,2,2,4] pk, float[2,2,2,4] pv)
       => (float[2,4,3,4] y, float[2,2,5,4] ck, float[2,2,5,4] cv{extra_out})
       <int64 two = {{2}}, int64[5] es = {{2,2,2,5,4}}, int64[4] rs = {{2,4,5,4}}>
       {{ ck = Concat <axis = -2> (pk, k)  uk = Unsqueeze(ck, two)  ek = Expand(uk, es)  rk = Reshape(ek, rs)
          cv = Concat <axis = -2> (pv, v)  uv = Unsqueeze(cv, two)  ev = Expand(uv, es)  rv = Reshape(ev, rs)
          y = Attention <is_causal = {1 if causal else 0}> (q, rk, rv) }}"""


_rs = np.random.default_rng(0)
_gq = {n: _rs.standard_normal(s).astype(f) for n, s in
       [("q", (2, 4, 3, 4)), ("k", (2, 2, 3, 4)), ("v", (2, 2, 3, 4)), ("pk", (2, 2, 2, 4)), ("pv", (2, 2, 2, 4))]}
R += [
    ("gqa_is_causal", f"{FU}._gqa:_basic_gqa_rule", _gqa_model(True), _gq, True),
    ("gqa_topological_order", f"{FU}._gqa:_basic_gqa_rule", _gqa_model(False, tap=True), _gq, True),
]


def main(argv):
    from onnxscript import ir
    from onnxscript.rewriter import RewriteRuleSet

    pick = argv[1] if len(argv) > 1 else ""
    for name, rpath, text, feeds, infer in R:
        if pick not in name:
            continue
        m = onnx.parser.parse_model(text)
        onnx.checker.check_model(m, full_check=True)
        if infer:
            m = onnx.shape_inference.infer_shapes(m, data_prop=True)
        before = _run(m, feeds)
        rule = _rule(rpath)
        rs = rule if isinstance(rule, RewriteRuleSet) else RewriteRuleSet([rule])
        irm = ir.serde.deserialize_model(m)
        print(f"--- {name}  [{rpath.split(':')[1]}]")
        try:
            n = rs.apply_to_model(irm)
        except Exception as e:
            print(f"    before: {_fmt(before)}\n    apply_to_model RAISES {type(e).__name__}: {str(e)[:140]}")
            continue
        try:
            m2 = ir.serde.serialize_model(irm)
        except Exception as e:
            print(f"    fired {n}x; result cannot be serialised: {type(e).__name__}: {str(e)[:140]}")
            continue
        after = _run(m2, feeds)
        try:
            onnx.checker.check_model(m2, full_check=True)
            chk = "ok"
        except Exception as e:
            chk = f"{type(e).__name__}: {str(e)[:110]}"
        print(f"    fired {n}x  ops after: {[x.op_type for x in m2.graph.node]}")
        print(f"    before: {_fmt(before)}\n    after : {_fmt(after)}\n    checker(after): {chk}")


def _fmt(r):
    if isinstance(r, str):
        return r
    return "; ".join(f"shape{tuple(a.shape)} {np.array2string(a.ravel()[:6], precision=5, separator=',')}" for a in r[:2])


if __name__ == "__main__":
    main(sys.argv)
