"""C15 oracles over diff events: inclusion M <= N(M), idempotence, survival of untouched carriers per API.

"Documented effects" table (from the docstrings of the entry points, DESIGN C15):
  optimize            inline functions, fold, rewrite, remove unused nodes/initializers/functions/opsets, lift constants,
                      dedupe initializers, CSE, rename values, shape inference
  rewrite             apply rules, remove unused nodes/initializers, functions, opsets
  rewrite_empty       nothing (returns the argument)
  fold_constants      fold nodes (in graph, subgraphs and functions); shape inference on values
  remove_unused_nodes remove unused nodes and initializers (graph and functions)
  remove_unused_functions   remove unused functions
  convert_version     inline, remove unused functions/opsets/nodes, default-domain opset := target, adapt nodes
  replace_functions   inline the given functions, remove unused opsets
  inline              inline all functions
Only *survival* is demanded (lost / changed), only of carriers not reachable from anything the transformation touched.
"""
from __future__ import annotations

from . import c15_diff as D

EFFECTS = {
    #                      nodes      unused_init  functions   unused_opsets  shapes  default_opset
    "optimize":            ("any",     True,        "inlined",  True,          True,   False),
    "optimize_noinline":   ("any",     True,        "unused",   True,          True,   False),
    "rewrite":             ("any",     True,        "unused",   True,          False,  False),
    "rewrite_custom":      ("any",     True,        "unused",   True,          False,  False),
    "rewrite_empty":       ("none",    False,       "none",     False,         False,  False),
    "fold_constants":      ("any",     "folded",    "none",     False,         True,   False),
    "remove_unused_nodes": ("dead",    True,        "none",     False,         False,  False),
    "remove_unused_functions": ("none", False,      "unused",   False,         False,  False),
    "convert_version":     ("any",     True,        "inlined",  True,          True,   True),
    "convert_version_fallback": ("any", True,       "inlined",  True,          True,   True),
    "replace_functions":   ("any",     False,       "inlined",  True,          False,  False),
    "inline":              ("any",     False,       "inlined",  False,         False,  False),
}


def norm_path(ev_or_path):
    """Mechanism-level path: field names only, nesting prefixes collapsed, every TensorProto location -> <tensor>."""
    segs = [s.split("[")[0] for s in (ev_or_path.path if isinstance(ev_or_path, D.Event) else ev_or_path)]
    out = []
    i = 0
    while i < len(segs):
        if segs[i:i + 3] == ["node", "attribute", "g"]:
            i += 3
            continue
        if segs[i] == "graph" and i == 0:
            i += 1
            continue
        if segs[i] in ("initializer",) or segs[i:i + 2] in (["attribute", "t"], ["attribute", "tensors"]):
            out = ["<tensor>"]          # same key wherever the tensor lives (initializer, subgraph, attribute)
            i += 1 if segs[i] == "initializer" else 2
            continue
        out.append(segs[i])
        i += 1
    return ".".join(out) or "<root>"


# ---- structure helpers (own code) ------------------------------------------------------------

def _graphs_in(node):
    for a in node.attribute:
        if a.type == 5:
            yield a.g
        elif a.type == 10:
            yield from a.graphs


def refs_in_graph(g, acc=None):
    """All value names referenced as node inputs anywhere in g (incl. nested subgraphs) plus g's outputs."""
    acc = set() if acc is None else acc
    for n in g.node:
        acc.update(i for i in n.input if i)
        for sg in _graphs_in(n):
            refs_in_graph(sg, acc)
    acc.update(o.name for o in getattr(g, "output", []) if hasattr(o, "name"))
    return acc


def refs_in_function(f, acc=None):
    acc = set() if acc is None else acc
    for n in f.node:
        acc.update(i for i in n.input if i)
        for sg in _graphs_in(n):
            refs_in_graph(sg, acc)
    acc.update(f.output)
    return acc


def domains_used(nodes, acc=None):
    acc = set() if acc is None else acc
    for n in nodes:
        acc.add(n.domain if n.domain not in ("ai.onnx",) else "")
        for sg in _graphs_in(n):
            domains_used(sg.node, acc)
    return acc


def calls_in(nodes, acc=None):
    acc = set() if acc is None else acc
    for n in nodes:
        acc.add((n.domain, n.op_type, n.overload))
        for sg in _graphs_in(n):
            calls_in(sg.node, acc)
    return acc


def used_functions(model):
    fmap = {(f.domain, f.name, f.overload): f for f in model.functions}
    used, todo = set(), list(calls_in(model.graph.node))
    while todo:
        k = todo.pop()
        if k in fmap and k not in used:
            used.add(k)
            todo.extend(calls_in(fmap[k].node))
    return used


def live_nodes(nodes, outputs):
    """Names of nodes that are live w.r.t. the given output names (backward pass; subgraph captures keep producers live)."""
    live = set(outputs)
    keep = set()
    for n in reversed(list(nodes)):
        if any(o in live for o in n.output if o):
            keep.add(id(n))
            live.update(i for i in n.input if i)
            for sg in _graphs_in(n):
                live.update(refs_in_graph(sg))
    return keep


def _ident(n):
    return (n.op_type, n.domain, n.overload, tuple(n.input), tuple(n.output),
            tuple(sorted((a.name, a.SerializeToString(deterministic=True)) for a in n.attribute)))


def _uniq_named(nodes):
    seen, dup = {}, set()
    for n in nodes:
        if not n.name:
            continue
        if n.name in seen:
            dup.add(n.name)
        seen[n.name] = n
    return {k: v for k, v in seen.items() if k not in dup}


# ---- (ii) survival of untouched carriers -------------------------------------------------------

class Survival:
    def __init__(self, api, nm, r, hit):
        self.api, self.nm, self.r, self.hit = api, nm, r, hit
        self.eff = EFFECTS[api]
        self.viol = []          # (kind, path, detail)

    def v(self, kind, path, detail):
        self.viol.append((kind, path, detail))

    def run(self):
        nm, r = self.nm, self.r
        nodes_eff, init_eff, fn_eff, opset_eff, shapes_eff, defop_eff = self.eff
        # model level
        for f in ("ir_version", "producer_name", "producer_version", "domain", "model_version", "doc_string"):
            fd = nm.DESCRIPTOR.fields_by_name[f]
            if nm.HasField(f):
                self.hit("model_fields_checked")
                if not r.HasField(f) or getattr(nm, f) != getattr(r, f):
                    self.v("field_lost" if not r.HasField(f) else "field_changed", f, f"{getattr(nm, f)!r} -> {getattr(r, f) if r.HasField(f) else None!r}")
        self._maps(nm.metadata_props, r.metadata_props, "metadata_props")
        # opset imports
        used_dom = domains_used(r.graph.node)
        for f in r.functions:
            domains_used(f.node, used_dom)
        rop = {o.domain: o.version for o in r.opset_import}
        for o in nm.opset_import:
            self.hit("opset_imports_checked")
            if o.domain not in rop:
                if not (opset_eff and o.domain not in used_dom):
                    self.v("field_lost", "opset_import", f"opset import {o.domain!r}:{o.version} gone"
                           + ("" if opset_eff else " (API does not remove opsets)") + (", domain still used" if o.domain in used_dom else ""))
            elif rop[o.domain] != o.version and not (defop_eff and o.domain == ""):
                self.v("field_changed", "opset_import.version", f"{o.domain!r}: {o.version} -> {rop[o.domain]}")
        # functions
        rf = {(f.domain, f.name, f.overload): f for f in r.functions}
        used_r = used_functions(r)
        for f in nm.functions:
            k = (f.domain, f.name, f.overload)
            if k not in rf:
                if fn_eff == "inlined":
                    continue
                if fn_eff == "unused" and k not in used_r:
                    self.hit("unused_function_removed")
                    continue
                self.v("field_lost", "functions", f"function {k} gone")
                continue
            if fn_eff == "inlined":
                continue
            self.hit("functions_checked")
            g = rf[k]
            for fld in ("doc_string",):
                if f.HasField(fld) and (not g.HasField(fld) or getattr(f, fld) != getattr(g, fld)):
                    self.v("field_lost" if not g.HasField(fld) else "field_changed", f"functions.{fld}", f"{k}")
            for fld in ("input", "output", "attribute"):
                if list(getattr(f, fld)) != list(getattr(g, fld)):
                    self.v("field_changed", f"functions.{fld}", f"{k}: {list(getattr(f, fld))} -> {list(getattr(g, fld))}")
            if sorted(a.SerializeToString(deterministic=True) for a in f.attribute_proto) != \
                    sorted(a.SerializeToString(deterministic=True) for a in g.attribute_proto):
                self.v("field_changed", "functions.attribute_proto", f"{k}")
            self._maps(f.metadata_props, g.metadata_props, "functions.metadata_props")
            fdom = domains_used(g.node)
            gop = {o.domain: o.version for o in g.opset_import}
            for o in f.opset_import:
                if o.domain not in gop and not (opset_eff and o.domain not in fdom):
                    self.v("field_lost", "functions.opset_import", f"{k}: {o.domain!r}")
                elif o.domain in gop and gop[o.domain] != o.version:
                    self.v("field_changed", "functions.opset_import.version", f"{k}: {o.domain!r}")
            touched = self._nodes(f.node, g.node, list(f.output), "functions.node")
            self._value_infos(f.value_info, g.value_info, touched, self._defined_f(g), "functions.value_info")
        # graph
        gn, gr = nm.graph, r.graph
        for fld in ("name", "doc_string"):
            if gn.HasField(fld):
                self.hit("graph_fields_checked")
                if not gr.HasField(fld) or getattr(gn, fld) != getattr(gr, fld):
                    self.v("field_lost" if not gr.HasField(fld) else "field_changed", f"graph.{fld}", f"{getattr(gn, fld)!r}")
        self._maps(gn.metadata_props, gr.metadata_props, "graph.metadata_props")
        touched = self._nodes(gn.node, gr.node, [o.name for o in gn.output], "graph.node")
        self._io(gn.input, gr.input, "graph.input", False, set())
        self._io(gn.output, gr.output, "graph.output", shapes_eff, touched)
        # initializers
        refs_r = refs_in_graph(gr)
        for f in r.functions:
            refs_in_function(f, refs_r)
        io_r = {v.name for v in gr.input} | {v.name for v in gr.output}
        ri = {t.name: t for t in gr.initializer}
        consumers_nm = {}
        for n in gn.node:
            names = set(i for i in n.input if i)
            for sg in _graphs_in(n):
                names |= refs_in_graph(sg)
            for i in names:
                consumers_nm.setdefault(i, []).append(n)
        for t in gn.initializer:
            if t.name not in ri:
                unused_now = t.name not in refs_r and t.name not in io_r
                if init_eff is True and unused_now:
                    self.hit("unused_initializer_removed")
                    continue
                if init_eff == "folded" and unused_now and consumers_nm.get(t.name):
                    self.hit("unused_initializer_removed")
                    continue
                if nodes_eff == "any" and not unused_now:
                    continue      # still referenced but not an initializer any more: validity, not this property
                self.v("field_lost", "graph.initializer", f"initializer {t.name} ({t.data_type}) gone, "
                       f"{'unused' if unused_now else 'still referenced'} in the result")
                continue
            self.hit("initializer_bits_checked")
            evs = [e for e in D.diff(t, ri[t.name], ("graph", f"initializer[{t.name}]")) if e.kind in ("lost", "changed")]
            for e in evs:
                self.v("field_" + e.kind, norm_path(e), f"{e.pstr()}: {e.a} -> {e.b}")
        defined_r = {v.name for v in gr.input} | set(ri) | {o for n in gr.node for o in n.output if o}
        self._value_infos(gn.value_info, gr.value_info, touched, defined_r, "graph.value_info")
        return self.viol

    @staticmethod
    def _defined_f(f):
        return set(f.input) | {o for n in f.node for o in n.output if o}

    def _maps(self, a, b, path):
        da, db = {}, {}
        for e in a:
            da.setdefault(e.key, []).append(e.value)
        for e in b:
            db.setdefault(e.key, []).append(e.value)
        for k, v in da.items():
            self.hit("metadata_entries_checked")
            if k not in db:
                self.v("field_lost", path, f"metadata_props[{k}]={v} gone")
            elif db[k] != v:
                self.v("field_changed", path, f"metadata_props[{k}]: {v} -> {db[k]}")

    def _io(self, a, b, path, shapes_ok, touched):
        if [v.name for v in a] != [v.name for v in b]:
            self.v("field_changed", path, f"{[v.name for v in a]} -> {[v.name for v in b]}")
            return
        for va, vb in zip(a, b):
            self.hit("graph_io_checked")
            for e in D.diff(va, vb, (path,)):
                if e.kind not in ("lost", "changed"):
                    continue
                if shapes_ok and "shape" in e.pclass():
                    continue
                if va.name in touched and not e.pclass().endswith(("elem_type", ".name")):
                    continue      # value produced by a replaced node: only the interface (name, element type) is demanded
                self.v("field_" + e.kind, e.pclass(), f"{va.name}: {e.pstr()}: {e.a} -> {e.b}")

    def _nodes(self, na, nb, out_names, path):
        """-> set of value names whose producer was touched (or that no longer have the same producer)."""
        nodes_eff = self.eff[0]
        a, b = _uniq_named(na), _uniq_named(nb)
        live = live_nodes(na, out_names) if nodes_eff == "dead" else None
        touched_vals = set()
        for k, n in a.items():
            if k not in b:
                touched_vals.update(o for o in n.output if o)
                if nodes_eff == "none" or (nodes_eff == "dead" and id(n) in live):
                    self.v("field_lost", path, f"node {k} ({n.op_type}) gone"
                           + (" although it is live" if nodes_eff == "dead" else ""))
                continue
            m = b[k]
            if _ident(n) != _ident(m):
                touched_vals.update(o for o in n.output if o)
                if nodes_eff == "none":
                    self.v("field_changed", path, f"node {k} ({n.op_type}) changed")
                elif nodes_eff == "dead":
                    # only blanking of unused outputs is a removal of something unused
                    same = (n.op_type, n.domain, tuple(n.input)) == (m.op_type, m.domain, tuple(m.input)) and \
                        len(n.output) >= len(m.output) and all(y in ("", x) for x, y in zip(n.output, m.output))
                    if not same:
                        self.v("field_changed", path, f"node {k} ({n.op_type}) changed: {D._summary(n)} -> {D._summary(m)}")
                continue
            self.hit("untouched_nodes_checked")
            if n.HasField("doc_string") and n.doc_string and (not m.HasField("doc_string") or m.doc_string != n.doc_string):
                self.v("field_lost" if not m.HasField("doc_string") else "field_changed", path + ".doc_string",
                       f"node {k}: {n.doc_string!r} -> {m.doc_string!r}")
            self._maps(n.metadata_props, m.metadata_props, path + ".metadata_props")
        return touched_vals

    def _value_infos(self, va, vb, touched, defined_r, path):
        shapes_ok = self.eff[4]
        b = {v.name: v for v in vb}
        for v in va:
            if v.name in touched or v.name not in defined_r:
                continue
            if v.name not in b:
                self.v("field_lost", path, f"value_info of surviving value {v.name} gone")
                continue
            self.hit("value_infos_checked")
            for e in D.diff(v, b[v.name], (path,)):
                if e.kind not in ("lost", "changed"):
                    continue
                if shapes_ok and "shape" in e.pclass():
                    continue
                self.v("field_" + e.kind, e.pclass(), f"{v.name}: {e.pstr()}: {e.a} -> {e.b}")


# ---- (iii) inclusion and (iv) idempotence --------------------------------------------------------

def inclusion(m, n):
    """M <= N(M) with the two exemptions. -> list of (kind, path, detail)"""
    out = []
    init_names = set()

    def collect(g):
        init_names.update(t.name for t in g.initializer)
        for nd in g.node:
            for sg in _graphs_in(nd):
                collect(sg)

    collect(m.graph)
    for e in D.diff(m, n):
        if e.kind in ("default_vanished", "default_added", "encoding"):
            continue
        if e.kind == "added":
            # type annotations implied by initializer data may appear: a value_info entry for an initializer
            segs = [s for s in e.path if s.startswith("value_info[")]
            if segs and segs[-1][len("value_info["):-1] in init_names:
                continue
            out.append(("field_added", norm_path(e), f"{e.pstr()}: {e.b}"))
        else:
            out.append(("field_" + e.kind, norm_path(e), f"{e.pstr()}: {e.a} -> {e.b}"))
    return out


def idempotence(n, n2):
    return [("not_idempotent", norm_path(e), f"{e.kind} {e.pstr()}: {e.a} -> {e.b}") for e in D.diff(n, n2) if e.kind != "encoding"]
