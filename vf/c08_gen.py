"""C08 value/shape generators.  Everything is driven by a random.Random handed in by the caller, so a
stratum is a pure function of (property id, seed, overload, class, repetition)."""
from __future__ import annotations

from . import c08_core as core

FLOATS = ("f16", "f32", "f64")
INTS = ("i32", "i64", "u8")


def is_float(dt):
    return dt in FLOATS


def is_int(dt):
    return dt in INTS or dt in ("i8", "i16")


class G:
    def __init__(self, rnd):
        self.r = rnd
        self.E = core.env()
        self.torch = self.E.torch

    # ---- shapes
    def dims(self, rank, lo=2, hi=5):
        if rank >= 4:
            hi = min(hi, 3)
        return [self.r.randint(lo, hi) for _ in range(rank)]

    def shape(self, sc):
        r = self.r
        if sc == "0-d":
            return []
        if sc == "size0":
            return list(r.choice([[0], [2, 0], [0, 3], [2, 0, 3]]))
        if sc == "size1":
            return list(r.choice([[1], [1, 1], [3, 1], [1, 4, 1]]))
        if sc == "nd":
            return self.dims(r.randint(1, 4))
        if sc.startswith("r"):
            return self.dims(int(sc[1:]))
        raise ValueError(sc)

    # ---- values
    def _vals(self, n, dt, dom):
        r = self.r
        if dt == "bool":
            return [r.random() < 0.5 for _ in range(n)]
        if is_float(dt):
            if dom == "any":
                pool = lambda: r.choice((0.0, 1.0, -1.0)) if r.random() < 0.15 else r.randint(-32, 32) / 8.0
            elif dom == "pos":
                pool = lambda: r.randint(2, 32) / 8.0
            elif dom == "neg":
                pool = lambda: -r.randint(2, 32) / 8.0
            elif dom == "unit":
                pool = lambda: r.randint(-14, 14) / 16.0
            elif dom == "ge1":
                pool = lambda: 1.0 + r.randint(1, 24) / 8.0
            elif dom == "nz":
                pool = lambda: r.choice((-1, 1)) * r.randint(4, 32) / 8.0
            elif dom == "small":
                pool = lambda: r.randint(-8, 8) / 4.0
            elif dom == "prob":
                pool = lambda: r.randint(1, 15) / 16.0
            elif dom == "distinct":
                vals = r.sample(range(-64, 64), n) if n <= 128 else [r.randint(-64, 64) for _ in range(n)]
                return [v / 8.0 for v in vals]
            elif dom == "special":
                pool = lambda: r.choice((float("nan"), float("inf"), float("-inf"), 0.0, -0.0, 1.5, -2.25))
            elif dom == "nonint":
                pool = lambda: r.randint(-32, 31) / 8.0 + 0.0625 * r.choice((1, 3, 5, 7)) / 1.0
            else:
                raise ValueError(dom)
            return [pool() for _ in range(n)]
        # integers
        u = dt == "u8"
        if dom in ("big", "big_nz"):
            # magnitudes beyond what float32 (2^24) and, for int64, float64 (2^53) represent exactly, next to small values;
            # an implementation that goes through a floating type is wrong here
            if dt == "i64":
                pool = [2**24 + 1, -(2**24 + 1), 2**24 + 3, 33554433, 2**31 + 5, 2**40 + 3, -(2**40 + 3), 2**53 + 1, -(2**53 + 1), 2**62 + 1, 7, -3, 1]
            elif dt == "i32":
                pool = [2**24 + 1, -(2**24 + 1), 2**24 + 3, 33554433, 2**30 + 1, 2**31 - 1, -(2**31 - 1), 7, -3, 1]
            else:
                pool = [1, 2, 3, 100, 127] if not u else [1, 2, 3, 200, 255]
            if dom == "big":
                pool = pool + [0]
            return [r.choice(pool) for _ in range(n)]
        if dom in ("any", "unit", "special", "nonint"):
            lo, hi = (0, 9) if u else (-6, 6)
        elif dom in ("pos", "ge1"):
            lo, hi = 1, 6
        elif dom == "neg":
            lo, hi = (0, 0) if u else (-6, -1)
        elif dom == "nz":
            return [(r.randint(1, 9) if u else r.choice((-1, 1)) * r.randint(1, 6)) for _ in range(n)]
        elif dom == "small":
            lo, hi = (0, 2) if u else (-2, 2)
        elif dom == "prob":
            lo, hi = 0, 1
        elif dom == "distinct":
            rng_ = range(0, 200) if u else range(-100, 100)
            return r.sample(rng_, n) if n <= 190 else [r.choice(rng_) for _ in range(n)]
        else:
            raise ValueError(dom)
        return [r.randint(lo, hi) for _ in range(n)]

    def t(self, shape, dt, dom="any"):
        n = 1
        for d in shape:
            n *= d
        vals = self._vals(n, dt, dom)
        return self.torch.tensor(vals, dtype=self.E.tdt[dt]).reshape(list(shape))

    def scalar(self, dt, dom="any", kind=None):
        """python number matching dtype category (kind: 'int'|'float' forces)."""
        if kind is None:
            kind = "float" if is_float(dt) else ("bool" if dt == "bool" else "int")
        if kind == "bool":
            return self.r.random() < 0.5
        if kind == "float":
            return float(self._vals(1, "f32", dom)[0])
        return int(self._vals(1, "u8" if dt == "u8" else "i64", dom)[0])

    def index(self, shape, hi, dt="i64", neg=False):
        """index tensor with entries in [0, hi) (or [-hi, hi) if neg)."""
        n = 1
        for d in shape:
            n *= d
        lo = -hi if neg else 0
        vals = [self.r.randint(lo, hi - 1) for _ in range(n)] if hi > 0 else [0] * n
        return self.torch.tensor(vals, dtype=self.E.tdt[dt]).reshape(list(shape))

    def bcast_pair(self):
        """two shapes that broadcast (neither equal)."""
        r = self.r
        a, b = self.r.randint(2, 4), self.r.randint(2, 4)
        c = self.r.randint(2, 3)
        return r.choice([
            ([a, 1], [1, b]), ([a, b], [b]), ([b], [a, b]), ([c, a, b], [a, 1]), ([1], [a, b]),
            ([c, 1, b], [a, 1]), ([a, b], [1, 1]), ([1, a, 1], [c, 1, b]),
        ])
