"""C03 — optimize() never changes what a model computes."""
from __future__ import annotations

from . import c03core

PID = "C03"
LEVEL = "exploration"
RULE = ("models: generation-by-execution DAGs (vf/modelgen.py, ~70 ops + optimizer-targeted motifs, If/Loop/functions/"
        "sequences/initializer-inputs; Cast chains through the whole signed/unsigned 8-64-bit integer family fed by signed graph inputs; model-local functions whose bodies match initializer-creating rewrite rules (such models always also get rewrite() and optimize(inline=False)); legacy Dropout with a ratio attribute and its mask as a graph output; every model checker-valid and executed before use) and node/simple/converted "
        "models shipped in the installed onnx package lifted (as-is / inputs->initializers / wrapped in If / body moved into a model-local function, with and without inputs->initializers) with recorded "
        "expectations as tie-breaker; per model: default options + random option tuples over "
        "{optimize, optimize_ir, fold_constants, rewrite, remove_unused_nodes} x {proto, ir} x num_iterations x "
        "onnx_shape_inference x inline x stop_if_no_change x size limits; >=3 inputs (edge/mixed/small). Oracle: ORT "
        "(optimisations off) before vs after; onnx.reference may only dispute. non-trivial = >=1 mechanism fired; "
        "distinct = distinct set of fired mechanisms")
ASSUMPTIONS = [
    "ONNX Runtime 1.30 CPU with graph optimisations disabled is the deciding runtime",
    "generated inputs avoid undefined behaviour (float->int of NaN/inf/out-of-range, integer division by zero, overflow)",
    "float outputs are compared with dtype tolerances scaled by graph depth (legal reassociation)",
]
ANCHORS = [
    "onnxscript.optimizer._constant_folding:FoldConstantsPass.process_node",
    "onnxscript.optimizer._constant_folding:FoldConstantsPass.replace_node",
    "onnxscript.optimizer._constant_folding:FoldConstantsPass.visit_graph",
    "onnxscript.optimizer._constant_folding:if_op",
    "onnxscript.optimizer._optimizer:optimize_ir",
]
TIMEOUT = 300.0


def thresholds(tier):
    return {"optimized": 100, "distinct_mechanisms": 25, "distinct_nontrivial": 30,
            "anchor:onnxscript.optimizer._constant_folding:FoldConstantsPass.process_node": 500}


def cases(tier, seed):
    if tier == "thorough":
        return c03core.gen_specs(PID, tier, seed, 6000, 1900, 4)
    return c03core.gen_specs(PID, tier, seed, 1500, 600, 3)


def run_case(spec):
    r = c03core.opt_case(spec, PID)
    return {"status": r["status"], "viol": r["c03"], "events": r["events"], "sig": r["sig"], "nontrivial": r["nontrivial"],
            "sample": r["sample"], "data": {"fired": r["fired"]}}


def finalize(ctx):
    c03core.merge_fired(ctx)
