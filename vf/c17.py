"""C17 — generated opset classes mirror the ONNX operator schemas exactly.

Every public method of every generated OpsetN class is *called* under a recording
evaluator (the official evaluator seam) with one distinct sentinel per parameter, then with
other argument payload kinds (Python lists/tuples, falsy values, arrays), other variadic
arities, inputs by keyword and falsy explicit attributes; the monitor sees
(op.opset, op.name, op.op_schema, args, kwargs) — exactly what eager mode and translation
use — and an oracle compares that against onnx.defs and against the dynamic Opset[...] Op.
The eager half (vf/c17_eager.py) observes the one-node model each shipped evaluator hands to
its runtime (every distinct schema once) and executes a table of operators at every schema
version — legacy opsets, ai.onnx.ml, both evaluators, defaults omitted / explicit attributes /
Python-list inputs — against a bare NodeProto in an opset-N model; the translation half puts
the same calls into @script functions and judges the translated model the same way.
"""
from __future__ import annotations

import inspect
import keyword

import numpy as np

PID = "C17"
LEVEL = "exploration"
RULE = ("exhaustive over every class in onnxscript.onnx_opset.all_opsets and every public method: called "
        "through evaluator.default_as(recorder) with distinct sentinels (all given / optionals omitted / each "
        "attribute omitted / middle optional omitted; variadic arity 0,1,2,3; inputs by keyword), then with argument "
        "*payload kinds* in the input positions (Python list, tuple, 1-element list, empty list/tuple, 0, 0.0, False, "
        "'', ndarray, 0-d ndarray; a lone sequence argument of a variadic-only operator included) and falsy explicit "
        "attribute values, each argument must arrive as ONE input/attribute by identity; the same call through the "
        "dynamic Opset[...] Op must reach the evaluator with identical arguments; "
        "oracle = onnx.defs.get_schema(op, N, domain); dynamic "
        "lookup (__getattr__/__getitem__/__contains__) queried for every schema name and 200 non-names; "
        "completeness for N<=23. Eager half: every distinct schema (domain, op, since_version) is called once with "
        "synthetic typed inputs under each shipped evaluator (ORTEvaluator, OnnxReferenceRuntimeEvaluator) and the "
        "one-node ModelProto handed to the runtime is judged (node identity, opset import resolves to the schema of "
        "(op, N), omitted attributes absent or equal to the schema default, inputs one per argument); a table of "
        "~140 operator entries (default domain opset 1..23 incl. the legacy attribute spellings, ai.onnx.ml 1..5) is "
        "executed eagerly at every schema version under both evaluators in the forms minimal (defaults omitted) / "
        "explicit (non-default attributes) vs a bare NodeProto in an opset-N model on the same runtime, and with "
        "Python-list inputs static method vs dynamic lookup. Translation half: the same table entries as the whole "
        "body of a @script function per opset class: the translated model imports (domain, N), holds one node that "
        "resolves to get_schema(op, N, domain) with the given attributes and no non-default omitted ones, and on ORT "
        "computes what the bare node computes. "
        "non-trivial = method with >=1 attribute or optional input; distinct = (domain, op, since_version[, form, evaluator])")
ASSUMPTIONS = [
    "onnx.defs of the installed onnx package is the ground truth for schemas",
    "deprecated operators (schema.deprecated at version N) are outside the property: counted, not judged",
    "the recording evaluator is installed through the public evaluator.default_as seam and returns None",
    "the model an eager call evaluates is the ModelProto its evaluator passes to onnxruntime.InferenceSession / "
    "onnx.reference.ReferenceEvaluator (observed by pass-through wrappers on those two constructors)",
    "ORT decides validity of a bare node (load/run failure => case discarded); under the reference evaluator the "
    "twin node carries the onnx.defs defaults explicitly (equivalent by the ONNX spec) because onnx.reference "
    "mishandles some omitted/explicit defaults; a mismatch there is eager-on-ref vs node-on-ref, same runtime",
    "execution table inputs are fixed, UB-free tensors; Dropout in training mode is not compared",
]
ANCHORS = [
    "onnxscript._internal.values:Opset._prepare_inputs",
    "onnxscript._internal.values:Opset.__getattr__",
    "onnxscript._internal.values:Opset.__getitem__",
    "onnxscript._internal.values:Opset.__contains__",
    "onnxscript._internal.values:Op.__call__",
    "onnxscript._internal.evaluator:_prepare_model_and_inputs_for_eager",
]
TIMEOUT = 600.0


def EXHAUSTIVE(tier):
    return True


def thresholds(tier):
    # each <= 1/5 of what the unchanged tree gives in the quick tier (seeds 0,1,2,3,7)
    return {"method_calls": 5000, "methods": 2000, "methods_wide": 220, "exec_compared": 220,
            "payload_calls": 2500, "lone_sequence_variadic_calls": 50, "variadic_arity_calls": 40,
            "attr_payload_calls": 850, "keyword_calls": 200, "static_dynamic_compared": 420,
            "eager_model_probes": 160, "eager_models_seen": 380, "eager_models_seen_ort": 150, "eager_models_seen_ref": 200,
            "exec_compared_ort": 100, "exec_compared_ref": 110, "exec_compared_explicit": 75,
            "exec_compared_legacy": 120, "exec_compared_pre7": 45, "exec_compared_ml": 4,
            "literal_static_dynamic_values": 75, "literal_lone_variadic": 4,
            "translate_models_judged": 130, "translate_compared": 110,
            "anchor:onnxscript._internal.values:Opset._prepare_inputs": 5000,
            "anchor:onnxscript._internal.evaluator:_prepare_model_and_inputs_for_eager": 400}


def _all_opsets():
    from onnxscript import onnx_opset

    return dict(onnx_opset.all_opsets)


def cases(tier, seed):
    import onnx

    out = []
    for (domain, version) in sorted(_all_opsets()):
        out.append({"kind": "class", "domain": domain, "version": version, "seed": seed})
    out.append({"kind": "dynamic"})
    for (domain, version) in sorted(_all_opsets()):
        if domain in ("", "ai.onnx.ml"):
            out.append({"kind": "translate", "domain": domain, "version": version, "seed": seed})
    # execution: table operators at every schema version (quick) / every class version (thorough)
    from . import c17_eager

    out.extend(c17_eager.exec_specs(tier, seed))
    return out


class Sent:
    """Sentinel argument; identity is what matters."""

    def __init__(self, tag):
        self.tag = tag

    def __repr__(self):
        return f"<S:{self.tag}>"


class Recorder:
    """Has eval_op/eval_function and deliberately no `eval` attribute."""

    def __init__(self):
        self.log = []

    def eval_op(self, op, args, kwargs):
        self.log.append((op, list(args), dict(kwargs)))
        return None

    def eval_function(self, function, args, kwargs):  # pragma: no cover
        self.log.append((function, list(args), dict(kwargs)))
        return None


def _norm_default(v):
    if isinstance(v, bytes):
        return v.decode("utf-8", "replace")
    if isinstance(v, float):
        return float(np.float32(v))
    if isinstance(v, (list, tuple)):
        return tuple(_norm_default(x) for x in v)
    if hasattr(v, "SerializeToString"):
        return ("proto", v.SerializeToString())
    return v


def _pyname(n):
    return n + "_" if keyword.iskeyword(n) else n


def _schema_key(s):
    return (s.domain, s.name, s.since_version)


def check_class(domain, version, seed=0):
    import onnx
    from onnx.defs import OpSchema

    from onnxscript import values
    from onnxscript._internal import evaluator

    from . import common

    thorough = tier_is_thorough()
    inst = _all_opsets()[(domain, version)]
    cls = type(inst)
    viol, events = [], {}
    sigs, samples = set(), []

    def hit(k, n=1):
        events[k] = events.get(k, 0) + n

    def v(key, what, **detail):
        viol.append({"key": key, "what": what, "detail": detail})

    if (inst.domain, inst.version) != (domain, version):
        v(f"class;{domain};{version};identity", f"all_opsets[{domain!r},{version}] is {inst!r}")
    names = [n for n in dir(cls) if not n.startswith("_") and inspect.isfunction(getattr(cls, n, None))]
    rec = Recorder()
    base = values.Opset(domain, version)  # dynamic-only instance of the base class
    for name in names:
        meth = getattr(inst, name)
        try:
            truth = onnx.defs.get_schema(name, version, domain)
        except Exception:
            truth = None
        if truth is None:
            hit("method_without_schema_at_N")
            v(f"nomethodschema;{domain};{name}", f"{cls.__name__}.{name}: onnx.defs has no schema {domain}::{name} at {version}")
            continue
        if truth.deprecated:
            hit("deprecated_skipped")
            continue
        hit("methods")
        sig = inspect.signature(meth)
        params = list(sig.parameters.values())
        pos = [p for p in params if p.kind in (p.POSITIONAL_OR_KEYWORD, p.POSITIONAL_ONLY)]
        var = [p for p in params if p.kind == p.VAR_POSITIONAL]
        kwo = [p for p in params if p.kind == p.KEYWORD_ONLY]
        sin = list(truth.inputs)
        key0 = f"{domain};{name}"
        # --- signature: inputs in order then attributes keyword-only
        exp_pos = [_pyname(i.name) for i in sin if i.option != OpSchema.FormalParameterOption.Variadic]
        exp_var = [_pyname(i.name) for i in sin if i.option == OpSchema.FormalParameterOption.Variadic]
        got_in = [p.name for p in params if p.kind != p.KEYWORD_ONLY]
        exp_in = [_pyname(i.name) for i in sin]
        if [g.rstrip("_") for g in got_in] != [e.rstrip("_") for e in exp_in] or len(var) != len(exp_var):
            v(f"sig_inputs;{key0}", f"{cls.__name__}.{name}{sig}: inputs {got_in} != schema inputs {exp_in}",
              version=version)
        attrs = dict(truth.attributes)
        got_attr = sorted(p.name.rstrip("_") if keyword.iskeyword(p.name.rstrip("_")) else p.name for p in kwo)
        if got_attr != sorted(attrs):
            v(f"sig_attrs;{key0}", f"{cls.__name__}.{name}: keyword params {got_attr} != schema attributes {sorted(attrs)}",
              version=version)
            continue
        attr_py = {a: (a + "_" if keyword.iskeyword(a) else a) for a in attrs}
        # defaults in the signature
        for p in kwo:
            an = p.name.rstrip("_") if keyword.iskeyword(p.name.rstrip("_")) else p.name
            a = attrs[an]
            has_def = a.default_value is not None and a.default_value.type != onnx.AttributeProto.UNDEFINED
            if has_def:
                d = _norm_default(onnx.helper.get_attribute_value(a.default_value))
                if p.default is inspect.Parameter.empty or _norm_default(p.default) != d:
                    v(f"default;{key0};{an}", f"{cls.__name__}.{name}({an}=...) default {p.default!r} != schema default {d!r}",
                      version=version)
            elif a.required:
                if p.default is not inspect.Parameter.empty:
                    v(f"required_has_default;{key0};{an}", f"{cls.__name__}.{name}: required attribute {an} has default {p.default!r}",
                      version=version)
            else:
                if p.default is not None:
                    v(f"default_none;{key0};{an}", f"{cls.__name__}.{name}: attribute {an} without schema default has default {p.default!r}",
                      version=version)
        # --- calls
        n_var = 2
        in_sent = [Sent(f"in{i}:{p.name}") for i, p in enumerate(pos)]
        var_sent = [Sent(f"var{i}") for i in range(n_var)] if var else []
        at_sent = {a: Sent(f"attr:{a}") for a in attrs}
        min_in = 0
        for i, s in enumerate(sin):
            if s.option == OpSchema.FormalParameterOption.Single:
                min_in = i + 1
        required_attrs = {a for a, s in attrs.items() if s.required}

        def call(pargs, kw, label, in_kw=None):
            rec.log.clear()
            try:
                with evaluator.default_as(rec):
                    meth(*pargs, **(in_kw or {}), **{attr_py[k]: x for k, x in kw.items()})
            except Exception as e:
                v(f"call_raises;{key0};{label}", f"{cls.__name__}.{name} {label}: {type(e).__name__}: {e}", version=version)
                return None
            hit("method_calls")
            if len(rec.log) != 1:
                v(f"call_count;{key0}", f"{cls.__name__}.{name}: evaluator saw {len(rec.log)} calls", version=version)
                return None
            return rec.log[0]

        # (1) everything given
        r = call(in_sent + var_sent, at_sent, "all")
        if r is not None:
            op, args, kwargs = r
            got_schema = op.op_schema
            if got_schema is None or _schema_key(got_schema) != _schema_key(truth):
                v(f"schema;{key0}", f"{cls.__name__}.{name} reaches the evaluator with schema "
                  f"{_schema_key(got_schema) if got_schema else None}, onnx.defs says {_schema_key(truth)}", version=version)
            if op.name != name or op.opset is not inst:
                v(f"opident;{key0}", f"{cls.__name__}.{name}: op.name={op.name!r} opset={op.opset!r}", version=version)
            exp_args = in_sent + var_sent
            if len(args) != len(exp_args) or any(a is not b for a, b in zip(args, exp_args)):
                v(f"forward_inputs;{key0}", f"{cls.__name__}.{name}: args {args!r} != {exp_args!r}", version=version)
            for a, s in at_sent.items():
                if kwargs.get(a) is not s:
                    v(f"forward_attr;{key0};{a}", f"{cls.__name__}.{name}: attribute {a} arrives as {kwargs.get(a)!r}", version=version)
            extra = set(kwargs) - set(at_sent)
            if extra:
                v(f"forward_extra;{key0}", f"{cls.__name__}.{name}: unexpected kwargs {sorted(extra)}", version=version)
        # (2) attributes omitted (all optionals) -> defaults
        req_kw = {a: at_sent[a] for a in required_attrs}
        r = call(in_sent + var_sent, req_kw, "attrs_omitted")
        if r is not None:
            op, args, kwargs = r
            for a, s in attrs.items():
                if a in required_attrs:
                    continue
                has_def = s.default_value is not None and s.default_value.type != onnx.AttributeProto.UNDEFINED
                if has_def:
                    d = _norm_default(onnx.helper.get_attribute_value(s.default_value))
                    if a not in kwargs or _norm_default(kwargs[a]) != d or type(_norm_default(kwargs[a])) is not type(d):
                        v(f"default_forwarded;{key0};{a}", f"{cls.__name__}.{name}: omitted {a} reaches the evaluator as "
                          f"{kwargs.get(a, '<absent>')!r}, schema default {d!r}", version=version)
                else:
                    if kwargs.get(a) is not None:
                        v(f"nodefault_forwarded;{key0};{a}", f"{cls.__name__}.{name}: omitted {a} (no schema default) arrives as {kwargs.get(a)!r}",
                          version=version)
        # (3) each attribute omitted in turn keeps the others
        if tier_is_thorough() or len(attrs) <= 6:
            for a in attrs:
                if a in required_attrs:
                    continue
                kw = {k: s for k, s in at_sent.items() if k != a}
                r = call(in_sent + var_sent, kw, f"omit:{a}")
                if r is not None:
                    _, _, kwargs = r
                    for k, s in kw.items():
                        if kwargs.get(k) is not s:
                            v(f"forward_attr;{key0};{k}", f"{cls.__name__}.{name}: with {a} omitted, {k} arrives as {kwargs.get(k)!r}",
                              version=version)
        # (4) trailing optionals omitted -> trimmed; only trailing ones
        if len(pos) > min_in or var:
            # optional inputs without a Python default (they precede a variadic) are passed as None
            pargs = list(in_sent[:min_in]) + [None for p in pos[min_in:] if p.default is inspect.Parameter.empty]
            r = call(pargs, req_kw, "optionals_omitted")
            if r is not None:
                _, args, _ = r
                if len(args) != min_in or any(a is not b for a, b in zip(args, in_sent[:min_in])):
                    v(f"trim;{key0}", f"{cls.__name__}.{name}: with optionals omitted args={args!r}, expected the {min_in} leading inputs",
                      version=version)
        if len(pos) - min_in >= 2:
            # omit a middle optional, supply the last: None must stay in place
            pargs = list(in_sent)
            pargs[min_in] = None
            r = call(pargs, req_kw, "middle_omitted")
            if r is not None:
                _, args, _ = r
                if len(args) != len(pargs) or args[min_in] is not None or any(
                        (a is not b) for i, (a, b) in enumerate(zip(args, pargs)) if i != min_in):
                    v(f"trim_middle;{key0}", f"{cls.__name__}.{name}: middle optional omitted gives args={args!r}", version=version)
        # Forms (5)-(9) exercise the method body and the shared helpers, not the schema binding: an inherited method is
        # the same function object as in the class that defines it, so the quick tier runs them for the methods a class
        # defines itself plus a seed-rotated sixth of the inherited ones; thorough runs them everywhere.
        wide = thorough or name in cls.__dict__ or common.h32(PID, seed, name, version) % 6 == 0
        if wide:
            hit("methods_wide")
        # (5) variadic arity 0 / 1 / 3 (form (1) used 2): every actual is one input
        if var and wide:
            for k in (0, 1, 3):
                vs = [Sent(f"var{k}.{j}") for j in range(k)]
                r = call(in_sent + vs, at_sent, f"variadic_arity:{k}")
                hit("variadic_arity_calls")
                if r is not None:
                    _, args, _ = r
                    exp_args = in_sent + vs
                    if len(args) != len(exp_args) or any(a is not b for a, b in zip(args, exp_args)):
                        v(f"forward_inputs;{key0};arity", f"{cls.__name__}.{name}: {k} variadic actuals give args {args!r}, "
                          f"expected {exp_args!r}", version=version)
        # (6) argument payload kinds: whatever Python object sits in an input position is ONE input (a list/tuple is a
        #     tensor literal or a sequence value; falsy values are not omissions — only None is)
        if (pos or var) and wide:
            for kind, mk in PAYLOADS:
                for k in ((1, 2) if var else (0,)):
                    pargs = [mk(f"{kind}:in{i}") for i in range(len(pos))] + [mk(f"{kind}:var{j}") for j in range(k)]
                    r = call(pargs, at_sent, f"payload:{kind}")
                    hit("payload_calls")
                    if var and not pos and k == 1 and kind in SEQ_KINDS:
                        hit("lone_sequence_variadic_calls")
                    if r is not None:
                        _, args, _ = r
                        if len(args) != len(pargs) or any(a is not b for a, b in zip(args, pargs)):
                            v(f"forward_payload;{key0};{kind}", f"{cls.__name__}.{name}: arguments {pargs!r} ({kind} in every "
                              f"input position) reach the evaluator as {args!r}", version=version)
        # (7) explicit falsy attribute values are forwarded as given (not replaced by the default, not dropped)
        if attrs and wide:
            for kind, mk in ATTR_PAYLOADS:
                kw = {a: mk() for a in attrs}
                r = call(in_sent + var_sent, kw, f"attr_payload:{kind}")
                hit("attr_payload_calls")
                if r is not None:
                    _, _, kwargs = r
                    for a, x in kw.items():
                        if a not in kwargs or kwargs[a] is not x:
                            v(f"forward_attr_payload;{key0};{a};{kind}", f"{cls.__name__}.{name}: {a}={x!r} given explicitly arrives as "
                              f"{kwargs.get(a, '<absent>')!r}", version=version)
        # (8) inputs by keyword = inputs by position
        if pos and not var and wide:
            r = call([], dict(at_sent), "keyword_inputs", in_kw={p.name: sx for p, sx in zip(pos, in_sent)})
            hit("keyword_calls")
            if r is not None:
                _, args, kwargs = r
                if len(args) != len(in_sent) or any(a is not b for a, b in zip(args, in_sent)):
                    v(f"forward_inputs;{key0};keyword", f"{cls.__name__}.{name}: inputs passed by keyword arrive as {args!r}", version=version)
                for a, sx in at_sent.items():
                    if kwargs.get(a) is not sx:
                        v(f"forward_attr;{key0};{a}", f"{cls.__name__}.{name}: inputs by keyword, attribute {a} arrives as {kwargs.get(a)!r}",
                          version=version)
        # (9) static method vs dynamic lookup: the same call reaches the evaluator with the same arguments
        dyn = base[name] if wide else None
        if dyn is not None:
            forms = [("sentinels", in_sent + var_sent)]
            if pos or var:
                forms.append(("lists", [[Sent(f"l{i}a"), Sent(f"l{i}b")] for i in range(len(pos) + (1 if var else 0))]))
            for label, pargs in forms:
                r1 = call(pargs, at_sent, f"static:{label}")
                r1 = None if r1 is None else (r1[0], list(r1[1]), dict(r1[2]))
                rec.log.clear()
                try:
                    with evaluator.default_as(rec):
                        dyn(*pargs, **at_sent)
                    r2 = rec.log[0] if len(rec.log) == 1 else None
                except Exception as e:
                    r2 = None
                    v(f"dyn_call_raises;{key0}", f"Opset({domain!r},{version})[{name!r}](...) raises {type(e).__name__}: {e}", version=version)
                if r1 is None or r2 is None:
                    continue
                hit("static_dynamic_compared")
                same = (len(r1[1]) == len(r2[1]) and all(a is b for a, b in zip(r1[1], r2[1]))
                        and set(r1[2]) == set(r2[2]) and all(r1[2][k] is r2[2][k] for k in r1[2])
                        and r2[0].op_schema is not None and _schema_key(r1[0].op_schema) == _schema_key(r2[0].op_schema))
                if not same:
                    v(f"static_dynamic;{key0};{label}", f"{cls.__name__}.{name} and Opset({domain!r},{version})[{name!r}] called with the same "
                      f"arguments ({label}) reach the evaluator with {r1[1]!r} {sorted(r1[2])} vs {r2[1]!r} {sorted(r2[2])}", version=version)
        # (10) eager model probe, once per distinct schema: the class where the operator (version) first appears
        if truth.since_version == version:
            evs = ("ref", "ort") if thorough or common.h32(PID, seed, "probe", name, version) % 3 == 0 else ("ref",)
            _probe_eager_model(inst, name, truth, attr_py, version, hit, v, evs)
        if attrs or len(pos) > min_in:
            sigs.add(f"{domain}:{name}:{truth.since_version}")
        if len(samples) < 2 and attrs:
            samples.append({"class": cls.__name__, "method": name, "signature": str(sig)[:200],
                            "schema": list(_schema_key(truth))})
    # --- completeness (N <= 23 for the default domain; all versions for the others)
    if domain != "" or version <= 23:
        byname = {}
        for s in onnx.defs.get_all_schemas_with_history():
            if s.domain == domain and s.since_version <= version:
                if s.name not in byname or byname[s.name].since_version < s.since_version:
                    byname[s.name] = s
        for nme, s in sorted(byname.items()):
            if s.deprecated:
                continue
            hit("completeness_checked")
            if not inspect.isfunction(getattr(cls, nme, None)):
                v(f"missing_method;{domain};{nme}", f"{cls.__name__} has no method for {domain}::{nme} (since {s.since_version})",
                  version=version)
    return {"status": "ok", "viol": viol, "events": events, "nontrivial": True,
            "sig": None, "data": {"sigs": sorted(sigs)}, "sample": samples[0] if samples else None}


SEQ_KINDS = ("list", "tuple", "list1", "empty_list", "empty_tuple")
PAYLOADS = [
    ("list", lambda t: [Sent(t + ".a"), Sent(t + ".b")]),
    ("tuple", lambda t: (Sent(t + ".a"), Sent(t + ".b"))),
    ("list1", lambda t: [Sent(t)]),
    ("empty_list", lambda t: []),
    ("empty_tuple", lambda t: ()),
    ("zero", lambda t: 0),
    ("fzero", lambda t: 0.0),
    ("false", lambda t: False),
    ("empty_str", lambda t: ""),
    ("ndarray", lambda t: np.zeros((2,), np.float32)),
    ("ndarray0d", lambda t: np.array(0.0, np.float32)),
]
ATTR_PAYLOADS = [
    ("zero", lambda: 0), ("fzero", lambda: 0.0), ("false", lambda: False), ("empty_str", lambda: ""),
    ("empty_list", lambda: []), ("empty_tuple", lambda: ()),
]


def _probe_eager_model(inst, name, truth, attr_py, version, hit, v, evnames):
    """Call the method for real under each shipped evaluator and judge the model it hands to the runtime."""
    from . import c17_eager

    sa = c17_eager.synth_args(truth)
    if sa is None:
        hit("eager_probe_unsynthesised")
        return
    args, attrs = sa
    dom = truth.domain
    for evname in evnames:
        hit("eager_model_probes")
        st, out, models = c17_eager.eager_call(getattr(inst, name), args, {attr_py[k]: x for k, x in attrs.items()}, evname)
        if not models:
            hit("eager_model_unobserved")   # refused before a model was built (Loop/Scan body arity, Split arity, ...)
            continue
        hit("eager_models_seen")
        hit(f"eager_models_seen_{evname}")
        for kind, txt in c17_eager.judge_model(models[0], truth, attrs, args):
            v(f"eager_model;{evname};{dom};{kind}", f"{type(inst).__name__}.{name} eager on {evname}: {txt}", version=version, op=name)


_TIER = None


def tier_is_thorough():
    from . import common

    return common.tier() == "thorough"


def check_dynamic():
    import onnx

    from onnxscript import values

    viol, events = [], {}

    def hit(k, n=1):
        events[k] = events.get(k, 0) + n

    def v(key, what, **detail):
        viol.append({"key": key, "what": what, "detail": detail})

    ops = _all_opsets()
    allnames = sorted({s.name for s in onnx.defs.get_all_schemas_with_history()})
    non_names = [f"NoSuchOp{i}" for i in range(100)] + [n.lower() + "x" for n in allnames[:100]]
    for (domain, version), inst in sorted(ops.items()):
        base = values.Opset(domain, version)  # dynamic-only instance of the base class
        for nme in allnames:
            try:
                truth = onnx.defs.get_schema(nme, version, domain)
            except Exception:
                truth = None
            for obj, label in ((inst, "static"), (base, "dynamic")):
                hit("dynamic_queries")
                contains = nme in obj
                item = obj[nme]
                if truth is None:
                    if contains or item is not None:
                        v(f"dyn_false_positive;{domain};{nme}", f"{label} {domain}:{version} reports {nme} present", version=version)
                    continue
                if not contains or item is None:
                    v(f"dyn_missing;{domain};{nme}", f"{label} Opset({domain!r},{version}): {nme} not found dynamically", version=version)
                    continue
                if _schema_key(item.op_schema) != _schema_key(truth):
                    v(f"dyn_schema;{domain};{nme}", f"{label} [{nme}] -> {_schema_key(item.op_schema)} != {_schema_key(truth)}", version=version)
            # __getattr__ on the base instance
            if truth is not None:
                try:
                    op = getattr(base, nme)
                    if _schema_key(op.op_schema) != _schema_key(truth):
                        v(f"dyn_getattr_schema;{domain};{nme}", f"getattr -> {_schema_key(op.op_schema)} != {_schema_key(truth)}", version=version)
                except AttributeError:
                    v(f"dyn_getattr_missing;{domain};{nme}", f"Opset({domain!r},{version}).{nme} raises AttributeError", version=version)
        for nn in non_names:
            hit("dynamic_nonname_queries")
            if nn in inst or inst[nn] is not None:
                v(f"dyn_nonname;{domain}", f"{nn} reported present in {domain}:{version}")
            try:
                getattr(inst, nn)
                v(f"dyn_nonname_getattr;{domain}", f"getattr({nn}) did not raise in {domain}:{version}")
            except AttributeError:
                pass
    return {"status": "ok", "viol": viol, "events": events, "nontrivial": True, "sig": "dynamic"}


def worker_init():
    from . import c17_eager

    c17_eager.ensure_hooks()


def run_case(spec):
    k = spec["kind"]
    if k == "class":
        return check_class(spec["domain"], spec["version"], spec.get("seed", 0))
    if k == "dynamic":
        return check_dynamic()
    from . import c17_eager

    if k == "translate":
        return c17_eager.check_translate(spec["domain"], spec["version"], spec["seed"], tier_is_thorough())
    evs = ("ort", "ref")
    return c17_eager.check_exec(spec["op"], spec["version"], spec["seed"], evs,
                                literal_on=evs if tier_is_thorough() else ("ref",))


def finalize(ctx):
    for r in ctx.results:
        for s in ((r.get("data") or {}).get("sigs") or []):
            ctx.sigs.add(s)
