"""C17 — generated opset classes mirror the ONNX operator schemas exactly.

Every public method of every generated OpsetN class is *called* under a recording
evaluator (the official evaluator seam) with one distinct sentinel per parameter; the
monitor sees (op.opset, op.name, op.op_schema, args, kwargs) — exactly what eager mode
and translation use — and an oracle compares that against onnx.defs.
A second family of cases executes operators eagerly with defaults left out against a bare
NodeProto without those attributes on ONNX Runtime.
"""
from __future__ import annotations

import inspect
import keyword

import numpy as np

PID = "C17"
LEVEL = "exploration"
RULE = ("exhaustive over every class in onnxscript.onnx_opset.all_opsets and every public method: called "
        "through evaluator.default_as(recorder) with distinct sentinels (all given / optionals omitted / each "
        "attribute omitted / middle optional omitted); oracle = onnx.defs.get_schema(op, N, domain); dynamic "
        "lookup (__getattr__/__getitem__/__contains__) queried for every schema name and 200 non-names; "
        "completeness for N<=23; plus eager execution with defaults omitted vs bare NodeProto on ORT. "
        "non-trivial = method with >=1 attribute or optional input; distinct = (domain, op, since_version)")
ASSUMPTIONS = [
    "onnx.defs of the installed onnx package is the ground truth for schemas",
    "deprecated operators (schema.deprecated at version N) are outside the property: counted, not judged",
    "the recording evaluator is installed through the public evaluator.default_as seam and returns None",
]
ANCHORS = [
    "onnxscript._internal.values:Opset._prepare_inputs",
    "onnxscript._internal.values:Opset.__getattr__",
    "onnxscript._internal.values:Opset.__getitem__",
    "onnxscript._internal.values:Opset.__contains__",
    "onnxscript._internal.values:Op.__call__",
]
TIMEOUT = 600.0


def EXHAUSTIVE(tier):
    return True


def thresholds(tier):
    return {"method_calls": 5000, "methods": 2000, "exec_compared": 40,
            "anchor:onnxscript._internal.values:Opset._prepare_inputs": 5000}


def _all_opsets():
    from onnxscript import onnx_opset

    return dict(onnx_opset.all_opsets)


def cases(tier, seed):
    import onnx

    out = []
    for (domain, version) in sorted(_all_opsets()):
        out.append({"kind": "class", "domain": domain, "version": version})
    out.append({"kind": "dynamic"})
    # execution sample: (op, version) pairs with non-trivial defaults
    vers = list(range(13, 24)) if tier == "thorough" else [13, 18, 21, 23]
    for name in sorted(EXEC_TABLE):
        for v in vers:
            out.append({"kind": "exec", "op": name, "version": v, "seed": seed})
    return out


class Sent:
    """Sentinel argument; identity is what matters."""

    def __init__(self, tag):
        self.tag = tag

    def __repr__(self):
        return f"<S:{self.tag}>"


class Recorder:
    """Has eval_op/eval_function and deliberately no `eval` attribute."""

    def __init__(self):
        self.log = []

    def eval_op(self, op, args, kwargs):
        self.log.append((op, list(args), dict(kwargs)))
        return None

    def eval_function(self, function, args, kwargs):  # pragma: no cover
        self.log.append((function, list(args), dict(kwargs)))
        return None


def _norm_default(v):
    if isinstance(v, bytes):
        return v.decode("utf-8", "replace")
    if isinstance(v, float):
        return float(np.float32(v))
    if isinstance(v, (list, tuple)):
        return tuple(_norm_default(x) for x in v)
    if hasattr(v, "SerializeToString"):
        return ("proto", v.SerializeToString())
    return v


def _pyname(n):
    return n + "_" if keyword.iskeyword(n) else n


def _schema_key(s):
    return (s.domain, s.name, s.since_version)


def check_class(domain, version):
    import onnx
    from onnx.defs import OpSchema

    from onnxscript._internal import evaluator

    inst = _all_opsets()[(domain, version)]
    cls = type(inst)
    viol, events = [], {}
    sigs, samples = set(), []

    def hit(k, n=1):
        events[k] = events.get(k, 0) + n

    def v(key, what, **detail):
        viol.append({"key": key, "what": what, "detail": detail})

    if (inst.domain, inst.version) != (domain, version):
        v(f"class;{domain};{version};identity", f"all_opsets[{domain!r},{version}] is {inst!r}")
    names = [n for n in dir(cls) if not n.startswith("_") and inspect.isfunction(getattr(cls, n, None))]
    rec = Recorder()
    for name in names:
        meth = getattr(inst, name)
        try:
            truth = onnx.defs.get_schema(name, version, domain)
        except Exception:
            truth = None
        if truth is None:
            hit("method_without_schema_at_N")
            v(f"nomethodschema;{domain};{name}", f"{cls.__name__}.{name}: onnx.defs has no schema {domain}::{name} at {version}")
            continue
        if truth.deprecated:
            hit("deprecated_skipped")
            continue
        hit("methods")
        sig = inspect.signature(meth)
        params = list(sig.parameters.values())
        pos = [p for p in params if p.kind in (p.POSITIONAL_OR_KEYWORD, p.POSITIONAL_ONLY)]
        var = [p for p in params if p.kind == p.VAR_POSITIONAL]
        kwo = [p for p in params if p.kind == p.KEYWORD_ONLY]
        sin = list(truth.inputs)
        key0 = f"{domain};{name}"
        # --- signature: inputs in order then attributes keyword-only
        exp_pos = [_pyname(i.name) for i in sin if i.option != OpSchema.FormalParameterOption.Variadic]
        exp_var = [_pyname(i.name) for i in sin if i.option == OpSchema.FormalParameterOption.Variadic]
        got_in = [p.name for p in params if p.kind != p.KEYWORD_ONLY]
        exp_in = [_pyname(i.name) for i in sin]
        if [g.rstrip("_") for g in got_in] != [e.rstrip("_") for e in exp_in] or len(var) != len(exp_var):
            v(f"sig_inputs;{key0}", f"{cls.__name__}.{name}{sig}: inputs {got_in} != schema inputs {exp_in}",
              version=version)
        attrs = dict(truth.attributes)
        got_attr = sorted(p.name.rstrip("_") if keyword.iskeyword(p.name.rstrip("_")) else p.name for p in kwo)
        if got_attr != sorted(attrs):
            v(f"sig_attrs;{key0}", f"{cls.__name__}.{name}: keyword params {got_attr} != schema attributes {sorted(attrs)}",
              version=version)
            continue
        attr_py = {a: (a + "_" if keyword.iskeyword(a) else a) for a in attrs}
        # defaults in the signature
        for p in kwo:
            an = p.name.rstrip("_") if keyword.iskeyword(p.name.rstrip("_")) else p.name
            a = attrs[an]
            has_def = a.default_value is not None and a.default_value.type != onnx.AttributeProto.UNDEFINED
            if has_def:
                d = _norm_default(onnx.helper.get_attribute_value(a.default_value))
                if p.default is inspect.Parameter.empty or _norm_default(p.default) != d:
                    v(f"default;{key0};{an}", f"{cls.__name__}.{name}({an}=...) default {p.default!r} != schema default {d!r}",
                      version=version)
            elif a.required:
                if p.default is not inspect.Parameter.empty:
                    v(f"required_has_default;{key0};{an}", f"{cls.__name__}.{name}: required attribute {an} has default {p.default!r}",
                      version=version)
            else:
                if p.default is not None:
                    v(f"default_none;{key0};{an}", f"{cls.__name__}.{name}: attribute {an} without schema default has default {p.default!r}",
                      version=version)
        # --- calls
        n_var = 2
        in_sent = [Sent(f"in{i}:{p.name}") for i, p in enumerate(pos)]
        var_sent = [Sent(f"var{i}") for i in range(n_var)] if var else []
        at_sent = {a: Sent(f"attr:{a}") for a in attrs}
        min_in = 0
        for i, s in enumerate(sin):
            if s.option == OpSchema.FormalParameterOption.Single:
                min_in = i + 1
        required_attrs = {a for a, s in attrs.items() if s.required}

        def call(pargs, kw, label):
            rec.log.clear()
            try:
                with evaluator.default_as(rec):
                    meth(*pargs, **{attr_py[k]: x for k, x in kw.items()})
            except Exception as e:
                v(f"call_raises;{key0};{label}", f"{cls.__name__}.{name} {label}: {type(e).__name__}: {e}", version=version)
                return None
            hit("method_calls")
            if len(rec.log) != 1:
                v(f"call_count;{key0}", f"{cls.__name__}.{name}: evaluator saw {len(rec.log)} calls", version=version)
                return None
            return rec.log[0]

        # (1) everything given
        r = call(in_sent + var_sent, at_sent, "all")
        if r is not None:
            op, args, kwargs = r
            got_schema = op.op_schema
            if got_schema is None or _schema_key(got_schema) != _schema_key(truth):
                v(f"schema;{key0}", f"{cls.__name__}.{name} reaches the evaluator with schema "
                  f"{_schema_key(got_schema) if got_schema else None}, onnx.defs says {_schema_key(truth)}", version=version)
            if op.name != name or op.opset is not inst:
                v(f"opident;{key0}", f"{cls.__name__}.{name}: op.name={op.name!r} opset={op.opset!r}", version=version)
            exp_args = in_sent + var_sent
            if len(args) != len(exp_args) or any(a is not b for a, b in zip(args, exp_args)):
                v(f"forward_inputs;{key0}", f"{cls.__name__}.{name}: args {args!r} != {exp_args!r}", version=version)
            for a, s in at_sent.items():
                if kwargs.get(a) is not s:
                    v(f"forward_attr;{key0};{a}", f"{cls.__name__}.{name}: attribute {a} arrives as {kwargs.get(a)!r}", version=version)
            extra = set(kwargs) - set(at_sent)
            if extra:
                v(f"forward_extra;{key0}", f"{cls.__name__}.{name}: unexpected kwargs {sorted(extra)}", version=version)
        # (2) attributes omitted (all optionals) -> defaults
        req_kw = {a: at_sent[a] for a in required_attrs}
        r = call(in_sent + var_sent, req_kw, "attrs_omitted")
        if r is not None:
            op, args, kwargs = r
            for a, s in attrs.items():
                if a in required_attrs:
                    continue
                has_def = s.default_value is not None and s.default_value.type != onnx.AttributeProto.UNDEFINED
                if has_def:
                    d = _norm_default(onnx.helper.get_attribute_value(s.default_value))
                    if a not in kwargs or _norm_default(kwargs[a]) != d or type(_norm_default(kwargs[a])) is not type(d):
                        v(f"default_forwarded;{key0};{a}", f"{cls.__name__}.{name}: omitted {a} reaches the evaluator as "
                          f"{kwargs.get(a, '<absent>')!r}, schema default {d!r}", version=version)
                else:
                    if kwargs.get(a) is not None:
                        v(f"nodefault_forwarded;{key0};{a}", f"{cls.__name__}.{name}: omitted {a} (no schema default) arrives as {kwargs.get(a)!r}",
                          version=version)
        # (3) each attribute omitted in turn keeps the others
        if tier_is_thorough() or len(attrs) <= 6:
            for a in attrs:
                if a in required_attrs:
                    continue
                kw = {k: s for k, s in at_sent.items() if k != a}
                r = call(in_sent + var_sent, kw, f"omit:{a}")
                if r is not None:
                    _, _, kwargs = r
                    for k, s in kw.items():
                        if kwargs.get(k) is not s:
                            v(f"forward_attr;{key0};{k}", f"{cls.__name__}.{name}: with {a} omitted, {k} arrives as {kwargs.get(k)!r}",
                              version=version)
        # (4) trailing optionals omitted -> trimmed; only trailing ones
        if len(pos) > min_in or var:
            # optional inputs without a Python default (they precede a variadic) are passed as None
            pargs = list(in_sent[:min_in]) + [None for p in pos[min_in:] if p.default is inspect.Parameter.empty]
            r = call(pargs, req_kw, "optionals_omitted")
            if r is not None:
                _, args, _ = r
                if len(args) != min_in or any(a is not b for a, b in zip(args, in_sent[:min_in])):
                    v(f"trim;{key0}", f"{cls.__name__}.{name}: with optionals omitted args={args!r}, expected the {min_in} leading inputs",
                      version=version)
        if len(pos) - min_in >= 2:
            # omit a middle optional, supply the last: None must stay in place
            pargs = list(in_sent)
            pargs[min_in] = None
            r = call(pargs, req_kw, "middle_omitted")
            if r is not None:
                _, args, _ = r
                if len(args) != len(pargs) or args[min_in] is not None or any(
                        (a is not b) for i, (a, b) in enumerate(zip(args, pargs)) if i != min_in):
                    v(f"trim_middle;{key0}", f"{cls.__name__}.{name}: middle optional omitted gives args={args!r}", version=version)
        if attrs or len(pos) > min_in:
            sigs.add(f"{domain}:{name}:{truth.since_version}")
        if len(samples) < 2 and attrs:
            samples.append({"class": cls.__name__, "method": name, "signature": str(sig)[:200],
                            "schema": list(_schema_key(truth))})
    # --- completeness (N <= 23 for the default domain; all versions for the others)
    if domain != "" or version <= 23:
        byname = {}
        for s in onnx.defs.get_all_schemas_with_history():
            if s.domain == domain and s.since_version <= version:
                if s.name not in byname or byname[s.name].since_version < s.since_version:
                    byname[s.name] = s
        for nme, s in sorted(byname.items()):
            if s.deprecated:
                continue
            hit("completeness_checked")
            if not inspect.isfunction(getattr(cls, nme, None)):
                v(f"missing_method;{domain};{nme}", f"{cls.__name__} has no method for {domain}::{nme} (since {s.since_version})",
                  version=version)
    return {"status": "ok", "viol": viol, "events": events, "nontrivial": True,
            "sig": None, "data": {"sigs": sorted(sigs)}, "sample": samples[0] if samples else None}


_TIER = None


def tier_is_thorough():
    from . import common

    return common.tier() == "thorough"


def check_dynamic():
    import onnx

    from onnxscript import values

    viol, events = [], {}

    def hit(k, n=1):
        events[k] = events.get(k, 0) + n

    def v(key, what, **detail):
        viol.append({"key": key, "what": what, "detail": detail})

    ops = _all_opsets()
    allnames = sorted({s.name for s in onnx.defs.get_all_schemas_with_history()})
    non_names = [f"NoSuchOp{i}" for i in range(100)] + [n.lower() + "x" for n in allnames[:100]]
    for (domain, version), inst in sorted(ops.items()):
        base = values.Opset(domain, version)  # dynamic-only instance of the base class
        for nme in allnames:
            try:
                truth = onnx.defs.get_schema(nme, version, domain)
            except Exception:
                truth = None
            for obj, label in ((inst, "static"), (base, "dynamic")):
                hit("dynamic_queries")
                contains = nme in obj
                item = obj[nme]
                if truth is None:
                    if contains or item is not None:
                        v(f"dyn_false_positive;{domain};{nme}", f"{label} {domain}:{version} reports {nme} present", version=version)
                    continue
                if not contains or item is None:
                    v(f"dyn_missing;{domain};{nme}", f"{label} Opset({domain!r},{version}): {nme} not found dynamically", version=version)
                    continue
                if _schema_key(item.op_schema) != _schema_key(truth):
                    v(f"dyn_schema;{domain};{nme}", f"{label} [{nme}] -> {_schema_key(item.op_schema)} != {_schema_key(truth)}", version=version)
            # __getattr__ on the base instance
            if truth is not None:
                try:
                    op = getattr(base, nme)
                    if _schema_key(op.op_schema) != _schema_key(truth):
                        v(f"dyn_getattr_schema;{domain};{nme}", f"getattr -> {_schema_key(op.op_schema)} != {_schema_key(truth)}", version=version)
                except AttributeError:
                    v(f"dyn_getattr_missing;{domain};{nme}", f"Opset({domain!r},{version}).{nme} raises AttributeError", version=version)
        for nn in non_names:
            hit("dynamic_nonname_queries")
            if nn in inst or inst[nn] is not None:
                v(f"dyn_nonname;{domain}", f"{nn} reported present in {domain}:{version}")
            try:
                getattr(inst, nn)
                v(f"dyn_nonname_getattr;{domain}", f"getattr({nn}) did not raise in {domain}:{version}")
            except AttributeError:
                pass
    return {"status": "ok", "viol": viol, "events": events, "nontrivial": True, "sig": "dynamic"}


# ---------------------------------------------------------------- execution sample
def _f(*shape, seed=0):
    r = np.random.default_rng(seed)
    return (r.standard_normal(shape) * 2).astype(np.float32)


EXEC_TABLE = {
    # op: (inputs builder, number of outputs)
    "Gemm": (lambda: [_f(3, 4), _f(4, 5, seed=1), _f(5, seed=2)], 1),
    "LeakyRelu": (lambda: [_f(3, 4)], 1),
    "Elu": (lambda: [_f(3, 4)], 1),
    "Selu": (lambda: [_f(3, 4)], 1),
    "HardSigmoid": (lambda: [_f(3, 4)], 1),
    "Softmax": (lambda: [_f(2, 3, 4)], 1),
    "LogSoftmax": (lambda: [_f(2, 3, 4)], 1),
    "Hardmax": (lambda: [_f(2, 3, 4)], 1),
    "Flatten": (lambda: [_f(2, 3, 4)], 1),
    "ArgMax": (lambda: [_f(2, 3, 4)], 1),
    "ArgMin": (lambda: [_f(2, 3, 4)], 1),
    "ReduceSum": (lambda: [_f(2, 3, 4)], 1),
    "ReduceMean": (lambda: [_f(2, 3, 4)], 1),
    "ReduceMax": (lambda: [_f(2, 3, 4)], 1),
    "ReduceL2": (lambda: [_f(2, 3, 4)], 1),
    "Gather": (lambda: [_f(3, 4), np.array([2, 0], np.int64)], 1),
    "GatherElements": (lambda: [_f(3, 4), np.array([[2, 0, 1, 1]], np.int64)], 1),
    "TopK": (lambda: [_f(3, 5), np.array([2], np.int64)], 2),
    "CumSum": (lambda: [_f(3, 4), np.array(1, np.int64)], 1),
    "Transpose": (lambda: [_f(2, 3, 4)], 1),
    "Shape": (lambda: [_f(2, 3, 4)], 1),
    "Trilu": (lambda: [_f(4, 4)], 1),
    "IsInf": (lambda: [np.array([1.0, np.inf, -np.inf, np.nan], np.float32)], 1),
    "OneHot": (lambda: [np.array([0, 2, 1], np.int64), np.array(3, np.int64), np.array([0, 1], np.float32)], 1),
    "ThresholdedRelu": (lambda: [_f(3, 4)], 1),
    "Celu": (lambda: [_f(3, 4)], 1),
    "Shrink": (lambda: [_f(3, 4)], 1),
    "LpNormalization": (lambda: [_f(3, 4)], 1),
    "MeanVarianceNormalization": (lambda: [_f(2, 3, 4, 4)], 1),
    "Mod": (lambda: [np.array([5, -5, 7], np.int64), np.array([3, 3, -4], np.int64)], 1),
    "Pad": (lambda: [_f(3, 4), np.array([1, 0, 0, 2], np.int64)], 1),
    "InstanceNormalization": (lambda: [_f(2, 3, 4), _f(3, seed=1), _f(3, seed=2)], 1),
    "LayerNormalization": (lambda: [_f(2, 3, 4), _f(4, seed=1), _f(4, seed=2)], 1),
    "LRN": (None, 1),
    "Split": (lambda: [_f(4, 6)], 2),
    "Squeeze": (lambda: [_f(1, 3, 1)], 1),
    "ScatterElements": (lambda: [_f(3, 3), np.array([[1, 0, 2]], np.int64), _f(1, 3, seed=3)], 1),
    "ScatterND": (lambda: [_f(4, 3), np.array([[1], [3]], np.int64), _f(2, 3, seed=3)], 1),
    "DepthToSpace": (None, 1),
    "EyeLike": (lambda: [_f(3, 4)], 1),
    "Unique": (lambda: [np.array([2, 1, 1, 3, 4, 3], np.int64)], 4),
    "NonMaxSuppression": (lambda: [np.array([[[0, 0, 1, 1], [0, 0.1, 1, 1.1], [0, 10, 1, 11]]], np.float32),
                                   np.array([[[0.9, 0.75, 0.6]]], np.float32), np.array([3], np.int64),
                                   np.array([0.5], np.float32), np.array([0.0], np.float32)], 1),
    "QuantizeLinear": (lambda: [_f(3, 4), np.array(0.5, np.float32), np.array(3, np.uint8)], 1),
    "DequantizeLinear": (lambda: [np.arange(12, dtype=np.uint8).reshape(3, 4), np.array(0.5, np.float32), np.array(3, np.uint8)], 1),
    "MaxPool": (None, 1),
    "AveragePool": (None, 1),
    "Conv": (None, 1),
    "ConvTranspose": (None, 1),
    "BatchNormalization": (lambda: [_f(2, 3, 4), _f(3, seed=1), _f(3, seed=2), _f(3, seed=3), np.abs(_f(3, seed=4))], 1),
    "Resize": (None, 1),
    "Clip": (lambda: [_f(3, 4)], 1),
    "GlobalLpPool": (lambda: [_f(1, 2, 3, 3)], 1),
    "ReverseSequence": (lambda: [_f(4, 3), np.array([1, 2, 4], np.int64)], 1),
    "Compress": (lambda: [_f(3, 4), np.array([True, False, True])], 1),
    "Concat": (None, 1),
    "SpaceToDepth": (None, 1),
    "GatherND": (lambda: [_f(2, 3, 4), np.array([[0, 1], [1, 2]], np.int64)], 1),
    "Range": (lambda: [np.array(1, np.int64), np.array(9, np.int64), np.array(2, np.int64)], 1),
    "Einsum": (None, 1),
    "RoiAlign": (lambda: [_f(1, 2, 6, 6), np.array([[0, 0, 4, 4], [1, 1, 5, 5]], np.float32), np.array([0, 0], np.int64)], 1),
    "GridSample": (lambda: [_f(1, 2, 4, 4), (np.random.default_rng(5).random((1, 3, 3, 2)) * 2 - 1).astype(np.float32)], 1),
    "Bernoulli": (None, 1),
    "Dropout": (lambda: [_f(3, 4)], 2),
    "Gelu": (lambda: [_f(3, 4)], 1),
    "Mish": (lambda: [_f(3, 4)], 1),
    "HardSwish": (lambda: [_f(3, 4)], 1),
    "Softplus": (lambda: [_f(3, 4)], 1),
    "BitShift": (None, 1),
    "CastLike": (lambda: [_f(3, 4), np.array(1, np.int32)], 1),
    "IsNaN": (lambda: [np.array([1.0, np.nan], np.float32)], 1),
    "Det": (lambda: [_f(3, 3)], 1),
    "STFT": (None, 1),
    "DFT": (None, 1),
    "AffineGrid": (lambda: [_f(1, 2, 3), np.array([1, 1, 3, 3], np.int64)], 1),
    "RMSNormalization": (lambda: [_f(2, 3, 4), _f(4, seed=1)], 1),
    "ReduceLogSumExp": (lambda: [_f(2, 3, 4)], 1),
    "ReduceProd": (lambda: [_f(2, 3)], 1),
    "Size": (lambda: [_f(2, 3)], 1),
    "NonZero": (lambda: [np.array([[1, 0], [0, 2]], np.float32)], 1),
    "Tile": (lambda: [_f(2, 3), np.array([2, 1], np.int64)], 1),
    "Where": (lambda: [np.array([True, False, True]), _f(3), _f(3, seed=1)], 1),
    "SequenceEmpty": (None, 1),
    "MatMulInteger": (lambda: [np.arange(6, dtype=np.uint8).reshape(2, 3), np.arange(6, dtype=np.uint8).reshape(3, 2)], 1),
    "Swish": (lambda: [_f(3, 4)], 1),
}
EXEC_TABLE = {k: v for k, v in EXEC_TABLE.items() if v[0] is not None}


def check_exec(opname, version, seed):
    """Eager call with every optional attribute omitted vs a bare NodeProto on ORT."""
    import onnx
    from onnx import helper

    from . import compare, runner

    ops = _all_opsets()
    inst = ops.get(("", version))
    try:
        schema = onnx.defs.get_schema(opname, version, "")
    except Exception:
        return {"status": "no_schema", "events": {"exec_no_schema": 1}}
    if schema.deprecated or not hasattr(inst, opname):
        return {"status": "no_schema", "events": {"exec_no_schema": 1}}
    if any(a.required for a in schema.attributes.values()):
        return {"status": "skipped_required_attr"}
    inputs = EXEC_TABLE[opname][0]()
    # keep only as many inputs as the schema at this version takes
    max_in = len(schema.inputs)
    if not (schema.inputs and schema.inputs[-1].option == onnx.defs.OpSchema.FormalParameterOption.Variadic):
        inputs = inputs[:max_in]
    nout = min(EXEC_TABLE[opname][1], len(schema.outputs))
    # bare node
    in_names = [f"i{k}" for k in range(len(inputs))]
    out_names = [f"o{k}" for k in range(nout)]
    node = helper.make_node(opname, in_names, out_names)
    g = helper.make_graph([node], "g", [helper.make_tensor_value_info(n, helper.np_dtype_to_tensor_dtype(x.dtype), list(x.shape))
                                        for n, x in zip(in_names, inputs)],
                          [helper.make_empty_tensor_value_info(n) for n in out_names])
    m = helper.make_model(g, opset_imports=[helper.make_opsetid("", version)], ir_version=10)
    st, bare = runner.ort_run(m, dict(zip(in_names, inputs)))
    if st != "ok":
        return {"status": "bare_" + st, "events": {"exec_bare_unrunnable": 1}, "data": {"msg": str(bare)[:200]}}
    try:
        got = getattr(inst, opname)(*inputs)
    except Exception as e:
        msg = f"{type(e).__name__}: {e}"
        if runner.classify(msg) == "not_implemented":
            return {"status": "eager_not_implemented", "events": {"exec_eager_not_implemented": 1}}
        if "number of expected outputs" in msg:  # documented eager-mode refusal (output arity unknown)
            return {"status": "eager_refused", "events": {"exec_eager_refused": 1}}
        return {"status": "ok", "events": {"exec_compared": 1}, "nontrivial": True, "sig": f"exec:{opname}:{schema.since_version}",
                "viol": [{"key": f"exec_eager_fails;{opname}", "what": f"opset{version}.{opname} eager with defaults omitted raises {msg[:300]} "
                          f"while a bare node runs", "detail": {"version": version}}]}
    got = got if isinstance(got, (tuple, list)) and not isinstance(got, np.ndarray) else [got]
    got = [runner.as_np(x) for x in got][:nout]
    viol = []
    nondet = opname in ("Dropout", "Bernoulli")
    d = compare.compare_outputs(got, bare[:len(got)], check_dtype=True) if not nondet else None
    if d:
        viol.append({"key": f"exec_mismatch;{opname}", "what": f"opset{version}.{opname}(defaults omitted) eager != bare node: {d}",
                     "detail": {"version": version}})
    return {"status": "ok", "viol": viol, "events": {"exec_compared": 1}, "nontrivial": True,
            "sig": f"exec:{opname}:{schema.since_version}",
            "sample": {"exec": opname, "version": version, "since": schema.since_version,
                       "attrs_defaulted": sorted(schema.attributes)}}


def run_case(spec):
    k = spec["kind"]
    if k == "class":
        return check_class(spec["domain"], spec["version"])
    if k == "dynamic":
        return check_dynamic()
    return check_exec(spec["op"], spec["version"], spec["seed"])


def finalize(ctx):
    for r in ctx.results:
        for s in ((r.get("data") or {}).get("sigs") or []):
            ctx.sigs.add(s)
