"""C12 helper: schema walk, call layouts, dtype combinations, and the stated promotion rule.

Nothing in here imports onnxscript: it is the harness' own reading of onnx.defs and of the
property sentence ("the type of the sibling operand that shares its type constraint when
there is one, otherwise INT64, FLOAT or BOOL by Python type").
"""
from __future__ import annotations

import re

import numpy as np

from . import common

PID = "C12"

# ---------------------------------------------------------------- dtypes
# onnx TensorProto enum values (stable by the ONNX spec)
BOOL, INT8, INT16, INT32, INT64 = 9, 3, 5, 6, 7
UINT8, UINT16, UINT32, UINT64 = 2, 4, 12, 13
FLOAT16, BFLOAT16, FLOAT, DOUBLE, STRING = 10, 16, 1, 11, 8

TYPESTR = {
    "tensor(bool)": BOOL, "tensor(int8)": INT8, "tensor(int16)": INT16, "tensor(int32)": INT32,
    "tensor(int64)": INT64, "tensor(uint8)": UINT8, "tensor(uint16)": UINT16, "tensor(uint32)": UINT32,
    "tensor(uint64)": UINT64, "tensor(float16)": FLOAT16, "tensor(bfloat16)": BFLOAT16,
    "tensor(float)": FLOAT, "tensor(double)": DOUBLE,
}
DT_ORDER = [BOOL, INT8, INT16, INT32, INT64, UINT8, UINT16, UINT32, UINT64, FLOAT16, BFLOAT16, FLOAT, DOUBLE]
DT_NAME = {BOOL: "BOOL", INT8: "INT8", INT16: "INT16", INT32: "INT32", INT64: "INT64", UINT8: "UINT8",
           UINT16: "UINT16", UINT32: "UINT32", UINT64: "UINT64", FLOAT16: "FLOAT16", BFLOAT16: "BFLOAT16",
           FLOAT: "FLOAT", DOUBLE: "DOUBLE", STRING: "STRING"}
FLOATS = {FLOAT16, BFLOAT16, FLOAT, DOUBLE}
SIGNED = {INT8, INT16, INT32, INT64}
UNSIGNED = {UINT8, UINT16, UINT32, UINT64}


def np_dtype(dt):
    if dt == BFLOAT16:
        import ml_dtypes

        return np.dtype(ml_dtypes.bfloat16)
    return {BOOL: np.dtype(np.bool_), INT8: np.dtype(np.int8), INT16: np.dtype(np.int16), INT32: np.dtype(np.int32),
            INT64: np.dtype(np.int64), UINT8: np.dtype(np.uint8), UINT16: np.dtype(np.uint16),
            UINT32: np.dtype(np.uint32), UINT64: np.dtype(np.uint64), FLOAT16: np.dtype(np.float16),
            FLOAT: np.dtype(np.float32), DOUBLE: np.dtype(np.float64)}[dt]


_NP2DT = None


def dt_of_np(npdt):
    global _NP2DT
    if _NP2DT is None:
        _NP2DT = {np_dtype(d): d for d in DT_ORDER}
    return _NP2DT.get(np.dtype(npdt))


def kind_class(dt):
    return "float" if dt in FLOATS else "int" if dt in SIGNED else "uint" if dt in UNSIGNED else "bool"


# ---------------------------------------------------------------- literals
# (source text, python value, part of the quantifier's literal set?)
LITERALS = [
    ("0", 0, True), ("1", 1, True), ("-3", -3, True), ("2.5", 2.5, True), ("-0.0", -0.0, True),
    ("True", True, True), ("[1, 2]", [1, 2], True), ("[0.5]", [0.5], True),
    # two extra probes (superset of the stated literal set): make 0.0/-0.0 and 1/True/1.0 meet under one dtype
    ("0.0", 0.0, False), ("1.0", 1.0, False),
]


def lit_pytype(v):
    x = v[0] if isinstance(v, list) else v
    return "bool" if isinstance(x, bool) else "int" if isinstance(x, int) else "float"


def lit_class(v):
    return ("list-" if isinstance(v, list) else "") + lit_pytype(v)


def default_dtype(v):
    """INT64, FLOAT or BOOL by Python type (of the first element for a list)."""
    return {"bool": BOOL, "int": INT64, "float": FLOAT}[lit_pytype(v)]


def lit_shape(v):
    return [len(v)] if isinstance(v, list) else []


_INT_RANGE = {INT8: (-2 ** 7, 2 ** 7 - 1), INT16: (-2 ** 15, 2 ** 15 - 1), INT32: (-2 ** 31, 2 ** 31 - 1),
              INT64: (-2 ** 63, 2 ** 63 - 1), UINT8: (0, 2 ** 8 - 1), UINT16: (0, 2 ** 16 - 1),
              UINT32: (0, 2 ** 32 - 1), UINT64: (0, 2 ** 64 - 1)}


def lit_bits(v, dt):
    """Bytes of literal `v` as a tensor of dtype `dt`, by the harness' own reading:
    -> (status, bytes|None), status in
       "exact"  the literal is exactly representable (sign of zero kept for float targets)
       "bool"   target BOOL: x != 0
       "inexact" non-integral float to an integer type: the sentence gives no value -> pairwise only
       "ub"     integer out of the target's range: undefined, never compared
    """
    xs = v if isinstance(v, list) else [v]
    npdt = np_dtype(dt)
    if dt == BOOL:
        return "bool", np.array([bool(x != 0) for x in xs], dtype=np.bool_).tobytes()
    if dt in FLOATS:
        # every literal of the set is exactly representable in f16/bf16/f32/f64
        a = np.array([float(x) for x in xs], dtype=np.float64).astype(npdt)
        return "exact", a.tobytes()
    lo, hi = _INT_RANGE[dt]
    out = []
    for x in xs:
        if isinstance(x, float):
            if x != int(x):
                return "inexact", None
            x = int(x)
        x = int(x)
        if not (lo <= x <= hi):
            return "ub", None
        out.append(x)
    return "exact", np.array(out, dtype=npdt).tobytes()


# (op, input name) -> predicate over the literal: combinations that are undefined behaviour as *programs* and are
# therefore not generated at all (soundness rule: no integer division by zero in constants).
#   SplitToSequence(x, split=0): chunk length 0; onnx's native shape inference divides by it (SIGFPE kills the
#   interpreter when GraphBuilder runs inference on the new node).
UB_DENY = {
    ("SplitToSequence", "split"): lambda v: not isinstance(v, list) and isinstance(v, int) and not isinstance(v, bool) and v == 0,
}


def denied(op, input_name, v):
    f = UB_DENY.get((op, input_name))
    return bool(f and f(v))


# ---------------------------------------------------------------- schema walk
_SCALAR_RE = re.compile(r"scalar|0-d\b|0d\b|0-dimension|empty shape", re.I)
_RANK1_RE = re.compile(r"1-?d\b|rank 1|n-d\b", re.I)


def _all_schemas():
    import onnx

    return [s for s in onnx.defs.get_all_schemas_with_history() if s.domain == ""]


def tier_versions(tier):
    return list(range(13, 24)) if tier == "thorough" else [18, 23]


def walk(tier, seed):
    """-> sorted list of [name, since_version, opset version] for every (op, version) pair of the tier's opsets:
    the schema that is current at that version (deprecated ones excluded)."""
    versions = tier_versions(tier)
    byname: dict[str, list] = {}
    for s in _all_schemas():
        byname.setdefault(s.name, []).append(s)
    out = []
    for name, lst in sorted(byname.items()):
        lst.sort(key=lambda s: s.since_version)
        for i, s in enumerate(lst):
            nxt = lst[i + 1].since_version if i + 1 < len(lst) else 10 ** 6
            if s.deprecated:
                continue
            for v in versions:
                if s.since_version <= v < nxt:
                    out.append([name, s.since_version, v])
    return out


def describe(schema):
    """Per formal input: what may be put there."""
    import onnx

    FPO = onnx.defs.OpSchema.FormalParameterOption
    tc = {t.type_param_str: list(t.allowed_type_strs) for t in schema.type_constraints}
    formals = []
    for j, i in enumerate(schema.inputs):
        is_var = i.type_str in tc
        allowed = tc.get(i.type_str, [i.type_str])
        dts = [d for d in DT_ORDER if any(TYPESTR.get(a) == d for a in allowed)]
        if dts:
            kind = "tensor"
        elif "tensor(string)" in allowed:
            kind = "string"
        elif any(a.startswith("seq(") for a in allowed):
            kind = "seq"
        else:
            kind = "none"
        option = "Variadic" if i.option == FPO.Variadic else "Optional" if i.option == FPO.Optional else "Single"
        desc = i.description or ""
        formals.append({
            "j": j, "name": i.name, "type_str": i.type_str, "is_var": is_var, "option": option,
            "homog": bool(i.is_homogeneous), "dts": dts, "kind": kind,
            "list_ok": not (_SCALAR_RE.search(desc) and not _RANK1_RE.search(desc)),
        })
    return formals


def _shares(f):
    """Does this formal take part in type-constraint sharing?  (a type variable, not a heterogeneous variadic)"""
    return f["is_var"] and not (f["option"] == "Variadic" and not f["homog"])


def layouts(schema, formals):
    """All call layouts for one schema: the literal at every tensor position (variadic head/tail included), once
    with every other input supplied and once with only the required ones.
    entry: None (omitted optional) | "L" (the literal) | [j, slot] (a tensor operand for formal j)."""
    n = len(formals)
    if n == 0:
        return []
    if any(f["kind"] == "none" and f["option"] == "Single" for f in formals):
        return []
    var = n - 1 if formals[-1]["option"] == "Variadic" else None
    n_fixed = n - 1 if var is not None else n
    var_min = max(0, schema.min_input - n_fixed) if var is not None else 0
    out, seen = [], set()

    def emit(p, k, pos, args):
        while args and args[-1] is None:
            args = args[:-1]
        key = (k, tuple(tuple(a) if isinstance(a, list) else a for a in args))
        if key in seen:
            return
        seen.add(key)
        out.append({"p": p, "k": k, "pos": pos, "args": args})

    def others(p, full):
        args = []
        for j in range(n_fixed):
            f = formals[j]
            if j == p:
                args.append("L")
            elif f["kind"] == "none":
                args.append(None)
            elif full or f["option"] == "Single":
                args.append([j, 0])
            else:
                args.append(None)
        return args

    for p, f in enumerate(formals):
        if f["kind"] != "tensor":
            continue
        if p != var:
            pos = "optional" if f["option"] == "Optional" else "single"
            for full in (True, False):
                args = others(p, full)
                if var is not None and formals[var]["kind"] != "none":
                    args = args + [[var, s] for s in range(2 if full else var_min)]
                emit(p, p, pos, args)
        else:
            for full in (True, False):
                head = others(None, full)
                emit(p, n_fixed, "variadic-first", head + ["L", [var, 0]])
                emit(p, n_fixed + 1, "variadic-tail", head + [[var, 0], "L"])
                emit(p, n_fixed + 2, "variadic-tail", head + [[var, 0], [var, 1], "L"])
                if var_min <= 1:
                    emit(p, n_fixed, "variadic-first", head + ["L"])
    return out


def _tkey(formals, j, slot):
    f = formals[j]
    if _shares(f):
        return f["type_str"]
    if f["option"] == "Variadic":
        return f"#{j}.{slot}"
    return f"#{j}"


def combos(formals, lay, rng):
    """Dtype assignments for the tensor operands of one layout.
    -> (sharing: bool, why: str, [ {tkey: dtype} ... ])
    The type variable of the literal's position ranges over every dtype it allows (when a sibling shares it);
    every other type variable gets a seeded dtype different from it where the schema allows one, so that a cast
    to the wrong sibling's type is visible."""
    fp = formals[lay["p"]]
    ents = [a for a in lay["args"] if isinstance(a, list)]
    tens = [(j, s) for j, s in ents if formals[j]["kind"] == "tensor"]
    keys = {}
    for j, s in tens:
        keys.setdefault(_tkey(formals, j, s), formals[j]["dts"])
    if not fp["is_var"]:
        sharing, why = False, "concrete-type"
    elif not _shares(fp):
        sharing, why = False, "hetero-variadic"
    elif fp["type_str"] in keys:
        sharing, why = True, "sibling"
    else:
        sharing, why = False, "no-sibling"
    if sharing:
        lead, lead_dts = fp["type_str"], fp["dts"]
    elif keys:
        lead = sorted(keys)[0]
        lead_dts = keys[lead]
    else:
        return sharing, why, [{}]
    out = []
    for d in lead_dts:
        c = {lead: d}
        for k2 in sorted(keys):
            if k2 == lead:
                continue
            cand = [x for x in keys[k2] if x != d] or keys[k2]
            c[k2] = rng.choice(cand)
        out.append(c)
    return sharing, why, out


def operand_dtype(formals, combo, j, slot):
    f = formals[j]
    if f["kind"] == "tensor":
        return combo[_tkey(formals, j, slot)]
    return f["kind"]  # "string" | "seq"


# required attributes: any value of the right attribute type will do (the op is never executed)
_ATTR_BY_NAME = {"axis": 0, "direction": "LEFT", "equation": "i,i->i", "mode": "TF", "pooled_shape": [1, 1],
                 "ngram_counts": [0], "ngram_indexes": [0], "max_skip_count": 0}


def required_attrs(schema):
    """-> ({name: python value}, [names of required graph attributes])"""
    import onnx

    A = onnx.AttributeProto
    vals, graphs = {}, []
    for name, a in sorted(schema.attributes.items()):
        if not a.required:
            continue
        if a.type == A.GRAPH:
            graphs.append(name)
        elif name in _ATTR_BY_NAME:
            vals[name] = _ATTR_BY_NAME[name]
        elif a.type == A.INT:
            vals[name] = 1
        elif a.type == A.FLOAT:
            vals[name] = 1.0
        elif a.type == A.STRING:
            vals[name] = "x"
        elif a.type == A.INTS:
            vals[name] = [1]
        elif a.type == A.FLOATS:
            vals[name] = [1.0]
        elif a.type == A.STRINGS:
            vals[name] = ["x"]
        else:
            return None, None
    return vals, graphs


def plan(name, since, version, seed):
    """Everything to drive for one schema: layouts x dtype combos x literals.
    -> dict or {"skip": reason}"""
    import onnx

    schema = onnx.defs.get_schema(name, version, "")
    if schema.since_version != since:
        return {"skip": "schema_version_mismatch"}
    formals = describe(schema)
    if not any(f["kind"] == "tensor" for f in formals):
        return {"skip": "no_numeric_tensor_position"}
    attrs, graphs = required_attrs(schema)
    if attrs is None:
        return {"skip": "required_attr_unsupported"}
    lays = layouts(schema, formals)
    if not lays:
        return {"skip": "no_layout"}
    items = []
    for li, lay in enumerate(lays):
        rng = common.rng(PID, seed, "combo", name, since, version, li)
        sharing, why, cs = combos(formals, lay, rng)
        order = list(range(len(LITERALS)))
        rng.shuffle(order)   # order in which the builder meets the literals (its cache has history)
        items.append({"li": li, "lay": lay, "sharing": sharing, "why": why, "combos": cs, "order": order})
    return {"schema": schema, "formals": formals, "attrs": attrs, "graphs": graphs, "items": items}
