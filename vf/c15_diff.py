"""Field-by-field, path-labelled differ for ONNX protos (own code; shares nothing with onnx_ir).

diff(a, b) -> list of Event(kind, path, a, b) with
  kind  "lost"            populated in a, absent in b (value was not the field default)
        "default_vanished" explicitly set to the default in a, absent in b
        "added"           absent in a, populated (non-default) in b
        "default_added"   absent in a, explicitly default in b
        "changed"         populated in both, different value
        "encoding"        a tensor whose element bytes are equal but whose storage field differs (raw vs typed) - informational
  path  tuple of segments, repeated fields that are maps-by-convention are keyed (`initializer[w]`, `metadata_props[k]`,
        `opset_import[dom]`, `functions[dom::name:ovl]`, `attribute[name]`, `value_info[v]`), nodes / inputs / outputs are
        positional but labelled (`node[3:name]`).

Tensors are compared by *content*: (data_type, dims, element bytes decoded from whichever storage field is populated,
name, doc_string, metadata_props, external-data reference).  protobuf 7: FieldDescriptor.label is gone -> fd.is_repeated.
"""
from __future__ import annotations

import struct
from typing import NamedTuple


class Event(NamedTuple):
    kind: str
    path: tuple
    a: object
    b: object

    def pstr(self):
        return ".".join(self.path)

    def pclass(self):
        """Path with keys/indices stripped: the mechanism-level location."""
        return ".".join(s.split("[")[0] for s in self.path)


# repeated message fields that are maps by convention: (message name, field name) -> key function
def _k_name(m):
    return m.name


KEYED = {
    ("GraphProto", "initializer"): _k_name,
    ("GraphProto", "sparse_initializer"): lambda m: m.values.name,
    ("GraphProto", "value_info"): _k_name,
    ("FunctionProto", "value_info"): _k_name,
    ("ModelProto", "opset_import"): lambda m: m.domain,
    ("FunctionProto", "opset_import"): lambda m: m.domain,
    ("ModelProto", "functions"): lambda m: f"{m.domain}::{m.name}:{m.overload}",
    ("NodeProto", "attribute"): _k_name,
    ("FunctionProto", "attribute_proto"): _k_name,
    ("TensorProto", "external_data"): lambda m: m.key,
    ("GraphProto", "quantization_annotation"): lambda m: m.tensor_name,
}
LABELLED = {("GraphProto", "node"), ("FunctionProto", "node"), ("GraphProto", "input"), ("GraphProto", "output")}


def _is_metadata(fd):
    return fd.name == "metadata_props" and fd.message_type is not None and fd.message_type.name == "StringStringEntryProto"


# ---- tensors ------------------------------------------------------------------------------------

# data_type -> (storage field for typed form, pack format per stored element or None)
_T = {
    1: ("float_data", "<f"), 11: ("double_data", "<d"), 6: ("int32_data", "<i"), 7: ("int64_data", "<q"),
    12: ("uint64_data", "<I"), 13: ("uint64_data", "<Q"), 2: ("int32_data", "<B"), 3: ("int32_data", "<b"),
    4: ("int32_data", "<H"), 5: ("int32_data", "<h"), 9: ("int32_data", "<B"), 10: ("int32_data", "<H"), 16: ("int32_data", "<H"),
    17: ("int32_data", "<B"), 18: ("int32_data", "<B"), 19: ("int32_data", "<B"), 20: ("int32_data", "<B"), 24: ("int32_data", "<B"),
    14: ("float_data", "<f"), 15: ("double_data", "<d"),
    # sub-byte types: each int32_data entry holds one packed byte
    21: ("int32_data", "<B"), 22: ("int32_data", "<B"), 23: ("int32_data", "<B"), 25: ("int32_data", "<B"), 26: ("int32_data", "<B"),
}
_SIGNED_PACKED = {3: 0xFF, 5: 0xFFFF}


def tensor_storage(t):
    """Which storage field(s) carry data."""
    out = []
    for f in ("raw_data", "float_data", "int32_data", "string_data", "int64_data", "double_data", "uint64_data"):
        v = getattr(t, f)
        if len(v):
            out.append(f)
    if t.data_location == 1 or len(t.external_data):
        out.append("external")
    return out


def tensor_payload(t, base_dir=None):
    """-> ("bytes", b) | ("strings", [..]) | ("external", descr) | ("undecodable", why): element content of a TensorProto."""
    if t.data_location == 1:
        kv = {e.key: e.value for e in t.external_data}
        return ("external", tuple(sorted(kv.items())))
    if t.data_type == 8:
        return ("strings", [bytes(s) for s in t.string_data])
    if len(t.raw_data):
        return ("bytes", bytes(t.raw_data))
    spec = _T.get(t.data_type)
    if spec is None:
        return ("undecodable", f"data_type {t.data_type}")
    field, fmt = spec
    vals = list(getattr(t, field))
    try:
        if fmt in ("<B", "<H") or t.data_type in (3, 5):
            # stored as int32: take the low bits (bit patterns for f16/bf16/f8, two's complement for signed ints)
            width = struct.calcsize(fmt)
            mask = (1 << (8 * width)) - 1
            return ("bytes", b"".join((int(v) & mask).to_bytes(width, "little") for v in vals))
        return ("bytes", b"".join(struct.pack(fmt, v) for v in vals))
    except (struct.error, OverflowError) as e:
        return ("undecodable", str(e))


def _diff_tensor(a, b, path, out):
    for f in ("data_type", "name", "doc_string", "data_location"):
        _diff_scalar(a, b, a.DESCRIPTOR.fields_by_name[f], path, out)
    if list(a.dims) != list(b.dims):
        out.append(Event("changed", path + ("dims",), list(a.dims), list(b.dims)))
    if a.HasField("segment") or b.HasField("segment"):
        if a.segment != b.segment:
            out.append(Event("changed", path + ("segment",), str(a.segment), str(b.segment)))
    _diff_map(a.metadata_props, b.metadata_props, path + ("metadata_props",), out)
    pa, pb = tensor_payload(a), tensor_payload(b)
    if pa != pb:
        if pa[0] == "external" and pb[0] != "external":
            out.append(Event("changed", path + ("<external_ref_materialised>",), pa[1], pb[0]))
        elif pa[0] != "external" and pb[0] == "external":
            out.append(Event("changed", path + ("<became_external>",), pa[0], pb[1]))
        elif pa[0] == "external":
            out.append(Event("changed", path + ("external_data",), pa[1], pb[1]))
        else:
            out.append(Event("changed", path + ("<payload>",), _short(pa[1]), _short(pb[1])))
    else:
        sa, sb = tensor_storage(a), tensor_storage(b)
        if sa != sb:
            out.append(Event("encoding", path + ("<storage>",), sa, sb))


def _short(v):
    if isinstance(v, (bytes, bytearray)):
        return v[:24].hex() + (f"..({len(v)}B)" if len(v) > 24 else "")
    s = repr(v)
    return s if len(s) < 120 else s[:117] + "..."


# ---- generic ------------------------------------------------------------------------------------

def _diff_map(a, b, path, out):
    da, db = {}, {}
    for e in a:
        da.setdefault(e.key, []).append(e.value)
    for e in b:
        db.setdefault(e.key, []).append(e.value)
    for k in da:
        if k not in db:
            out.append(Event("lost", path[:-1] + (f"{path[-1]}[{k}]",), da[k], None))
        elif da[k] != db[k]:
            out.append(Event("changed", path[:-1] + (f"{path[-1]}[{k}]",), da[k], db[k]))
    for k in db:
        if k not in da:
            out.append(Event("added", path[:-1] + (f"{path[-1]}[{k}]",), None, db[k]))


def _scalar_eq(fd, va, vb):
    if fd.type in (fd.TYPE_FLOAT,):
        return struct.pack("<f", va) == struct.pack("<f", vb)
    if fd.type in (fd.TYPE_DOUBLE,):
        return struct.pack("<d", va) == struct.pack("<d", vb)
    return va == vb


def _diff_scalar(a, b, fd, path, out):
    ha, hb = a.HasField(fd.name), b.HasField(fd.name)
    va, vb = getattr(a, fd.name), getattr(b, fd.name)
    p = path + (fd.name,)
    if ha and hb:
        if not _scalar_eq(fd, va, vb):
            out.append(Event("changed", p, _short(va), _short(vb)))
    elif ha and not hb:
        out.append(Event("default_vanished" if va == fd.default_value else "lost", p, _short(va), None))
    elif hb and not ha:
        out.append(Event("default_added" if vb == fd.default_value else "added", p, None, _short(vb)))


def _label(m, i):
    n = getattr(m, "name", "")
    return f"{i}:{n}" if n else f"{i}"


def diff(a, b, path=(), out=None):
    out = [] if out is None else out
    desc = a.DESCRIPTOR
    if desc is not b.DESCRIPTOR:
        out.append(Event("changed", path + ("<message_type>",), desc.name, b.DESCRIPTOR.name))
        return out
    if desc.name == "TensorProto":
        _diff_tensor(a, b, path, out)
        return out
    for fd in desc.fields:
        va, vb = getattr(a, fd.name), getattr(b, fd.name)
        if fd.is_repeated:
            if _is_metadata(fd):
                _diff_map(va, vb, path + (fd.name,), out)
            elif fd.message_type is not None and (desc.name, fd.name) in KEYED:
                kf = KEYED[(desc.name, fd.name)]
                da, db = {}, {}
                for m in va:
                    da.setdefault(kf(m), []).append(m)
                for m in vb:
                    db.setdefault(kf(m), []).append(m)
                for k, ms in da.items():
                    seg = f"{fd.name}[{k}]"
                    if k not in db:
                        out.append(Event("lost", path + (seg,), _summary(ms[0]), None))
                        continue
                    if len(ms) != len(db[k]):
                        out.append(Event("changed", path + (seg, "<multiplicity>"), len(ms), len(db[k])))
                    diff(ms[0], db[k][0], path + (seg,), out)
                for k, ms in db.items():
                    if k not in da:
                        out.append(Event("added", path + (f"{fd.name}[{k}]",), None, _summary(ms[0])))
            elif fd.message_type is not None:
                n = min(len(va), len(vb))
                for i in range(n):
                    diff(va[i], vb[i], path + (f"{fd.name}[{_label(va[i], i)}]",), out)
                for i in range(n, len(va)):
                    out.append(Event("lost", path + (f"{fd.name}[{_label(va[i], i)}]",), _summary(va[i]), None))
                for i in range(n, len(vb)):
                    out.append(Event("added", path + (f"{fd.name}[{_label(vb[i], i)}]",), None, _summary(vb[i])))
            else:
                la, lb = list(va), list(vb)
                same = len(la) == len(lb) and all(_scalar_eq(fd, x, y) for x, y in zip(la, lb))
                if not same:
                    kind = "lost" if la and not lb else ("added" if lb and not la else "changed")
                    out.append(Event(kind, path + (fd.name,), _short(la), _short(lb)))
        elif fd.message_type is not None:
            ha, hb = a.HasField(fd.name), b.HasField(fd.name)
            if ha and hb:
                diff(va, vb, path + (fd.name,), out)
            elif ha:
                empty = va.ByteSize() == 0
                out.append(Event("default_vanished" if empty else "lost", path + (fd.name,), _summary(va), None))
            elif hb:
                empty = vb.ByteSize() == 0
                out.append(Event("default_added" if empty else "added", path + (fd.name,), None, _summary(vb)))
        else:
            _diff_scalar(a, b, fd, path, out)
    return out


def _summary(m):
    n = m.DESCRIPTOR.name
    if n == "NodeProto":
        return f"{m.domain}::{m.op_type}({','.join(m.input)})->({','.join(m.output)})"
    if n in ("TensorProto", "ValueInfoProto", "FunctionProto", "AttributeProto"):
        return f"{n}:{m.name}"
    if n == "OperatorSetIdProto":
        return f"{m.domain}:{m.version}"
    return n
