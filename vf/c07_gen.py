"""Host-model generator for C07 (self-contained; generation by execution with numpy).

Small typed random DAGs over float32 tensors with static shapes (Add/Sub/Mul/Neg/Relu/Transpose/Split/Concat/MatMul),
with planted — possibly chained / overlapping — instances of a rule's pattern in the main graph, in If / Loop bodies
(depth <= 2, using outer-scope values) and in model-local functions; instance results are used as graph outputs and
inside subgraphs; nodes carry metadata_props.  The plants "reluadd" / "mul1c" write the commutative node of an instance with its operands
in either order (for rules applied with commute=True).  Every value has a numpy example, so declared shapes are the observed ones.
"""
from __future__ import annotations

import numpy as np
import onnx
from onnx import TensorProto, helper, numpy_helper

OPSET = 18
FN_DOMAIN = "c07.local"
CUSTOM_DOMAIN = "custom.c07"

# pattern kinds a host can be seeded with (what `plant` emits)
PLANTS = ("neg", "sub", "add", "mul", "tt", "mul1", "add0", "split", "relu", "subrelu", "negneg", "diamond", "reluadd", "mul1c", "addmul_rl", "addmul_rf")


class Val:
    __slots__ = ("name", "ex", "planted", "const")

    def __init__(self, name, ex, planted=False, const=False):
        self.name, self.ex, self.planted, self.const = name, ex, planted, const

    @property
    def shape(self):
        return tuple(self.ex.shape)


class Ctx:
    """Model-wide state: unique names, rng, counters."""

    def __init__(self, rng, plant, clash_name=None):
        self.rng = rng
        self.plant = plant
        self.k = 0
        self.planted = 0
        self.where = set()
        self.functions = []
        self.clash_name = clash_name
        self.avoid_in_main = ()    # operators the main graph must not contain (nested-only stratum)
        self.force_use = []        # outer values every body must consume (nested-only stratum)
        self.swapped = 0           # planted instances whose commutative node has its operands in the order opposite to the pattern

    def name(self, p="v"):
        self.k += 1
        return f"{p}{self.k}"


class Scope:
    """One graph (main / subgraph body / function body) under construction."""

    def __init__(self, ctx, kind, outer=None, depth=0):
        self.ctx, self.kind, self.outer, self.depth = ctx, kind, outer, depth
        self.vals: list[Val] = []
        self.nodes = []
        self.inits = []
        self.info = {}  # value name -> example (for value_info of outputs)

    # ---- value pools
    def visible(self):
        out = list(self.vals)
        s = self.outer
        while s is not None:
            out += s.vals
            s = s.outer
        return [v for v in out if not v.const]

    def pick(self, pred=None, prefer_planted=0.35):
        rng = self.ctx.rng
        cands = [v for v in self.visible() if v.ex.dtype == np.float32 and (pred is None or pred(v))]
        if not cands:
            return None
        pl = [v for v in cands if v.planted]
        if pl and rng.random() < prefer_planted:
            return rng.choice(pl)
        local = [v for v in cands if v in self.vals]
        if local and rng.random() < 0.6:
            return rng.choice(local)
        return rng.choice(cands)

    def emit(self, op, ins, exs, attrs=None, domain="", planted=False, names=None):
        ctx = self.ctx
        outs = [Val(names[k] if names else ctx.name("v"), np.asarray(e), planted) for k, e in enumerate(exs)]
        node = helper.make_node(op, [i.name if isinstance(i, Val) else i for i in ins], [o.name for o in outs],
                                name=ctx.name("n"), domain=domain, **(attrs or {}))
        if ctx.rng.random() < 0.5:
            mp = node.metadata_props.add()
            mp.key, mp.value = "c07.src", node.name
        self.nodes.append(node)
        self.vals += outs
        return outs

    def scalar_const(self, value):
        """A rank-0 float constant visible to the matcher: initializer (graphs) or Constant node (functions; main graph 30%)."""
        ctx = self.ctx
        if self.kind == "function" or (self.kind == "main" and ctx.rng.random() < 0.3):
            nm = ctx.name("k")
            t = numpy_helper.from_array(np.array(value, dtype=np.float32), nm + "_t")
            self.nodes.append(helper.make_node("Constant", [], [nm], name=ctx.name("n"), value=t))
            v = Val(nm, np.array(value, dtype=np.float32), const=True)
            self.vals.append(v)
            return v
        tgt = self if (self.kind == "main" or ctx.rng.random() < 0.5) else self._main()
        nm = ctx.name("k")
        tgt.inits.append(numpy_helper.from_array(np.array(value, dtype=np.float32), nm))
        v = Val(nm, np.array(value, dtype=np.float32), const=True)
        tgt.vals.append(v)
        return v

    def _main(self):
        s = self
        while s.outer is not None:
            s = s.outer
        return s

    # ---- planting one instance of the rule's pattern; returns the result value(s) or None
    def plant(self):
        ctx, rng = self.ctx, self.ctx.rng
        kind = ctx.plant
        r = None
        if kind in ("neg", "relu"):
            a = self.pick()
            op = "Neg" if kind == "neg" else "Relu"
            r = self.emit(op, [a], [-a.ex if kind == "neg" else np.maximum(a.ex, 0)], planted=True)
        elif kind in ("sub", "add", "mul"):
            a = self.pick()
            b = self.pick(lambda v: v.shape == a.shape) or a
            f = {"sub": np.subtract, "add": np.add, "mul": np.multiply}[kind]
            r = self.emit(kind.capitalize(), [a, b], [f(a.ex, b.ex)], planted=True)
        elif kind == "tt":
            a = self.pick(lambda v: v.ex.ndim in (2, 3), prefer_planted=0.7)   # chains: T3(T2(T1(x)))
            if a is None:
                return None
            n = a.ex.ndim
            perms = [[1, 0], [0, 1]] if n == 2 else [[0, 2, 1], [1, 0, 2], [2, 0, 1], [0, 1, 2]]
            cur = a
            for _ in range(rng.choice([2, 2, 3, 4])):   # longer chains: overlapping instances, applications on nodes an earlier one created
                p = rng.choice(perms)
                cur = self.emit("Transpose", [cur], [np.transpose(cur.ex, p)], {"perm": p}, planted=True)[0]
            r = [cur]
        elif kind in ("mul1", "add0"):
            a = self.pick()
            c = self.scalar_const(1.0 if kind == "mul1" else 0.0)
            if rng.random() < 0.15:  # near miss: wrong constant
                c = self.scalar_const(2.0)
            f, op = (np.multiply, "Mul") if kind == "mul1" else (np.add, "Add")
            r = self.emit(op, [a, c], [f(a.ex, c.ex)], planted=True)
        elif kind == "split":
            a = self.pick(lambda v: any(d % 2 == 0 and d > 0 for d in v.shape))
            if a is None:
                return None
            ax = rng.choice([i for i, d in enumerate(a.shape) if d % 2 == 0 and d > 0])
            h = np.split(a.ex, 2, axis=ax)
            r = self.emit("Split", [a], h, {"axis": ax, "num_outputs": 2}, planted=True)
            if rng.random() < 0.7:
                r = self.emit("Concat", [r[1], r[0]] if rng.random() < 0.5 else [r[0], r[1]], [np.concatenate([h[1], h[0]], axis=ax)], {"axis": ax}, planted=True)
        elif kind == "subrelu":
            a = self.pick()
            b = self.pick(lambda v: v.shape == a.shape) or a
            t = self.emit("Sub", [a, b], [a.ex - b.ex])
            r = self.emit("Relu", [t[0]], [np.maximum(t[0].ex, 0)], planted=True)
            if rng.random() < 0.2:  # the intermediate gets a second use: the instance is no longer removable
                self.emit("Neg", [t[0]], [-t[0].ex])
        elif kind == "diamond":
            a = self.pick()
            b = self.pick(lambda v: v.shape == a.shape) or a
            t = self.emit("Sub", [a, b], [a.ex - b.ex])
            u = self.emit("Relu", [t[0]], [np.maximum(t[0].ex, 0)])
            w = self.emit("Neg", [t[0]], [-t[0].ex])
            r = self.emit("Add", [u[0], w[0]], [u[0].ex + w[0].ex], planted=True)
            if rng.random() < 0.2:  # an intermediate gets a use outside: the instance is no longer removable
                self.emit("Neg", [u[0]], [-u[0].ex])
        elif kind == "reluadd":
            # Add(Relu(a), b) with the operands of the commutative node in EITHER order (commute=True workloads)
            a = self.pick()
            b = self.pick(lambda v: v.shape == a.shape) or a
            t = self.emit("Relu", [a], [np.maximum(a.ex, 0)])
            if rng.random() < 0.03:  # the free operand IS the instance's own intermediate: Add(r, r) with r = Relu(a)
                b = t[0]
            swap = rng.random() < 0.55
            r = self.emit("Add", [b, t[0]] if swap else [t[0], b], [t[0].ex + b.ex], planted=True)
            ctx.swapped += int(swap)
            if rng.random() < 0.2:  # the intermediate gets a second use: the instance is no longer removable
                self.emit("Neg", [t[0]], [-t[0].ex])
        elif kind == "mul1c":
            # Mul(a, 1) / Mul(1, a): a constant operand on either side of a commutative node
            a = self.pick()
            c = self.scalar_const(1.0)
            if rng.random() < 0.2:  # near miss: wrong constant
                c = self.scalar_const(2.0)
            swap = rng.random() < 0.55
            r = self.emit("Mul", [c, a] if swap else [a, c], [a.ex * c.ex], planted=True)
            ctx.swapped += int(swap)
        elif kind in ("addmul_rl", "addmul_rf"):
            # an instance of a pattern with TWO output nodes, Add(x, y) and Mul(x, z): the two matched nodes in either order,
            # and (half of the time) an operand of the LATER one produced between them - where the replacement is inserted
            # decides whether the result is still topologically sorted
            a = self.pick()
            b = self.pick(lambda v: v.shape == a.shape) or a
            c = self.pick(lambda v: v.shape == a.shape) or a
            # _rl: the pattern's root (Add, its first output node) comes LAST in the graph; _rf: it comes FIRST
            order = "mul_first" if kind == "addmul_rl" else "add_first"
            inter = rng.random() < 0.6
            if order == "mul_first":
                m = self.emit("Mul", [a, c], [a.ex * c.ex], planted=True)
                if inter:
                    b = self.emit("Neg", [b], [-b.ex])[0]
                r = self.emit("Add", [a, b], [a.ex + b.ex], planted=True)
            else:
                s_ = self.emit("Add", [a, b], [a.ex + b.ex], planted=True)
                if inter:
                    c = self.emit("Neg", [c], [-c.ex])[0]
                m = self.emit("Mul", [a, c], [a.ex * c.ex], planted=True)
                r = s_
            # both results stay alive
            r = self.emit("Sub", [r[0], m[0]], [r[0].ex - m[0].ex])
        elif kind == "negneg":
            a = self.pick()
            t = self.emit("Neg", [a], [-a.ex])
            r = self.emit("Neg", [t[0]], [a.ex.copy()], planted=True)
            if rng.random() < 0.2:
                self.emit("Relu", [t[0]], [np.maximum(t[0].ex, 0)])
        if r is not None:
            ctx.planted += 1
            ctx.where.add(self.kind if self.kind != "body" else f"body{self.depth}")
        return r

    # ---- one random ordinary node
    def random_node(self):
        rng = self.ctx.rng
        ops = ["Add", "Sub", "Mul", "Neg", "Relu", "Transpose", "Split", "Concat", "MatMul"]
        if self.kind == "main" and self.ctx.avoid_in_main:
            ops = [o for o in ops if o not in self.ctx.avoid_in_main]
        op = rng.choice(ops)
        if op in ("Add", "Sub", "Mul"):
            a = self.pick()
            b = self.pick(lambda v: v.shape == a.shape or v.shape == a.shape[-1:]) or a
            f = {"Add": np.add, "Sub": np.subtract, "Mul": np.multiply}[op]
            return self.emit(op, [a, b], [f(a.ex, b.ex)])
        if op in ("Neg", "Relu"):
            a = self.pick()
            return self.emit(op, [a], [-a.ex if op == "Neg" else np.maximum(a.ex, 0)])
        if op == "Transpose":
            a = self.pick(lambda v: v.ex.ndim == 2)
            if a is None:
                return None
            return self.emit(op, [a], [a.ex.T], {"perm": [1, 0]})
        if op == "Split":
            a = self.pick(lambda v: any(d % 2 == 0 and d > 0 for d in v.shape))
            if a is None:
                return None
            ax = rng.choice([i for i, d in enumerate(a.shape) if d % 2 == 0 and d > 0])
            return self.emit(op, [a], np.split(a.ex, 2, axis=ax), {"axis": ax, "num_outputs": 2})
        if op == "Concat":
            a = self.pick(lambda v: v.ex.ndim >= 1 and v.ex.size <= 64)
            if a is None:
                return None
            b = self.pick(lambda v: v.shape == a.shape) or a
            ax = rng.randrange(a.ex.ndim)
            return self.emit(op, [a, b], [np.concatenate([a.ex, b.ex], axis=ax)], {"axis": ax})
        if op == "MatMul":
            a = self.pick(lambda v: v.ex.ndim == 2)
            if a is None:
                return None
            b = self.pick(lambda v: v.ex.ndim == 2 and v.shape[0] == a.shape[1])
            if b is None:
                return None
            return self.emit(op, [a, b], [(a.ex @ b.ex).astype(np.float32)])
        return None

    def grow(self, n_nodes, n_plants):
        rng = self.ctx.rng
        slots = ["p"] * n_plants + ["r"] * n_nodes
        rng.shuffle(slots)
        last = None
        for s in slots:
            if s == "p":
                r = self.plant()
                if r is not None and last is not None and rng.random() < 0.0:
                    pass
                last = r or last
            else:
                self.random_node()


def _vi(name, ex):
    tt = {np.dtype("float32"): TensorProto.FLOAT, np.dtype("int64"): TensorProto.INT64, np.dtype("bool"): TensorProto.BOOL}[np.asarray(ex).dtype]
    return helper.make_tensor_value_info(name, tt, list(np.asarray(ex).shape))


def _prune(nodes, out_names, always=()):
    """Drop nodes that do not contribute to `out_names` (subgraph uses count as uses)."""
    def used_in(node):
        names = set(node.input)
        for a in node.attribute:
            for g in ([a.g] if a.HasField("g") else []) + list(a.graphs):
                for n2 in g.node:
                    names |= used_in(n2)
                names |= {o.name for o in g.output}
        return names

    live, keep = set(out_names) | set(always), []
    for n in reversed(nodes):
        if any(o in live for o in n.output):
            keep.append(n)
            live |= used_in(n)
    keep.reverse()
    return keep


def _body(ctx, outer, shape, depth, n_plants):
    """A subgraph body computing one float value of `shape` from outer-scope values.  -> (scope, out Val)"""
    rng = ctx.rng
    sc = Scope(ctx, "body", outer, depth)
    seed = sc.pick(lambda v: v.shape == shape)
    first = sc.emit("Neg", [seed], [-seed.ex])  # guarantees a local value of the right shape
    sc.grow(rng.randint(0, 3), n_plants)
    if depth < 2 and rng.random() < 0.35:
        _control_flow(sc, depth + 1)
    cands = [v for v in sc.vals if v.shape == shape and not v.const and v.ex.dtype == np.float32]
    out = rng.choice([v for v in cands if v.planted] or cands)
    # combine so that as much as possible stays live
    others = [v for v in cands if v is not out]
    if others and rng.random() < 0.7:
        o2 = rng.choice(others)
        out = sc.emit("Add", [out, o2], [out.ex + o2.ex])[0]
    for fv in ctx.force_use:
        if fv.shape == shape:
            out = sc.emit("Max", [out, fv], [np.maximum(out.ex, fv.ex)])[0]
    return sc, out


def _graph_proto(sc, name, inputs, outputs):
    nodes = _prune(sc.nodes, [o.name for o in outputs])
    used = set()
    for n in nodes:
        used |= set(n.input)
    return helper.make_graph(nodes, name, inputs, [_vi(o.name, o.ex) for o in outputs], initializer=[t for t in sc.inits])


def _control_flow(sc, depth, v=None, min_plants=0):
    """Append an If or a Loop node to scope `sc` whose bodies use outer-scope values and contain planted instances."""
    ctx, rng = sc.ctx, sc.ctx.rng
    v = v or sc.pick()
    if v is None:
        return None
    shape = v.shape
    if rng.random() < 0.6:
        cond = sc._main().cond
        t_sc, t_out = _body(ctx, sc, shape, depth, rng.randint(min_plants, 2))
        e_sc, e_out = _body(ctx, sc, shape, depth, rng.randint(0, 2))
        tg = _graph_proto(t_sc, ctx.name("then"), [], [t_out])
        eg = _graph_proto(e_sc, ctx.name("else"), [], [e_out])
        return sc.emit("If", [cond], [t_out.ex], {"then_branch": tg, "else_branch": eg})
    # Loop(M, cond, v0) with body (i, c, v) -> (c, v')
    main = sc._main()
    if not hasattr(main, "trip"):
        main.inits.append(numpy_helper.from_array(np.array(2, dtype=np.int64), "c07_trip"))
        main.inits.append(numpy_helper.from_array(np.array(True), "c07_true"))
        main.trip = True
    b = Scope(ctx, "body", sc, depth)
    i_n, c_n, v_n = ctx.name("it"), ctx.name("cin"), ctx.name("carry")
    carried = Val(v_n, v.ex.copy())
    b.vals.append(carried)
    b.grow(rng.randint(0, 2), rng.randint(min_plants, 2))
    if depth < 2 and rng.random() < 0.3:
        _control_flow(b, depth + 1)
    cands = [x for x in b.vals if x.shape == shape and not x.const and x is not carried]
    if cands:
        pl = [x for x in cands if x.planted]
        nxt = rng.choice(pl or cands)
        nxt = b.emit("Add", [nxt, carried], [nxt.ex + carried.ex])[0] if rng.random() < 0.5 else nxt
    else:
        nxt = b.emit("Neg", [carried], [-carried.ex])[0]
    for fv in ctx.force_use:
        if fv.shape == shape:
            nxt = b.emit("Max", [nxt, fv], [np.maximum(nxt.ex, fv.ex)])[0]
    cout = ctx.name("cout")
    b.nodes.append(helper.make_node("Identity", [c_n], [cout], name=ctx.name("n")))
    nodes = _prune(b.nodes, [cout, nxt.name])
    body = helper.make_graph(nodes, ctx.name("loop"),
                             [_vi(i_n, np.array(0, dtype=np.int64)), _vi(c_n, np.array(True)), _vi(v_n, carried.ex)],
                             [_vi(cout, np.array(True)), _vi(nxt.name, nxt.ex)], initializer=list(b.inits))
    return sc.emit("Loop", ["c07_trip", "c07_true", v], [nxt.ex], {"body": body})


def _function(ctx, main, n_plants):
    """A model-local function over two float parameters, flat body with planted instances; returns (FunctionProto, args, example)."""
    rng = ctx.rng
    a = main.pick()
    b = main.pick(lambda v: v.shape == a.shape) or a
    f = Scope(ctx, "function", None, 0)
    pa, pb = Val(ctx.name("fp"), a.ex.copy()), Val(ctx.name("fp"), b.ex.copy())
    f.vals += [pa, pb]
    f.grow(rng.randint(0, 3), n_plants)
    cands = [v for v in f.vals if v not in (pa, pb) and not v.const]
    if not cands:
        cands = f.emit("Add", [pa, pb], [pa.ex + pb.ex])
    pl = [v for v in cands if v.planted]
    out = rng.choice(pl or cands)
    nodes = _prune(f.nodes, [out.name])
    fname = ctx.name("F")
    fp = helper.make_function(FN_DOMAIN, fname, [pa.name, pb.name], [out.name], nodes, [helper.make_opsetid("", OPSET)])
    return fp, fname, [a, b], out.ex


ROOT_OPS = {"neg": ("Neg",), "sub": ("Sub",), "add": ("Add",), "mul": ("Mul",), "tt": ("Transpose",), "mul1": ("Mul",), "add0": ("Add",),
            "split": ("Split",), "relu": ("Relu",), "subrelu": ("Relu", "Sub"), "negneg": ("Neg",), "diamond": ("Add", "Sub"),
            "reluadd": ("Add", "Relu"), "mul1c": ("Mul",), "addmul_rl": ("Add", "Mul"), "addmul_rf": ("Add", "Mul")}


def make_host(rng, plant, *, n_nodes=6, k_plants=2, subgraphs=True, functions=True, clash_name=None, custom_fn=False, nested_only=False,
              prior_overload=None):
    """-> (ModelProto, info) ; info = {"planted": k, "where": [...], "inputs": {name: shape|"bool"}}."""
    ctx = Ctx(rng, plant, clash_name)
    main = Scope(ctx, "main")
    shapes = rng.choice([[(2, 4), (2, 4), (4, 2)], [(4, 4), (4, 4), (4,)], [(2, 2, 4), (2, 2, 4), (2, 4)], [(2, 4), (4, 2), (2, 4)]])
    gin = []
    for i, s in enumerate(shapes):
        v = Val(f"x{i}", np.asarray(np.random.default_rng(rng.randrange(1 << 30)).standard_normal(s), dtype=np.float32))
        main.vals.append(v)
        gin.append(v)
    main.cond = "cnd"
    if nested_only:
        # every instance lives in an If/Loop body; the enclosing graph owns values literally called val_0 / val_1 (the default
        # onnx_ir / exporter naming) that the bodies consume
        ctx.avoid_in_main = ROOT_OPS[plant]
        v0 = main.emit("Abs", [gin[0]], [np.abs(gin[0].ex)], names=["val_0"])[0]
        v1 = main.emit("Abs", [gin[1]], [np.abs(gin[1].ex)], names=["val_1"])[0]
        ctx.force_use = [v0, v1]
        for _ in range(rng.randint(0, 3)):
            main.random_node()
        for tgt in ([v0, v1] if rng.random() < 0.5 else [v0]):
            _control_flow(main, 1, v=tgt, min_plants=1)
        ctx.force_use = []
        for _ in range(rng.randint(0, 2)):
            main.random_node()
        k_plants, n_nodes, subgraphs, functions = 0, 0, False, False
    if clash_name:  # an initializer the replacement's new initializer will collide with; it is used by a node
        main.inits.append(numpy_helper.from_array(np.array(3.0, dtype=np.float32), clash_name))
        cv = Val(clash_name, np.array(3.0, dtype=np.float32), const=True)
        a = main.pick()
        main.emit("Mul", [a, cv], [a.ex * 3.0])
    prior_fn = None
    if prior_overload:
        # the model already owns a function <fused domain>::<name> under overload "2" only (overload "1" was pruned earlier):
        # a function extracted by as_function must get a FREE overload id and leave this one alone; its call is a graph output
        a = main.pick()
        b = main.pick(lambda v: v.shape == a.shape) or a
        pv = Val(ctx.name("v"), np.asarray(a.ex * b.ex + 1.0))
        main.nodes.append(helper.make_node(prior_overload, [a.name, b.name], [pv.name], name=ctx.name("n"), domain="c07.fused", overload="2"))
        main.vals.append(pv)
        one = numpy_helper.from_array(np.array(1.0, dtype=np.float32), "po_one_t")
        prior_fn = helper.make_function("c07.fused", prior_overload, ["po_x", "po_y"], ["po_z"],
                                        [helper.make_node("Mul", ["po_x", "po_y"], ["po_m"]),
                                         helper.make_node("Constant", [], ["po_one"], value=one),
                                         helper.make_node("Add", ["po_m", "po_one"], ["po_z"])],
                                        [helper.make_opsetid("", OPSET)], overload="2")
    steps = ["p"] * k_plants + ["r"] * n_nodes
    if subgraphs:
        steps += ["cf"] * rng.choice([0, 1, 1, 2])
    if functions:
        steps += ["fn"] * rng.choice([0, 0, 1])
    rng.shuffle(steps)
    for s in steps:
        if s == "p":
            main.plant()
        elif s == "r":
            main.random_node()
        elif s == "cf":
            _control_flow(main, 1)
        else:
            fp, fname, args, ex = _function(ctx, main, rng.randint(0, 2))
            ctx.functions.append(fp)
            main.emit(fname, args, [ex], domain=FN_DOMAIN)
    # graph outputs: every value nobody consumes (nothing is dead), plus sometimes a consumed planted value
    consumed = set()

    def collect(nodes):
        for n in nodes:
            consumed.update(n.input)
            for a in n.attribute:
                for g in ([a.g] if a.HasField("g") else []) + list(a.graphs):
                    collect(g.node)

    collect(main.nodes)
    produced = [v for v in main.vals if v not in gin and not v.const]
    outs = [v for v in produced if v.name not in consumed]
    extra = [v for v in produced if v.planted and v.name in consumed]
    if extra and rng.random() < 0.4:
        outs.append(rng.choice(extra))
    if not outs:
        outs = produced[-1:]
    if not outs:
        return None
    inputs = [_vi(v.name, v.ex) for v in gin] + [_vi("cnd", np.array(True))]
    g = helper.make_graph(main.nodes, "c07_host", inputs, [_vi(o.name, o.ex) for o in outs], initializer=list(main.inits))
    imports = [helper.make_opsetid("", OPSET)]
    fns = list(ctx.functions)
    if fns:
        imports.append(helper.make_opsetid(FN_DOMAIN, 1))
    if prior_fn is not None:
        fns.append(prior_fn)
        imports.append(helper.make_opsetid("c07.fused", 1))
    if custom_fn:  # the function a custom-domain replacement will call; no node uses it yet, the domain is not imported
        zt = numpy_helper.from_array(np.array(0.0, dtype=np.float32), "cz_t")  # body must not itself be an instance of Relu(x)
        fns.append(helper.make_function(CUSTOM_DOMAIN, "Relu", ["cx"], ["cy"],
                                        [helper.make_node("Constant", [], ["cz"], value=zt), helper.make_node("Max", ["cx", "cz"], ["cy"])],
                                        [helper.make_opsetid("", OPSET)]))
    m = helper.make_model(g, opset_imports=imports, functions=fns, ir_version=10)
    info = {"planted": ctx.planted, "where": sorted(ctx.where), "swapped": ctx.swapped,
            "inputs": {v.name: list(v.shape) for v in gin}}
    return m, info


def feeds(info, rng_seed):
    """Three input sets: normal, {0, +-1, negatives}, large magnitude; the If condition is True / False / True."""
    out = []
    for k in range(3):
        r = np.random.default_rng(rng_seed * 3 + k)
        f = {}
        for name, shape in info["inputs"].items():
            if k == 0:
                a = r.standard_normal(shape)
            elif k == 1:
                a = r.choice(np.array([0.0, 1.0, -1.0, -2.5, 0.5]), size=shape)
            else:
                a = r.standard_normal(shape) * 1e3
            f[name] = np.asarray(a, dtype=np.float32)
        f["cnd"] = np.array(k != 1)
        out.append(f)
    return out
