"""C08 end-to-end driver: fixed compositions of 2-5 covered ops as an nn.Module, torch.onnx.export(dynamo=True),
ORT vs eager.  The *structure* of module i (ops, shapes, parameters) depends only on i; VERIF_SEED picks the input
values.  Every intermediate value is a module output, so the first deviating output names the op (mechanism key).
"""
from __future__ import annotations

import io

from . import common, compare, runner

_T = None


def _templates():
    """name -> (arity, pred(vals) -> bool, fn(vals, mod) -> tensor, class label).  vals are torch tensors (eager or traced)."""
    global _T
    if _T is not None:
        return _T
    import torch
    import torch.nn.functional as F

    T = {}

    def isf(v):
        return v.dtype in (torch.float32, torch.float64)

    def isi(v):
        return v.dtype in (torch.int64, torch.int32)

    def isb(v):
        return v.dtype == torch.bool

    def add(name, arity, pred, fn, cls=""):
        T[name] = (arity, pred, fn, cls)

    f1 = lambda v: isf(v[0])
    r1 = lambda v: isf(v[0]) and v[0].dim() >= 1
    r2 = lambda v: isf(v[0]) and v[0].dim() >= 2
    # ---- unary
    for nm, fn in [("relu", torch.relu), ("sigmoid", torch.sigmoid), ("tanh", torch.tanh), ("abs", torch.abs), ("neg", torch.neg),
                   ("floor", torch.floor), ("ceil", torch.ceil), ("round", torch.round), ("sign", torch.sign), ("erf", torch.erf),
                   ("sin", torch.sin), ("cos", torch.cos), ("silu", F.silu), ("gelu", F.gelu), ("softplus", F.softplus),
                   ("hardswish", F.hardswish), ("hardsigmoid", F.hardsigmoid), ("mish", F.mish), ("selu", F.selu), ("relu6", F.relu6)]:
        add(nm, 1, f1, (lambda v, m, fn=fn: fn(v[0])))
    add("gelu_tanh", 1, f1, lambda v, m: F.gelu(v[0], approximate="tanh"), "approximate=tanh")
    add("leaky_relu", 1, f1, lambda v, m: F.leaky_relu(v[0], 0.2), "slope=0.2")
    add("elu", 1, f1, lambda v, m: F.elu(v[0], alpha=0.5), "alpha=0.5")
    add("celu", 1, f1, lambda v, m: F.celu(v[0], alpha=2.0), "alpha=2")
    add("hardtanh", 1, f1, lambda v, m: F.hardtanh(v[0], -0.5, 1.5), "min-max")
    add("exp_clamped", 1, f1, lambda v, m: torch.exp(torch.clamp(v[0], -3.0, 3.0)), "clamp-then-exp")
    add("sqrt_abs", 1, f1, lambda v, m: torch.sqrt(torch.abs(v[0])), "")
    add("rsqrt_abs1", 1, f1, lambda v, m: torch.rsqrt(torch.abs(v[0]) + 1.0), "")
    add("log1p_abs", 1, f1, lambda v, m: torch.log1p(torch.abs(v[0])), "")
    add("log_abs1", 1, f1, lambda v, m: torch.log(torch.abs(v[0]) + 1.0), "")
    add("reciprocal_abs1", 1, f1, lambda v, m: torch.reciprocal(torch.abs(v[0]) + 1.0), "")
    add("clamp", 1, f1, lambda v, m: torch.clamp(v[0], -1.0, 2.0), "min-max")
    add("clamp_min", 1, f1, lambda v, m: torch.clamp(v[0], min=0.25), "min-only")
    add("clamp_max", 1, f1, lambda v, m: torch.clamp(v[0], max=0.5), "max-only")
    add("clamp_int_bounds", 1, f1, lambda v, m: torch.clamp(v[0], -1, 1), "pyint-bounds")
    add("logical_not", 1, lambda v: True, lambda v, m: torch.logical_not(v[0]), "")
    add("bitwise_not_int", 1, lambda v: isi(v[0]) or isb(v[0]), lambda v, m: torch.bitwise_not(v[0]), "")
    add("int_abs_neg", 1, lambda v: isi(v[0]), lambda v, m: torch.neg(torch.abs(v[0])), "int")
    # ---- scalar operand
    add("add_pyfloat", 1, f1, lambda v, m: v[0] + 1.5, "pyfloat-rhs")
    add("add_pyint", 1, lambda v: isf(v[0]) or isi(v[0]), lambda v, m: v[0] + 2, "pyint-rhs")
    add("rsub_pyint", 1, lambda v: isf(v[0]) or isi(v[0]), lambda v, m: 3 - v[0], "pyint-lhs")
    add("mul_pyfloat", 1, lambda v: isf(v[0]) or isi(v[0]), lambda v, m: v[0] * 0.5, "pyfloat-rhs")
    add("div_pyint", 1, lambda v: isf(v[0]) or isi(v[0]), lambda v, m: v[0] / 2, "pyint-rhs")
    add("div_floor_pyint", 1, lambda v: isf(v[0]) or isi(v[0]), lambda v, m: torch.div(v[0], 2, rounding_mode="floor"), "mode=floor/pyint-rhs")
    add("div_trunc_pyint", 1, lambda v: isf(v[0]) or isi(v[0]), lambda v, m: torch.div(v[0], 2, rounding_mode="trunc"), "mode=trunc/pyint-rhs")
    add("floordiv_pyint", 1, lambda v: isf(v[0]) or isi(v[0]), lambda v, m: v[0] // 3, "pyint-rhs")
    add("remainder_pyint", 1, lambda v: isf(v[0]) or isi(v[0]), lambda v, m: v[0] % 3, "pyint-rhs")
    add("remainder_neg_pyfloat", 1, f1, lambda v, m: torch.remainder(v[0], -1.5), "negative-pyfloat-rhs")
    add("fmod_pyfloat", 1, f1, lambda v, m: torch.fmod(v[0], 1.5), "pyfloat-rhs")
    add("pow2", 1, lambda v: isf(v[0]) or isi(v[0]), lambda v, m: v[0] ** 2, "exp=2")
    add("pow_half_abs", 1, f1, lambda v, m: torch.abs(v[0]) ** 0.5, "exp=0.5")
    add("pow_scalar_base", 1, f1, lambda v, m: 2.0 ** torch.clamp(v[0], -3.0, 3.0), "scalar-base")
    add("add_alpha", 2, lambda v: isf(v[0]) and _bc(v[0], v[1]) and v[1].dtype == v[0].dtype, lambda v, m: torch.add(v[0], v[1], alpha=2), "alpha=2")
    add("sub_alpha", 2, lambda v: isf(v[0]) and _bc(v[0], v[1]) and v[1].dtype == v[0].dtype, lambda v, m: torch.sub(v[0], v[1], alpha=0.5), "alpha=0.5")
    add("gt_pyfloat", 1, lambda v: isf(v[0]) or isi(v[0]), lambda v, m: v[0] > 0.5, "pyfloat-rhs")
    add("le_pyint", 1, lambda v: isf(v[0]) or isi(v[0]), lambda v, m: v[0] <= 1, "pyint-rhs")
    add("eq_pyint", 1, lambda v: isf(v[0]) or isi(v[0]), lambda v, m: v[0] == 0, "pyint-rhs")
    add("ne_pyint", 1, lambda v: isf(v[0]) or isi(v[0]), lambda v, m: v[0] != 1, "pyint-rhs")
    add("masked_fill", 1, f1, lambda v, m: v[0].masked_fill(v[0] > 0.5, -1.0), "pyfloat-value")
    add("masked_fill_int_value", 1, f1, lambda v, m: v[0].masked_fill(v[0] < 0, 2), "pyint-value")
    add("where_scalar_other", 1, f1, lambda v, m: torch.where(v[0] > 0, v[0], 0.0), "ScalarOther")
    add("where_scalars", 1, lambda v: True, lambda v, m: torch.where(v[0] > 0, 1.0, -1.0), "Scalar")
    add("to_int", 1, f1, lambda v, m: torch.round(torch.clamp(v[0], -100.0, 100.0)).to(torch.int64), "f->i64-integral")
    add("to_float", 1, lambda v: isi(v[0]) or isb(v[0]), lambda v, m: v[0].to(torch.float32), "to-f32")
    add("to_double", 1, f1, lambda v, m: v[0].to(torch.float64), "to-f64")
    add("to_int32", 1, lambda v: isi(v[0]), lambda v, m: v[0].to(torch.int32), "to-i32")
    # ---- binary over two pool values (broadcast compatible)
    bc = lambda v: _bc(v[0], v[1]) and (isf(v[0]) or isi(v[0])) and (isf(v[1]) or isi(v[1]))
    bcf = lambda v: _bc(v[0], v[1]) and isf(v[0]) and isf(v[1])
    for nm, fn in [("add", torch.add), ("sub", torch.sub), ("mul", torch.mul), ("maximum", torch.maximum), ("minimum", torch.minimum)]:
        add(nm, 2, bc, (lambda v, m, fn=fn: fn(v[0], v[1])), "tensor-tensor")
    add("div_abs1", 2, bc, lambda v, m: v[0] / (torch.abs(v[1]) + 1), "tensor-tensor")
    add("floor_divide_abs1", 2, bc, lambda v, m: torch.floor_divide(v[0], torch.abs(v[1]) + 1), "tensor-tensor")
    add("remainder_abs1", 2, bc, lambda v, m: torch.remainder(v[0], torch.abs(v[1]) + 1), "tensor-tensor")
    add("atan2", 2, bcf, lambda v, m: torch.atan2(v[0], torch.abs(v[1]) + 0.5), "x>0")
    add("lt", 2, bc, lambda v, m: v[0] < v[1], "tensor-tensor")
    add("ge", 2, bc, lambda v, m: v[0] >= v[1], "tensor-tensor")
    add("eq", 2, bc, lambda v, m: v[0] == v[1], "tensor-tensor")
    add("where", 2, bc, lambda v, m: torch.where(v[0] > v[1], v[0], v[1]), "self")
    add("logical_and", 2, lambda v: _bc(v[0], v[1]), lambda v, m: torch.logical_and(v[0], v[1]), "")
    add("logical_or", 2, lambda v: _bc(v[0], v[1]), lambda v, m: torch.logical_or(v[0], v[1]), "")
    add("bitwise_and_bool", 2, lambda v: _bc(v[0], v[1]) and isb(v[0]) and isb(v[1]), lambda v, m: v[0] & v[1], "bool")
    add("bitwise_xor_int", 2, lambda v: _bc(v[0], v[1]) and isi(v[0]) and isi(v[1]), lambda v, m: v[0] ^ v[1], "int")
    add("addcmul", 2, bcf, lambda v, m: torch.addcmul(v[0], v[0], v[1], value=0.5), "value=0.5")
    add("lerp", 2, lambda v: bcf(v) and v[0].dtype == v[1].dtype, lambda v, m: torch.lerp(v[0], v[1], 0.25), "Scalar")
    # ---- reductions
    for nm, fn in [("sum", torch.sum), ("mean", torch.mean), ("amax", torch.amax), ("amin", torch.amin), ("logsumexp", torch.logsumexp)]:
        add(f"{nm}_lastdim", 1, r1, (lambda v, m, fn=fn: fn(v[0], -1)), "dim=-1")
        add(f"{nm}_dim0_keepdim", 1, r2, (lambda v, m, fn=fn: fn(v[0], 0, keepdim=True)), "dim=0/keepdim")
        add(f"{nm}_negrank", 1, r2, (lambda v, m, fn=fn: fn(v[0], -v[0].dim())), "dim=-rank")
    add("sum_all", 1, lambda v: isf(v[0]) or isi(v[0]), lambda v, m: torch.sum(v[0]), "full")
    add("sum_multi", 1, r2, lambda v, m: torch.sum(v[0], dim=(0, -1)), "dims=multi")
    add("sum_int", 1, lambda v: isi(v[0]) and v[0].dim() >= 1, lambda v, m: torch.sum(v[0], -1), "int/dim=-1")
    add("sum_bool", 1, lambda v: isb(v[0]) and v[0].dim() >= 1, lambda v, m: torch.sum(v[0], -1), "bool/dim=-1")
    add("sum_dtype", 1, r1, lambda v, m: torch.sum(v[0], -1, dtype=torch.float64), "dtype=f64")
    add("mean_all", 1, f1, lambda v, m: torch.mean(v[0]), "full")
    add("mean_multi_keepdim", 1, r2, lambda v, m: torch.mean(v[0], dim=(-2, -1), keepdim=True), "dims=multi/keepdim")
    add("max_dim", 1, r1, lambda v, m: torch.max(v[0], dim=-1)[0], "values")
    add("min_dim_keepdim", 1, r1, lambda v, m: torch.min(v[0], dim=0, keepdim=True)[0], "values/keepdim")
    add("max_all", 1, f1, lambda v, m: torch.max(v[0]), "full")
    add("argmax", 1, r1, lambda v, m: torch.argmax(v[0], dim=-1), "dim=-1")
    add("argmin_keepdim", 1, r1, lambda v, m: torch.argmin(v[0], dim=0, keepdim=True), "dim=0/keepdim")
    add("argmax_flat", 1, f1, lambda v, m: torch.argmax(v[0]), "dim=None")
    add("prod_lastdim", 1, r1, lambda v, m: torch.prod(torch.clamp(v[0], -1.5, 1.5), -1), "dim=-1")
    add("all_dim", 1, lambda v: v[0].dim() >= 1, lambda v, m: torch.all(v[0] > 0, dim=-1), "dim=-1")
    add("any_all", 1, lambda v: True, lambda v, m: torch.any(v[0] > 0), "full")
    add("cumsum", 1, r1, lambda v, m: torch.cumsum(v[0], dim=-1), "dim=-1")
    add("cumsum_dim0", 1, r2, lambda v, m: torch.cumsum(v[0], dim=0), "dim=0")
    add("cumsum_int", 1, lambda v: isi(v[0]) and v[0].dim() >= 1, lambda v, m: torch.cumsum(v[0], dim=0), "int")
    add("var", 1, lambda v: r1(v) and v[0].shape[-1] > 1, lambda v, m: torch.var(v[0], dim=-1), "dim=-1")
    add("std_unbiased_false", 1, lambda v: r1(v) and v[0].shape[-1] > 1, lambda v, m: torch.std(v[0], dim=-1, unbiased=False, keepdim=True), "correction=0/keepdim")
    add("norm", 1, r1, lambda v, m: torch.linalg.vector_norm(v[0], ord=2, dim=-1), "ord=2")
    add("norm1_keepdim", 1, r1, lambda v, m: torch.linalg.vector_norm(v[0], ord=1, dim=-1, keepdim=True), "ord=1/keepdim")
    add("softmax", 1, r1, lambda v, m: torch.softmax(v[0], dim=-1), "dim=-1")
    add("softmax_dim0", 1, r2, lambda v, m: torch.softmax(v[0], dim=0), "dim=0")
    add("log_softmax", 1, r1, lambda v, m: torch.log_softmax(v[0], dim=-1), "dim=-1")
    add("log_softmax_negrank", 1, r2, lambda v, m: torch.log_softmax(v[0], dim=-v[0].dim()), "dim=-rank")
    add("topk_values", 1, lambda v: r1(v) and v[0].shape[-1] >= 2, lambda v, m: torch.topk(v[0], 2, dim=-1)[0], "k=2")
    add("sort_values", 1, r1, lambda v, m: torch.sort(v[0], dim=-1, descending=True)[0], "descending")
    # ---- shapes
    add("reshape_flat", 1, lambda v: v[0].dim() >= 1, lambda v, m: v[0].reshape(-1), "minus1")
    add("reshape_2d", 1, lambda v: v[0].dim() >= 2, lambda v, m: v[0].reshape(v[0].shape[0], -1), "keep-first")
    add("flatten", 1, lambda v: v[0].dim() >= 2, lambda v, m: torch.flatten(v[0], 1), "start=1")
    add("flatten_neg", 1, lambda v: v[0].dim() >= 3, lambda v, m: torch.flatten(v[0], -2, -1), "negative")
    add("transpose", 1, lambda v: v[0].dim() >= 2, lambda v, m: v[0].transpose(0, -1), "0,-1")
    add("permute", 1, lambda v: v[0].dim() == 3, lambda v, m: v[0].permute(2, 0, 1), "r3")
    add("permute_neg", 1, lambda v: v[0].dim() == 3, lambda v, m: v[0].permute(-1, -3, -2), "negative")
    add("t", 1, lambda v: v[0].dim() == 2, lambda v, m: v[0].t(), "r2")
    add("mT", 1, lambda v: v[0].dim() >= 2 and (isf(v[0]) or isi(v[0])), lambda v, m: v[0].mT, "")
    add("unsqueeze0", 1, lambda v: True, lambda v, m: v[0].unsqueeze(0), "dim=0")
    add("unsqueeze_neg", 1, lambda v: True, lambda v, m: v[0].unsqueeze(-1), "dim=-1")
    add("squeeze_after_keepdim", 1, r2, lambda v, m: torch.sum(v[0], 0, keepdim=True).squeeze(0), "dim=0")
    add("squeeze_all", 1, lambda v: True, lambda v, m: v[0].unsqueeze(0).squeeze(), "no-dim")
    add("expand", 1, lambda v: v[0].dim() >= 1, lambda v, m: v[0].unsqueeze(0).expand(3, *v[0].shape), "prepend")
    add("expand_minus1", 1, lambda v: v[0].dim() >= 1, lambda v, m: v[0].unsqueeze(1).expand(-1, 2, *v[0].shape[1:]), "minus1")
    add("slice", 1, lambda v: v[0].dim() >= 1 and v[0].shape[-1] >= 3, lambda v, m: v[0][..., 1:-1], "1:-1")
    add("slice_step", 1, lambda v: v[0].dim() >= 1 and v[0].shape[0] >= 3, lambda v, m: v[0][::2], "step=2")
    add("slice_neg_start", 1, lambda v: v[0].dim() >= 1 and v[0].shape[-1] >= 2, lambda v, m: v[0][..., -2:], "-2:")
    add("select0", 1, lambda v: v[0].dim() >= 1, lambda v, m: v[0][0], "index=0")
    add("select_neg", 1, lambda v: v[0].dim() >= 2, lambda v, m: v[0][:, -1], "index=-1")
    add("narrow", 1, lambda v: v[0].dim() >= 1 and v[0].shape[0] >= 2, lambda v, m: v[0].narrow(0, 1, 1), "start=1/length=1")
    add("flip", 1, lambda v: v[0].dim() >= 1, lambda v, m: torch.flip(v[0], dims=[-1]), "dims=[-1]")
    add("flip_multi", 1, lambda v: v[0].dim() >= 2, lambda v, m: torch.flip(v[0], dims=[0, 1]), "dims=[0,1]")
    add("roll", 1, lambda v: v[0].dim() >= 1, lambda v, m: torch.roll(v[0], 1, 0), "shift=1/dim=0")
    add("roll_neg", 1, lambda v: v[0].dim() >= 2, lambda v, m: torch.roll(v[0], shifts=(-1, 2), dims=(0, 1)), "two-dims")
    add("repeat", 1, lambda v: v[0].dim() == 2, lambda v, m: v[0].repeat(2, 1), "same-rank")
    add("repeat_more", 1, lambda v: v[0].dim() == 1, lambda v, m: v[0].repeat(2, 2), "more-dims")
    add("tile", 1, lambda v: v[0].dim() >= 1, lambda v, m: torch.tile(v[0], (2,)), "fewer-dims")
    add("tril", 1, lambda v: v[0].dim() >= 2, lambda v, m: torch.tril(v[0]), "diag=0")
    add("triu_diag", 1, lambda v: v[0].dim() >= 2, lambda v, m: torch.triu(v[0], diagonal=1), "diag=1")
    add("tril_neg", 1, lambda v: v[0].dim() >= 2, lambda v, m: torch.tril(v[0], diagonal=-1), "diag=-1")
    add("cat_self", 1, lambda v: v[0].dim() >= 1, lambda v, m: torch.cat([v[0], v[0]], dim=-1), "dim=-1")
    add("cat_dim0", 2, lambda v: v[0].dim() >= 1 and v[0].shape[1:] == v[1].shape[1:] and v[0].dim() == v[1].dim() and v[0].dtype == v[1].dtype,
        lambda v, m: torch.cat([v[0], v[1]], dim=0), "dim=0")
    add("cat_promote", 2, lambda v: v[0].dim() >= 1 and v[0].shape == v[1].shape and v[0].dtype != v[1].dtype and not isb(v[0]) and not isb(v[1]),
        lambda v, m: torch.cat([v[0], v[1]], dim=0), "mixed-dtypes")
    add("stack", 2, lambda v: v[0].shape == v[1].shape and v[0].dtype == v[1].dtype, lambda v, m: torch.stack([v[0], v[1]], dim=0), "dim=0")
    add("stack_neg", 1, lambda v: True, lambda v, m: torch.stack([v[0], v[0]], dim=-1), "dim=-1")
    add("split_take", 1, lambda v: v[0].dim() >= 1 and v[0].shape[0] >= 3, lambda v, m: torch.split(v[0], 2, dim=0)[1], "uneven/second")
    add("split_sizes_take", 1, lambda v: v[0].dim() >= 1 and v[0].shape[-1] >= 3, lambda v, m: torch.split(v[0], [1, v[0].shape[-1] - 1], dim=-1)[1], "sizes")
    add("chunk_take", 1, lambda v: v[0].dim() >= 1 and v[0].shape[-1] >= 4, lambda v, m: torch.chunk(v[0], 2, dim=-1)[0], "chunks=2")
    add("unbind_take", 1, lambda v: v[0].dim() >= 1 and v[0].shape[0] >= 2, lambda v, m: torch.unbind(v[0], 0)[1], "dim=0")
    add("index_select", 1, lambda v: v[0].dim() >= 1 and v[0].shape[0] >= 2, lambda v, m: torch.index_select(v[0], 0, m.idx2), "dim=0")
    add("gather_argsort", 1, r1, lambda v, m: torch.gather(v[0], -1, torch.argsort(v[0], dim=-1)), "dim=-1")
    add("index_tensor", 1, lambda v: v[0].dim() >= 1 and v[0].shape[0] >= 2, lambda v, m: v[0][m.idx2], "one-index")
    add("scatter_add", 1, lambda v: r1(v), lambda v, m: torch.zeros_like(v[0]).scatter_add(-1, torch.zeros_like(v[0], dtype=torch.int64), v[0]), "all-to-0")
    add("diagonal", 1, lambda v: v[0].dim() == 2, lambda v, m: torch.diagonal(v[0]), "defaults")
    # ---- creation
    add("zeros_like_add", 1, lambda v: isf(v[0]) or isi(v[0]), lambda v, m: torch.zeros_like(v[0]) + v[0], "")
    add("ones_like_dtype", 1, lambda v: True, lambda v, m: torch.ones_like(v[0], dtype=torch.float32), "dtype=f32")
    add("full_like", 1, f1, lambda v, m: torch.full_like(v[0], 2.5), "pyfloat")
    add("new_zeros", 1, f1, lambda v, m: v[0].new_zeros((2, 3)), "size")
    add("new_ones_dtype", 1, lambda v: True, lambda v, m: v[0].new_ones((2,), dtype=torch.int64), "dtype=i64")
    add("arange_add", 1, lambda v: v[0].dim() >= 1 and (isf(v[0]) or isi(v[0])), lambda v, m: v[0] + torch.arange(v[0].shape[-1]), "end=int")
    add("arange_float", 1, lambda v: v[0].dim() >= 1 and isf(v[0]), lambda v, m: v[0] * torch.arange(0, v[0].shape[-1], 1, dtype=torch.float32), "start-step/dtype=f32")
    add("full_mul", 1, f1, lambda v, m: v[0] * torch.full((1,), 3.0), "pyfloat")
    add("zeros_cat", 1, lambda v: isf(v[0]) and v[0].dim() == 1 and v[0].dtype == torch.float32, lambda v, m: torch.cat([v[0], torch.zeros(2)]), "")
    add("scalar_tensor_add", 1, f1, lambda v, m: v[0] + torch.scalar_tensor(1.5), "")
    # ---- matmul family (weights are module parameters)
    add("matmul_w", 1, lambda v: v[0].dtype == torch.float32 and v[0].dim() >= 1 and v[0].shape[-1] in (2, 3, 4, 5), lambda v, m: v[0] @ m.W(v[0].shape[-1], 3), "x@W")
    add("linear", 1, lambda v: v[0].dtype == torch.float32 and v[0].dim() >= 1 and v[0].shape[-1] in (2, 3, 4, 5), lambda v, m: F.linear(v[0], m.W(4, v[0].shape[-1]), m.B(4)), "bias")
    add("linear_nobias", 1, lambda v: v[0].dtype == torch.float32 and v[0].dim() >= 1 and v[0].shape[-1] in (2, 3, 4, 5), lambda v, m: F.linear(v[0], m.W(2, v[0].shape[-1])), "no-bias")
    add("matmul_self_T", 1, lambda v: isf(v[0]) and v[0].dim() >= 2, lambda v, m: v[0] @ v[0].transpose(-1, -2), "batched")
    add("bmm", 1, lambda v: isf(v[0]) and v[0].dim() == 3, lambda v, m: torch.bmm(v[0], v[0].transpose(1, 2)), "")
    add("addmm", 1, lambda v: v[0].dtype == torch.float32 and v[0].dim() == 2 and v[0].shape[-1] in (2, 3, 4, 5), lambda v, m: torch.addmm(m.B(3), v[0], m.W(v[0].shape[-1], 3), beta=0.5, alpha=2.0), "beta-alpha/bias=row")
    add("baddbmm", 1, lambda v: isf(v[0]) and v[0].dim() == 3, lambda v, m: torch.baddbmm(v[0] @ v[0].transpose(1, 2), v[0], v[0].transpose(1, 2), beta=0.5), "beta")
    add("mv", 1, lambda v: v[0].dtype == torch.float32 and v[0].dim() == 2 and v[0].shape[-1] in (2, 3, 4, 5), lambda v, m: torch.mv(v[0], m.B(v[0].shape[-1])), "")
    add("einsum", 1, lambda v: isf(v[0]) and v[0].dim() == 2, lambda v, m: torch.einsum("ij,kj->ik", v[0], v[0]), "ij,kj->ik")
    # ---- normalisation
    add("layer_norm", 1, lambda v: v[0].dtype == torch.float32 and v[0].dim() >= 1 and v[0].shape[-1] in (2, 3, 4, 5), lambda v, m: F.layer_norm(v[0], (v[0].shape[-1],), m.B(v[0].shape[-1]), m.B2(v[0].shape[-1])), "affine")
    add("layer_norm_noaffine", 1, lambda v: isf(v[0]) and v[0].dim() >= 2, lambda v, m: F.layer_norm(v[0], v[0].shape[-2:]), "no-affine/2-dims")
    add("group_norm", 1, lambda v: v[0].dtype == torch.float32 and v[0].dim() >= 3 and v[0].shape[1] in (2, 4), lambda v, m: F.group_norm(v[0], 2, m.B(v[0].shape[1]), m.B2(v[0].shape[1])), "groups=2")
    add("batch_norm_eval", 1, lambda v: v[0].dtype == torch.float32 and v[0].dim() >= 2 and v[0].shape[1] in (2, 3, 4, 5),
        lambda v, m: F.batch_norm(v[0], m.B(v[0].shape[1]).detach(), m.P(v[0].shape[1]).detach(), m.B(v[0].shape[1]), m.B2(v[0].shape[1]), training=False), "inference")
    add("instance_norm", 1, lambda v: v[0].dtype == torch.float32 and v[0].dim() == 3 and v[0].shape[-1] > 1, lambda v, m: F.instance_norm(v[0]), "no-affine")
    # ---- pad / pool / conv
    add("pad_const", 1, lambda v: v[0].dim() >= 1 and isf(v[0]), lambda v, m: F.pad(v[0], (1, 2), value=0.5), "last-dim/value")
    add("pad_two_dims", 1, lambda v: v[0].dim() >= 2, lambda v, m: F.pad(v[0], (1, 0, 0, 2)), "two-dims")
    add("pad_reflect", 1, lambda v: isf(v[0]) and v[0].dim() == 3 and v[0].shape[-1] >= 3, lambda v, m: F.pad(v[0], (1, 2), mode="reflect"), "mode=reflect")
    add("pad_replicate", 1, lambda v: isf(v[0]) and v[0].dim() == 3, lambda v, m: F.pad(v[0], (2, 1), mode="replicate"), "mode=replicate")
    add("max_pool1d", 1, lambda v: isf(v[0]) and v[0].dim() == 3 and v[0].shape[-1] >= 4, lambda v, m: F.max_pool1d(v[0], 2), "kernel=2")
    add("max_pool1d_pad", 1, lambda v: isf(v[0]) and v[0].dim() == 3 and v[0].shape[-1] >= 4, lambda v, m: F.max_pool1d(v[0], 3, stride=2, padding=1), "stride/padding")
    add("avg_pool1d", 1, lambda v: isf(v[0]) and v[0].dim() == 3 and v[0].shape[-1] >= 4, lambda v, m: F.avg_pool1d(v[0], 2, stride=1), "stride=1")
    add("avg_pool1d_ceil", 1, lambda v: isf(v[0]) and v[0].dim() == 3 and v[0].shape[-1] >= 5, lambda v, m: F.avg_pool1d(v[0], 2, stride=2, ceil_mode=True), "ceil_mode")
    add("max_pool2d", 1, lambda v: isf(v[0]) and v[0].dim() == 4 and min(v[0].shape[-2:]) >= 4, lambda v, m: F.max_pool2d(v[0], 2), "kernel=2")
    add("avg_pool2d_pad", 1, lambda v: isf(v[0]) and v[0].dim() == 4 and min(v[0].shape[-2:]) >= 4, lambda v, m: F.avg_pool2d(v[0], 3, stride=1, padding=1, count_include_pad=False), "count_include_pad=False")
    add("conv1d", 1, lambda v: v[0].dtype == torch.float32 and v[0].dim() == 3 and v[0].shape[1] in (2, 3, 4) and v[0].shape[-1] >= 3, lambda v, m: F.conv1d(v[0], m.W3(2, v[0].shape[1], 3), m.B(2), padding=1), "padding=1")
    add("conv1d_stride", 1, lambda v: v[0].dtype == torch.float32 and v[0].dim() == 3 and v[0].shape[1] in (2, 3, 4) and v[0].shape[-1] >= 4, lambda v, m: F.conv1d(v[0], m.W3(2, v[0].shape[1], 2), None, stride=2), "stride=2/no-bias")
    add("conv2d", 1, lambda v: v[0].dtype == torch.float32 and v[0].dim() == 4 and v[0].shape[1] in (2, 3, 4) and min(v[0].shape[-2:]) >= 3, lambda v, m: F.conv2d(v[0], m.W4(2, v[0].shape[1], 3), m.B(2), padding=1), "padding=1")
    add("conv2d_groups", 1, lambda v: v[0].dtype == torch.float32 and v[0].dim() == 4 and v[0].shape[1] in (2, 4) and min(v[0].shape[-2:]) >= 3, lambda v, m: F.conv2d(v[0], m.W4(2, v[0].shape[1] // 2, 2), None, groups=2), "groups=2")
    add("dropout_eval", 1, f1, lambda v, m: F.dropout(v[0], 0.5, training=False), "train=0")
    # ---- argument classes in which the direct driver found deviations: are they reachable through the exporter?
    add("subtract_alias_pyint_alpha", 1, f1, lambda v, m: torch.subtract(v[0], 3, alpha=2), "alias/pyint-rhs/alpha")
    add("narrow_negative_start", 1, lambda v: v[0].dim() >= 1 and v[0].shape[0] >= 2, lambda v, m: v[0].narrow(0, -2, 2), "negative-start")
    add("roll_negative_dim", 1, lambda v: v[0].dim() >= 2, lambda v, m: torch.roll(v[0], 1, -1), "negative-dim")
    add("argmax_flat_keepdim", 1, r2, lambda v, m: torch.argmax(v[0], keepdim=True), "dim=None/keepdim")
    add("mean_dtype_f64", 1, lambda v: v[0].dtype == torch.float32, lambda v, m: torch.mean(v[0], dtype=torch.float64), "full/dtype=f64")
    add("mean_dim_dtype_int", 1, lambda v: isi(v[0]) and v[0].dim() >= 1, lambda v, m: torch.mean(v[0], -1, dtype=torch.float32), "int/dtype=f32")
    add("chunk_fewer", 1, lambda v: v[0].dim() >= 1 and v[0].shape[-1] == 4, lambda v, m: torch.chunk(v[0], 3, dim=-1)[1], "fewer-chunks")
    add("squeeze_dim_noop", 1, lambda v: v[0].dim() >= 1 and v[0].shape[0] != 1, lambda v, m: v[0].squeeze(0), "dim-not-one")
    add("broadcast_to_minus1", 1, lambda v: v[0].dim() >= 1, lambda v, m: torch.broadcast_to(v[0].unsqueeze(0), (2,) + (-1,) * v[0].dim()), "minus1")
    add("elu_scaled", 1, f1, lambda v, m: torch.ops.aten.elu(v[0], 1.0, 1.5, 0.5), "alpha-scale-input_scale")
    add("atan2_y0", 1, f1, lambda v, m: torch.atan2(torch.zeros_like(v[0]), -torch.abs(v[0]) - 1.0), "y=0-x<0")
    add("any_empty", 1, lambda v: v[0].dim() >= 1, lambda v, m: torch.any(v[0][:0] > 0), "size0")
    add("copy_broadcast", 1, lambda v: v[0].dim() >= 2, lambda v, m: torch.zeros_like(v[0]).copy_(v[0][0]), "broadcast-src")
    add("cat_legacy_empty", 1, lambda v: v[0].dim() == 2 and v[0].dtype == torch.float32, lambda v, m: torch.cat([torch.zeros(0), v[0]], dim=0), "legacy-empty-1d")
    add("isclose_inf", 1, f1, lambda v, m: torch.isclose(v[0] / 0.0, v[0] / 0.0, equal_nan=True), "nan-inf/equal_nan")
    add("avg_pool2d_divisor", 1, lambda v: isf(v[0]) and v[0].dim() == 4 and min(v[0].shape[-2:]) >= 4, lambda v, m: F.avg_pool2d(v[0], 2, divisor_override=3), "divisor_override")
    add("scatter_reduce_mean", 1, r1, lambda v, m: torch.zeros_like(v[0]).scatter_reduce(-1, torch.zeros_like(v[0], dtype=torch.int64), v[0], "mean"), "reduce=mean")
    add("linalg_norm_keepdim_flat", 1, r2, lambda v, m: torch.linalg.vector_norm(v[0], keepdim=True), "dim=None/keepdim")
    add("signbit_0d", 1, f1, lambda v, m: torch.signbit(v[0].sum()), "0-d")
    add("flatten_0d_sum", 1, f1, lambda v, m: torch.flatten(v[0].sum()), "0-d")
    # float64: the promotion pass turns the scalar bounds into tensors -> clamp.Tensor -> Max/Min -> fused to Clip by optimize=True
    add("two_clamps_same_input_f64", 1, lambda v: v[0].dtype == torch.float64, lambda v, m: torch.clamp(v[0], -1.0, 2.0) + torch.clamp(v[0], -0.5, 0.5), "min-max-twice")
    add("widen_then_two_clamps", 1, lambda v: v[0].dtype == torch.float32, lambda v, m: (lambda d: torch.clamp(d, -1.0, 2.0) + torch.clamp(d, -0.5, 0.5))(v[0].to(torch.float64)), "min-max-twice")
    _T = T
    return T


# templates whose result jumps under a last-bit change of an operand: a deviation there is judged only if the operands
# (earlier outputs of the same module) are bit-identical on both sides
DISCONTINUOUS = {"floor", "ceil", "round", "sign", "gt_pyfloat", "le_pyint", "eq_pyint", "ne_pyint", "lt", "ge", "eq", "where", "where_scalar_other",
                 "where_scalars", "masked_fill", "masked_fill_int_value", "to_int", "div_floor_pyint", "div_trunc_pyint", "floordiv_pyint",
                 "remainder_pyint", "remainder_neg_pyfloat", "fmod_pyfloat", "floor_divide_abs1", "remainder_abs1", "argmax", "argmin_keepdim",
                 "argmax_flat", "all_dim", "any_all", "logical_not", "logical_and", "logical_or", "gather_argsort", "relu", "relu6", "hardtanh",
                 "clamp", "clamp_min", "clamp_max", "clamp_int_bounds", "leaky_relu", "maximum", "minimum", "max_dim", "min_dim_keepdim",
                 "hardswish", "hardsigmoid", "to_float", "bitwise_and_bool", "isclose_inf", "any_empty", "signbit_0d", "argmax_flat_keepdim"}


def _bc(a, b):
    try:
        import torch

        torch.broadcast_shapes(tuple(a.shape), tuple(b.shape))
        return True
    except Exception:
        return False


INPUT_SHAPES = [[4], [3, 4], [2, 3, 4], [5], [3, 5], [2, 4, 6], [2, 2, 5, 6], [1, 4], [3, 1], [2, 3], [4, 4], [2, 4, 4], [2, 2, 6], [], [2, 3, 4, 4]]
INPUT_DTYPES = ["f32", "f32", "f32", "f32", "f64", "i64", "f32", "i32", "f32", "bool"]


def _make_module(prog, n_inputs):
    import torch

    class M(torch.nn.Module):
        def __init__(self):
            super().__init__()
            self.prog = prog
            self._cache = {}
            g = torch.Generator().manual_seed(1234)
            self.pool_w = torch.nn.Parameter((torch.randint(-8, 9, (64,), generator=g).float() / 8.0))
            self.register_buffer("idx2", torch.tensor([1, 0, 1]))

        def _take(self, n, off=0):
            reps = (n + off + 63) // 64
            return self.pool_w.repeat(reps)[off:off + n]

        def W(self, a, b):
            return self._take(a * b).reshape(a, b)

        def W3(self, a, b, k):
            return self._take(a * b * k, 3).reshape(a, b, k)

        def W4(self, a, b, k):
            return self._take(a * b * k * k, 5).reshape(a, b, k, k)

        def B(self, n):
            return self._take(n, 7)

        def B2(self, n):
            return self._take(n, 11)

        def P(self, n):
            return self._take(n, 13).abs() + 0.5

        def forward(self, *inputs):
            T = _templates()
            pool = list(inputs)
            for name, idxs in self.prog:
                pool.append(T[name][2]([pool[i] for i in idxs], self))
            return tuple(pool[n_inputs:])

    return M()


def _inputs(shapes_dts, rnd):
    import torch

    from . import c08_core as core
    from .c08_gen import G

    g = G(rnd)
    E = core.env()
    return [g.t(s, d, "any") for s, d in shapes_dts]


def build_structure(index):
    """Generation by execution; a pure function of `index`."""
    import torch

    T = _templates()
    names = sorted(T)
    r = common.rng("C08", "e2e-structure", index)
    n_in = r.choice((1, 1, 2))
    shapes_dts = []
    for k in range(n_in):
        shapes_dts.append((list(r.choice(INPUT_SHAPES)), r.choice(INPUT_DTYPES)))
    if n_in == 2 and r.random() < 0.6:
        shapes_dts[1] = (list(shapes_dts[0][0]), shapes_dts[1][1])
    vals = _inputs(shapes_dts, common.rng("C08", "e2e-structure-values", index))
    mod = _make_module([], n_in)
    prog = []
    nsteps = r.randint(2, 5)
    pool = list(vals)

    def attempt(name):
        ar, pred, fn, cls = T[name]
        cand = list(range(len(pool)))
        # prefer the newest value as first operand so that ops compose
        idxs = [len(pool) - 1 if r.random() < 0.7 else r.choice(cand)] + [r.choice(cand) for _ in range(ar - 1)]
        args = [pool[i] for i in idxs]
        try:
            if not pred(args):
                return False
            with torch.no_grad():
                out = fn(args, mod)
        except Exception:
            return False
        if not isinstance(out, torch.Tensor) or out.numel() > 4096 or out.dim() > 5:
            return False
        if out.is_floating_point() and out.numel() and not bool(torch.isfinite(out).all()):
            return False
        prog.append((name, idxs))
        pool.append(out)
        return True

    # round-robin coverage: module i tries templates 3i, 3i+1, 3i+2 first (so every template is attempted in any 1/3 of T modules)
    for j in range(3):
        if len(prog) >= nsteps:
            break
        name = names[(3 * index + j) % len(names)]
        for _ in range(8):
            if attempt(name):
                break
    tries = 0
    while len(prog) < nsteps and tries < 300:
        tries += 1
        attempt(r.choice(names))
    return {"inputs": shapes_dts, "prog": prog}


def run_module(index, seed):
    """-> dict(status, viol?, ops, info)."""
    import torch

    from . import c08_core as core

    E = core.env()
    T = _templates()
    st = build_structure(index)
    prog, shapes_dts = st["prog"], st["inputs"]
    ops = [p[0] for p in prog]
    if len(prog) < 2:
        return {"status": "e2e_degenerate", "ops": ops}
    n_in = len(shapes_dts)
    vals = _inputs(shapes_dts, common.rng("C08", seed, "e2e-values", index))
    mod = _make_module(prog, n_in).eval()
    try:
        with torch.no_grad():
            want = mod(*[v.clone() for v in vals])
    except Exception as e:
        return {"status": "e2e_torch_rejects", "ops": ops, "info": f"{type(e).__name__}: {str(e)[:150]}"}
    for w in want:
        if w.is_floating_point() and w.numel() and not bool(torch.isfinite(w).all()):
            return {"status": "e2e_nonfinite_skipped", "ops": ops}
    try:
        import logging
        import warnings

        logging.disable(logging.WARNING)
        with warnings.catch_warnings():
            warnings.simplefilter("ignore")
            prog_onnx = torch.onnx.export(mod, tuple(v.clone() for v in vals), dynamo=True, verbose=False)
        proto = prog_onnx.model_proto
    except Exception as e:
        root = e
        while root.__cause__ is not None:
            root = root.__cause__
        return {"status": "e2e_refused", "ops": ops, "info": f"{type(root).__name__}: {str(root)[:240]}"}
    finally:
        logging.disable(logging.NOTSET)
    feeds = {}
    names = [i.name for i in proto.graph.input]
    for nm, v in zip(names, vals):
        feeds[nm] = v.numpy()
    desc = f"module#{index} ops={'+'.join(ops)} inputs={[(s, d) for s, d in shapes_dts]}"

    def viol(kind, opname, text):
        cls = T[opname][3] if opname in T else ""
        key = f"e2e;op={opname};kind={kind};class={cls}"
        return {"key": key, "what": f"end-to-end {desc}: first deviating op {opname} [{cls}]: {text}",
                "detail": {"index": index, "prog": prog, "inputs": shapes_dts, "values": [core._lit(v, E) for v in vals]}}

    stt, got = runner.ort_run(proto, feeds)
    if stt == "not_implemented":
        return {"status": "e2e_not_implemented", "ops": ops, "info": str(got)[:200]}
    if stt != "ok":
        rst, rgot = ("skipped", None)
        if stt == "run":
            rst, rgot = runner.ref_run(proto, feeds)
        if rst == "ok" and len(rgot) == len(want) and all(_diff(a_, w.numpy()) is None for a_, w in zip(rgot, want)):
            return {"status": "e2e_disputed", "ops": ops, "info": f"ORT {stt}: {str(got)[:160]}; reference agrees with torch"}
        loc = _localise(prog, n_in, vals)
        if loc is not None:
            return {"status": "violation", "ops": ops, "viol": viol(loc[1], loc[0], loc[2])}
        return {"status": "violation", "ops": ops, "viol": viol("invalid_graph", "+".join(ops), f"ORT {stt} failure: {str(got)[:300]}".replace("\n", " "))}
    if len(got) != len(want):
        return {"status": "violation", "ops": ops, "viol": viol("structure", "+".join(ops), f"{len(got)} outputs vs {len(want)}")}
    bad = None
    want_np = [w.numpy() for w in want]
    for k, (g_, w) in enumerate(zip(got, want_np)):
        d = _diff(g_, w)
        if d:
            bad = (k, d)
            break
    if bad is None:
        return {"status": "ok", "ops": ops, "nodes": len(proto.graph.node)}
    k, (kind, text) = bad
    if kind == "value" and ops[k] in DISCONTINUOUS:
        import numpy as np

        for i in prog[k][1]:
            if i >= n_in and not np.array_equal(np.asarray(got[i - n_in]), want_np[i - n_in], equal_nan=True):
                return {"status": "e2e_unstable_skipped", "ops": ops, "info": f"{ops[k]}: operands differ in the last bits upstream"}
    rst, rgot = runner.ref_run(proto, feeds) if kind != "dtype" else ("skipped", None)
    if rst == "ok" and len(rgot) == len(want) and _diff(rgot[k], want_np[k]) is None:
        return {"status": "e2e_disputed", "ops": ops, "info": f"{ops[k]}: ORT {text}; reference agrees with torch"}
    return {"status": "violation", "ops": ops, "viol": viol(kind, ops[k], text)}


def _localise(prog, n_in, vals):
    """The whole model does not load/run: export growing prefixes and return (op, kind, text) for the first prefix that
    deviates in any way (a silent shape/value deviation upstream is the usual cause of a failure downstream)."""
    import logging
    import warnings

    import torch

    for k in range(1, len(prog) + 1):
        mod = _make_module(prog[:k], n_in).eval()
        try:
            with torch.no_grad():
                want = mod(*[v.clone() for v in vals])
            logging.disable(logging.WARNING)
            with warnings.catch_warnings():
                warnings.simplefilter("ignore")
                p = torch.onnx.export(mod, tuple(v.clone() for v in vals), dynamo=True, verbose=False).model_proto
        except Exception:
            return None
        finally:
            logging.disable(logging.NOTSET)
        feeds = {i.name: v.numpy() for i, v in zip(p.graph.input, vals)}
        st_, got = runner.ort_run(p, feeds)
        if st_ in ("load", "run"):
            return prog[k - 1][0], "invalid_graph", f"ORT {st_} failure: {str(got)[:300]}".replace("\n", " ")
        if st_ != "ok":
            return None
        for j, (g_, w) in enumerate(zip(got, want)):
            d = _diff(g_, w.numpy())
            if d:
                return prog[j][0], d[0], d[1] + " (found while localising a load/run failure of the whole module)"
    return None


def _diff(g_, w):
    """structure/dtype/shape/value difference of one output; float64 outputs are held to float32 tolerance because an
    upstream float32 value may have been widened."""
    import numpy as np

    g_ = np.asarray(g_)
    if g_.dtype != w.dtype:
        return "dtype", f"onnx {g_.dtype} vs torch {w.dtype}"
    if g_.shape != w.shape:
        return "shape", f"onnx {g_.shape} vs torch {w.shape}"
    r, a = compare.tol_for("float32", 20.0)
    d = compare.compare_value(g_, w, scale=20.0, rtol=r if w.dtype == np.float64 else None, atol=a if w.dtype == np.float64 else None)
    return ("value", d + " (onnx vs torch)") if d else None
