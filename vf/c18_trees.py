"""C18 module trees: random onnxscript.nn trees (Module / ModuleList / Sequential, depth <= 4) described by a
JSON-able spec, instantiated with the real classes, traced through the real builder.

Everything flows [B, D] float32 -> [B, D] float32 so any callable child can follow any other.
"""
from __future__ import annotations

import numpy as np

from . import common


# ----------------------------------------------------------------------------- spec generation
def gen_tree(rng, prof):
    """-> spec of the root node.  prof: stratum switches."""
    ctr = [0]

    def uid(p):
        ctr[0] += 1
        return f"{p}{ctr[0]}"

    def params(n, prof_local):
        out = []
        kinds = ["bias", "scale", "mat"]
        for _ in range(n):
            attr = uid("p")
            pname = None
            r = rng.random()
            if prof.get("param_name") == "same" or (prof.get("param_name") is None and r < 0.4):
                pname = attr
            elif prof.get("param_name") == "differs" and not prof_local.get("_pn_used"):
                pname = attr + "_x"
                prof_local["_pn_used"] = True
            out.append({"attr": attr, "pname": pname, "kind": rng.choice(kinds),
                        "data": (rng.random() < 0.5) if prof.get("nodata") else True})
        return out

    state = {}

    def node(depth, kind, callable_only=False):
        if kind == "mod":
            n = {"t": "mod", "name": None, "params": params(rng.choice([0, 1, 1, 2]), state), "children": [], "twice": False}
            if depth < prof.get("depth", 3):
                nch = rng.choice([0, 1, 2]) if depth > 0 else rng.choice([1, 2, 3])
                for _ in range(nch):
                    ck = rng.choice(prof.get("kinds", ["mod", "list", "seq"]))
                    ch = node(depth + 1, ck)
                    how = "setattr"
                    if ck in ("list", "seq"):
                        how = rng.choice(prof.get("hows", ["ctor"]))
                    attr = uid("c")
                    if ck == "mod":
                        r = rng.random()
                        if prof.get("mod_name") == "same" and r < 0.6:
                            ch["name"] = attr
                        elif prof.get("mod_name") == "differs" and not state.get("_mn_used"):
                            ch["name"] = attr + "_x"
                            state["_mn_used"] = True
                    use = "call"
                    if ck == "list":
                        use = rng.choice(prof.get("list_use", ["iter", "index"]))
                    in_sub = False
                    if ck == "mod" and prof.get("call_in_subgraph") and not state.get("_sub_used") and _has_params(ch):
                        in_sub = True
                        state["_sub_used"] = True
                    n["children"].append({"attr": attr, "node": ch, "how": how, "use": use,
                                          "twice": bool(prof.get("twice")) and rng.random() < 0.6, "in_subgraph": in_sub})
            if not n["params"] and not n["children"]:
                n["params"] = params(1, state)
            return n
        # containers
        n = {"t": kind, "children": []}
        nch = rng.choice([1, 2, 3])
        for _ in range(nch):
            if depth + 1 >= prof.get("depth", 3):
                ck = "mod"
            elif kind == "seq":
                ck = rng.choice(["mod", "mod", "seq"])
            else:
                ck = rng.choice(["mod", "mod", "list", "seq"])
            ch = node(depth + 1, ck)
            if ck == "mod" and prof.get("mod_name") in ("same", "differs") and rng.random() < 0.5:
                # a child that already carries a name of its own when it is put into the container (explicit name=):
                # inside a ModuleList / Sequential the index is the name, as in PyTorch
                ch["name"] = uid("pre") + ("_x" if prof.get("mod_name") == "differs" else "")
            n["children"].append({"node": ch})
        return n

    root_kind = prof.get("root", "mod")
    root = node(0, root_kind)
    root["root_name"] = None if prof.get("unnamed_root") or root_kind != "mod" else "root"
    if prof.get("mod_name") == "differs" and not state.get("_mn_used"):
        _force(root, "mod_name")
    if prof.get("param_name") == "differs" and not state.get("_pn_used"):
        _force(root, "param_name")
    return root


def _has_params(n):
    if n.get("params"):
        return True
    return any(_has_params(c["node"]) for c in n.get("children", []))


def _force(root, what):
    """make sure the stratum's switch is present at least once"""
    if what == "param_name":
        for n in _walk(root):
            if n["t"] == "mod" and n["params"]:
                n["params"][0]["pname"] = n["params"][0]["attr"] + "_x"
                return
    if what == "mod_name":
        for n in _walk(root):
            if n["t"] == "mod":
                for c in n["children"]:
                    if c["node"]["t"] == "mod" and _has_params(c["node"]):
                        c["node"]["name"] = c["attr"] + "_x"
                        return


def _walk(n):
    yield n
    for c in n.get("children", []):
        yield from _walk(c["node"])


def tree_sig(n):
    if n["t"] == "mod":
        return "M(" + ",".join(tree_sig(c["node"]) + (":" + c["how"][0] if c["how"] != "setattr" else "") for c in n["children"]) + f";p{len(n['params'])})"
    return ("L" if n["t"] == "list" else "S") + "[" + ",".join(tree_sig(c["node"]) for c in n["children"]) + "]"


# ----------------------------------------------------------------------------- instantiation
def build_classes():
    import onnx_ir as ir

    from onnxscript.nn import Module, ModuleList, Parameter, Sequential

    class GenMod(Module):
        def __init__(self, spec, G, D, name=None):
            super().__init__(name)
            object.__setattr__(self, "_spec", spec)
            object.__setattr__(self, "_G", G)
            for p in spec["params"]:
                shape = [D, D] if p["kind"] == "mat" else [D]
                arr = (G.nrng.standard_normal(shape) * (0.4 if p["kind"] == "mat" else 1.0)).astype(np.float32)
                if p["kind"] == "scale":
                    arr = (np.abs(arr) * 0.5 + 0.5).astype(np.float32)
                data = ir.tensor(arr) if p["data"] else None
                par = Parameter(shape, name=p["pname"], data=data)
                setattr(self, p["attr"], par)
                G.param_data[id(par)] = arr
                G.params.append(par)
                G.bind_all(par, [arr] * len(G.envs()))
            for c in spec["children"]:
                ch = c["node"]
                if ch["t"] == "mod":
                    setattr(self, c["attr"], GenMod(ch, G, D, name=ch.get("name")))
                else:
                    build_container(self, c["attr"], ch, c["how"], G, D)

        def forward(self, op, x):
            G = self._G
            spec = self._spec
            steps = [("p", p) for p in spec["params"]] + [("c", c) for c in spec["children"]]
            # deterministic interleaving chosen at generation time
            order = spec.get("order")
            if order:
                steps = [steps[i] for i in order]
            for kind, s in steps:
                if kind == "p":
                    par = getattr(self, s["attr"])
                    if s["kind"] == "bias":
                        x = G.emit(op, "Add", [x, par])[0]
                    elif s["kind"] == "scale":
                        x = G.emit(op, "Mul", [x, par])[0]
                    else:
                        x = G.emit(op, "MatMul", [x, par])[0]
                        x = G.emit(op, "Tanh", [x])[0]
                    G.features.add("param_op")
                else:
                    x = call_child(self, op, x, s, G)
            if not steps:
                x = G.emit(op, "Identity", [x])[0]
            return x

    def build_container(owner, attr, spec, how, G, D):
        mk = (lambda s: GenMod(s, G, D))

        def make(s):
            if s["t"] == "mod":
                return GenMod(s, G, D, name=s.get("name"))
            return build_free_container(s, G, D)

        kids = [c["node"] for c in spec["children"]]
        Cls = ModuleList if spec["t"] == "list" else Sequential

        def ctor(items):
            return ModuleList(items) if spec["t"] == "list" else Sequential(*items)

        if how == "ctor":
            setattr(owner, attr, ctor([make(k) for k in kids]))
        elif how == "append_after":
            setattr(owner, attr, ctor([]))
            for k in kids:
                getattr(owner, attr).append(make(k))
        elif how == "extend_after":
            setattr(owner, attr, ctor([make(kids[0])]))
            getattr(owner, attr).extend([make(k) for k in kids[1:]])
        elif how == "append_before":
            c = ctor([])
            for k in kids:
                c.append(make(k))
            setattr(owner, attr, c)
        else:
            raise ValueError(how)
        assert isinstance(getattr(owner, attr), Cls) and mk

    def build_free_container(spec, G, D):
        kids = []
        for c in spec["children"]:
            s = c["node"]
            kids.append(GenMod(s, G, D, name=s.get("name")) if s["t"] == "mod" else build_free_container(s, G, D))
        return ModuleList(kids) if spec["t"] == "list" else Sequential(*kids)

    def call_module(m, op, x, G):
        """call a callable child; ModuleLists are iterated"""
        if isinstance(m, Sequential):
            G.features.add("sequential_called")
            return m(op, x)
        if isinstance(m, ModuleList):
            G.features.add("modulelist_iterated")
            for k in m:
                x = call_module(k, op, x, G)
            return x
        return m(op, x)

    def call_child(self, op, x, c, G):
        m = getattr(self, c["attr"])
        use = c["use"]
        reps = 2 if c["twice"] else 1
        for _ in range(reps):
            if c.get("in_subgraph"):
                x = call_in_if(m, op, x, G)
            elif use == "call" or not isinstance(m, ModuleList) or isinstance(m, Sequential):
                x = call_module(m, op, x, G)
            elif use == "iter":
                x = call_module(m, op, x, G)
            elif use == "index":
                G.features.add("modulelist_indexed")
                for i in range(len(m)):
                    x = call_module(m[i - len(m)] if i % 2 else m[i], op, x, G)
            elif use == "slice":
                G.features.add("modulelist_sliced")
                k = max(1, len(m) // 2)
                for part in (m[:k], m[k:]):
                    for j in range(len(part)):
                        x = call_module(part[j], op, x, G)
        if c["twice"]:
            G.features.add("called_twice")
        return x

    def call_in_if(m, op, x, G):
        """first call of the child happens inside an If branch (sub-builder)"""
        s = G.emit(op, "ReduceSum", [x], {"keepdims": 0})[0]
        cnd = G.emit(op, "Greater", [s, 0.0])[0]
        tb, _ = G.subgraph(op, [], lambda iop: [m(iop, x)], 1)
        eb, _ = G.subgraph(op, [], lambda iop: [G.emit(iop, "Identity", [x])[0]], 1)
        G.features.add("module_called_in_subgraph")
        return G.emit(op, "If", [cnd], {"then_branch": tb, "else_branch": eb})[0]

    return GenMod, build_free_container, call_module


def instantiate(spec, G, D):
    GenMod, build_free_container, call_module = build_classes()
    if spec["t"] == "mod":
        root = GenMod(spec, G, D, name=spec.get("root_name"))
    else:
        root = build_free_container(spec, G, D)
    return root, call_module


def expected_kinds(spec):
    """param state_dict key -> chain of container kinds on the path (for mechanism keys)"""
    out = {}

    def rec(n, prefix, chain, flags):
        if n["t"] == "mod":
            for p in n["params"]:
                f = set(flags)
                if p["pname"] is not None and p["pname"] != p["attr"]:
                    f.add("explicit_param_name")
                out[".".join(prefix + [p["attr"]])] = (">".join(chain + ["M"]), f)
            for c in n["children"]:
                f = set(flags)
                ch = c["node"]
                if ch["t"] == "mod" and ch.get("name") is not None and ch["name"] != c["attr"]:
                    f.add("explicit_module_name")
                if c.get("in_subgraph"):
                    f.add("in_subgraph")
                if c.get("how") not in (None, "setattr", "ctor"):
                    f.add(c["how"])
                rec(ch, prefix + [c["attr"]], chain + ["M"], f)
        else:
            for i, c in enumerate(n["children"]):
                rec(c["node"], prefix + [str(i)], chain + ["L" if n["t"] == "list" else "S"], flags)

    rec(spec, [], [], set())
    return out


assert common
