"""C15 — a ModelProto and an IR model are treated alike, and nothing untouched is lost.

Per model M (carrier-mode generator; thorough also the .onnx files shipped inside the onnx package) and API f:
  (i)   proto(f)(M) == serialize(ir(f)(deserialize(M)))            path-equal (own differ)
  (ii)  carriers the transformation has no need to change survive bit-equal w.r.t. N(M), N = serialize o deserialize
  (iii) M is included in N(M) (explicit defaults may vanish, type annotations implied by initializer data may appear)
  (iv)  N(N(M)) == N(M)
  (v)   in-place variants mutate the object given, the others leave their argument unchanged
"""
from __future__ import annotations

import glob
import os

from . import common

PID = "C15"
LEVEL = "exploration"
RULE = ("carrier-mode models built with onnx.helper (opset 18..25 round-robin; every feature stratum - foldable constants, "
        "cast-cast / neg-neg / transpose-transpose patterns, Identity, used+unused+overloaded model-local functions with "
        "attribute defaults and reference attributes, functions supplied aside for replace_functions (every other such model keeps an operation of the functions' domain WITHOUT an expansion inside an If body), dead code, If with a subgraph initializer, sparse initializer, unused "
        "custom opset imports - forced round-robin) carrying doc_string / metadata_props on every carrier legal for the "
        "model's ir_version, ~11 initializers per model rotating through every onnx_ir.DataType legal for the ir_version "
        "with NaN-payload / -0.0 / subnormal / extreme bit patterns, zero-size and 0-d shapes, raw / typed / external storage; "
        "APIs optimize, rewrite (default, custom, empty), fold_constants, remove_unused_nodes, remove_unused_functions, "
        "convert_version, replace_functions(_inplace), inline, each through the ModelProto and the ir.Model entry; plus the .onnx "
        "files of onnx/backend/test/data (quick: all simple/light/pytorch-* models and 1/12 of the node tests; thorough: all). Non-trivial = model passing onnx.checker on which N(M) exists; distinct = "
        "model parameter digest / corpus path.")
ASSUMPTIONS = [
    "validity = onnx.checker.check_model (full_check for generated models); models are not executed (the property compares protos)",
    "node / graph / function / tensor / value metadata_props, function value_info and overload are generated only for ir_version >= 10, "
    "where the ONNX IR defines them",
    "documented effects per API are read from the docstrings (table in vf/c15_oracle.py); only survival of carriers that are not "
    "reachable from a touched node and not covered by a documented effect is demanded",
    "tensor equality is equality of (dtype, dims, element bytes decoded by vf/c15_diff.py, name, doc_string, metadata, external reference); "
    "raw vs typed storage is not information",
    "serde lives in site-packages onnx_ir: findings there carry component=onnx_ir",
]
ANCHORS = [
    "onnxscript.optimizer:optimize", "onnxscript.optimizer:fold_constants", "onnxscript.optimizer:remove_unused_nodes",
    "onnxscript.optimizer:remove_unused_functions", "onnxscript.rewriter:rewrite", "onnxscript.version_converter:convert_version",
    "onnxscript.utils.replace:replace_functions", "onnxscript.utils.replace:replace_functions_inplace", "onnxscript.optimizer:inline",
]
TIMEOUT = 900.0

APIS = ["optimize", "optimize_noinline", "rewrite", "rewrite_custom", "rewrite_empty", "fold_constants", "remove_unused_nodes",
        "remove_unused_functions", "convert_version", "convert_version_fallback", "replace_functions", "inline"]
INPLACE = {   # documented behaviour per entry form: "inplace" | "functional" | "identity" | None (not documented)
    "optimize": {"proto": "functional", "ir": "inplace"},
    "optimize_noinline": {"proto": "functional", "ir": "inplace"},
    "rewrite": {"proto": "functional", "ir": None},
    "rewrite_custom": {"proto": "functional", "ir": None},
    "rewrite_empty": {"proto": "identity", "ir": "identity"},
    "fold_constants": {"proto": "inplace", "ir": "inplace"},
    "remove_unused_nodes": {"proto": "inplace", "ir": "inplace"},
    "remove_unused_functions": {"proto": "inplace", "ir": "inplace"},
    "convert_version": {"proto": "inplace", "ir": "inplace"},
    "convert_version_fallback": {"proto": "inplace", "ir": "inplace"},
    "replace_functions": {"proto": "functional", "ir": "inplace"},
    "inline": {"ir": "inplace"},
}


def thresholds(tier):
    # <= 1/5 of what the unchanged tree gives
    if tier == "quick":
        return {"models": 16, "api_pairs_compared": 110, "inclusion_checked": 16, "idempotence_checked": 16,
                "initializer_bits_checked": 1300, "untouched_nodes_checked": 2500, "metadata_entries_checked": 3800,
                "value_infos_checked": 2200, "functions_checked": 100, "inplace_checked": 240, "identity_checked": 16,
                "external_tensors": 30, "api_modified_model": 220, "distinct_nontrivial": 16, "corpus_models": 50,
                "anchor:onnxscript.optimizer:optimize": 30, "anchor:onnxscript.optimizer:fold_constants": 30,
                "anchor:onnxscript.optimizer:remove_unused_nodes": 30, "anchor:onnxscript.optimizer:remove_unused_functions": 30,
                "anchor:onnxscript.rewriter:rewrite": 90, "anchor:onnxscript.version_converter:convert_version": 25,
                "anchor:onnxscript.utils.replace:replace_functions": 4}
    return {"models": 900, "api_pairs_compared": 6000, "inclusion_checked": 900, "idempotence_checked": 900,
            "initializer_bits_checked": 50000, "untouched_nodes_checked": 90000, "metadata_entries_checked": 140000,
            "value_infos_checked": 80000, "functions_checked": 3500, "inplace_checked": 12000, "identity_checked": 900,
            "external_tensors": 1100, "api_modified_model": 8000, "corpus_models": 300, "distinct_nontrivial": 900,
            "anchor:onnxscript.optimizer:optimize": 1500, "anchor:onnxscript.rewriter:rewrite": 4000,
            "anchor:onnxscript.version_converter:convert_version": 1000, "anchor:onnxscript.utils.replace:replace_functions": 150}


def _corpus_files():
    import onnx

    root = os.path.join(os.path.dirname(onnx.__file__), "backend", "test", "data")
    return sorted(glob.glob(os.path.join(root, "**", "*.onnx"), recursive=True))


def cases(tier, seed):
    specs = []
    if tier == "quick":
        n, chunk = 80, 4
    else:
        n, chunk = 3000, 25
    for i in range(0, n, chunk):
        specs.append({"kind": "gen", "seed": seed, "idxs": list(range(i, min(n, i + chunk)))})
    files = _corpus_files()
    if tier == "quick":
        # every non-node model (simple / light / pytorch-*) + a seed-rotated 1/12 of the node tests
        node = [f for f in files if os.sep + "node" + os.sep in f]
        files = [f for f in files if os.sep + "node" + os.sep not in f] + node[seed % 12::12]
    for i in range(0, len(files), 30 if tier == "quick" else 40):
        specs.append({"kind": "corpus", "files": files[i:i + (30 if tier == "quick" else 40)]})
    return specs


# --------------------------------------------------------------------------------------------
# worker
# --------------------------------------------------------------------------------------------

_W = {}


def worker_init():
    import logging
    import warnings

    warnings.filterwarnings("ignore")
    logging.disable(logging.CRITICAL)
    d = common.scratch_dir("vf-c15-")
    os.chdir(d)            # external-data locations are relative file names
    _W["dir"] = d


def _custom_rules():
    if "rules" not in _W:
        from onnxscript.rewriter import RewriteRule

        def pat(op, x):
            return op.Neg(op.Neg(x))

        def rep(op, x):
            return op.Identity(x)

        _W["rules"] = [RewriteRule(pat, rep, name="vf_negneg")]
    return _W["rules"]


def ser(p):
    return p.SerializeToString(deterministic=True)


def _call(api, form, arg, aside, target_version):
    """Run API on `arg` (a ModelProto or ir.Model).  -> the object that holds the result."""
    import onnxscript.optimizer as opt
    import onnxscript.rewriter as rw
    import onnxscript.version_converter as vc
    from onnxscript import ir
    from onnxscript.utils import replace as rep

    if api == "optimize":
        return opt.optimize(arg)
    if api == "optimize_noinline":
        # a non-default option must reach the implementation through both entry forms alike
        return opt.optimize(arg, inline=False, num_iterations=1)
    if api == "rewrite":
        return rw.rewrite(arg)
    if api == "rewrite_custom":
        return rw.rewrite(arg, _custom_rules())
    if api == "rewrite_empty":
        return rw.rewrite(arg, [])
    if api == "fold_constants":
        opt.fold_constants(arg)
        return arg
    if api == "remove_unused_nodes":
        opt.remove_unused_nodes(arg)
        return arg
    if api == "remove_unused_functions":
        opt.remove_unused_functions(arg)
        return arg
    if api == "convert_version":
        vc.convert_version(arg, target_version)
        return arg
    if api == "convert_version_fallback":
        # a conversion the native converter does not support (down-conversion) with fallback=True: the ONNX C-API path
        vc.convert_version(arg, target_version, fallback=True)
        return arg
    if api == "replace_functions":
        if form == "proto":
            return rep.replace_functions(arg, aside)
        rep.replace_functions_inplace(arg, [ir.from_proto(f) for f in aside])
        return arg
    if api == "inline":
        opt.inline(arg)
        return arg
    raise ValueError(api)


def check_model(mb: bytes, aside, label, hit, v, generated=True):
    """All oracles for one model given as bytes.  v(key, what, detail) records a violation."""
    import onnx
    from onnxscript import ir

    from . import c15_diff as D
    from . import c15_oracle as O

    def fresh():
        m = onnx.ModelProto()
        m.ParseFromString(mb)
        return m

    M = fresh()
    try:
        N = ir.serde.serialize_model(ir.serde.deserialize_model(fresh()))
    except Exception as e:  # noqa: BLE001
        hit("serde_refused")
        if generated:
            v("api=N;kind=raises", f"{label}: serialize(deserialize(M)) raises {type(e).__name__}: {str(e)[:300]}", {}, "onnx_ir")
        return False
    hit("models")
    # (iii)
    hit("inclusion_checked")
    for kind, path, detail in O.inclusion(M, N):
        v(f"api=N;kind={kind};path={path}", f"{label}: M is not included in N(M): {detail}", {}, "onnx_ir")
    # (iv)
    try:
        N2 = ir.serde.serialize_model(ir.serde.deserialize_model(_copy(N)))
        hit("idempotence_checked")
        for kind, path, detail in O.idempotence(N, N2):
            v(f"api=N;kind={kind};path={path}", f"{label}: N(N(M)) != N(M): {detail}", {}, "onnx_ir")
    except Exception as e:  # noqa: BLE001
        v("api=N;kind=second_roundtrip_raises", f"{label}: N(N(M)) raises {type(e).__name__}: {str(e)[:300]}", {}, "onnx_ir")
    nb = ser(N)
    default_opset = next((o.version for o in M.opset_import if o.domain == ""), None)
    for api in APIS:
        tv = None
        if api == "convert_version":
            if default_opset is None or not (18 <= default_opset < 25):
                hit("api_skipped:convert_version")
                continue
            tv = default_opset + 1 + (len(mb) % (25 - default_opset))
        if api == "convert_version_fallback":
            if default_opset is None or not (18 < default_opset <= 25):
                hit("api_skipped:convert_version_fallback")
                continue
            tv = default_opset - 1 - (len(mb) % min(3, default_opset - 17))
        if api == "replace_functions" and not aside:
            if generated:
                continue
        res = {}
        for form in ("proto", "ir"):
            if form not in INPLACE[api]:
                continue
            arg_p = fresh()
            try:
                if form == "proto":
                    before = ser(arg_p)
                    out = _call(api, form, arg_p, aside, tv)
                    after = ser(arg_p)
                    R = out
                    res[form] = {"R": R, "same_obj": out is arg_p, "arg_changed": before != after, "arg_after": arg_p}
                else:
                    im = ir.serde.deserialize_model(arg_p)
                    out = _call(api, form, im, aside, tv)
                    res[form] = {"R": ir.serde.serialize_model(out), "same_obj": out is im,
                                 "given_after": ir.serde.serialize_model(im) if out is not im else None}
                hit(f"api_calls:{api}:{form}")
            except Exception as e:  # noqa: BLE001 - refusal is allowed; both entries must agree
                res[form] = {"raised": f"{type(e).__name__}", "msg": str(e)[:200]}
                hit(f"api_raised:{api}:{form}")
        if not res:
            continue
        rp, ri = res.get("proto"), res.get("ir")
        pv_fired = False
        # (i) the two entries agree
        if rp is not None and ri is not None:
            if ("raised" in rp) != ("raised" in ri):
                v(f"api={api};entry=proto;kind=outcome_mismatch", f"{label}: {api}: proto entry {rp.get('raised', 'returns')}, "
                  f"ir entry {ri.get('raised', 'returns')} ({rp.get('msg') or ri.get('msg')})", {})
            elif "raised" not in rp and api != "rewrite_empty":
                hit("api_pairs_compared")
                if ser(rp["R"]) != ser(ri["R"]):
                    evs = [e for e in D.diff(ri["R"], rp["R"]) if e.kind != "encoding"]
                    paths = sorted({_carrier(e) for e in evs}) or ["<bytes_only>"]
                    pv_fired = True
                    for pth in paths:
                        ex = next((e for e in evs if _carrier(e) == pth), None)
                        v(f"api={api};entry=proto;kind=proto_vs_ir;path={pth}", f"{label}: {api}: result of the ModelProto entry differs "
                          f"from serialize(ir entry): " + (f"{ex.kind} {ex.pstr()}: ir={ex.a} proto={ex.b}" if ex else "bytes differ"),
                          {"events": [f"{e.kind} {e.pstr()}" for e in evs[:12]]})
        # (ii) survival of untouched carriers, (v) in-place / functional
        for form, r in res.items():
            if "raised" in r:
                continue
            R = r["R"]
            if ser(R) != nb:
                hit("api_modified_model")
            if api == "rewrite_empty":
                pass          # the result is the argument itself: nothing went through serde, (v) below decides
            elif form == "ir" or rp is None or ri is None or "raised" in ri or ser(rp["R"]) != ser(ri["R"]):
                sv = O.Survival(api, N, R, hit)
                for kind, path, detail in sv.run():
                    v(f"api={api};entry={form};kind={kind};path={path}", f"{label}: {api} ({form} entry): {detail}", {})
            mode = INPLACE[api].get(form)
            if mode is None:
                continue
            hit("inplace_checked")
            if form == "proto":
                if mode == "functional" and r["arg_changed"]:
                    evs = [e for e in D.diff(fresh(), r["arg_after"]) if e.kind != "encoding"]
                    for pth in sorted({O.norm_path(e) for e in evs}) or ["<bytes_only>"]:
                        ex = next((e for e in evs if O.norm_path(e) == pth), None)
                        v(f"api={api};entry=proto;kind=argument_mutated;path={pth}", f"{label}: {api}(ModelProto) modified its argument: "
                          + (f"{ex.kind} {ex.pstr()}: {ex.a} -> {ex.b}" if ex else "bytes differ"), {})
                if mode == "functional" and r["same_obj"]:
                    pass      # returning the argument itself is fine as long as it is unchanged
                if mode == "identity":
                    hit("identity_checked")
                if mode == "identity" and (not r["same_obj"] or r["arg_changed"]):
                    v(f"api={api};entry=proto;kind=not_identity", f"{label}: {api}(ModelProto, []) must return its argument unchanged "
                      f"(same object: {r['same_obj']}, argument changed: {r['arg_changed']})", {})
                if mode == "inplace":
                    want = ri["R"] if ri is not None and "raised" not in ri else None
                    # (a proto left untouched is also a proto-vs-ir difference: report the more specific key once)
                    if not pv_fired and not r["arg_changed"] and want is not None and _really_differs(want, r["arg_after"]):
                        v(f"api={api};entry=proto;kind=inplace_not_mutated", f"{label}: {api}(ModelProto) documents in-place operation "
                          f"but left the given proto untouched while the transformation changes the model", {})
            else:
                if mode == "identity" and r["same_obj"] and ser(ir.serde.serialize_model(out)) != nb:
                    v(f"api={api};entry=ir;kind=not_identity", f"{label}: {api}(ir.Model, []) changed the model", {})
                if mode in ("inplace", "identity") and not r["same_obj"] and api in ("optimize", "optimize_noinline", "rewrite_empty"):
                    v(f"api={api};entry=ir;kind=not_same_object", f"{label}: {api}(ir.Model) returned a different object", {})
                if mode == "inplace" and r.get("given_after") is not None and ser(r["given_after"]) != ser(R):
                    v(f"api={api};entry=ir;kind=inplace_not_mutated", f"{label}: {api}(ir.Model) returned a model that differs from the "
                      f"object it was given", {})
    return True


def _copy(p):
    q = type(p)()
    q.CopyFrom(p)
    return q


def _carrier(e):
    """Top-level carrier of an event: opset_import, functions, metadata_props, graph.node, graph.initializer ..."""
    segs = [s.split("[")[0] for s in e.path]
    if segs[0] == "graph" and len(segs) > 1:
        return "graph." + segs[1]
    return segs[0]


def _really_differs(a, b):
    from . import c15_diff as D

    return any(e.kind not in ("encoding", "default_vanished", "default_added") for e in D.diff(a, b))


def run_case(spec):
    import onnx

    from . import c15_gen as gen

    viol, events, sigs = [], {}, []
    seen_keys = {}

    def hit(k, n=1):
        events[k] = events.get(k, 0) + n

    def v(key, what, detail=None, component=None):
        # one witness per key and case is enough; count the rest
        seen_keys[key] = seen_keys.get(key, 0) + 1
        if seen_keys[key] <= 1:
            d = dict(detail or {})
            if component:
                d["component"] = component
            viol.append({"key": key, "what": what, "detail": d})

    sample = None
    if spec["kind"] == "gen":
        for idx in spec["idxs"]:
            rng = common.rng(PID, spec["seed"], "model", idx)
            p = gen.gen_params(rng, idx)
            m, aside, info = gen.build(p, _W["dir"])
            try:
                onnx.checker.check_model(m, full_check=True)
            except Exception as e:  # noqa: BLE001 - precondition filter
                hit("discarded_invalid")
                events.setdefault("_first_invalid", 0)
                continue
            for t in m.graph.initializer:
                hit(f"dtype:{t.data_type}")
                if t.data_location == 1:
                    hit("external_tensors")
            ok = check_model(ser(m), aside, f"model#{idx}(opset {p['opset']}, {'+'.join(p['features'])})", hit, v)
            if ok:
                sigs.append("gen:" + common.digest(p))
                if sample is None:
                    sample = {"idx": idx, "opset": p["opset"], "features": p["features"], **info,
                              "dtypes": [gen.DTYPE_NAMES[d[0]] for d in p["dtypes"]]}
    else:
        for path in spec["files"]:
            try:
                m = onnx.load(path)
                onnx.checker.check_model(m)
            except Exception:  # noqa: BLE001
                hit("discarded_invalid")
                continue
            name = os.path.relpath(path, os.path.dirname(os.path.dirname(path)))
            ok = check_model(ser(m), [], f"corpus:{name}", hit, v, generated=False)
            if ok:
                hit("corpus_models")
                sigs.append("corpus:" + name)
    events.pop("_first_invalid", None)
    events["dtypes_covered"] = 0
    return {"status": "ok", "viol": viol, "events": events, "nontrivial": bool(sigs), "sig": None,
            "data": {"sigs": sigs, "dup": {k: n for k, n in seen_keys.items() if n > 1}}, "sample": sample}


def finalize(ctx):
    for r in ctx.results:
        for s in ((r.get("data") or {}).get("sigs") or []):
            ctx.sigs.add(s)
    ctx.events["dtypes_covered"] = sum(1 for k in ctx.events if k.startswith("dtype:"))
    comp = {}
    for vv in ctx.violations:
        c = (vv.get("detail") or {}).get("component")
        if c:
            comp[vv["key"]] = c
    if comp:
        ctx.extra["violation_component"] = comp
