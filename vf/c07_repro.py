"""Standalone repros for the C07 mechanisms (no harness code)."""
import numpy as np, onnx, onnxruntime as ort
from onnx import helper, TensorProto, numpy_helper
from onnxscript import ir
from onnxscript.rewriter import pattern, rewrite

F = TensorProto.FLOAT
def vi(n, shape=(2,), t=F): return helper.make_tensor_value_info(n, t, list(shape))
def load(m):
    so = ort.SessionOptions(); so.graph_optimization_level = ort.GraphOptimizationLevel.ORT_DISABLE_ALL; so.log_severity_level = 4
    return ort.InferenceSession(m.SerializeToString(), so, providers=["CPUExecutionProvider"])
def verdict(tag, m2):
    try:
        onnx.checker.check_model(m2, full_check=True); load(m2); print(tag, "-> result valid")
    except Exception as e:
        print(tag, "-> INVALID:", str(e).replace("\n", " ")[:230])

def guarded(pat, rep, **kw):
    created = []
    def rep2(op, **b):
        v = rep(op, **b); created.append(v.producer()); return v
    return pattern.RewriteRule(pat, rep2, lambda ctx, **_: not any(ctx.root is n for n in created), **kw)

# 1. initializer name clash: host has initializer "k"=3 used by Mul; replacement adds initializer "k"=0
g = helper.make_graph([helper.make_node("Sub", ["a", "b"], ["t0"]), helper.make_node("Mul", ["t0", "k"], ["t1"])], "g",
                      [vi("a"), vi("b")], [vi("t1")], initializer=[numpy_helper.from_array(np.array(3.0, np.float32), "k")])
m = helper.make_model(g, opset_imports=[helper.make_opsetid("", 18)]); onnx.checker.check_model(m, full_check=True)
rule = guarded(lambda op, x, y: op.Sub(x, y),
               lambda op, x, y: op.Sub(op.Add(x, op.initializer(ir.tensor(np.array(0.0, np.float32)), name="k")), y))
verdict("1 initializer_name_clash (host initializer)", rewrite(onnx.ModelProto.FromString(m.SerializeToString()), [rule]))
# 1b. the same rule applied twice clashes with itself
g = helper.make_graph([helper.make_node("Sub", ["a", "b"], ["t0"]), helper.make_node("Sub", ["t0", "b"], ["t1"])], "g", [vi("a"), vi("b")], [vi("t1")])
m = helper.make_model(g, opset_imports=[helper.make_opsetid("", 18)])
rule = guarded(lambda op, x, y: op.Sub(x, y),
               lambda op, x, y: op.Sub(op.Add(x, op.initializer(ir.tensor(np.array(0.0, np.float32)), name="zero")), y))
verdict("1b initializer_name_clash (two applications)", rewrite(m, [rule]))

# 2. as_function for a match inside an If body: extracted function has no opset import
then_g = helper.make_graph([helper.make_node("Sub", ["a", "b"], ["u"]), helper.make_node("Relu", ["u"], ["w"])], "then", [], [vi("w")])
else_g = helper.make_graph([helper.make_node("Neg", ["a"], ["z"])], "else", [], [vi("z")])
g = helper.make_graph([helper.make_node("If", ["c"], ["y"], then_branch=then_g, else_branch=else_g)], "g", [vi("a"), vi("b"), vi("c", (), TensorProto.BOOL)], [vi("y")])
m = helper.make_model(g, opset_imports=[helper.make_opsetid("", 18)], ir_version=10); onnx.checker.check_model(m, full_check=True); load(m)
rule = pattern.RewriteRule(lambda op, x, y: op.Relu(op.Sub(x, y)), lambda op, x, y: op.SubRelu(x, y, _domain="fused"), as_function=True)
m2 = rewrite(m, [rule]); print("   extracted function opset_import:", [(o.domain, o.version) for o in m2.functions[0].opset_import])
verdict("2 as_function inside If body", m2)

# 3. a two-node replacement applied inside an If body and (later in node order) in the main graph: both intermediates are named val_0;
#    ORT rejects the result when a nested body also consumes a main-graph node output
TEXT = '''
<ir_version: 10, opset_import: ["" : 18]>
host (float[4,4] x0, float[4,4] x1, float[4] x2, bool cnd) => (float[4] v72, float[4,4] v70) {
   v1 = MatMul (x1, x1)
   v70 = If (cnd) <else_branch: graph = else69 () => (float[4,4] v66) {
      v66 = If (cnd) <else_branch: graph = else65 () => (float[4,4] v56) {
         v56 = Neg (v1)
      }, then_branch: graph = then64 () => (float[4,4] v54) {
         v54 = Add (x1, x1)
      }>
   }, then_branch: graph = then68 () => (float[4,4] v14) {
      v14 = Sub (x0, x0)
   }>
   v72 = Sub (x2, x2)
}
'''
m = onnx.parser.parse_model(TEXT); onnx.checker.check_model(m, full_check=True); load(m)
rule = guarded(lambda op, x, y: op.Sub(x, y), lambda op, x, y: op.Sub(op.Add(x, y), y))
m2 = rewrite(m, [rule])
print("   names defined:", [o for n in m2.graph.node for o in n.output], "then-branch:", [o for n in m2.graph.node[1].attribute[1].g.node for o in n.output])
verdict("3 value name reused across scopes", m2)

# 4. an input variable of the pattern bound to the output of a matched node: Add(r, r) with r = Relu(a) is an instance of Add(Relu(x), y)
#    with y = r; the replacement consumes y, the Relu is removed all the same -> rewrite() raises half-way through the pass
m = onnx.parser.parse_model('<ir_version: 10, opset_import: ["" : 18]> g (float[4] a) => (float[4] z) { r = Relu(a)  z = Add(r, r) }')
for kw in ({}, {"as_function": True}):
    rep = (lambda op, x, y: op.ReluAdd(x, y, _domain="fused")) if kw else (lambda op, x, y: op.Sub(op.Relu(x), op.Neg(y)))
    rule = pattern.RewriteRule(lambda op, x, y: op.Add(op.Relu(x), y), rep, **kw)
    try:
        verdict(f"4 variable bound to interior value {kw}", rewrite(onnx.ModelProto.FromString(m.SerializeToString()), [rule]))
    except Exception as e:
        root = e
        while root.__cause__ is not None: root = root.__cause__
        print(f"4 variable bound to interior value {kw} -> RAISES {type(e).__name__} <- {type(root).__name__}: {str(root)[:150]}")
