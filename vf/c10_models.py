"""C10 helper: model templates at a given source opset (built with onnx.helper only).

A template is a list of blocks.  A block emits nodes into a *scope* (main graph, If/Loop body or
function body) in the form that is valid at the source opset `s`:

  DFT            s<20: `axis` attribute (default 1)      s>=20: `axis` input (default -2)
  GridSample     s<20: bilinear/bicubic/nearest          s>=20: linear/cubic/nearest
  GroupNorm      s<21: scale/bias per group [G]          s>=21: per channel [C]

build(template, s, seed) -> (ModelProto, [feeds x3], meta)
"""
from __future__ import annotations

import numpy as np
import onnx
from onnx import TensorProto as TP
from onnx import helper

FN_DOMAIN = "vf.local"


class Scope:
    """Collects nodes.  kind: main | sub | func."""

    def __init__(self, model, kind, prefix):
        self.model, self.kind, self.prefix = model, kind, prefix
        self.nodes, self.inits = [], []
        self.vi = []

    def name(self, hint):
        self.model.counter += 1
        return f"{self.prefix}{hint}_{self.model.counter}"

    def node(self, op, inputs, n_out=1, domain="", hint=None, **attrs):
        outs = [self.name(hint or op.lower()) for _ in range(n_out)]
        n = helper.make_node(op, list(inputs), outs, name=self.name("n_" + op), domain=domain, **attrs)
        self.nodes.append(n)
        return outs[0] if n_out == 1 else outs

    def const(self, hint, arr):
        arr = np.asarray(arr)
        nm = self.name("c_" + hint)
        if self.kind == "func" or (self.kind == "sub" and self.model.rng.random() < 0.5):
            self.nodes.append(helper.make_node("Constant", [], [nm], name=self.name("n_Constant"),
                                               value=onnx.numpy_helper.from_array(arr, nm + "_v")))
        else:
            self.inits.append(onnx.numpy_helper.from_array(arr, nm))
        return nm


class ModelBuilder:
    def __init__(self, s, rng, alias=False):
        self.s, self.rng = s, rng
        self.counter = 0
        self.main = Scope(self, "main", "")
        self.inputs, self.outputs = [], []      # value infos
        self.feed_specs = []                    # (name, np dtype, static shape, lo, hi)
        self.functions = []
        self.features = []
        self.alias = alias

    def input(self, hint, shape, decl_shape=None, dtype=np.float32, lo=-2.0, hi=2.0):
        nm = f"in_{hint}_{len(self.inputs)}"
        et = helper.np_dtype_to_tensor_dtype(np.dtype(dtype))
        self.inputs.append(helper.make_tensor_value_info(nm, et, list(decl_shape if decl_shape is not None else shape)))
        self.feed_specs.append((nm, np.dtype(dtype), tuple(shape), lo, hi))
        return nm

    def output(self, name, dtype, shape):
        self.outputs.append(helper.make_tensor_value_info(name, helper.np_dtype_to_tensor_dtype(np.dtype(dtype)), list(shape)))

    def feeds(self, k):
        r = np.random.default_rng(self.rng.randrange(1 << 30) + k)
        out = {}
        for nm, dt, shape, lo, hi in self.feed_specs:
            if dt == np.bool_:
                out[nm] = np.array(bool((k + len(nm)) % 2) if k < 2 else bool(r.integers(0, 2))).reshape(shape)
            else:
                a = r.uniform(lo, hi, size=shape).astype(dt)
                if k == 1 and a.size:
                    flat = a.reshape(-1)
                    flat[0] = 0
                    flat[-1] = hi      # include exact 0 and the boundary value
                out[nm] = a
        return out

    def finish(self, ir_version=10):
        g = helper.make_graph(self.main.nodes, "c10_main", self.inputs, self.outputs, initializer=self.main.inits,
                              value_info=self.main.vi)
        dom = "ai.onnx" if self.alias else ""
        imports = [helper.make_opsetid(dom, self.s)]
        if getattr(self, "no_default_import", False):
            # a main graph made only of function calls: the model itself need not import the default domain, only the
            # functions do (their own opset_import)
            imports = []
        if self.functions:
            imports.append(helper.make_opsetid(FN_DOMAIN, 1))
        m = helper.make_model(g, opset_imports=imports, ir_version=ir_version, producer_name="vf-c10", functions=self.functions)
        m.doc_string = "c10"
        m.metadata_props.add(key="vf", value="c10")
        return m


# ----------------------------------------------------------------------------- blocks
# Every block: blk(sc: Scope, s, ins: list[str], p: dict) -> (out name, out shape, np dtype)
# plus BLOCK_INPUTS[kind](p) -> [(hint, static shape, declared shape, lo, hi)]

def dft_inputs(p):
    last = 2 if p.get("complex") else 1
    shape = [2, 8, last] if p["rank"] == 3 else [2, 4, 6, last]
    return [("dft", shape, None, -2.0, 2.0)]


def dft_block(sc, s, ins, p):
    x = ins[0]
    last = 2 if p.get("complex") else 1
    shape = [2, 8, last] if p["rank"] == 3 else [2, 4, 6, last]
    axis = p.get("axis")
    eff_axis = axis if axis is not None else (1 if s < 20 else len(shape) - 2)
    attrs = {}
    if p.get("inverse"):
        attrs["inverse"] = 1
    if p.get("onesided"):
        attrs["onesided"] = 1
    inputs = [x]
    n = shape[eff_axis]
    if p.get("length"):
        n = p["length"]
        inputs.append(sc.const("dftlen", np.array(n, np.int64)))
    if s < 20:
        if axis is not None:
            attrs["axis"] = axis
    else:
        if axis is not None:
            if len(inputs) == 1:
                inputs.append("")
            inputs.append(sc.const("dftaxis", np.array(axis, np.int64)))
    y = sc.node("DFT", inputs, **attrs)
    oshape = list(shape)
    oshape[eff_axis] = (n // 2 + 1) if p.get("onesided") else n
    oshape[-1] = 2
    return y, oshape, np.float32


def grid_inputs(p):
    return [("gx", [1, 2, 4, 5], None, -2.0, 2.0), ("grid", [1, 3, 3, 2], None, -1.15, 1.15)]


_GRID_NEW = {"bilinear": "linear", "bicubic": "cubic", "nearest": "nearest"}


def grid_block(sc, s, ins, p):
    mode = p["mode"] if s < 20 else _GRID_NEW[p["mode"]]
    attrs = {"mode": mode}
    if p.get("explicit_default_mode") is False and p["mode"] == "bilinear":
        attrs = {}                       # rely on the default mode (bilinear at 16, linear at 20+)
    if p.get("align_corners"):
        attrs["align_corners"] = 1
    if p.get("padding_mode", "zeros") != "zeros":
        attrs["padding_mode"] = p["padding_mode"]
    y = sc.node("GridSample", [ins[0], ins[1]], **attrs)
    return y, [1, 2, 3, 3], np.float32


def gn_inputs(p):
    C = p["C"]
    decl = [2, "Cdim", 3, 3] if p["variant"] == "symC" else None
    out = [("gnx", [2, C, 3, 3], decl, -2.0, 2.0)]
    if p["variant"] == "scale_input":
        k = p["_k"]
        out += [("gnscale", [k], None, 0.5, 1.5), ("gnbias", [k], None, -1.0, 1.0)]
    return out


def gn_block(sc, s, ins, p):
    C, G = p["C"], p["G"]
    k = G if s < 21 else C
    x = ins[0]
    if p["variant"] == "noshape":
        x = sc.node("Relu", [x], hint="gnpre")          # intermediate value without value_info => shape unknown to the converter
    if p["variant"] == "scale_input":
        scale, bias = ins[1], ins[2]
    else:
        r = np.random.default_rng(sc.model.rng.randrange(1 << 30))
        scale = sc.const("gnscale", r.uniform(0.5, 1.5, k).astype(np.float32))
        bias = sc.const("gnbias", r.uniform(-1, 1, k).astype(np.float32))
    attrs = {"num_groups": G}
    if "epsilon" in p:
        attrs["epsilon"] = float(p["epsilon"])
    y = sc.node("GroupNormalization", [x, scale, bias], **attrs)
    return y, [2, C, 3, 3], np.float32


def plain_inputs(p):
    return [("a", [3, 4], None, -2.0, 2.0)]


def plain_block(sc, s, ins, p):
    r = np.random.default_rng(sc.model.rng.randrange(1 << 30))
    K = 260 if p.get("big") else 5          # big: W has 4*260 = 1040 > 1000 elements (the C-API path strips those)
    W = sc.const("W", r.uniform(-1, 1, (4, K)).astype(np.float32))
    b = sc.const("b", r.uniform(-1, 1, (K,)).astype(np.float32))
    h = sc.node("MatMul", [ins[0], W])
    h = sc.node("Add", [h, b])
    h = sc.node("Relu", [h])
    shp = sc.const("shape", np.array([K, 3], np.int64))
    h = sc.node("Reshape", [h, shp])
    h = sc.node("Transpose", [h], perm=[1, 0])
    h = sc.node("Softmax", [h], axis=-1)
    ax = sc.const("axes", np.array([1], np.int64))
    h = sc.node("ReduceSum", [h, ax], keepdims=0)
    h2 = sc.node("Mul", [h, sc.const("two", np.array(2.0, np.float32))])
    h3 = sc.node("Concat", [h, h2], axis=0)
    y = sc.node("Identity", [h3])
    return y, [6], np.float32


BLOCKS = {"dft": (dft_inputs, dft_block), "grid": (grid_inputs, grid_block), "gn": (gn_inputs, gn_block),
          "plain": (plain_inputs, plain_block)}


def _emit(mb, sc, kind, p, ins=None):
    """Emit a block into scope sc; creates graph inputs when ins is None."""
    inputs_fn, blk = BLOCKS[kind]
    if kind == "gn":
        p = dict(p)
        p["_k"] = p["G"] if mb.s < 21 else p["C"]
    if ins is None:
        ins = [mb.input(h, shape, decl, lo=lo, hi=hi) for (h, shape, decl, lo, hi) in inputs_fn(p)]
    return blk(sc, mb.s, ins, p), ins


def _wrap_if(mb, kind, p):
    """If(cond) { then: block ; else: Neg(block with the same inputs) } - both branches capture outer-scope inputs."""
    inputs_fn, _ = BLOCKS[kind]
    pp = dict(p)
    if kind == "gn":
        pp["_k"] = pp["G"] if mb.s < 21 else pp["C"]
    ins = [mb.input(h, shape, decl, lo=lo, hi=hi) for (h, shape, decl, lo, hi) in inputs_fn(pp)]
    cond = mb.input("cond", [], dtype=np.bool_)
    graphs = []
    for tag in ("then", "else"):
        sc = Scope(mb, "sub", f"{tag}_")
        (y, oshape, odt), _ = _emit(mb, sc, kind, p, ins)
        if tag == "else":
            y = sc.node("Neg", [y])
        et = helper.np_dtype_to_tensor_dtype(np.dtype(odt))
        graphs.append(helper.make_graph(sc.nodes, f"{tag}_g", [], [helper.make_tensor_value_info(y, et, oshape)], initializer=sc.inits))
    y = mb.main.node("If", [cond], then_branch=graphs[0], else_branch=graphs[1])
    return y, oshape, odt


def _wrap_loop(mb, kind, p):
    """Loop(2 iterations) { v = v + block(captured inputs) }"""
    inputs_fn, _ = BLOCKS[kind]
    pp = dict(p)
    if kind == "gn":
        pp["_k"] = pp["G"] if mb.s < 21 else pp["C"]
    ins = [mb.input(h, shape, decl, lo=lo, hi=hi) for (h, shape, decl, lo, hi) in inputs_fn(pp)]
    sc = Scope(mb, "sub", "body_")
    (y, oshape, odt), _ = _emit(mb, sc, kind, p, ins)
    et = helper.np_dtype_to_tensor_dtype(np.dtype(odt))
    it, cin, vin = sc.name("iter"), sc.name("cond_in"), sc.name("v_in")
    vout = sc.node("Add", [vin, y], hint="v_out")
    cout = sc.node("Identity", [cin], hint="cond_out")
    body = helper.make_graph(sc.nodes, "body_g",
                             [helper.make_tensor_value_info(it, TP.INT64, []), helper.make_tensor_value_info(cin, TP.BOOL, []),
                              helper.make_tensor_value_info(vin, et, oshape)],
                             [helper.make_tensor_value_info(cout, TP.BOOL, []), helper.make_tensor_value_info(vout, et, oshape)],
                             initializer=sc.inits)
    trip = mb.main.const("trip", np.array(2, np.int64))
    c0 = mb.main.const("cond0", np.array(True))
    v0 = mb.main.const("v0", np.zeros(oshape, odt))
    y = mb.main.node("Loop", [trip, c0, v0], body=body)
    return y, oshape, odt


def _wrap_function(mb, kind, p, fname, with_ref_attr=False, nested=False):
    """Model-local function whose body is the block (constants as Constant nodes)."""
    inputs_fn, _ = BLOCKS[kind]
    pp = dict(p)
    if kind == "gn":
        pp["_k"] = pp["G"] if mb.s < 21 else pp["C"]
    ins = [mb.input(h, shape, decl, lo=lo, hi=hi) for (h, shape, decl, lo, hi) in inputs_fn(pp)]
    sc = Scope(mb, "func", f"{fname}_")
    formal = [f"{fname}_arg{i}" for i in range(len(ins))]
    (y, oshape, odt), _ = _emit(mb, sc, kind, p, formal)
    attrs = []
    if with_ref_attr:
        n = helper.make_node("LeakyRelu", [y], [sc.name("leaky")], name=sc.name("n_LeakyRelu"))
        ra = onnx.AttributeProto()
        ra.name = "alpha"
        ra.type = onnx.AttributeProto.FLOAT
        ra.ref_attr_name = "slope"
        n.attribute.append(ra)
        sc.nodes.append(n)
        y = n.output[0]
        attrs = ["slope"]
    f = helper.make_function(FN_DOMAIN, fname, formal, [y], sc.nodes,
                             opset_imports=[helper.make_opsetid("", mb.s)] + ([helper.make_opsetid(FN_DOMAIN, 1)] if nested else []),
                             attributes=attrs)
    mb.functions.append(f)
    call_attrs = {"slope": 0.25} if with_ref_attr else {}
    if nested:
        # outer function that just calls the inner one and adds its result to itself
        sc2 = Scope(mb, "func", f"{fname}o_")
        formal2 = [f"{fname}o_arg{i}" for i in range(len(ins))]
        inner = sc2.node(fname, formal2, domain=FN_DOMAIN, **call_attrs)
        y2 = sc2.node("Add", [inner, inner])
        mb.functions.append(helper.make_function(FN_DOMAIN, fname + "_outer", formal2, [y2], sc2.nodes,
                                                 opset_imports=[helper.make_opsetid("", mb.s), helper.make_opsetid(FN_DOMAIN, 1)]))
        out = mb.main.node(fname + "_outer", ins, domain=FN_DOMAIN)
    else:
        out = mb.main.node(fname, ins, domain=FN_DOMAIN, **call_attrs)
    return out, oshape, odt


def _rename_main_values(m):
    """Rename the values produced by main-graph nodes (graph outputs excepted) and the main-graph initializers to val_0, val_1, ...
    everywhere they are used, captured uses inside bodies included (all names of a built model are globally unique)."""
    keep = {o.name for o in m.graph.output} | {i.name for i in m.graph.input}
    mp = {}
    for t in m.graph.initializer:
        if t.name not in keep:
            mp[t.name] = f"val_{len(mp)}"
    for n in m.graph.node:
        for o in n.output:
            if o and o not in keep:
                mp[o] = f"val_{len(mp)}"

    def walk(g):
        for t in g.initializer:
            t.name = mp.get(t.name, t.name)
        for vi in g.value_info:
            vi.name = mp.get(vi.name, vi.name)
        for n in g.node:
            for k, nm in enumerate(n.input):
                n.input[k] = mp.get(nm, nm)
            for k, nm in enumerate(n.output):
                n.output[k] = mp.get(nm, nm)
            for a in n.attribute:
                if a.type == onnx.AttributeProto.GRAPH:
                    walk(a.g)
                for sg in a.graphs:
                    walk(sg)

    walk(m.graph)


# ----------------------------------------------------------------------------- templates
def _choices(r):
    return {
        "align": r.choice([0, 1]), "pad": r.choice(["zeros", "border", "reflection"]),
        "G": 2, "C": r.choice([4, 6]), "eps": r.choice([1e-2, 1e-3]),
    }


TEMPLATES = [
    "dft_axis", "dft_noaxis", "dft_len_inverse", "grid_bilinear", "grid_bicubic", "grid_nearest_plain",
    "gn_pergroup_static", "gn_eq_and_scale_input", "gn_symC", "gn_noshape", "plain_inits", "subgraph", "function", "mix",
    "fn_only_imports", "subgraph_only_val_names",
]


def build(template, s, seed_rng, alias=False):
    r = seed_rng
    mb = ModelBuilder(s, r, alias=alias)
    c = _choices(r)
    outs = []

    def top(kind, p, label):
        (y, shape, dt), _ = _emit(mb, mb.main, kind, p)
        outs.append((y, shape, dt, label))

    def wrapped(res, label):
        outs.append(tuple(res) + (label,))

    gn = {"C": c["C"], "G": c["G"]}
    gn_eps = dict(gn, epsilon=c["eps"])          # non-default epsilon
    if template == "dft_axis":
        top("dft", {"rank": 3, "axis": 1, "onesided": r.choice([0, 1])}, "dft_r3_axis1")
        top("dft", {"rank": 4, "axis": r.choice([1, 2])}, "dft_r4_axis")
        top("plain", {}, "plain")
    elif template == "dft_noaxis":
        top("dft", {"rank": 3, "axis": None, "onesided": r.choice([0, 1])}, "dft_r3_noaxis")
        top("dft", {"rank": 4, "axis": None}, "dft_r4_noaxis")
    elif template == "dft_len_inverse":
        top("dft", {"rank": 3, "axis": 1, "complex": True, "inverse": 1, "length": r.choice([6, 10])}, "dft_r3_inverse_len")
        top("dft", {"rank": 4, "axis": 2, "length": r.choice([4, 9])}, "dft_r4_len")
    elif template == "grid_bilinear":
        top("grid", {"mode": "bilinear", "align_corners": c["align"], "padding_mode": c["pad"]}, "grid_bilinear")
        top("grid", {"mode": "bilinear", "explicit_default_mode": False}, "grid_default_mode")
    elif template == "grid_bicubic":
        top("grid", {"mode": "bicubic", "align_corners": c["align"], "padding_mode": c["pad"]}, "grid_bicubic")
    elif template == "grid_nearest_plain":
        top("grid", {"mode": "nearest", "align_corners": c["align"], "padding_mode": c["pad"]}, "grid_nearest")
        top("plain", {}, "plain")
    elif template == "gn_pergroup_static":
        top("gn", dict(gn, variant="static"), "gn_static_eps_default")
        top("gn", dict(gn_eps, variant="static"), "gn_static_eps_custom")
    elif template == "gn_eq_and_scale_input":
        top("gn", dict(gn_eps, C=2, G=2, variant="static"), "gn_G_eq_C")
        top("gn", dict(gn, variant="scale_input"), "gn_scale_as_input")
    elif template == "gn_symC":
        top("gn", dict(gn, variant="symC"), "gn_symbolic_channel")
    elif template == "gn_noshape":
        top("gn", dict(gn, variant="noshape"), "gn_input_without_shape")
    elif template == "plain_inits":
        top("plain", {"big": True}, "plain_big_init")
        top("plain", {}, "plain")
        # an initializer that is also listed as a graph input (overridable default)
        for t in list(mb.main.inits)[:2]:
            arr = onnx.numpy_helper.to_array(t)
            mb.inputs.append(helper.make_tensor_value_info(t.name, t.data_type, list(arr.shape)))
    elif template == "subgraph":
        wrapped(_wrap_if(mb, "grid", {"mode": r.choice(["bilinear", "bicubic"]), "align_corners": c["align"]}), "if_grid")
        wrapped(_wrap_loop(mb, "dft", {"rank": 3, "axis": 1}), "loop_dft_axis")
        wrapped(_wrap_if(mb, "gn", dict(gn, variant="static")), "if_gn_static")
    elif template == "function":
        wrapped(_wrap_function(mb, "grid", {"mode": "bicubic", "padding_mode": c["pad"]}, "f_grid"), "fn_grid_bicubic")
        wrapped(_wrap_function(mb, "plain", {}, "f_plain", with_ref_attr=True), "fn_plain_refattr")
        wrapped(_wrap_function(mb, "dft", {"rank": 3, "axis": 1}, "f_dft", nested=True), "fn_nested_dft_axis")
        wrapped(_wrap_function(mb, "gn", dict(gn, variant="static"), "f_gn"), "fn_gn_static")
    elif template == "fn_only_imports":
        # every node of the main graph is a function call and the model-level opset_import lists only the function domain:
        # the default domain is imported by the functions alone (it must appear at model level once they are inlined)
        wrapped(_wrap_function(mb, "plain", {}, "f_plain"), "fn_plain_only_import")
        wrapped(_wrap_function(mb, r.choice(["grid", "dft"]), {"mode": "bilinear", "align_corners": c["align"], "rank": 3, "axis": 1}, "f_adapt"),
                "fn_adapted_only_import")
        mb.no_default_import = True
    elif template == "subgraph_only_val_names":
        # every operator that needs an adapter sits inside an If/Loop body; the main graph has only version-stable operators
        # whose values carry the names exporters / onnx_ir hand out (val_0, val_1, ...): whatever names a conversion invents
        # inside the bodies must not collide with them
        top("plain", {}, "plain")
        kinds = [("loop", "dft", {"rank": 3, "axis": r.choice([1, None])}), ("if", "gn", dict(gn, variant="static")),
                 ("if", "grid", {"mode": "bilinear", "align_corners": c["align"]})]
        r.shuffle(kinds)
        for how, kind, p in kinds[: r.choice([1, 2, 3])]:
            wrapped((_wrap_loop if how == "loop" else _wrap_if)(mb, kind, p), f"{how}_{kind}_only_in_body")
        top("plain", {}, "plain")
        mb.val_names = True
    elif template == "mix":
        top("dft", {"rank": 4, "axis": 2}, "dft_r4_axis")
        top("grid", {"mode": "bilinear", "align_corners": c["align"]}, "grid_bilinear")
        top("gn", dict(gn, variant="static"), "gn_static_eps_default")
        top("plain", {"big": True}, "plain_big_init")
    else:
        raise ValueError(template)
    for y, shape, dt, _label in outs:
        mb.output(y, dt, shape)
    m = mb.finish()
    if getattr(mb, "val_names", False):
        _rename_main_values(m)
    if alias:
        for n in m.graph.node:
            if n.domain == "" and mb.rng.random() < 0.5:
                n.domain = "ai.onnx"
    feeds = [mb.feeds(k) for k in range(3)]
    return m, feeds, {"template": template, "s": s, "choices": {k: v for k, v in c.items()}, "labels": [o[3] for o in outs]}
