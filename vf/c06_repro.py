"""Standalone repros (no harness code) for the three C06 mechanisms."""
import onnx
from onnx import helper, TensorProto
from onnxscript import ir
from onnxscript.rewriter import pattern

def model(nodes, outs):
    g = helper.make_graph([helper.make_node(*n[:3]) for n in nodes], "g",
        [helper.make_tensor_value_info(n, TensorProto.FLOAT, ["N"]) for n in "ab"],
        [helper.make_tensor_value_info(o, TensorProto.FLOAT, ["N"]) for o in outs])
    m = helper.make_model(g, opset_imports=[helper.make_opsetid("", 13)])
    onnx.checker.check_model(m)
    return ir.serde.deserialize_model(m)

# 1. or_greedy: Sub(Or[Neg(x), z], x) on Sub(Neg(a), b): instance {z=Neg(a), x=b} exists, matcher says no
M = model([("Neg", ["a"], ["t0"]), ("Sub", ["t0", "b"], ["t1"])], ["t1"])
p = pattern.Pattern(lambda op, x, z: op.Sub(pattern.OrValue([op.Neg(x), z]), x))
q = pattern.Pattern(lambda op, x, z: op.Sub(pattern.OrValue([z, op.Neg(x)]), x))
print("1a or_greedy  [Neg(x), z]:", bool(p.match(M, M.graph, M.graph.node(1))), " same OR with alternatives swapped [z, Neg(x)]:", bool(q.match(M, M.graph, M.graph.node(1))))
# 1b. same mechanism, later failure = removability: Neg(Or[Neg(x), y]) on Neg(Neg(a)) where the inner value is a graph output
M = model([("Neg", ["a"], ["t0"]), ("Neg", ["t0"], ["t1"])], ["t0", "t1"])
p = pattern.Pattern(lambda op, x, y: op.Neg(pattern.OrValue([op.Neg(x), y])))
q = pattern.Pattern(lambda op, x, y: op.Neg(pattern.OrValue([y, op.Neg(x)])))
print("1b or_greedy+removable:", bool(p.match(M, M.graph, M.graph.node(1))), " swapped:", bool(q.match(M, M.graph, M.graph.node(1))))

# 2. or_merge_shared_node: t = Sub(x, x); Add(Or[t, y], t) on Add(Sub1(a,a), Sub2(a,a)) -- two different Sub nodes
M = model([("Sub", ["a", "a"], ["t0"]), ("Sub", ["a", "a"], ["t1"]), ("Add", ["t0", "t1"], ["t2"])], ["t2"])
def pat2(op, x, y):
    t = op.Sub(x, x)
    return op.Add(pattern.OrValue([t, y]), t)
def pat2_noor(op, x):
    t = op.Sub(x, x)
    return op.Add(t, t)
m = pattern.Pattern(pat2).match(M, M.graph, M.graph.node(2))
print("2 or_merge: with OR:", bool(m), [n.name or n.op_type for n in m.nodes], " without OR:", bool(pattern.Pattern(pat2_noor).match(M, M.graph, M.graph.node(2))))

# 3. commute + OrValue without tag_var
def pat3(op, x, y):
    return op.Add(pattern.OrValue([x, y]), y)
try:
    pattern.RewriteRuleSet([pattern.RewriteRule(pat3, lambda op, **_: None)], commute=True)
    print("3 commute construct: ok")
except Exception as e:
    print("3 commute construct raises:", type(e).__name__, e)

# 4. commute + three output nodes: the swapped clones have no op identifier, so the candidate lists of the 2nd and 3rd output
#    node are one shared iterator (`all_nodes = iter(graph)` in SimplePatternMatcher.match) and the product is empty
M = model([("Add", ["a", "b"], ["t0"]), ("Add", ["b", "a"], ["t1"]), ("Neg", ["a"], ["t2"])], ["t0", "t1", "t2"])
def pat4(op, x, y):
    return op.Add(x, y), op.Neg(x), op.Add(y, x)
rules = pattern.RewriteRuleSet([pattern.RewriteRule(pat4, lambda op, **_: None)], commute=True).rules
res = [bool(r.match(M, M.graph, M.graph.node(1))) for r in rules]
print("4 commute, 3 output nodes, root=Add(b,a):", res, "(the variant with both Adds swapped has the instance x=a, y=b: Add(b,a), Neg(a), Add(a,b) -> one True expected)")
# the same variant written by hand (not a clone) matches:
print("  hand-written variant:", bool(pattern.Pattern(lambda op, x, y: (op.Add(y, x), op.Neg(x), op.Add(x, y))).match(M, M.graph, M.graph.node(1))))

# 5. same root cause as 2 (node bindings made inside an OR alternative are dropped by merge), other symptom: the shared node
#    pattern is matched a second time, its inner OrValue binds its tag_var to a second value, the failed bind is ignored and
#    merge_current_match raises ValueError("Current match is not successful.")
M = model([("Neg", ["a"], ["A"]), ("Neg", ["b"], ["t"]), ("Neg", ["t"], ["B"]), ("Sub", ["A", "B"], ["r"])], ["r"])
def pat5(op, w, y, z):
    n2 = op.Neg(pattern.OrValue([op.Neg(w), y], tag_var="tg"))
    return op.Sub(pattern.OrValue([n2, z]), n2)
try:
    print("5 shared node with inner tagged OR:", bool(pattern.Pattern(pat5).match(M, M.graph, M.graph.node(3))))
except Exception as e:
    print("5 shared node with inner tagged OR: raises", type(e).__name__, e)
