"""C05 helper: rule -> template binding and the template registry.

A template is a function  params -> list of strata;  a stratum is a dict
  {"sid": stable id, "cond": coarse predicate used in violation keys, "fn": build(h: c05_hosts.H), "forms": optional subset}
The *stratum* fixes every parameter class that can matter for the verdict (ranks, shapes classes, bounds ordering,
attribute values, operand kinds, dtypes, opset); `h.rng` only picks innocuous concrete values (sizes, data).
Template bodies live in c05_t_*.py.
"""
from __future__ import annotations

import re


class Skip(Exception):
    """Raised by a build function when a stratum is not expressible for the given parameters."""


TEMPLATES = {}


def template(tid):
    def deco(f):
        TEMPLATES[tid] = f
        return f

    return deco


def S(sid, cond, fn, forms=None):
    return {"sid": sid, "cond": cond, "fn": fn, "forms": forms}


_strata_cache = {}


def strata(tid, params):
    import json

    key = (tid, json.dumps(params, sort_keys=True))
    if key not in _strata_cache:
        _load()
        lst = TEMPLATES[tid](dict(params))
        ids = [s["sid"] for s in lst]
        assert len(set(ids)) == len(ids), f"duplicate stratum ids in {tid}: {sorted(i for i in ids if ids.count(i) > 1)}"
        _strata_cache[key] = lst
    return _strata_cache[key]


_loaded = False


def _load():
    global _loaded
    if _loaded:
        return
    from . import c05_t_basic, c05_t_fuse, c05_t_nn  # noqa: F401  (register templates)

    _loaded = True


# ---------------------------------------------------------------------------------------------- binding
def pattern_sig(rule) -> str:
    """Structural signature of a rule's target pattern (for rules without a name, e.g. commuted variants)."""
    from onnxscript.rewriter import _pattern_ir as P

    parts = []
    for n in rule._target_pattern:
        ins = []
        for v in n.inputs:
            if v is None:
                ins.append("_")
            elif isinstance(v, P.Constant):
                ins.append(f"c{v.value}")
            elif isinstance(v, P.NodeOutputPattern):
                ins.append("n")
            else:
                ins.append("v")
        attrs = ",".join(f"{k}={a}" for k, a in sorted(n.attributes.items()))
        parts.append(f"{n.op}({','.join(ins)}{';' + attrs if attrs else ''})")
    return "|".join(parts)


BY_EXPORT = {
    # no-op arithmetic
    "mul_by_1_rule": ("noop_arith", {"op": "Mul"}), "add_0_rule": ("noop_arith", {"op": "Add"}),
    "sub_0_rule": ("noop_arith", {"op": "Sub"}), "div_by_1_rule": ("noop_arith", {"op": "Div"}),
    "dropout_zero_rule": ("dropout", {"which": "zero"}), "dropout_inference_rule": ("dropout", {"which": "inference"}),
    # basic rules
    "cast_cast_rule": ("cast_cast", {}), "no_op_cast_rule": ("cast_identity", {}), "no_op_expand_rule": ("expand_identity", {}),
    "reshape_reshape_rule": ("reshape_reshape", {}), "slice_split_rule": ("slice_split", {}),
    "no_op_transpose_rule": ("transpose_identity", {}), "transpose_transpose_rule": ("transpose_transpose", {}),
    "unsqueeze_unsqueeze_rule": ("unsqueeze_unsqueeze", {}), "squeeze_reshape_1d_rule": ("squeeze_reshape", {}),
    "flatten_to_reshape_rule": ("flatten", {}),
    "collapse_slice_rule": ("collapse_slice", {}), "collapse_slice2_rule": ("collapse_slice", {}),
    "cast_constant_of_shape_rule": ("cast_cos", {"value": True}),
    "cast_constant_of_shape_without_value_rule": ("cast_cos", {"value": False}),
    "materialize_reshape_shape_rule": ("materialize_reshape", {}),
    "no_op_static_scatter_nd_rule": ("scatter_static", {}), "no_op_dynamic_scatter_nd_rule": ("scatter_dynamic", {}),
    # min / max / clip / relu
    "min_min_rule": ("minmax", {"outer": "Min", "inner": "Min"}), "max_max_rule": ("minmax", {"outer": "Max", "inner": "Max"}),
    "min_max_rule": ("minmax", {"outer": "Max", "inner": "Min"}), "max_min_rule": ("minmax", {"outer": "Min", "inner": "Max"}),
    "successive_relu_rule": ("reluclip", {"outer": "Relu", "inner": "Relu"}),
    "successive_clip_rule": ("reluclip", {"outer": "Clip", "inner": "Clip"}),
    "successive_clip_relu_rule": ("reluclip", {"outer": "Clip", "inner": "Relu"}),
    "successive_relu_clip_rule": ("reluclip", {"outer": "Relu", "inner": "Clip"}),
    # conv family
    "fuse_pad_into_conv_rule": ("pad_conv", {"op": "Conv"}), "fuse_pad_into_conv_integer_rule": ("pad_conv", {"op": "ConvInteger"}),
    "normalize_pad_format_conv_rule": ("autopad", {"op": "Conv"}),
    "normalize_pad_format_conv_integer_rule": ("autopad", {"op": "ConvInteger"}),
    "fuse_batchnorm_into_conv_rule": ("batchnorm", {"op": "Conv"}),
    "fuse_batchnorm_into_conv_transpose_rule": ("batchnorm", {"op": "ConvTranspose"}),
    "fuse_batchnorm_into_gemm_rule": ("batchnorm", {"op": "Gemm"}),
    "affine_conv_fusion_rule": ("conv_affine", {"order": "affine_conv"}),
    "conv_affine_fusion_rule": ("conv_affine", {"order": "conv_affine"}),
    "remove_optional_bias_from_conv_rule": ("optional_bias", {"op": "Conv"}),
    "remove_optional_bias_from_conv_transpose_rule": ("optional_bias", {"op": "ConvTranspose"}),
    "remove_optional_bias_from_qlinear_conv_rule": ("optional_bias", {"op": "QLinearConv"}),
    "remove_optional_bias_from_gemm_rule": ("optional_bias", {"op": "Gemm"}),
    # matmul family
    "two_reshapes_matmul_reshape_rule": ("reshape_matmul", {"which": "two"}),
    "one_reshape_matmul_reshape_rule": ("reshape_matmul", {"which": "one"}),
    "gemm_to_matmul_add_rule": ("reshape_matmul", {"which": "gemm"}),
    "matmul_add_to_gemm_rule": ("matmul_add", {"ta": 0, "tb": 0}), "transpose_a_matmul_add_to_gemm_rule": ("matmul_add", {"ta": 1, "tb": 0}),
    "transpose_b_matmul_add_to_gemm_rule": ("matmul_add", {"ta": 0, "tb": 1}),
    "transpose_ab_matmul_add_to_gemm_rule": ("matmul_add", {"ta": 1, "tb": 1}),
    # fusion package
    "_layer_norm._layer_norm_rule": ("layer_norm", {}), "_layer_norm._layer_norm_with_bias_rule": ("layer_norm_bias", {}),
    "_rms_normalization._rule1": ("rms_norm", {"mul_order": True}), "_rms_normalization._rule2": ("rms_norm", {"mul_order": False}),
    "_rotary_embedding._rule": ("rotary", {}), "_rotary_embedding._partial_embedding_rule": ("partial_rotary", {}),
    "_gqa._basic_gqa_rule": ("gqa", {}),
}

BY_RULE_NAME = {
    "HardSwishFusion": ("hardswish", {"which": "swish"}), "HardSigmoidFusion": ("hardswish", {"which": "sigmoid"}),
    "HardSwishFusionFromHardSigmoid": ("hardswish", {"which": "from_sigmoid"}),
}

BY_SIG = {
    "Mul(v,c1)": ("noop_arith", {"op": "Mul"}), "Mul(c1,v)": ("noop_arith", {"op": "Mul"}),
    "Add(v,c0)": ("noop_arith", {"op": "Add"}), "Add(c0,v)": ("noop_arith", {"op": "Add"}),
    "Sub(v,c0)": ("noop_arith", {"op": "Sub"}), "Div(v,c1)": ("noop_arith", {"op": "Div"}),
}

_EXPAND_RE = re.compile(r"^Expand(First|Second)_([A-Za-z]+)$")


def resolve(name, rule):
    """-> (template id, params) | None"""
    if name in BY_EXPORT:
        return BY_EXPORT[name]
    rn = getattr(rule, "name", None)
    if rn:
        if rn in BY_RULE_NAME:
            return BY_RULE_NAME[rn]
        m = _EXPAND_RE.match(rn)
        if m:
            return ("expand_binary", {"op": m.group(2)})
    try:
        sig = pattern_sig(rule)
    except Exception:
        return None
    return BY_SIG.get(sig)
