"""./check entry point."""
from __future__ import annotations

import argparse
import os
import subprocess
import sys

from . import common


def setup() -> int:
    """Optional third-party monitor libraries next to the repo's interpreter (offline)."""
    deps = os.path.join(common.VERIF_DIR, ".deps")
    if os.path.isdir(os.path.join(deps, "icontract")):
        print("setup: .deps present")
        return 0
    cmd = [sys.executable, "-m", "pip", "install", "--quiet", "--no-index", "--find-links",
           "/opt/veriftools/wheels", "--no-deps", "--target", deps, "icontract", "asttokens", "six"]
    try:
        r = subprocess.run(cmd, timeout=300)
        print("setup: pip exit", r.returncode, "(icontract is optional; monitors fall back to counters)")
    except Exception as e:  # pragma: no cover
        print("setup: skipped", e)
    return 0


def main(argv=None) -> int:
    ap = argparse.ArgumentParser(prog="check")
    ap.add_argument("what")
    ap.add_argument("--tier", default=None)
    ap.add_argument("--seed", type=int, default=None)
    ap.add_argument("--replay", default=None)
    a, rest = ap.parse_known_args(argv)
    if a.what == "setup":
        return setup()
    if a.tier:
        os.environ["VERIF_TIER"] = a.tier
    if a.seed is not None:
        os.environ["VERIF_SEED"] = str(a.seed)
    from . import driver

    if a.what == "selftest":
        from . import selftest

        return selftest.main(rest)
    pid = a.what.upper()
    modname = f"vf.{pid.lower()}"
    if a.replay:
        return driver.replay(modname, a.replay)
    return driver.run(modname, common.tier(), common.seed())


if __name__ == "__main__":
    sys.exit(main())
