"""Worker process: `python -m vf.worker vf.cXX` — reads JSON specs, writes JSON results."""
from __future__ import annotations

import importlib
import json
import os
import sys
import traceback
import warnings


def main():
    modname = sys.argv[1]
    # protocol channel = original stdout; everything else the libraries print goes to stderr
    proto = os.fdopen(os.dup(1), "w", buffering=1)
    os.dup2(2, 1)
    sys.stdout = sys.stderr
    warnings.filterwarnings("ignore")
    import faulthandler

    faulthandler.enable()
    mod = importlib.import_module(modname)
    from . import probes

    anchors = probes.AnchorReach(getattr(mod, "ANCHORS", []))
    if hasattr(mod, "worker_init"):
        mod.worker_init()
    for line in sys.stdin:
        line = line.strip()
        if not line:
            continue
        spec = json.loads(line)
        anchors.begin()
        try:
            res = mod.run_case(spec)
            if not isinstance(res, dict):
                res = {"status": "harness_error", "error": f"run_case returned {type(res)}"}
        except Exception as e:  # a bug in the harness, never a verdict on the repo
            res = {"status": "harness_error", "error": f"{type(e).__name__}: {e}",
                   "trace": traceback.format_exc()[-3000:]}
        try:
            res["anchors"] = anchors.end()
        except Exception:
            pass
        try:
            out = json.dumps(res, default=str)
        except Exception as e:
            out = json.dumps({"status": "harness_error", "error": f"unserialisable result: {e}"})
        proto.write(out + "\n")
        proto.flush()


if __name__ == "__main__":
    main()
