"""python -m vf.seeded_confirm <name>: confirm a seeded defect myself — patch applies to a scratch copy of /repo,
the demonstration fails with it and passes without it, (optionally) the touched modules' tests still pass."""
import json, os, shutil, subprocess, sys, tempfile

def main():
    name = sys.argv[1]
    tests = sys.argv[2:]
    d = os.path.join("/verif/seeded", name)
    meta = json.load(open(os.path.join(d, "meta.json")))
    scratch = tempfile.mkdtemp(prefix="vf-confirm-")
    copy = os.path.join(scratch, "repo")
    res = {}
    try:
        subprocess.run(["rsync", "-a", "--exclude", ".git", "/repo/", copy + "/"], check=True)
        demo = [f for f in os.listdir(d) if f.startswith("demo")][0]
        def run_demo(pp):
            env = dict(os.environ, PYTHONPATH=pp, PYTHONDONTWRITEBYTECODE="1")
            cmd = [sys.executable, "-m", "pytest", "-q", "-p", "no:cacheprovider", "-x", os.path.join(d, demo)] if demo.endswith("_test.py") or demo.startswith("demo_test") else [sys.executable, os.path.join(d, demo)]
            p = subprocess.run(cmd, capture_output=True, text=True, env=env, cwd=scratch, timeout=1800)
            return p.returncode, (p.stdout + p.stderr)[-400:]
        rc0, out0 = run_demo(copy)          # unchanged copy
        r = subprocess.run(["patch", "-p1", "-d", copy, "-i", os.path.join(d, "patch.diff")], capture_output=True, text=True)
        res["patch_applies"] = r.returncode == 0
        rc1, out1 = run_demo(copy)
        res["demo_passes_without_change"] = rc0 == 0
        res["demo_fails_with_change"] = rc1 != 0
        if tests:
            env = dict(os.environ, PYTHONPATH=copy, PYTHONDONTWRITEBYTECODE="1")
            p = subprocess.run([sys.executable, "-m", "pytest", "-q", "-p", "no:cacheprovider", "--timeout=900", *tests], capture_output=True, text=True, env=env, cwd=copy, timeout=7200)
            res["existing_tests"] = {"cmd": " ".join(tests), "rc": p.returncode, "tail": p.stdout.strip().splitlines()[-1:] }
        res["tail_with_change"] = out1[-200:]
        if rc0 != 0:
            res["tail_without_change"] = out0[-300:]
    finally:
        shutil.rmtree(scratch, ignore_errors=True)
    meta["confirmed_by_main"] = res
    json.dump(meta, open(os.path.join(d, "meta.json"), "w"), indent=1)
    print(name, json.dumps(res)[:600])

main()
