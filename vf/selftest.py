"""./check selftest [name...] — replay the seeded defects under /verif/seeded against the checks.

For every /verif/seeded/<name>/ (patch.diff + meta.json) a scratch copy of /repo's working tree is
made outside /repo and /verif, the patch is applied there, the property's quick check is run with
VERIF_REPO pointing at the copy (the copy shadows the editable install), and the verdict is
recorded: expected = exit 1 with a VIOLATION line whose key is not a known finding.
The copy is removed afterwards.  Nothing is ever applied to /repo itself.
"""
from __future__ import annotations

import json
import os
import shutil
import subprocess
import sys
import tempfile
import time

from . import common

SEEDED = os.path.join(common.VERIF_DIR, "seeded")


def run_one(name: str, tier="quick", seeds=("0",)):
    d = os.path.join(SEEDED, name)
    with open(os.path.join(d, "meta.json")) as f:
        meta = json.load(f)
    pid = meta["property"]
    scratch = tempfile.mkdtemp(prefix="vf-seeded-")
    out = {"name": name, "property": pid, "runs": []}
    try:
        copy = os.path.join(scratch, "repo")
        subprocess.run(["rsync", "-a", "--exclude", ".git", "/repo/", copy + "/"], check=True)
        r = subprocess.run(["git", "apply", "--unsafe-paths", "--directory", copy, os.path.join(d, "patch.diff")],
                           capture_output=True, text=True, cwd="/")
        if r.returncode != 0:
            r = subprocess.run(["patch", "-p1", "-d", copy, "-i", os.path.join(d, "patch.diff")], capture_output=True, text=True)
        if r.returncode != 0:
            out["error"] = "patch does not apply: " + (r.stderr or r.stdout)[-300:]
            return out
        for pid_run in [pid] + list(meta.get("also_check", [])):
            for seed in seeds:
                env = dict(os.environ, VERIF_REPO=copy, VERIF_TIER=tier, VERIF_SEED=str(seed), VERIF_NO_CONFIRM="1")
                t0 = time.time()
                p = subprocess.run([os.path.join(common.VERIF_DIR, "check"), pid_run], capture_output=True, text=True, env=env,
                                   cwd=common.VERIF_DIR, timeout=3600)
                lines = [l for l in p.stdout.splitlines() if l.startswith(("VIOLATION", "  key=", "INCONCLUSIVE"))]
                out["runs"].append({"check": pid_run, "seed": seed, "exit": p.returncode, "wall_s": round(time.time() - t0, 1),
                                    "lines": [l[:300] for l in lines[:8]]})
    finally:
        shutil.rmtree(scratch, ignore_errors=True)
    out["caught"] = any(r["exit"] == 1 for r in out["runs"])
    return out


def main(argv=None):
    names = [a for a in (argv if argv is not None else sys.argv[2:]) if not a.startswith("-")]
    if not names:
        names = sorted(n for n in os.listdir(SEEDED) if os.path.exists(os.path.join(SEEDED, n, "patch.diff")))
    results = []
    seeds = tuple(x for x in os.environ.get("VERIF_SELFTEST_SEEDS", "0").split(",") if x)
    for n in names:
        r = run_one(n, seeds=seeds)
        results.append(r)
        print(f"{n}: property={r['property']} caught={r.get('caught')} " +
              " ".join(f"[{x['check']} seed={x['seed']} exit={x['exit']} {x['wall_s']}s]" for x in r.get("runs", [])) +
              (f" ERROR {r['error']}" if "error" in r else ""))
        for x in r.get("runs", []):
            for l in x["lines"][:3]:
                print("    " + l)
    # a partial run updates the entries it re-ran and keeps the others
    path = os.path.join(SEEDED, "RESULTS.json" if seeds == ("0",) else "RESULTS_seeds_" + "_".join(seeds) + ".json")
    merged = {}
    try:
        with open(path) as f:
            merged = {r["name"]: r for r in json.load(f)}
    except (OSError, ValueError):
        pass
    merged.update({r["name"]: r for r in results})
    with open(path, "w") as f:
        json.dump([merged[k] for k in sorted(merged)], f, indent=1)
    return 0 if all(r.get("caught") for r in results) else 1
