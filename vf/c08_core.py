"""C08 engine: bind arguments the exporter's way, trace a torch_lib function under the exporter's
OpRecorder, turn the recording into a model, run it on ORT and compare with torch eager.

Nothing here decides *what* to test (see c08_strata.py); this file decides *how* one argument
tuple is judged.
"""
from __future__ import annotations

import math
import sys

import numpy as np

from . import compare, runner

DTYPES = ["f16", "f32", "f64", "i32", "i64", "u8", "bool"]
_env = None


class Env:
    """Lazy imports + registry, once per process."""

    def __init__(self):
        import warnings

        warnings.filterwarnings("ignore")
        import torch
        from torch.onnx._internal.exporter import _building, _core, _registration, _tensors

        import onnxscript
        from onnxscript import ir
        from onnxscript._framework_apis import torch_2_5
        from onnxscript._internal import evaluator

        self.torch, self.ir, self.onnxscript = torch, ir, onnxscript
        self.building, self.tensors, self.registration, self.core = _building, _tensors, _registration, _core
        self.evaluator = evaluator
        self.opset = onnxscript.opset18
        self.metas = {}
        for m in torch_2_5.get_torchlib_ops():
            if not m.is_complex:
                self.metas.setdefault(m.qualified_name, m)
        self.tdt = {"f16": torch.float16, "f32": torch.float32, "f64": torch.float64, "i32": torch.int32,
                    "i64": torch.int64, "u8": torch.uint8, "bool": torch.bool, "i8": torch.int8, "i16": torch.int16}
        self.dtname = {v: k for k, v in self.tdt.items()}
        self._targets = {}
        from torch.onnx._internal.fx import type_utils as fx_type_utils
        from torch.onnx._internal.fx.passes import type_promotion

        self.promo_table = type_promotion.TypePromotionTable()
        self.scalar_dtype = fx_type_utils.from_scalar_type_to_torch_dtype

    def target(self, qn):
        if qn not in self._targets:
            self._targets[qn] = self.registration._get_overload(qn)
        return self._targets[qn]


def env() -> Env:
    global _env
    if _env is None:
        _env = Env()
    return _env


# ---------------------------------------------------------------------------------------------
# argument description (for violation details / standalone repro scripts)


def _lit(x, E):
    """Python source text that rebuilds argument x."""
    torch = E.torch
    if isinstance(x, torch.Tensor):
        dn = str(x.dtype)
        if x.numel() == 0 or x.dim() == 0:
            if x.dim() == 0:
                return f"torch.tensor({_num(x.item())}, dtype={dn})"
            return f"torch.zeros({list(x.shape)}, dtype={dn})"
        flat = [_num(v) for v in x.reshape(-1).tolist()]
        return f"torch.tensor([{', '.join(flat)}], dtype={dn}).reshape({list(x.shape)})"
    if isinstance(x, (list, tuple)):
        return "[" + ", ".join(_lit(v, E) for v in x) + "]"
    if isinstance(x, torch.dtype):
        return str(x)
    if isinstance(x, (torch.memory_format, torch.layout)):
        return str(x)
    if isinstance(x, torch.device):
        return f"torch.device({str(x)!r})"
    if isinstance(x, float):
        return _num(x)
    return repr(x)


def _num(v):
    if isinstance(v, bool):
        return repr(v)
    if isinstance(v, float):
        if math.isnan(v):
            return "float('nan')"
        if math.isinf(v):
            return "float('inf')" if v > 0 else "float('-inf')"
        return repr(v)
    return repr(v)


REPRO_PREAMBLE = r'''# standalone reproduction (C08 direct driver): trace -> ORT vs torch eager.  Run: /venv/bin/python this.py
import warnings; warnings.filterwarnings("ignore")
import numpy as np, torch, onnxruntime, onnxscript
from onnxscript import ir
from onnxscript._internal import evaluator
from onnxscript._framework_apis import torch_2_5
from torch.onnx._internal.exporter import _building, _tensors, _registration, _core
onnxruntime.set_default_logger_severity(4)
def run(qn, args, kwargs):
    meta = [m for m in torch_2_5.get_torchlib_ops() if m.qualified_name == qn and not m.is_complex][0]
    want = _registration._get_overload(qn)(*args, **kwargs)
    opset, inputs, feeds = onnxscript.opset18, [], {}
    def conv(a, path):
        if isinstance(a, torch.Tensor):
            v = _tensors.SymbolicTensor(opset, name=f"input_{path}", shape=ir.Shape(list(a.shape)),
                                        type=ir.TensorType(_core.torch_dtype_to_onnx_dtype(a.dtype)))
            inputs.append(v); feeds[v.name] = a.numpy(); return v
        if isinstance(a, (list, tuple)): return [conv(x, f"{path}_{j}") for j, x in enumerate(a)]
        if isinstance(a, (torch.device, torch.memory_format, torch.layout)): return str(a)
        if isinstance(a, torch.dtype): return _core.torch_dtype_to_onnx_dtype(a)
        return a
    oargs = [conv(a, str(i)) for i, a in enumerate(args)]
    okw = {k: conv(v, k) for k, v in kwargs.items()}
    if "dtype" in okw and okw["dtype"] is None: okw["dtype"] = -1
    tracer = _building.OpRecorder(opset, {})
    with evaluator.default_as(tracer):
        outs = meta.function(*oargs, **okw)
    outs = list(outs) if isinstance(outs, (list, tuple)) else [outs]
    for k, o in enumerate(outs): o.name = o.name or f"out_{k}"
    g = ir.Graph(inputs, outs, nodes=tracer.nodes, opset_imports={"": 18, "pkg.torch.onnx": 1,
                 "pkg.onnxscript.torch_lib.common": 1, "pkg.onnxscript.torch_lib": 1}, name="main_graph")
    model = ir.Model(g, ir_version=10)
    for ident, f in tracer.functions.items():
        model.functions[ident] = f if isinstance(f, ir.Function) else ir.serde.deserialize_function(f.to_function_proto())
    so = onnxruntime.SessionOptions(); so.graph_optimization_level = onnxruntime.GraphOptimizationLevel.ORT_DISABLE_ALL
    sess = onnxruntime.InferenceSession(ir.to_proto(model).SerializeToString(), so, providers=["CPUExecutionProvider"])
    got = sess.run(None, feeds)
    print("torch:", want); print("onnx :", got)
'''


def repro_script(qn, args, kwargs):
    E = env()
    a = ", ".join(_lit(x, E) for x in args)
    k = ", ".join(f"{n!r}: {_lit(v, E)}" for n, v in kwargs.items())
    return REPRO_PREAMBLE + f"run({qn!r}, [{a}], {{{k}}})\n"


def describe(args, kwargs):
    E = env()
    s = ", ".join(_lit(x, E) for x in args)
    if kwargs:
        s += ", " + ", ".join(f"{n}={_lit(v, E)}" for n, v in kwargs.items())
    return s[:1200]


# ---------------------------------------------------------------------------------------------
# annotation admission


def promoted_away(target, args, kwargs):
    """The exporter runs InsertTypePromotion before torch_lib is called: an argument whose dtype differs from what the
    op's promotion rule expects is rewritten (convert_element_type / scalar_tensor) and never reaches the function in
    that form.  -> reason string if this tuple is such a case, else None."""
    E = env()
    torch = E.torch
    pkt = getattr(target, "overloadpacket", None)
    rule = E.promo_table.get_rule(pkt) if pkt is not None else None
    if rule is None:
        return None
    try:
        info = rule.preview_type_promotion(tuple(args), dict(kwargs))
    except Exception:
        return None

    def bad(a, dt):
        if dt is None or a is None:
            return False
        if isinstance(a, torch.Tensor):
            return a.dtype != dt
        if isinstance(a, (list, tuple)):
            return any(bad(x, dt) for x in a)
        if isinstance(a, (bool, int, float)):
            eq = E.scalar_dtype(type(a))
            return eq is not None and eq != dt
        return False

    for i, dt in info.args_dtypes.items():
        if i < len(args) and bad(args[i], dt):
            return f"arg {i} would be promoted to {dt}"
    for k, dt in info.kwargs_dtypes.items():
        if k in kwargs and bad(kwargs[k], dt):
            return f"kwarg {k} would be promoted to {dt}"
    return None


def _iter_tensors(x, E):
    if isinstance(x, E.torch.Tensor):
        yield x
    elif isinstance(x, (list, tuple)):
        for v in x:
            yield from _iter_tensors(v, E)


def annotation_admits(fn, args, kwargs):
    """None if every tensor argument's dtype is admitted by the parameter it lands on, else a reason."""
    E = env()
    ir = E.ir
    sig = fn.op_signature
    params = list(sig.params)
    bound = []
    for i, a in enumerate(args):
        if i >= len(params):
            return None  # arity problems are C16's business; tracing will refuse
        bound.append((params[i], a))
    for k, a in kwargs.items():
        p = sig.params_map.get(k)
        if p is not None:
            bound.append((p, a))
    by_constraint = {}
    for p, a in bound:
        ts = list(_iter_tensors(a, E))
        if not ts:
            continue
        if not isinstance(p, ir.schemas.Parameter):
            return f"tensor given to attribute parameter {p.name}"
        allowed = p.type_constraint.allowed_types
        adt = set()
        for t in allowed:
            try:
                adt.add(t.dtype)
            except Exception:
                pass
        for t in ts:
            d = E.core.torch_dtype_to_onnx_dtype(t.dtype)
            if d not in adt:
                return f"{p.name}: {d} not admitted by {p.type_constraint.name}"
            nm = p.type_constraint.name
            if not nm.startswith("T_") and not nm.startswith("Sequence_T_"):
                # a named TypeVar shared between parameters binds them to one dtype
                prev = by_constraint.setdefault(nm.replace("Sequence_", "").replace("Optional_", ""), d)
                if prev != d:
                    return f"{p.name}: {d} vs {prev} under shared type variable {nm}"
    return None


# ---------------------------------------------------------------------------------------------
# trace and build


def _to_onnx_arg(a, inputs, feeds, path, E):
    torch, ir = E.torch, E.ir
    if a is None:
        return None
    if isinstance(a, torch.Tensor):
        name = f"input_{path}"
        v = E.tensors.SymbolicTensor(opset=E.opset, name=name, shape=ir.Shape(list(a.shape)),
                                     type=ir.TensorType(E.core.torch_dtype_to_onnx_dtype(a.dtype)))
        inputs.append(v)
        feeds[name] = a.detach().numpy()
        return v
    if isinstance(a, (list, tuple)):
        return [_to_onnx_arg(x, inputs, feeds, f"{path}_{j}", E) for j, x in enumerate(a)]
    if isinstance(a, (torch.device, torch.memory_format, torch.layout)):
        return str(a)
    if isinstance(a, torch.dtype):
        return E.core.torch_dtype_to_onnx_dtype(a)
    return a


def trace(fn, args, kwargs):
    """The exporter's call convention (_core._handle_call_function_node_with_lowering)."""
    E = env()
    inputs, feeds = [], {}
    oargs = [_to_onnx_arg(a, inputs, feeds, str(i), E) for i, a in enumerate(args)]
    okw = {}
    for k, v in kwargs.items():
        okw[k] = _to_onnx_arg(v, inputs, feeds, k, E)
        if k == "dtype" and okw[k] is None:
            okw[k] = -1
    tracer = E.building.OpRecorder(E.opset, {})
    with E.evaluator.default_as(tracer):
        outs = fn(*oargs, **okw)
    return inputs, feeds, tracer, outs


def build_model(inputs, tracer, flat_outs):
    E = env()
    ir = E.ir
    graph = ir.Graph(inputs, (), nodes=(), opset_imports={"": 18, "pkg.torch.onnx": 1,
                     "pkg.onnxscript.torch_lib.common": 1, "pkg.onnxscript.torch_lib": 1}, name="main_graph")
    for k, o in enumerate(flat_outs):
        if o.name is None:
            o.name = f"out_{k}"
    graph.outputs.extend(flat_outs)
    graph.extend(tracer.nodes)
    model = ir.Model(graph, ir_version=10, producer_name="vf-c08")
    for ident, f in tracer.functions.items():
        if ident in model.functions:
            continue
        model.functions[ident] = f if isinstance(f, ir.Function) else ir.serde.deserialize_function(f.to_function_proto())
    return model


# exception classes that no implementation raises on purpose to decline an argument combination
_CRASH_EXC = (RecursionError, IndexError, KeyError, ZeroDivisionError, UnboundLocalError, NameError, MemoryError)


def _flatten_torch(want, E):
    """torch result -> (structure tag, [numpy arrays])."""
    torch = E.torch
    if isinstance(want, torch.Tensor):
        return "tensor", [want]
    if isinstance(want, (list, tuple)):
        out = []
        for w in want:
            if isinstance(w, torch.Tensor):
                out.append(w)
            elif isinstance(w, (bool, int, float)):
                out.append(torch.tensor(w))
            else:
                return "unsupported", []
        return f"seq{len(out)}", out
    if isinstance(want, (bool, int, float)):
        return "scalar", [torch.tensor(want)]
    return "unsupported", []


def _np(t):
    return t.detach().cpu().numpy()


def _flatten_onnx(got):
    """ORT outputs: a Sequence-typed output arrives as a python list -> flatten one level."""
    out = []
    for g in got:
        if isinstance(g, list):
            out.extend(g)
        else:
            out.append(g)
    return out


def first_difference(got, want_np, scale, mode):
    """-> (kind, text) | None.  kind in structure|dtype|shape|value.
    mode: "value" | "shape_only" | {"skip": [output indexes not compared at all], "shape_only": [indexes compared by dtype/shape]}."""
    skip, shp = set(), set()
    if mode == "shape_only":
        shp = set(range(len(want_np)))
    elif isinstance(mode, dict):
        skip = set(mode.get("skip") or ())
        shp = set(mode.get("shape_only") or ())
    if len(got) != len(want_np):
        return "structure", f"{len(got)} outputs vs {len(want_np)} from torch"
    for i, (g, w) in enumerate(zip(got, want_np)):
        if i in skip:
            continue
        g = np.asarray(g)
        if g.dtype != w.dtype:
            return "dtype", f"out[{i}]: onnx {g.dtype} vs torch {w.dtype}"
    for i, (g, w) in enumerate(zip(got, want_np)):
        if i in skip:
            continue
        g = np.asarray(g)
        if g.shape != w.shape:
            return "shape", f"out[{i}]: onnx {g.shape} vs torch {w.shape}"
    for i, (g, w) in enumerate(zip(got, want_np)):
        if i in skip or i in shp:
            continue
        d = compare.compare_value(np.asarray(g), w, scale=scale)
        if d:
            return "value", f"out[{i}]: {d} (onnx vs torch)"
    return None


def judge(qn, cls, args, kwargs, *, mode="value", scale=1.0, want_repro=True):
    """Run one argument tuple.  -> dict(status=..., viol=[...]|None, events={...}, info=...)."""
    E = env()
    torch = E.torch
    ev = {}

    def hit(k, n=1):
        ev[k] = ev.get(k, 0) + n

    meta = E.metas.get(qn)
    target = E.target(qn)
    if meta is None or target is None or not hasattr(target, "_schema"):
        return {"status": "no_target", "events": ev}
    fn = meta.function
    # --- domain: torch itself must succeed
    try:
        with torch.no_grad():
            targs = _clone(args, E)
            tkw = _clone(kwargs, E)
            want = target(*targs, **tkw)
    except Exception as e:
        return {"status": "torch_rejects", "events": ev, "info": f"{type(e).__name__}: {str(e)[:160]}"}
    stag, want_t = _flatten_torch(want, E)
    if stag == "unsupported":
        return {"status": "unsupported_output", "events": ev}
    if any(t.is_complex() for t in want_t):
        return {"status": "unsupported_output", "events": ev}
    # --- domain: the tuple reaches torch_lib in this form (type-promotion pass)
    why = promoted_away(target, args, kwargs)
    if why:
        return {"status": "promoted_away", "events": ev, "info": why}
    # --- domain: the function's annotation admits the dtypes
    why = annotation_admits(fn, args, kwargs)
    if why:
        return {"status": "outside_annotation", "events": ev, "info": why}
    want_np = [_np(t) for t in want_t]
    # --- trace
    try:
        inputs, feeds, tracer, outs = trace(fn, args, kwargs)
    except Exception as e:
        root = e
        while root.__cause__ is not None:
            root = root.__cause__
        if isinstance(root, _CRASH_EXC):
            # not a refusal: the implementation itself fell over (unbounded recursion, an index past the end of a list ...)
            # on a call PyTorch executes
            hit("trace_crash")
            key = f"op={qn};kind=trace_crash;exc={type(root).__name__};class={cls}"
            what = f"{qn} [{cls}]: tracing raises {type(root).__name__}: {str(root)[:160]} (torch executes the call); call: {describe(args, kwargs)[:400]}".replace("\n", " ")
            return {"status": "violation", "events": ev, "viol": {"key": key, "what": what, "detail": {"call": f"{qn}({describe(args, kwargs)})", "function": fn.name}}}
        return {"status": "refused", "events": ev, "info": f"{type(root).__name__}: {str(root)[:200]}"}
    hit("traced")
    hit("nodes_recorded", len(tracer.nodes))
    hit("function_nodes", len(tracer.functions))
    flat = list(outs) if isinstance(outs, (list, tuple)) else [outs]
    if not flat or not all(isinstance(o, E.ir.Value) for o in flat):
        return {"status": "unsupported_output", "events": ev, "info": f"traced function returned {type(outs).__name__}"}

    def viol(kind, text):
        key = f"op={qn};kind={kind};class={cls}"
        d = {"call": f"{qn}({describe(args, kwargs)})", "function": fn.name, "nodes": len(tracer.nodes)}
        if want_repro:
            d["repro"] = repro_script(qn, args, kwargs)
        what = f"{qn} [{cls}]: {text}; call: {describe(args, kwargs)[:400]}".replace("\n", " ")
        return {"key": key, "what": what, "detail": d}

    try:
        model = build_model(inputs, tracer, flat)
        proto = E.ir.to_proto(model)
    except Exception as e:
        return {"status": "violation", "events": ev, "viol": viol("invalid_graph", f"model cannot be built/serialised: {type(e).__name__}: {str(e)[:200]}")}
    st, got = runner.ort_run(proto, feeds)
    if st == "not_implemented":
        return {"status": "not_implemented", "events": ev, "info": str(got)[:200]}
    diff = None
    if st != "ok":
        diff = ("invalid_graph", f"ORT {st} failure: {str(got)[:300]}")
    else:
        hit("ort_ran")
        got = _flatten_onnx(got)
        diff = first_difference(got, want_np, scale, mode)
    if diff is None:
        # the exporter declares output types/shapes from torch's meta values: do the same, then validate (evidence only:
        # the property is about what executing the graph gives, so a checker complaint is counted, never a violation)
        seq_out = (len(flat) != len(want_t)) or any(isinstance(o.type, E.ir.SequenceType) for o in flat) or \
            (stag.startswith("seq") and not isinstance(outs, (list, tuple)))
        if seq_out or (isinstance(mode, dict) and mode.get("skip")):
            # sequence outputs / outputs that are deliberately not compared cannot be given torch's type+shape: no checker pass
            return {"status": "ok", "events": ev}
        try:
            for o, t in zip(flat, want_t):
                if o.dtype is None:
                    o.dtype = E.core.torch_dtype_to_onnx_dtype(t.dtype)
                o.shape = E.ir.Shape(list(t.shape))
            err = runner.checker(E.ir.to_proto(model), full=True)
        except Exception as e:  # pragma: no cover
            err = f"{type(e).__name__}: {e}"
        if err:
            hit("checker_rejects")
            return {"status": "ok", "events": ev, "checker": f"{qn} [{cls}]: {err[:240]}"}
        hit("checker_accepts")
        return {"status": "ok", "events": ev}
    # --- external-oracle rule: the reference evaluator may dispute
    kind, text = diff
    disputable = kind != "dtype"  # output element types are fixed by ONNX type inference, never a runtime quirk
    if st == "load":
        # a load-time rejection is static validation against the ONNX spec; onnx.reference does not type-check, so it
        # may dispute only if onnx's own strict type/shape inference accepts the graph
        try:
            import onnx

            onnx.shape_inference.infer_shapes(proto, check_type=True, strict_mode=True)
        except Exception:
            disputable = False
    rst, rgot = runner.ref_run(proto, feeds) if disputable else ("skipped", None)
    if rst == "ok":
        try:
            rdiff = first_difference(_flatten_onnx(rgot), want_np, scale, mode)
        except Exception:
            rdiff = ("value", "reference output not comparable")
        if rdiff is None:
            return {"status": "disputed", "events": ev, "info": f"{qn} [{cls}]: ORT {text}; onnx.reference agrees with torch"}
        if kind == "shape" and rdiff[0] != kind:
            # ORT's own shape deviation (its empty-reduction quirk) masks what the graph really gets wrong:
            # name the violation after the deviation the reference evaluator shows
            kind, text = rdiff[0], f"{rdiff[1]} [per onnx.reference; ORT: {text[:160]}]"
    return {"status": "violation", "events": ev, "viol": viol(kind, text)}


def _clone(x, E):
    torch = E.torch
    if isinstance(x, torch.Tensor):
        return x.clone()
    if isinstance(x, list):
        return [_clone(v, E) for v in x]
    if isinstance(x, tuple):
        return tuple(_clone(v, E) for v in x)
    if isinstance(x, dict):
        return {k: _clone(v, E) for k, v in x.items()}
    return x


# ---------------------------------------------------------------------------------------------
# line coverage inside aten_* bodies (sys.monitoring, every location fires once and is then disabled)

_COV_TOOL = 3
_cov = {"codes": {}, "hits": {}, "new": {}, "on": False}


def coverage_install():
    E = env()
    mon = getattr(sys, "monitoring", None)
    if mon is None or _cov["on"]:
        return
    try:
        mon.use_tool_id(_COV_TOOL, "vf-c08-lines")
    except ValueError:
        return
    for qn, m in E.metas.items():
        f = getattr(m.function, "func", None)
        code = getattr(f, "__code__", None)
        if code is not None and code not in _cov["codes"]:
            _cov["codes"][code] = m.function.name

    def on_line(code, line):
        nm = _cov["codes"].get(code)
        if nm is not None:
            _cov["new"].setdefault(nm, set()).add(line)
        return mon.DISABLE

    mon.register_callback(_COV_TOOL, mon.events.LINE, on_line)
    for code in _cov["codes"]:
        mon.set_local_events(_COV_TOOL, code, mon.events.LINE)
    _cov["on"] = True


def coverage_take():
    """Lines newly seen since the last call: {function: [lines]}."""
    out = {k: sorted(v) for k, v in _cov["new"].items()}
    _cov["new"] = {}
    return out


def coverage_totals():
    """{function: number of lines in its body} for traced functions."""
    E = env()
    out = {}
    for qn, m in E.metas.items():
        f = getattr(m.function, "func", None)
        code = getattr(f, "__code__", None)
        if code is None:
            continue
        lines = {ln for (_s, _e, ln) in code.co_lines() if ln is not None and ln != code.co_firstlineno}
        out[m.function.name] = len(lines)
    return out
