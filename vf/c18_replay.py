"""C18 replay: interpret a monitor log (vf.c18_monitor) on concrete inputs, independently of the graph
the builder produced.  Operands are looked up by logged identity; operators are evaluated with
onnx.reference single-node kernels (or numpy for the few contrib ops); If/Loop/Scan and function calls
are interpreted here over the logged sub-frames.
"""
from __future__ import annotations

import math

import numpy as np
import onnx
from onnx import helper, numpy_helper

OptV = onnx.defs.OpSchema.FormalParameterOption.Variadic


class KernelError(Exception):
    """The replay could not evaluate an entry: invalid program (generator) or unsupported kernel."""


class LiteralTypeMismatch(KernelError):
    """The builder turned a Python literal into a constant of a definite element type that differs from the element type of
    the tensor operand it is combined with (operands of these operators share one type variable): not the generator's doing."""


_HOMOGENEOUS = {"Add", "Sub", "Mul", "Div", "Max", "Min", "Greater", "Less", "GreaterOrEqual", "LessOrEqual", "Equal", "Pow", "Mod"}


class Env:
    def __init__(self, parent=None):
        self.d = {}
        self.parent = parent

    def get(self, k):
        e = self
        while e is not None:
            if k in e.d:
                return e.d[k]
            e = e.parent
        raise KernelError(f"value id {k} is not bound (used before definition / not visible)")

    def has(self, k):
        e = self
        while e is not None:
            if k in e.d:
                return True
            e = e.parent
        return False

    def set(self, k, v):
        self.d[k] = v


_SCHEMA_CACHE = {}


def get_schema(op, version, domain):
    key = (op, version, domain)
    if key not in _SCHEMA_CACHE:
        try:
            _SCHEMA_CACHE[key] = onnx.defs.get_schema(op, version, domain) if version is not None else None
        except Exception:
            _SCHEMA_CACHE[key] = None
    return _SCHEMA_CACHE[key]


def _erf(x):
    return np.vectorize(math.erf, otypes=[np.float64])(x.astype(np.float64))


CONTRIB = {
    ("com.microsoft", "Gelu"): lambda ins, at: [(0.5 * ins[0].astype(np.float64) * (1.0 + _erf(ins[0] / np.sqrt(2.0)))).astype(ins[0].dtype)],
    ("com.microsoft", "FastGelu"): lambda ins, at: [_fastgelu(ins)],
    ("com.microsoft", "BiasGelu"): lambda ins, at: [(lambda z: (0.5 * z * (1.0 + _erf(z / np.sqrt(2.0)))).astype(ins[0].dtype))((ins[0] + ins[1]).astype(np.float64))],
}


def _fastgelu(ins):
    x = ins[0].astype(np.float64)
    if len(ins) > 1 and ins[1] is not None:
        x = x + ins[1].astype(np.float64)
    return (0.5 * x * (1.0 + np.tanh(0.7978845608028654 * (x + 0.044715 * x ** 3)))).astype(ins[0].dtype)


def np_dtype(name):
    import onnx_ir as ir

    return ir.DataType[name].numpy()


class Replayer:
    def __init__(self, opsets, frames_by_graph, fn_table, counts=None):
        self.opsets = dict(opsets)          # domain -> version (the graph's imports)
        self.frames_by_graph = frames_by_graph
        self.fn_table = fn_table            # id(function) -> ("numpy", fn) | ("frame", Frame)
        self.counts = counts if counts is not None else {}

    def hit(self, k, n=1):
        self.counts[k] = self.counts.get(k, 0) + n

    # ------------------------------------------------------------ operands
    def _literal(self, lit, wired, env, typed_dtype=None):
        if wired is not None:
            if wired[0] == "const":
                return np.array(lit, dtype=np_dtype(wired[1]))
            if wired[0] == "like":
                return np.array(lit, dtype=env.get(wired[1]).dtype)
        self.hit("literal_dtype_not_in_log")
        if isinstance(lit, list):
            probe = lit[0] if lit else 0
        else:
            probe = lit
        if isinstance(probe, bool):
            return np.array(lit, dtype=np.bool_)
        if isinstance(probe, int):
            return np.array(lit, dtype=np.int64)
        if isinstance(probe, float):
            return np.array(lit, dtype=np.float32)
        return np.array(lit)

    def _operand(self, o, wired, env):
        if "v" in o:
            return env.get(o["v"])
        if "none" in o:
            return None
        if "lit" in o:
            return self._literal(o["lit"], wired, env)
        if "tensor" in o:
            return o["tensor"]
        raise KernelError(f"operand {o} cannot be replayed")

    def _attr_value(self, a, attr_binding):
        """-> (python value usable by helper.make_node) or raises; graphs are handled by the caller."""
        if "ref" in a:
            if attr_binding is None or a["ref"] not in attr_binding:
                raise KernelError(f"reference attribute @{a['ref']} has no binding")
            return attr_binding[a["ref"]]
        if "tensor" in a:
            return numpy_helper.from_array(a["tensor"])
        if "val" in a:
            return a["val"]
        if "lit" in a:
            return a["lit"]
        raise KernelError(f"attribute {a} cannot be replayed")

    # ------------------------------------------------------------ partition by schema
    def partition(self, e):
        """-> (inputs: list[operand|None-marker], attrs: dict name -> encoded attr).  Independent reading of
        'positional arguments are the inputs in schema order, keywords naming a formal input are that input,
        other keywords are attributes'."""
        version = e["version"] if e["version"] is not None else self.opsets.get(e["domain"])
        schema = get_schema(e["op"], version, e["domain"])
        args = list(e["args"])
        kwargs = dict(e["kwargs"])
        if schema is None:
            return args, kwargs, version
        formals = list(schema.inputs)
        names = [f.name for f in formals]
        variadic = bool(formals) and formals[-1].option == OptV
        nfix = len(formals) - (1 if variadic else 0)
        inputs = list(args)
        attrs = {}
        kw_in = {}
        for k, v in kwargs.items():
            if k in names and not ("graph" in v or "ref" in v):
                kw_in[k] = v
            else:
                attrs[k] = v
        if kw_in:
            if len(inputs) > nfix:
                raise KernelError("keyword inputs together with variadic positional inputs")
            slots = inputs + [{"none": 1}] * (nfix - len(inputs))
            for k, v in kw_in.items():
                i = names.index(k)
                if i >= nfix:
                    raise KernelError("variadic input passed by keyword")
                if i < len(inputs):
                    raise KernelError(f"input {k} given twice")
                slots[i] = v
            while slots and "none" in slots[-1]:
                slots.pop()
            inputs = slots
        return inputs, attrs, version

    # ------------------------------------------------------------ kernels
    def kernel(self, op, domain, version, ins, attrs, nout):
        key = (domain, op)
        if key in CONTRIB:
            return CONTRIB[key](ins, attrs)
        if domain not in ("", "ai.onnx"):
            raise KernelError(f"no replay kernel for {domain}::{op}")
        in_names = [f"i{k}" if x is not None else "" for k, x in enumerate(ins)]
        out_names = [f"o{k}" for k in range(nout)]
        try:
            node = helper.make_node(op, in_names, out_names, **attrs)
            from onnx.reference import ReferenceEvaluator

            ver = version or self.opsets.get("", 21)
            if ver < 18:
                # ReferenceEvaluator(NodeProto, opsets=...) ignores the version when it picks the kernel class (Unsqueeze with
                # an axes attribute is refused for opset 11); wrapped in a model with that opset import it picks Unsqueeze_11
                feed = {n: x for n, x in zip(in_names, ins) if x is not None}
                g = helper.make_graph([node], "k", [helper.make_tensor_value_info(n, helper.np_dtype_to_tensor_dtype(x.dtype), list(x.shape))
                                                   for n, x in feed.items()], [helper.make_empty_tensor_value_info(n) for n in out_names])
                sess = ReferenceEvaluator(helper.make_model(g, opset_imports=[helper.make_opsetid("", ver)], ir_version=8))
            else:
                sess = ReferenceEvaluator(node, opsets={"": ver})
            res = sess.run(None, {n: x for n, x in zip(in_names, ins) if x is not None})
        except Exception as ex:
            raise KernelError(f"{op}: {type(ex).__name__}: {str(ex)[:200]}") from ex
        out = []
        for r in res:
            out.append(np.asarray(r) if not isinstance(r, list) else r)
        self.hit("kernel_evals")
        return out

    # ------------------------------------------------------------ entries
    def eval_entry(self, e, env, attr_binding=None):
        k = e["k"]
        if k == "op":
            return self._eval_op(e, env, attr_binding)
        if k in ("call", "inline"):
            return self._eval_call(e, env)
        if k == "init":
            env.set(e["out"], e["tensor"])
            return
        if k == "frame":
            return  # bodies are run when the operator that owns them is evaluated
        raise KernelError(f"unknown entry kind {k}")

    def _nout(self, outspec, outs):
        return len(outs)

    def _eval_op(self, e, env, attr_binding):
        inputs, attrs_enc, version = self.partition(e)
        wired = e.get("wired") or []
        ins = []
        for i, o in enumerate(inputs):
            w = wired[i] if i < len(wired) else None
            ins.append(self._operand(o, w, env))
        if e["op"] in _HOMOGENEOUS and e["domain"] in ("", "ai.onnx") and e["op"] != "Pow":
            tens = [x for o, x in zip(inputs, ins) if "v" in o and isinstance(x, np.ndarray)]
            for i, o in enumerate(inputs):
                w = wired[i] if i < len(wired) else None
                if "lit" in o and w is not None and w[0] == "const" and tens and isinstance(ins[i], np.ndarray) and ins[i].dtype != tens[0].dtype:
                    raise LiteralTypeMismatch(f"{e['op']}: literal {o['lit']!r} became a {ins[i].dtype} constant next to a {tens[0].dtype} tensor")
        graphs = {k: a["graph"] for k, a in attrs_enc.items() if "graph" in a}
        attrs = {k: self._attr_value(a, attr_binding) for k, a in attrs_enc.items() if "graph" not in a}
        op, domain = e["op"], e["domain"]
        nout = len(e["outs"])
        if graphs:
            if domain not in ("", "ai.onnx") or op not in ("If", "Loop", "Scan"):
                raise KernelError(f"graph attribute on {op}")
            res = getattr(self, "_cf_" + op)(ins, attrs, graphs, env, attr_binding)
        else:
            res = self.kernel(op, domain, version, ins, attrs, nout)
        if len(res) < nout:
            raise KernelError(f"{op}: kernel produced {len(res)} outputs, trace has {nout}")
        for oid, r in zip(e["outs"], res):
            env.set(oid, r)
        self.hit("entries_replayed")

    def _frame(self, gid):
        f = self.frames_by_graph.get(gid)
        if f is None:
            raise KernelError("graph attribute without a logged frame")
        return f

    def run_frame(self, frame, inputs, parent_env, attr_binding=None):
        env = Env(parent_env)
        formal = frame.inputs
        if len(inputs) > len(formal):
            raise KernelError("more actual than formal inputs")
        for fid, x in zip(formal, inputs):
            if fid is not None and x is not None:
                env.set(fid, x)
        for e in frame.entries:
            self.eval_entry(e, env, attr_binding)
        if frame.outputs is None:
            raise KernelError("frame without recorded outputs")
        return [env.get(o) for o in frame.outputs]

    def _cf_If(self, ins, attrs, graphs, env, ab):
        cond = bool(np.asarray(ins[0]).reshape(-1)[0])
        f = self._frame(graphs["then_branch" if cond else "else_branch"])
        self.hit("if_then" if cond else "if_else")
        return self.run_frame(f, [], env, ab)

    def _cf_Loop(self, ins, attrs, graphs, env, ab):
        f = self._frame(graphs["body"])
        M = ins[0] if len(ins) > 0 else None
        cond = ins[1] if len(ins) > 1 else None
        state = list(ins[2:])
        nstate = len(state)
        max_trip = int(np.asarray(M).reshape(-1)[0]) if M is not None else None
        c = bool(np.asarray(cond).reshape(-1)[0]) if cond is not None else True
        scans = None
        it = 0
        while c and (max_trip is None or it < max_trip):
            if it > 64:
                raise KernelError("loop does not terminate within 64 iterations")
            outs = self.run_frame(f, [np.array(it, np.int64), np.array(c, np.bool_)] + state, env, ab)
            c = bool(np.asarray(outs[0]).reshape(-1)[0])
            state = list(outs[1:1 + nstate])
            so = outs[1 + nstate:]
            if scans is None:
                scans = [[] for _ in so]
            for acc, x in zip(scans, so):
                acc.append(x)
            it += 1
            self.hit("loop_iterations")
        if scans is None:
            nscan = len(f.outputs) - 1 - nstate
            if nscan:
                raise KernelError("zero-trip loop with scan outputs (shape not determined by the trace)")
            scans = []
        return state + [np.stack(s, axis=0) for s in scans]

    def _cf_Scan(self, ins, attrs, graphs, env, ab):
        f = self._frame(graphs["body"])
        nscan_in = int(attrs["num_scan_inputs"])
        for k in ("scan_input_axes", "scan_input_directions", "scan_output_axes", "scan_output_directions"):
            if k in attrs and any(int(v) != 0 for v in attrs[k]):
                raise KernelError("non-default scan axes/directions are not replayed")
        nstate = len(ins) - nscan_in
        state = list(ins[:nstate])
        seqs = ins[nstate:]
        n = seqs[0].shape[0]
        scans = None
        for t in range(n):
            outs = self.run_frame(f, state + [s[t] for s in seqs], env, ab)
            state = list(outs[:nstate])
            so = outs[nstate:]
            if scans is None:
                scans = [[] for _ in so]
            for acc, x in zip(scans, so):
                acc.append(x)
            self.hit("scan_iterations")
        if scans is None:
            raise KernelError("zero-length scan")
        return state + [np.stack(s, axis=0) for s in scans]

    def _eval_call(self, e, env):
        ent = self.fn_table.get(e["fn"])
        if ent is None:
            raise KernelError(f"function {e['fn_name']} has no replay semantics")
        ins = [self._operand(o, None, env) for o in e["args"]]
        binding = {}
        for k, a in e["kwargs"].items():
            if "graph" in a or "ref" in a:
                raise KernelError("graph/ref attribute passed to a function call")
            binding[k] = numpy_helper.from_array(a["tensor"]) if "tensor" in a else a.get("val")
        if ent[0] == "numpy":
            res = ent[1](ins, binding)
        else:
            res = self.run_frame(ent[1], ins, None, binding)
        outs = e["outs"]
        if len(res) != len(outs):
            raise KernelError(f"call {e['fn_name']}: {len(res)} results for {len(outs)} logged outputs")
        for oid, r in zip(outs, res):
            if oid is not None:
                env.set(oid, np.asarray(r))
        self.hit("calls_replayed")
