"""C07 — applying a rewrite replaces only the match and leaves a valid, equivalent graph.

Rules whose replacement computes the same function as their pattern *by construction* are applied with
onnxscript.rewriter.rewrite(model, [rule]) to generated host models (vf.c07_gen).  A pass-through monitor on
RewriteRule.try_rewrite and onnxscript.ir.convenience.replace_nodes_and_values (every module alias) logs each
application; the oracle then checks validity (onnx.checker + vf.wellformed), equivalence on ONNX Runtime, the graph
signature, that exactly the matched nodes are gone, that every other node/initializer/metadata is untouched, and that
the rule applied at least once iff vf.c06_spec.match_spec finds a (removable) instance in a graph the rewriter visits.

A second block of rule kinds (KINDS2) covers replacements that create several constants in one application and rules that are
applied with commute=True to hosts whose commutative nodes have their operands in either order; for these the oracle also checks,
per application, that every constant the replacement asked op.initializer for is the constant it got back and is consumed by the
new nodes as a registered initializer, that the function a new node calls exists, that a rule with remove_nodes=False hands no
node over for removal, and that no replacement is built for a match the rule's condition function did not accept.
"""
from __future__ import annotations

import numpy as np

from . import c06_gen, c06_spec, c07_gen, common

PID = "C07"
LEVEL = "exploration"
RULE = (
    "stratified (rule kind x host stratum), seed picks the concrete host: rule kinds = re-emission Neg/Sub/Split(2 outputs) "
    "(guarded so a rule does not re-match its own output), operand swap of Add/Mul, Transpose(Transpose(x,p1),p2)->Transpose(x,p2.p1), "
    "Mul(x,1)/Add(x,0)->Identity(x), Neg(Neg(x))->Identity(x), replacement introducing an initializer (fresh name per application / the "
    "same name at every application / name of an existing initializer), replacement in a custom domain backed by a model-local function, remove_nodes=False, as_function=True; "
    "host strata = {flat main graph, +If/Loop bodies to depth 2 using outer-scope values, +model-local functions, instances ONLY inside "
    "If/Loop bodies with enclosing values literally named val_0/val_1 that the bodies consume} x k in {0,1,2,3+} planted "
    "instances (chained / overlapping, results used as graph outputs and inside subgraphs), nodes with metadata_props; every host passes "
    "onnx.checker(full) and runs on ORT before use.  non-trivial = the rule applied >=1 time; distinct = (rule kind, where the applications "
    "happened, #applications capped at 3).  "
    "SECOND BLOCK (130 / 3900 further pairs, every (kind, stratum) once per round, k rotating): (a) replacements that create SEVERAL constants in one "
    "application, Sub(x,y) -> Sub(Add(Mul(x,one),zero),y): two initializers under distinct names / under ONE explicit name with different contents / "
    "named only by the tensors' own identical name / under a name derived from the matched value / the same name and contents twice next to a "
    "different constant / one name for an int64 [0] (Unsqueeze/Squeeze axes) and a float32 [0.] / two Constant nodes; (b) rules applied with "
    "commute=True, through rewrite(model, RewriteRuleSet([rule], commute=True)) and (a third of the pairs) rule.apply_to_model(model, commute=True), "
    "to hosts that write the commutative node of each planted instance with its operands in either order (Add(Relu(a),b) / Add(b,Relu(a)), "
    "Mul(a,1) / Mul(1,a), near misses Mul(a,2)): as_function=True, remove_nodes=False, a pattern constant, a condition function that alone "
    "decides (Mul(x,c) if c is the constant 1), a replacement adding an initializer, a replacement in a custom domain; an application counts as "
    "'through a swapped variant' when the matched nodes are no instance of the pattern as written (match_spec without commutation)"
)
ASSUMPTIONS = [
    "ONNX Runtime (optimisations off) decides equivalence; onnx.reference may only dispute",
    "a replacement that re-creates the pattern's own operator is guarded by a condition function that refuses nodes the rule itself created "
    "(the rewriter revisits inserted nodes, so an unguarded self-matching rule does not terminate; termination is not part of the property)",
    "nodes that are dead after the rewrite (e.g. a Constant feeding only the match) may be removed: rewrite() documents that cleanup",
    "names of non-interface values may change (NameFixPass); graph input/output names may not",
    "instances inside functions are not required to fire for replacements that add initializers (the rewriter documents that refusal)",
    "one pass tries every node (_apply_to_graph_or_function iterates the whole graph): an instance of the original model that no application "
    "touched and that is still an instance afterwards was skipped",
    "match_spec (C06) decides whether an instance exists; Constant-node outputs in the main graph and in functions count as constants because "
    "apply_to_model runs basic constant propagation there first",
    "commute=True means: the pattern under every operand swap of its Add/Mul node patterns (match_spec's S10, the documented meaning), with every "
    "other setting of the rule unchanged",
    "constants a replacement asks for are compared by content and element type, not by identity or name: sharing one initializer between two "
    "requests of equal content, and renaming, are allowed; the check that the new nodes consume the requested constants is skipped for an "
    "application one of whose nodes a later application replaced again",
    "the rewriter evaluates a rule's condition function for every match before it builds the replacement (RewriteRule's documented contract); the "
    "test rules decline (return None) to build a replacement that was not preceded by a yes, so a rule set that ignores a guard cannot re-match its "
    "own output for ever; more than 200 replacements on one host are reported as a runaway",
    "rule.apply_to_model() is not followed by rewrite()'s clean-up passes: nodes/functions that are dead afterwards may stay",
]
ANCHORS = [
    "onnxscript.rewriter._rewrite_rule:RewriteRuleSet._apply_to_graph_or_function",
    "onnxscript.rewriter._rewrite_rule:RewriteRuleSet.apply_to_model",
    "onnxscript.rewriter._rewrite_rule:_update_opset_imports",
    "onnxscript.rewriter._rewrite_rule:_copy_for_function",
    "onnxscript.rewriter._rewrite_rule:_get_new_overload",
    "onnxscript.rewriter:rewrite",
]
TIMEOUT = 600.0
PER_SPEC = 10

KINDS = ["reneg", "resub", "resub2", "swapadd", "swapmul", "tt", "mul1", "add0", "negneg", "resplit", "init_fresh", "init_repeat", "init_clash",
         "custom", "keep", "asfn", "asfn_diamond", "mul1_fwd", "negneg_fwd", "tt_fwd", "two_out_rl", "two_out_rf"]
# kind -> what the host generator plants
PLANT = {"reneg": "neg", "resub": "sub", "resub2": "sub", "swapadd": "add", "swapmul": "mul", "tt": "tt", "mul1": "mul1", "add0": "add0",
         "negneg": "negneg", "resplit": "split", "init_fresh": "sub", "init_repeat": "sub", "init_clash": "sub", "custom": "relu",
         "keep": "neg", "asfn": "subrelu", "asfn_diamond": "diamond",
         # replacements that FORWARD an existing value instead of creating a node (x*1 -> x, -(-x) -> x, a transpose pair that
         # composes to the identity is left to tt): what takes over the matched output is a value the rule did not create
         "mul1_fwd": "mul1", "negneg_fwd": "negneg", "tt_fwd": "tt",
         # a pattern with two OUTPUT NODES (neither is in the other's backward slice)
         "two_out_rl": "addmul_rl", "two_out_rf": "addmul_rf"}
STRATA = ["flat", "cf", "fn", "cf+fn", "cfonly"]   # cfonly: instances only inside If/Loop bodies, outer values named val_0/val_1
CLASH = "c07_zero"

# ---- second block of rule kinds (added after seeded defects C07-5 / C07-6)
# (a) one application of the replacement creates SEVERAL constants: two initializers under distinct names / one explicit name with
#     different contents / the tensors' own (identical) name / a name derived from the matched value / the same name and contents
#     twice next to a different one / one name for an int64 [0] and a float32 [0.] / two Constant nodes;
# (b) the rule is applied with commute=True (RewriteRuleSet([rule], commute=True) or rule.apply_to_model(model, commute=True)) and the hosts
#     write the commutative node of an instance with its operands in either order: every setting of the rule (as_function,
#     remove_nodes=False, the condition function, new initializers, a custom-domain replacement) must hold for the swapped variants too.
MULTI_CONST_KINDS = ["init2_distinct", "init2_same", "init2_tname", "init2_derived", "init2_dup", "init2_dtype", "const2"]
COMMUTE_KINDS = ["c_asfn", "c_keep", "c_mul1", "c_cond", "c_init", "c_custom"]
KINDS2 = MULTI_CONST_KINDS + COMMUTE_KINDS
PLANT.update({k: "sub" for k in MULTI_CONST_KINDS})
PLANT.update({"c_asfn": "reluadd", "c_keep": "reluadd", "c_mul1": "mul1c", "c_cond": "mul1c", "c_init": "reluadd", "c_custom": "reluadd"})
ASFN = {"asfn": "SubRelu", "asfn_diamond": "SubReluNeg", "c_asfn": "ReluAdd"}   # as_function kinds -> name of the extracted function
FUSED_DOMAIN = "c07.fused"


def adds_init(kind):
    """The replacement creates initializers (the rewriter documents that such a rule is refused inside functions)."""
    return kind.startswith("init") or kind == "c_init"


def is_commute(kind):
    return kind in COMMUTE_KINDS


def keeps_nodes(kind):
    return kind in ("keep", "c_keep")


def _sizes(tier):
    """(#pairs of the first block of kinds, #pairs of the second block)."""
    full_round = len(KINDS) * len(STRATA) * 4       # every (kind, stratum, k) once
    return (max(400, full_round), 130) if tier == "quick" else (max(12000, 30 * full_round), 3900)


def thresholds(tier):
    n, n2 = _sizes(tier)
    return {"pairs_checked": n // 5, "applications": n // 3, "try_rewrite_calls": n * 2, "replace_calls": n // 3, "ort_compared": n // 4,
            "app_in_subgraph": n // 80, "app_in_function": n // 80, "app_output_is_graph_output": n // 40, "app_output_used_in_nested_body": n // 100,
            "app_on_node_created_by_earlier_app": n // 200, "count_checked": n // 5, "pairs_applied_in_subgraphs_only": n // 40,
            "subgraph_only_multi_node_replacement": n // 200, "multi_application": n // 20, "no_application_no_instance": n // 80,
            "distinct_nontrivial": 15,
            **_thresholds2(n2),
            "anchor:onnxscript.rewriter._rewrite_rule:_copy_for_function": n // 200,
            "anchor:onnxscript.rewriter._rewrite_rule:_update_opset_imports": n // 3}


def _thresholds2(n2):
    # the unchanged tree gives (quick, n2=120, seeds 0 1 2 3 7) at least five times these numbers
    return {"pairs_multi_const": n2 // 10, "pairs_commute": n2 // 10, "multi_const_applications": n2 // 5,
            "same_name_different_content_requests": n2 // 12, "same_name_same_content_requests": n2 // 40,
            "different_dtype_same_name_requests": n2 // 60,
            "initializer_requests_checked": n2 // 3, "new_initializer_inputs_checked": n2 // 2,
            "app_via_swapped_variant": n2 // 12, "swapped_app_as_function": n2 // 120, "swapped_app_keep": n2 // 60,
            "swapped_app_const_operand": n2 // 40, "swapped_app_new_initializer": n2 // 120, "swapped_app_custom_domain": n2 // 120,
            "swapped_app_in_subgraph": n2 // 60, "keep_applications_checked": n2 // 12, "function_calls_checked": n2 // 12,
            "guarded_applications_checked": n2 // 2, "pairs_direct_form": n2 // 60, "condition_rejected_near_miss": n2 // 60}


def cases(tier, seed):
    n, n2 = _sizes(tier)
    pairs = []
    i = 0
    while len(pairs) < n:
        for kind in KINDS:
            for st in STRATA:
                for k in (0, 1, 2, 3):
                    if len(pairs) < n:
                        pairs.append({"kind": kind, "stratum": st, "k": k, "i": i})
        i += 1
    # second block: every (kind, stratum) once per round, k rotates with the round; a third of the commute pairs go through the other
    # public call form, rule.apply_to_model(model, commute=True)
    i = 0
    extra = []
    while len(extra) < n2:
        for a, kind in enumerate(KINDS2):
            for b, st in enumerate(STRATA):
                if len(extra) < n2:
                    # k rotates with the round; commute hosts always get planted instances (about half of them swapped)
                    q = {"kind": kind, "stratum": st, "k": ((1, 2, 3, 3) if is_commute(kind) else (0, 1, 2, 3))[(i + a + b) % 4], "i": i}
                    if is_commute(kind) and (i + b) % 3 == 2:
                        q["form"] = "direct"
                    extra.append(q)
        i += 1
    pairs += extra
    # interleave so that every spec mixes kinds (balanced cost)
    specs = []
    nspec = (len(pairs) + PER_SPEC - 1) // PER_SPEC
    for s in range(nspec):
        specs.append({"seed": seed, "pairs": pairs[s::nspec]})
    return specs


# ----------------------------------------------------------------------------- rules
def pattern_ast(kind):
    N, V = c06_gen.N, c06_gen.V
    if kind in ("reneg", "keep"):
        return {"nodes": [N("Neg", [V("x")])], "outs": [["o", 0, 0]]}
    if kind in ("resub", "resub2", "init_fresh", "init_repeat", "init_clash") or kind in MULTI_CONST_KINDS:
        return {"nodes": [N("Sub", [V("x"), V("y")])], "outs": [["o", 0, 0]]}
    if kind in ("two_out_rl", "two_out_rf"):
        return {"nodes": [N("Add", [V("x"), V("y")]), N("Mul", [V("x"), V("z")])], "outs": [["o", 0, 0], ["o", 1, 0]]}
    if kind == "swapadd":
        return {"nodes": [N("Add", [V("x"), V("y")])], "outs": [["o", 0, 0]]}
    if kind == "swapmul":
        return {"nodes": [N("Mul", [V("x"), V("y")])], "outs": [["o", 0, 0]]}
    if kind in ("tt", "tt_fwd"):
        return {"nodes": [N("Transpose", [V("x")], attrs={"perm": ["av", "p1", False]}),
                          N("Transpose", [["o", 0, 0]], attrs={"perm": ["av", "p2", False]})], "outs": [["o", 1, 0]]}
    if kind in ("mul1", "mul1_fwd"):
        return {"nodes": [N("Mul", [V("x"), ["c", 1.0]])], "outs": [["o", 0, 0]]}
    if kind == "add0":
        return {"nodes": [N("Add", [V("x"), ["c", 0.0]])], "outs": [["o", 0, 0]]}
    if kind in ("negneg", "negneg_fwd"):
        return {"nodes": [N("Neg", [V("x")]), N("Neg", [["o", 0, 0]])], "outs": [["o", 1, 0]]}
    if kind == "resplit":
        return {"nodes": [N("Split", [V("x")], nout=2, attrs={"axis": ["av", "ax", False]})], "outs": [["o", 0, 0], ["o", 0, 1]]}
    if kind == "custom":
        return {"nodes": [N("Relu", [V("x")])], "outs": [["o", 0, 0]]}
    if kind == "asfn":
        return {"nodes": [N("Sub", [V("x"), V("y")]), N("Relu", [["o", 0, 0]])], "outs": [["o", 1, 0]]}
    if kind == "asfn_diamond":
        # a computed value with TWO users inside the pattern: the extracted function body must stay in graph order
        return {"nodes": [N("Sub", [V("x"), V("y")]), N("Relu", [["o", 0, 0]]), N("Neg", [["o", 0, 0]]),
                          N("Add", [["o", 1, 0], ["o", 2, 0]])], "outs": [["o", 3, 0]]}
    if kind in ("c_asfn", "c_keep", "c_init", "c_custom"):
        # Add is commutative: with commute=True the rule must also take Add(y, Relu(x))
        return {"nodes": [N("Relu", [V("x")]), N("Add", [["o", 0, 0], V("y")])], "outs": [["o", 1, 0]]}
    if kind in ("c_mul1", "c_cond"):
        # c_cond: the rule itself is written Mul(x, c) + a condition function "c is the constant 1"; this AST is what it means
        return {"nodes": [N("Mul", [V("x"), ["c", 1.0]])], "outs": [["o", 0, 0]]}
    raise ValueError(kind)


class RuleNotes:
    """What the replacement / condition functions of one rule observed while the rewriter ran them."""

    def __init__(self):
        self.requests = []       # [(replacement call index, requested name, requested bytes, dtype, returned ir.Value)]
        self.calls = 0           # calls of the replacement function (each returns a replacement: one per logged "try")
        self.cond_rejected = 0   # the condition function said no
        self.runaway = False     # the replacement function was called more often than any generated host can justify
        self.cond_ok = False     # the condition function has said yes since the last call of the replacement function
        self.unconditioned = 0   # calls of the replacement function that were not preceded by a yes of the condition function


class Runaway(RuntimeError):
    pass


MAX_REPLACEMENTS = 200   # hosts have < 100 nodes; a guarded rule whose guard is not consulted re-matches its own output for ever


def make_rule(kind, notes=None):
    """-> (RewriteRule, AST, created-list).  The pattern callable is rendered from the AST (same text C06 uses)."""
    from onnxscript import ir
    from onnxscript.rewriter import pattern

    notes = notes if notes is not None else RuleNotes()
    P = pattern_ast(kind)
    src, _ = c06_gen.render(P if kind != "c_cond" else
                            {"nodes": [c06_gen.N("Mul", [c06_gen.V("x"), c06_gen.V("c")])], "outs": [["o", 0, 0]]})
    ns = {"pattern": pattern}
    exec(src, ns)
    pat = ns["pat"]
    created = []

    def mark(v):
        for x in (v if isinstance(v, (list, tuple)) else [v]):
            created.append(x.producer())
        if len(created) > MAX_REPLACEMENTS:
            notes.runaway = True
            raise Runaway(f"c07: the replacement function was called more than {MAX_REPLACEMENTS} times on one host")
        return v

    def guard(context, **_):
        notes.cond_ok = not any(context.root is n for n in created)
        return notes.cond_ok

    kw = {"name": f"c07_{kind}"}
    cond = None
    if kind in ("reneg", "keep"):
        rep, cond = (lambda op, x, **_: mark(op.Neg(x))), guard
        if kind == "keep":
            kw["remove_nodes"] = False
    elif kind == "resub":
        rep, cond = (lambda op, x, y, **_: mark(op.Sub(x, y))), guard
    elif kind == "resub2":   # two new nodes: the intermediate gets an automatic name (val_0, ...)
        rep, cond = (lambda op, x, y, **_: mark(op.Sub(op.Identity(x), op.Identity(y)))), guard
    elif kind in ("two_out_rl", "two_out_rf"):
        rep, cond = (lambda op, x, y, z, **_: mark((op.Add(y, x), op.Mul(z, x)))), guard
    elif kind == "swapadd":
        rep, cond = (lambda op, x, y, **_: mark(op.Add(y, x))), guard
    elif kind == "swapmul":
        rep, cond = (lambda op, x, y, **_: mark(op.Mul(y, x))), guard
    elif kind == "tt":
        def rep(op, x, p1, p2, **_):
            a, b = list(p1.as_ints()), list(p2.as_ints())
            return op.Transpose(x, perm=[a[i] for i in b])
    elif kind in ("mul1", "add0", "negneg"):
        rep = lambda op, x, **_: op.Identity(x)  # noqa: E731
    elif kind in ("mul1_fwd", "negneg_fwd"):
        rep = lambda op, x, **_: x  # noqa: E731
    elif kind == "tt_fwd":
        def rep(op, x, p1, p2, **_):
            a, b = list(p1.as_ints()), list(p2.as_ints())
            comp = [a[i] for i in b]
            # the pair composes to the identity: forward x itself; otherwise one Transpose
            return x if comp == list(range(len(comp))) else op.Transpose(x, perm=comp)
    elif kind == "resplit":
        rep, cond = (lambda op, x, ax, **_: mark(op.Split(x, axis=ax.as_int(), num_outputs=2, _outputs=2))), guard
    elif kind in ("init_fresh", "init_repeat", "init_clash"):
        def rep(op, x, y, **_):
            nm = {"init_clash": CLASH, "init_repeat": "c07_new_zero", "init_fresh": f"c07_new_zero_{len(created)}"}[kind]
            z = op.initializer(ir.tensor(np.array(0.0, dtype=np.float32)), name=nm)
            return mark(op.Sub(op.Add(x, z), y))
        cond = guard
    elif kind == "custom":
        rep = lambda op, x, **_: op.Relu(x, _domain=c07_gen.CUSTOM_DOMAIN)  # noqa: E731
    elif kind in MULTI_CONST_KINDS:
        def ask(op, arr, name=None, tname=None):
            """op.initializer(...) as a rule author calls it; what was asked for and what came back is noted for the oracle."""
            val = op.initializer(ir.tensor(arr, name=tname), name=name)
            notes.requests.append((notes.calls, name or tname, arr.tobytes(), str(arr.dtype), val))
            return val

        def rep(op, x, y, **_):
            # Sub(Add(Mul(x, 1), 0), y) == Sub(x, y); the two constants are DIFFERENT, so they must stay two values
            notes.calls += 1
            one_a, zero_a = np.array(1.0, dtype=np.float32), np.array(0.0, dtype=np.float32)
            if kind == "init2_distinct":
                one, zero = ask(op, one_a, name=f"c07_one_{notes.calls}"), ask(op, zero_a, name=f"c07_zero_{notes.calls}")
            elif kind == "init2_same":        # one explicit name for both: the engine keeps them apart (name, name_1)
                one, zero = ask(op, one_a, name="c07_k"), ask(op, zero_a, name="c07_k")
            elif kind == "init2_tname":       # no name= argument: the tensors' own (identical) name is used
                one, zero = ask(op, one_a, tname="c07_t"), ask(op, zero_a, tname="c07_t")
            elif kind == "init2_derived":     # both names derived from the matched value
                one, zero = ask(op, one_a, name=f"{x.name}_k"), ask(op, zero_a, name=f"{x.name}_k")
            elif kind == "init2_dtype":       # one name, numerically equal contents, DIFFERENT element types (Unsqueeze/Squeeze axes vs an addend)
                ax_a, fz_a = np.array([0], dtype=np.int64), np.array([0.0], dtype=np.float32)
                ax, fz = ask(op, ax_a, name="c07_z"), ask(op, fz_a, name="c07_z")
                return mark(op.Sub(op.Add(op.Squeeze(op.Unsqueeze(x, ax), ax), fz), y))
            elif kind == "init2_dup":         # the same name AND contents twice (may be shared) next to a different constant
                one, one2, zero = ask(op, one_a, name="c07_one"), ask(op, one_a.copy(), name="c07_one"), ask(op, zero_a, name="c07_zero")
                return mark(op.Sub(op.Add(op.Mul(op.Mul(x, one), one2), zero), y))
            else:                             # const2: two Constant nodes
                one, zero = op.Constant(value=ir.tensor(one_a)), op.Constant(value=ir.tensor(zero_a))
            return mark(op.Sub(op.Add(op.Mul(x, one), zero), y))
        cond = guard
    elif kind == "c_asfn":
        rep = lambda op, x, y, **_: op.ReluAdd(x, y, _domain=FUSED_DOMAIN)  # noqa: E731
        kw["as_function"] = True
    elif kind == "c_keep":
        rep, cond = (lambda op, x, y, **_: mark(op.Add(y, op.Relu(x)))), guard
        kw["remove_nodes"] = False
    elif kind == "c_mul1":
        rep = lambda op, x, **_: op.Identity(x)  # noqa: E731
    elif kind == "c_cond":
        def cond(context, x, c, **_):
            t = c.const_value
            ok = t is not None and t.numpy().size == 1 and float(t.numpy().reshape(())) == 1.0
            if not ok:
                notes.cond_rejected += 1
            notes.cond_ok = ok
            return ok
        rep = lambda op, x, c, **_: op.Identity(x)  # noqa: E731
    elif kind == "c_init":
        def rep(op, x, y, **_):
            notes.calls += 1
            z = op.initializer(ir.tensor(np.array(0.0, dtype=np.float32)), name="c07_new_zero")
            notes.requests.append((notes.calls, "c07_new_zero", np.array(0.0, dtype=np.float32).tobytes(), "float32", z))
            return mark(op.Add(op.Relu(op.Add(x, z)), y))
        cond = guard
    elif kind == "c_custom":
        rep, cond = (lambda op, x, y, **_: mark(op.Add(op.Relu(x, _domain=c07_gen.CUSTOM_DOMAIN), y))), guard
    elif kind == "asfn":
        rep = lambda op, x, y, **_: op.SubRelu(x, y, _domain="c07.fused")  # noqa: E731
        kw["as_function"] = True
    elif kind == "asfn_diamond":
        rep = lambda op, x, y, **_: op.SubReluNeg(x, y, _domain="c07.fused")  # noqa: E731
        kw["as_function"] = True
    else:
        raise ValueError(kind)
    if cond is not None:
        inner = rep

        def rep(op, **b):   # noqa: F811
            # a rule fires only where its condition function agrees: every replacement is built right after a yes
            if not notes.cond_ok:
                notes.unconditioned += 1
                return None     # refuse (the documented way for a replacement function to decline)
            notes.cond_ok = False
            return inner(op, **b)
    rule = pattern.RewriteRule(pat, rep, cond, **kw)
    rule.c07_notes = notes
    return rule, P, created


def apply_rule(model, rule, kind, form="ruleset"):
    """Run the real rewriter through one of its public call forms; returns the rewritten model."""
    from onnxscript.rewriter import pattern, rewrite

    if not is_commute(kind):
        return rewrite(model, [rule])
    if form == "direct":   # in place, ir.Model only
        rule.apply_to_model(model, commute=True)
        return model
    return rewrite(model, pattern.RewriteRuleSet([rule], commute=True))


# ----------------------------------------------------------------------------- monitor
LOG: list = []
_installed = False
COUNTS = {"try_rewrite_calls": 0, "replace_calls": 0}


def worker_init():
    global _installed
    if _installed:
        return
    import onnx_ir.convenience  # noqa: F401  (make sure every alias module is loaded before patching)

    import onnxscript.ir.convenience as conv
    from onnxscript.rewriter import _rewrite_rule

    from . import probes

    def after_try(tok, r, self, model, graph_or_function, node, **k):
        COUNTS["try_rewrite_calls"] += 1
        if r is not None:
            inits = getattr(graph_or_function, "initializers", None)
            clash = [i.name for i in r.new_initializers if inits is not None and i.name in inits and inits[i.name] is not i]
            LOG.append({"ev": "try", "rule": self.name, "container": graph_or_function, "root": node, "init_clash": clash,
                        "matched": list(r.match.nodes), "new_nodes": list(r.new_nodes),
                        "old_out": list(r.match.outputs), "new_out": list(r.new_outputs), "new_inits": list(r.new_initializers)})

    probes.wrap_method(_rewrite_rule.RewriteRule, "try_rewrite", after=after_try)

    def after_apply(tok, r, self, model, **k):
        LOG.append({"ev": "count", "value": r})

    probes.wrap_method(_rewrite_rule.RewriteRuleSet, "apply_to_model", after=after_apply)
    import onnxscript.rewriter as _rw

    def after_pass(tok, r, self, model):
        LOG.append({"ev": "pass", "modified": bool(r.modified)})

    probes.wrap_method(_rw.RewritePass, "call", after=after_pass)

    def make(func):
        def replace_nodes_and_values(graph_or_function, insertion_point, old_nodes, new_nodes, old_values, new_values):
            COUNTS["replace_calls"] += 1
            cont_graph = getattr(graph_or_function, "graph", graph_or_function)
            rec = {"ev": "replace", "container": graph_or_function, "at": insertion_point, "old_nodes": list(old_nodes),
                   "new_nodes": list(new_nodes), "old_values": list(old_values), "new_values": list(new_values),
                   "old_names": [v.name for v in old_values],
                   "out_is_graph_output": any(v.is_graph_output() for v in old_values),
                   "out_used_in_nested": any(u.graph is not cont_graph for v in old_values for u, _ in v.uses())}
            LOG.append(rec)
            return func(graph_or_function, insertion_point, old_nodes, new_nodes, old_values, new_values)

        replace_nodes_and_values.__wrapped__ = func
        return replace_nodes_and_values

    n, _ = probes.patch_function_everywhere(conv.replace_nodes_and_values, make)
    COUNTS["patched_aliases"] = n
    _installed = True


# ----------------------------------------------------------------------------- model <-> C06 host dicts
def _attr_py(a):
    import onnx

    T = onnx.AttributeProto
    if a.type == T.INT:
        return a.i
    if a.type == T.FLOAT:
        return a.f
    if a.type == T.INTS:
        return tuple(a.ints)
    if a.type == T.FLOATS:
        return tuple(a.floats)
    if a.type == T.STRING:
        return a.s.decode("utf-8", "replace")
    return "<other>"


def _subgraphs(node):
    for a in node.attribute:
        if a.HasField("g"):
            yield a.g
        for g in a.graphs:
            yield g


def _all_inputs_deep(node):
    names = set(node.input)
    for g in _subgraphs(node):
        for n in g.node:
            names |= _all_inputs_deep(n)
        names |= {o.name for o in g.output}
    return names


def c06_hosts(model, only_functions=None):
    """Every graph the rewriter visits as a C06 host dict: [(where, G)], where in main|sub|function.
    only_functions: set of (domain, name, overload) to include (functions created by the pass are not visited by it)."""
    import onnx

    consts = {}

    def scan_inits(g):
        for t in g.initializer:
            a = onnx.numpy_helper.to_array(t)
            if a.dtype.kind == "f" and a.ndim <= 1 and a.size <= 8:
                consts[t.name] = float(a) if a.ndim == 0 else [float(x) for x in a]
        for n in g.node:
            for sg in _subgraphs(n):
                scan_inits(sg)

    scan_inits(model.graph)

    def scan_constants(nodes):  # basic_constant_propagation: main graph and functions (not nested bodies)
        for n in nodes:
            if n.op_type == "Constant" and n.domain == "" and len(n.attribute) == 1 and n.attribute[0].name == "value":
                a = onnx.numpy_helper.to_array(n.attribute[0].t)
                if a.dtype.kind == "f" and a.ndim <= 1 and a.size <= 8:
                    consts[n.output[0]] = float(a) if a.ndim == 0 else [float(x) for x in a]

    scan_constants(model.graph.node)
    for f in model.functions:
        scan_constants(f.node)
    out = []

    def host(nodes, inputs, outputs, where):
        gn = []
        for n in nodes:
            gn.append({"op": n.op_type, "domain": n.domain, "in": list(n.input), "out": list(n.output), "name": n.name,
                       "attrs": {a.name: _attr_py(a) for a in n.attribute if not (a.HasField("g") or a.graphs)}})
        for n in nodes:  # uses inside nested bodies are consumers too
            deep = _all_inputs_deep(n) - set(n.input)
            if deep:
                gn.append({"op": "__nested_use__", "domain": "__c07__", "in": sorted(deep), "out": [], "attrs": {}})
        out.append((where, {"inputs": list(inputs), "inits": consts, "nodes": gn, "outputs": list(outputs)}))
        for n in nodes:
            for sg in _subgraphs(n):
                host(sg.node, [i.name for i in sg.input], [o.name for o in sg.output], "sub")

    host(model.graph.node, [i.name for i in model.graph.input], [o.name for o in model.graph.output], "main")
    for f in model.functions:
        if only_functions is not None and (f.domain, f.name, f.overload) not in only_functions:
            continue
        host(f.node, list(f.input), list(f.output), "function")
    return out


def strict_instances(P, hosts, removable, skip_functions=False, commute=False, lax=False):
    """Strict (or lax) instances as frozensets of node names (hosts built with names=True)."""
    out = set()
    root_op = P["nodes"][P["outs"][0][1]]["op"]
    for w, G in hosts:
        if skip_functions and w == "function":
            continue
        idx = c06_spec._index(G)
        for r, n in enumerate(G["nodes"]):
            if n["op"] != root_op or n["domain"] != "":
                continue
            s, l = c06_spec.match_spec(P, G, r, removable, commute, idx)
            for inst in (l if lax else s):
                out.add(frozenset(G["nodes"][i].get("name") or f"?{i}" for i in inst[1]))
    return out


def instance_exists(P, hosts, removable, skip_functions=False, commute=False):
    """-> (strict exists, lax exists, where-set)"""
    s_any = l_any = False
    where = set()
    root_op = P["nodes"][P["outs"][0][1]]["op"]
    for w, G in hosts:
        if skip_functions and w == "function":
            continue
        idx = c06_spec._index(G)
        for r, n in enumerate(G["nodes"]):
            if n["op"] != root_op or n["domain"] != "":
                continue
            s, l = c06_spec.match_spec(P, G, r, removable, commute, idx)
            if s:
                s_any = True
                where.add(w)
            if l:
                l_any = True
    return s_any, l_any, where


# ----------------------------------------------------------------------------- IR snapshots
def _walk_graphs(model):
    """(where, graph-like) for main graph, nested bodies and functions of an ir.Model."""
    from onnxscript import ir

    def rec(g, where):
        yield where, g
        for n in g:
            for a in n.attributes.values():
                if a.type == ir.AttributeType.GRAPH:
                    yield from rec(a.value, "sub")
                elif a.type == ir.AttributeType.GRAPHS:
                    for sg in a.value:
                        yield from rec(sg, "sub")

    yield from rec(model.graph, "main")
    for f in model.functions.values():
        yield from rec(f, "function")


def _owner_chain(g):
    """The graph-like itself and the function/graphs that contain it."""
    out = [g]
    seen = 0
    while seen < 8:
        seen += 1
        parent = getattr(g, "parent_node", None)
        if parent is None:
            break
        g = parent.graph
        if g is None:
            break
        out.append(g)
    return out


def _attr_sig(node):
    from onnxscript import ir

    out = {}
    for k, a in node.attributes.items():
        if a.type == ir.AttributeType.GRAPH:
            out[k] = ("graph", id(a.value))
        elif a.type == ir.AttributeType.GRAPHS:
            out[k] = ("graphs", tuple(id(g) for g in a.value))
        elif a.type == ir.AttributeType.TENSOR:
            out[k] = ("tensor", a.value.numpy().tobytes(), str(a.value.dtype))
        else:
            v = a.value
            out[k] = (str(a.type), tuple(v) if isinstance(v, (list, tuple)) else v)
    return out


def snapshot(model):
    snap = {"nodes": {}, "inits": [], "graphs": {}}
    for where, g in _walk_graphs(model):
        snap["graphs"][id(g)] = where
        for n in g:
            snap["nodes"][id(n)] = {"node": n, "graph": g, "where": where, "op": (n.domain, n.op_type, n.overload), "attrs": _attr_sig(n),
                                    "meta": dict(n.metadata_props), "inputs": list(n.inputs), "name": n.name,
                                    "outputs": list(n.outputs)}
        inits = getattr(g, "initializers", None)
        if inits is not None and where != "function":
            for nm, v in inits.items():
                snap["inits"].append({"graph": g, "value": v, "name": nm,
                                      "bytes": v.const_value.numpy().tobytes() if v.const_value is not None else None})
    return snap


def _sig(model_proto):
    def vi(x):
        t = x.type.tensor_type
        return (x.name, t.elem_type, tuple((d.dim_value if d.HasField("dim_value") else d.dim_param) for d in t.shape.dim))
    return [vi(i) for i in model_proto.graph.input], [vi(o) for o in model_proto.graph.output]


# ----------------------------------------------------------------------------- one (rule, host) pair
def run_pair(p, seed, ev, viol):
    import onnx

    from onnxscript import ir

    from . import runner, wellformed
    from .compare import compare_outputs

    kind, st, k = p["kind"], p["stratum"], p["k"]
    form = p.get("form", "ruleset")
    commute = is_commute(kind)

    def v(key, what, **detail):
        viol.append({"key": f"rule={kind};{key}", "what": f"[{kind}/{st}/k={k}/i={p['i']}] {what}", "detail": detail})

    def hit(name, n=1):
        ev[name] = ev.get(name, 0) + n

    rng = common.rng(PID, "host", seed, kind, st, k, p["i"])
    built = None
    for _ in range(6):
        try:
            built = c07_gen.make_host(rng, PLANT[kind], n_nodes=rng.randint(2, 7), k_plants=(k if k < 3 else rng.randint(3, 5)),
                                      subgraphs="cf" in st, functions="fn" in st, nested_only=(st == "cfonly"),
                                      clash_name=(CLASH if kind == "init_clash" else None), custom_fn=(kind in ("custom", "c_custom")),
                                      prior_overload=(ASFN[kind] if kind in ASFN and st != "cfonly" and rng.random() < 0.5 else None))
        except Exception as e:  # a generator bug must not be blamed on the repository
            hit("generator_error")
            ev.setdefault("_generr", f"{type(e).__name__}: {e}")
            built = None
            continue
        if built is not None:
            break
    if built is None:
        hit("discarded_generator")
        return None
    M, info = built
    M_bytes = M.SerializeToString()  # the IR shares tensors with the proto it was read from: work on private copies
    # ---- precondition filter
    err = runner.checker(M, full=True)
    if err:
        hit("discarded_invalid")
        ev.setdefault("_invalid", err[:300])
        return None
    fds = c07_gen.feeds(info, common.h32(seed, kind, st, k, p["i"]) % (1 << 30))
    try:
        sess = runner.ort_session(M)
    except Exception as e:
        hit("discarded_unrunnable")
        ev.setdefault("_unrunnable", str(e)[:300])
        return None
    before = []
    for f in fds:
        stt, o = runner.ort_run(M, f, session=sess)
        if stt != "ok":
            hit("discarded_unrunnable")
            ev.setdefault("_unrunnable", str(o)[:300])
            return None
        before.append(o)
    hit("hosts_ok")
    rule, P, created = make_rule(kind)
    hosts = c06_hosts(M)
    _ORIG_NAMES.clear()
    for _, G in hosts:
        _ORIG_NAMES.update(G["inputs"])
        for n in G["nodes"]:
            _ORIG_NAMES.update(n["out"])
    removable = not keeps_nodes(kind)
    s_any, l_any, where_spec = instance_exists(P, hosts, removable, skip_functions=adds_init(kind), commute=commute)
    if adds_init(kind):
        l_any = instance_exists(P, hosts, removable, commute=commute)[1]
    notes = rule.c07_notes
    # ---- run the real rewriter on the IR (identity-preserving), monitored
    model = ir.serde.deserialize_model(onnx.ModelProto.FromString(M_bytes))
    snap = snapshot(model)
    del LOG[:]
    c0 = dict(COUNTS)
    try:
        res = apply_rule(model, rule, kind, form)
    except Exception as e:
        cause = e.__cause__ or e.__context__
        if notes.runaway:
            ign = [t for t in LOG if t["ev"] == "try" and any(t["root"] is n for n in created)]
            if ign:
                v("kind=condition_ignored;mech=runaway", f"the rule was applied more than {MAX_REPLACEMENTS} times on a host of "
                  f"{len(snap['nodes'])} nodes; {len(ign)} application(s) at a node the rule's condition function refuses (a node the rule created)",
                  model=M_bytes.hex()[:40000])
            else:   # termination is not part of the property: not a verdict, but not a silent pass either (see finalize)
                hit("runaway_unexplained")
                ev.setdefault("_runaway", f"{kind}/{st}/k={k}/i={p['i']}")
            return None
        tr = [t for t in LOG if t["ev"] == "try"]
        if tr and LOG[-1]["ev"] == "replace" and LOG[-1]["old_nodes"]:
            # the exception came out of the splice: did the replacement consume a value that a matched (removed) node produces, i.e. was a
            # pattern variable bound to a value in the interior of the match?
            interior = {id(o) for n in tr[-1]["matched"] for o in n.outputs} - {id(o) for o in tr[-1]["old_out"]}
            if any(x is not None and id(x) in interior for n in tr[-1]["new_nodes"] for x in n.inputs):
                root = e
                while (root.__cause__ or root.__context__) is not None:
                    root = root.__cause__ or root.__context__
                v("kind=raises;mech=variable_bound_to_interior_value", f"rewrite() raises {type(e).__name__} <- {type(root).__name__}: {str(root)[:200]}: an input "
                  f"variable of the pattern is bound to the output of a matched node (e.g. Add(r, r) with r = Relu(a) for Add(Relu(x), y)); the "
                  f"replacement uses it and the matched node is removed all the same", model=M_bytes.hex()[:40000])
                hit("raises_variable_bound_to_interior_value")
                return None
        v(f"kind=raises;err={type(e).__name__}", f"rewrite() raises {type(e).__name__}: {str(e)[:300]}" +
          (f" <- {type(cause).__name__}: {str(cause)[:300]}" if cause is not None else ""), model=M_bytes.hex()[:40000])
        return None
    if notes.unconditioned:
        v("kind=condition_ignored", f"the replacement function was called {notes.unconditioned} time(s) for a match the rule's condition function "
          f"had not accepted (no call of the condition function returning True since the previous replacement)", model=M_bytes.hex()[:40000])
        return None
    hit("pairs_checked")
    if kind in MULTI_CONST_KINDS:
        hit("pairs_multi_const")
    if commute:
        hit("pairs_commute")
        if form == "direct":
            hit("pairs_direct_form")
    hit("try_rewrite_calls", COUNTS["try_rewrite_calls"] - c0["try_rewrite_calls"])
    apps = [r for r in LOG if r["ev"] == "replace"]
    tries = [r for r in LOG if r["ev"] == "try"]
    hit("replace_calls", len(apps))
    hit("applications", len(apps))
    if len(apps) > 1:
        hit("multi_application")
    created_ids = set()
    for a in apps:
        if a["out_is_graph_output"]:
            hit("app_output_is_graph_output")
        if a["out_used_in_nested"]:
            hit("app_output_used_in_nested_body")
        if any(id(n) in created_ids for n in a["old_nodes"]):
            hit("app_on_node_created_by_earlier_app")
        created_ids.update(id(n) for n in a["new_nodes"])
    app_where = sorted({snap["graphs"].get(id(a["container"]), "new") for a in apps})
    for w in app_where:
        hit({"main": "app_in_main", "sub": "app_in_subgraph", "function": "app_in_function"}.get(w, "app_elsewhere"))
    # ---- what the rewriter reports = what it did (callers, and apply_to_model itself, gate clean-up passes on this count)
    where_key = "subgraph_only" if app_where == ["sub"] else ("none" if not apps else "mixed")
    for r in LOG:
        if r["ev"] == "count":
            hit("count_checked")
            if r["value"] != len(apps):
                v(f"kind=count_mismatch;where={where_key}", f"apply_to_model returned {r['value']} but the monitor saw {len(apps)} application(s) "
                  f"(replace_nodes_and_values calls) in {app_where}", model=M_bytes.hex()[:40000])
        elif r["ev"] == "pass":
            if r["modified"] != bool(apps):
                v(f"kind=count_mismatch;where={where_key};flag=modified", f"RewritePass reported modified={r['modified']} but the monitor saw {len(apps)} "
                  f"application(s) in {app_where}", model=M_bytes.hex()[:40000])
    if app_where == ["sub"]:
        hit("pairs_applied_in_subgraphs_only")
        if sum(1 for a in apps if len(a["new_nodes"]) >= 2):
            hit("subgraph_only_multi_node_replacement")
    # ---- applications >= 1 iff an instance exists
    if s_any and not apps:
        v("kind=not_applied", f"match_spec finds a strict {'removable ' if removable else ''}instance in {sorted(where_spec)} but the rule was applied 0 times",
          model=M_bytes.hex()[:40000])
    if apps and not l_any:
        v("kind=applied_without_instance", f"{len(apps)} application(s) but match_spec finds no instance", model=M_bytes.hex()[:40000])
    if not apps and not s_any:
        hit("no_application_no_instance")
    # ---- structure: matched nodes gone, everything else untouched
    after_nodes = {}
    for where, g in _walk_graphs(res):
        for n in g:
            after_nodes[id(n)] = (n, g)
    removed_expected, new_nodes, repl = set(), set(), {}
    for a in apps:
        for n in a["old_nodes"]:
            removed_expected.add(id(n))
        for n in a["new_nodes"]:
            new_nodes.add(id(n))
        for o, nw in zip(a["old_values"], a["new_values"]):
            repl[id(o)] = nw
    matched_all = set()
    for t in tries:
        for n in t["matched"]:
            matched_all.add(id(n))

    _second_block_checks(kind, P, hosts, snap, res, notes, removable, commute, after_nodes, v, hit, M_bytes, created)

    def resolve(val):
        seen = 0
        while val is not None and id(val) in repl and seen < 100:
            nxt = repl[id(val)]
            if nxt is val:
                break
            val = nxt
            seen += 1
        return val

    for nid in removed_expected:
        if nid in after_nodes:
            n = after_nodes[nid][0]
            v("kind=matched_node_survives", f"matched node {n.op_type} ({n.name}) is still in a graph after the rewrite")
    # legitimately dead after the rewrite: fixpoint over the original uses
    gone = {nid for nid in snap["nodes"] if nid not in after_nodes}
    allowed_gone = set(removed_expected) | (matched_all if not removable else set())
    changed = True
    while changed:
        changed = False
        for nid in gone - allowed_gone:
            rec = snap["nodes"][nid]
            ok = True
            for o in rec["outputs"]:
                if o.is_graph_output():
                    ok = False
                for user, _ in o.uses():
                    if id(user) in after_nodes:
                        ok = False
            if ok:
                allowed_gone.add(nid)
                changed = True
    live_fns = {id(f) for f in res.functions.values()}
    for nid in gone - allowed_gone:
        rec = snap["nodes"][nid]
        if rec["where"] == "function" and not any(id(g) in live_fns for g in _owner_chain(rec["graph"])):
            continue  # the whole function was unused and removed: rewrite() documents that cleanup
        v("kind=unmatched_node_removed", f"node {rec['op'][1]} ({rec['name']}) was not matched but is gone and its results are still used")
    for nid, rec in snap["nodes"].items():
        if nid not in after_nodes or nid in removed_expected:
            continue
        n, g = after_nodes[nid]
        if g is not rec["graph"]:
            v("kind=node_moved", f"node {rec['name']} moved to another graph")
        if (n.domain, n.op_type, n.overload) != rec["op"] or _attr_sig(n) != rec["attrs"]:
            v("kind=unmatched_node_changed", f"node {rec['name']}: operator/attributes changed from {rec['op']} to {(n.domain, n.op_type, n.overload)}")
        if dict(n.metadata_props) != rec["meta"]:
            v("kind=metadata_changed", f"node {rec['name']}: metadata_props {rec['meta']} -> {dict(n.metadata_props)}")
        exp = [resolve(x) for x in rec["inputs"]]
        if len(exp) != len(n.inputs) or any(a is not b for a, b in zip(exp, n.inputs)):
            v("kind=inputs_changed", f"node {rec['op'][1]} ({rec['name']}): inputs are {[x.name if x is not None else None for x in n.inputs]}, "
              f"expected {[x.name if x is not None else None for x in exp]} (old inputs modulo replaced outputs)")
    for ini in snap["inits"]:
        val, g = ini["value"], ini["graph"]
        still = [nm for nm, x in g.initializers.items() if x is val]
        used = bool(val.uses()) or val.is_graph_output()
        if not still:
            if used:
                v("kind=invalid;mech=" + ("initializer_name_clash" if any(t.get("init_clash") for t in tries) else "initializer_unregistered"), f"initializer '{ini['name']}' is still used (now named '{val.name}') but no longer registered "
                  f"as an initializer of its graph", model=M_bytes.hex()[:40000])
        elif val.const_value is None or val.const_value.numpy().tobytes() != ini["bytes"]:
            v("kind=initializer_changed", f"initializer '{ini['name']}' changed its value")
    # ---- validity, signature, equivalence
    try:
        M2 = ir.serde.serialize_model(res)
    except Exception as e:
        v(f"kind=invalid;mech=serialize;err={type(e).__name__}", f"result cannot be serialized: {str(e)[:300]}")
        return None
    if _sig(M) != _sig(M2):
        v("kind=signature", f"graph signature changed: {_sig(M)} -> {_sig(M2)}", model=M_bytes.hex()[:40000])
    cerr = runner.checker(M2, full=True)
    werr = wellformed.check_model(M2, allow_unknown_ops=(kind == "never"))
    invalid = False
    if cerr:
        invalid = True
        v("kind=invalid;mech=" + _invalid_mech(cerr, kind), f"onnx.checker rejects the result: {cerr[:300]}", model=M_bytes.hex()[:40000])
    elif werr:
        invalid = True
        v("kind=invalid;mech=" + _invalid_mech(werr[0], kind), f"walker: {werr[0][:300]}", model=M_bytes.hex()[:40000])
    if kind in ("custom", "c_custom") and any(w in ("main", "sub") for w in app_where):
        doms = {o.domain for o in M2.opset_import}
        if c07_gen.CUSTOM_DOMAIN not in doms:
            v("kind=invalid;mech=opset_import_missing", f"replacement uses domain {c07_gen.CUSTOM_DOMAIN} but the model imports only {sorted(doms)}")
    # ---- every instance of the original whose nodes no application touched must not survive as an instance
    if not invalid:
        before_inst = strict_instances(P, hosts, removable, skip_functions=adds_init(kind), commute=commute)
        if before_inst:
            orig_fns = {(f.domain, f.name, f.overload) for f in M.functions}
            after_inst = strict_instances(P, c06_hosts(M2, orig_fns), removable, skip_functions=adds_init(kind), commute=commute)
            left = [i for i in before_inst & after_inst if all(nm and not nm.startswith("?") for nm in i)]
            hit("instances_in_original", len(before_inst))
            if left:
                v("kind=instance_left_unrewritten", f"{len(left)} instance(s) of the pattern present in the original are still there, untouched, after the pass "
                  f"(nodes {sorted(left[0])}) although the rule applied {len(apps)} time(s)", model=M_bytes.hex()[:40000])
    if not invalid:
        try:
            sess2 = runner.ort_session(M2)
        except Exception as e:
            msg = f"{type(e).__name__}: {e}"
            if runner.classify(msg) == "not_implemented":
                hit("ort_not_implemented")
                ev.setdefault("_not_implemented", f"{kind}/{st}: {msg[:300]}")
            else:
                v("kind=invalid;mech=" + _invalid_mech(msg, kind), f"ORT cannot load the result: {msg[:300]}", model=M_bytes.hex()[:40000])
            sess2 = None
        if sess2 is not None:
            for f, b in zip(fds, before):
                stt, o = runner.ort_run(M2, f, session=sess2)
                if stt == "not_implemented":
                    hit("ort_not_implemented")
                    break
                if stt != "ok":
                    v("kind=invalid;mech=ort_run", f"ORT fails to run the result: {str(o)[:300]}")
                    break
                d = compare_outputs(o, b)
                hit("ort_compared")
                if d:
                    rs, ro = runner.ref_run(M, f)
                    rs2, ro2 = runner.ref_run(M2, f)
                    if rs == "ok" and rs2 == "ok" and not compare_outputs(ro2, ro):
                        hit("disputed")
                    else:
                        v("kind=value", f"result differs from the original on ORT: {d}", model=M_bytes.hex()[:40000])
                    break
    # proto path on a sample: same answer as the IR path
    if p["i"] % 4 == 0 and form != "direct":
        del LOG[:]
        rule2, _, _ = make_rule(kind)
        try:
            M3 = apply_rule(onnx.ModelProto.FromString(M_bytes), rule2, kind)
            hit("proto_path_checked")
            if M3.SerializeToString() != M2.SerializeToString() and [n.op_type for n in M3.graph.node] != [n.op_type for n in M2.graph.node]:
                v("kind=proto_vs_ir", "rewrite(ModelProto) and rewrite(ir.Model) give different node sequences")
        except Exception as e:
            if not any(x["key"].startswith(f"rule={kind};kind=raises") for x in viol):
                v(f"kind=raises;err={type(e).__name__};path=proto", f"rewrite(ModelProto) raises {type(e).__name__}: {str(e)[:200]}")
    napp = len(apps)
    return {"sig": f"{kind}:{'+'.join(app_where)}:{min(napp, 3)}" if napp else None,
            "sample": {"rule": kind, "stratum": st, "planted": info["planted"], "applications": napp, "where": app_where,
                       "host_nodes": len(M.graph.node), "result_nodes": len(M2.graph.node)}}


_ORIG_NAMES: set = set()
_SWAP_EVENT = {"c_asfn": "swapped_app_as_function", "c_keep": "swapped_app_keep", "c_mul1": "swapped_app_const_operand",
               "c_cond": "swapped_app_const_operand", "c_init": "swapped_app_new_initializer", "c_custom": "swapped_app_custom_domain"}


def _second_block_checks(kind, P, hosts, snap, res, notes, removable, commute, after_nodes, v, hit, M_bytes, created):
    """Per application, from the monitor's log: the rule's settings held for the variant that fired (nodes kept if the rule keeps nodes,
    the called function exists), every constant the replacement asked for is the constant it got and is consumed by the new nodes as a
    registered initializer; reach counters for applications made through a swapped variant."""
    pairs, last_try, ntry = [], None, 0
    for r in LOG:
        if r["ev"] == "try":
            ntry += 1
            last_try = (ntry, r)
        elif r["ev"] == "replace":
            pairs.append((last_try, r))
            last_try = None
    # ---- applications through a swapped variant (reach): the matched nodes are no instance of the pattern as written
    if commute:
        unswapped = strict_instances(P, hosts, removable, commute=False, lax=True)
        orig_names = {rec["name"] for rec in snap["nodes"].values() if rec["name"]}
        for t, a in pairs:
            if t is None:
                continue
            names = [n.name for n in t[1]["matched"]]
            if all(nm and nm in orig_names for nm in names) and frozenset(names) not in unswapped:
                hit("app_via_swapped_variant")
                hit(_SWAP_EVENT[kind])
                if snap["graphs"].get(id(a["container"])) == "sub":
                    hit("swapped_app_in_subgraph")
        if notes.cond_rejected:
            hit("condition_rejected_near_miss", notes.cond_rejected)
    # ---- a rule fires only where its condition function agrees (the guarded kinds refuse the nodes they created)
    if created:
        for t, a in pairs:
            if t is None:
                continue
            hit("guarded_applications_checked")
            if any(t[1]["root"] is n for n in created):
                v("kind=condition_ignored", f"the rule was applied at a {t[1]['root'].op_type} node although its condition function refuses that node "
                  f"(a node the rule itself created)", model=M_bytes.hex()[:40000])
    # ---- "none [removed] if the rule keeps nodes"
    if not removable:
        for _, a in pairs:
            hit("keep_applications_checked")
            if a["old_nodes"]:
                v("kind=keep_rule_removed_nodes", f"the rule has remove_nodes=False but an application handed {len(a['old_nodes'])} matched node(s) "
                  f"({[n.op_type for n in a['old_nodes']]}) to replace_nodes_and_values for removal", model=M_bytes.hex()[:40000])
    # ---- "the functions the replacement needs are added"
    fids = set(res.functions.keys())
    for _, a in pairs:
        for n in a["new_nodes"]:
            if n.domain in ("", "ai.onnx") or id(n) not in after_nodes:
                continue
            hit("function_calls_checked")
            if (n.domain, n.op_type, n.overload) not in fids:
                v("kind=invalid;mech=function_missing", f"the replacement's node {n.domain}::{n.op_type} (overload {n.overload!r}) is in the result "
                  f"but the model has no such function (functions: {sorted(fids)[:6]})", model=M_bytes.hex()[:40000])
    # ---- "the initializers the replacement needs are added": what op.initializer was asked for is what it returned ...
    by_call = {}
    for call, name, data, dtype, val in notes.requests:
        hit("initializer_requests_checked")
        by_call.setdefault(call, []).append((name, data, dtype))
        t = val.const_value
        if t is None or t.numpy().tobytes() != data or str(t.numpy().dtype) != dtype:
            got = None if t is None else t.numpy().tolist()
            v("kind=initializer_request;mech=returned_other_constant", f"op.initializer(<{np.frombuffer(data, dtype=dtype).tolist()}>, name={name!r}) "
              f"returned a value holding {got}", model=M_bytes.hex()[:40000])
    for reqs in by_call.values():
        for i, (nm, data, dtype) in enumerate(reqs):
            for nm2, data2, dtype2 in reqs[:i]:
                if nm2 == nm:
                    hit("same_name_different_content_requests" if (data2, dtype2) != (data, dtype) else "same_name_same_content_requests")
                    if dtype2 != dtype:
                        hit("different_dtype_same_name_requests")
    # ... and the nodes of the application consume exactly these constants, as initializers registered in an enclosing graph
    for t, a in pairs:
        if snap["graphs"].get(id(a["container"])) == "function" or t is None:
            continue
        if kind in MULTI_CONST_KINDS:
            hit("multi_const_applications")
        have = []
        for n in a["new_nodes"]:
            if id(n) not in after_nodes:
                continue
            for x in n.inputs:
                if x is None or x.producer() is not None or x.is_graph_input() or x.const_value is None:
                    continue
                hit("new_initializer_inputs_checked")
                have.append((x.const_value.numpy().tobytes(), str(x.const_value.numpy().dtype)))
                if not any(getattr(g, "initializers", None) is not None and g.initializers.get(x.name) is x for g in _owner_chain(n.graph)):
                    v("kind=invalid;mech=initializer_not_added", f"input '{x.name}' of the replacement's {n.op_type} node is a constant that is not "
                      f"registered as an initializer of an enclosing graph", model=M_bytes.hex()[:40000])
        intact = all(id(n) in after_nodes for n in a["new_nodes"])   # no later application took a node of this one away again
        for nm, data, dtype in by_call.get(t[0], []):
            if intact and (data, dtype) not in have:
                v("kind=initializer_request;mech=constant_not_consumed", f"the replacement asked for the constant {np.frombuffer(data, dtype=dtype).tolist()} "
                  f"(name {nm!r}) but no node of that application consumes an initializer with this content (they consume "
                  f"{[np.frombuffer(d, dtype=dt).tolist() for d, dt in have]})", model=M_bytes.hex()[:40000])


def _invalid_mech(msg, kind):
    m = msg.lower()
    clash = any(t.get("init_clash") for t in LOG if t["ev"] == "try")
    if clash and ("is not a graph input, initializer" in m or "not defined before use" in m or "not output of any previous nodes" in m):
        # a new initializer had the name of one already registered in that graph when the rule fired, and a value is dangling
        return "initializer_name_clash"
    if "is not a graph input, initializer" in m or "not defined before use" in m or "not output of any previous nodes" in m:
        return "undefined_input"
    if "used as output names multiple times" in m or "redefines an outer-scope name" in m or "defined twice" in m:
        import re

        q = re.findall(r"'([^']+)'", msg)
        if q and q[0] in _ORIG_NAMES:
            # the clashing name belongs to a value of the original model: a value created by the replacement shadows it
            return "new_value_shadows_existing_name"
        return "value_name_reused_across_scopes"
    if "no opset registered for domain" in m and kind in ASFN:
        return "extracted_function_without_opset_import"
    if "opset import" in m or "is used but not imported" in m or "no opset import" in m or "no opset registered" in m:
        return "opset_import_missing"
    if clash:
        return "initializer_name_clash"
    if "function" in m:
        return "function"
    return "other"


def run_case(spec):
    if not _installed:
        worker_init()
    ev, viol, sigs = {}, [], []
    sample = None
    for p in spec["pairs"]:
        r = run_pair(p, spec["seed"], ev, viol)
        if r and r["sig"]:
            sigs.append(r["sig"])
            if sample is None or (r["sample"]["applications"] > 1 and sample["applications"] <= 1):
                sample = r["sample"]
    notes = {k: ev.pop(k) for k in list(ev) if k.startswith("_")}
    return {"status": "ok", "viol": viol, "events": ev, "nontrivial": bool(sigs), "sig": None,
            "data": {"sigs": sigs, "notes": notes}, "sample": sample}


def finalize(ctx):
    notes = {}
    for r in ctx.results:
        d = (r or {}).get("data") or {}
        for s in d.get("sigs") or []:
            ctx.sigs.add(s)
        for k, val in (d.get("notes") or {}).items():
            notes.setdefault(k, val)
    if notes:
        ctx.extra["generator_notes"] = notes
    n = ctx.events.get("hosts_ok", 0) + ctx.events.get("discarded_invalid", 0) + ctx.events.get("discarded_unrunnable", 0) + \
        ctx.events.get("discarded_generator", 0)
    if ctx.events.get("runaway_unexplained", 0):
        ctx.inconclusive.append(f"{ctx.events['runaway_unexplained']} pair(s) stopped after more than {MAX_REPLACEMENTS} replacements on one host "
                                f"although the rule's guard was consulted (first: {notes.get('_runaway')})")
    if n and ctx.events.get("hosts_ok", 0) < 0.7 * n:
        ctx.inconclusive.append(f"only {ctx.events.get('hosts_ok', 0)} of {n} generated hosts passed the precondition filter")
