"""C12, infix forms: `X <operator> literal` and `literal <operator> X`.

The schema walk of c12.py calls operators in the call form `op.Pow(x, 2)`.  The documented operator forms
(`x + 1`, `x ** 0.5`, `2.0 / x`, `x == 0` ...) reach the promotion code by another road in two of the three front
ends (converter: `_translate_binary_op_expr` / `_translate_compare_expr`; eager: `Tensor.__pow__` & co; GraphBuilder
values have no operators, the call form is all there is), so they are driven here:

  static   generated @script functions `r = x ** 2.5` (one body per operator x sibling dtype x side, all literals);
           the operand of the operator node is read back from the FunctionProto exactly as in c12.py
  eager    `Tensor(dtype) ** 2.5` under the recording evaluator; operand = what the FIRST recorded call received

Oracle: the property's rule read off onnx.defs for the operator the documentation maps the Python operator to:
the literal takes the sibling's dtype iff both inputs share one type constraint (Add, Sub, Mul, Div, Mod, MatMul,
comparisons, And, Or), else INT64 / FLOAT / BOOL by Python type (Pow: base T, exponent T1).
"""
from __future__ import annotations

import numpy as np

from . import c12_gen as G

# python operator text -> ONNX operator the documentation maps it to (docs/tutorial: "operators")
OPERATORS = [
    ("+", "Add"), ("-", "Sub"), ("*", "Mul"), ("/", "Div"), ("%", "Mod"), ("**", "Pow"), ("@", "MatMul"),
    ("==", "Equal"), ("!=", "Equal"), ("<", "Less"), ("<=", "LessOrEqual"), (">", "Greater"), (">=", "GreaterOrEqual"),
    ("&", "And"), ("|", "Or"),
]
WRAPPERS = {"Not", "Identity"}


def versions(tier):
    return [18, 23] if tier != "thorough" else list(range(13, 24))


def specs(tier, seed):
    out = []
    for v in versions(tier):
        for i in range(0, len(OPERATORS), 3):
            out.append({"kind": "infix", "version": v, "ops": OPERATORS[i:i + 3], "seed": seed})
    return out


def _schema(opname, version):
    import onnx.defs

    try:
        return onnx.defs.get_schema(opname, version, "")
    except Exception:
        return None


def _allowed(schema, idx):
    f = schema.inputs[idx]
    types = None
    for tc in schema.type_constraints:
        if tc.type_param_str == f.type_str:
            types = list(tc.allowed_type_strs)
    if types is None:
        types = [f.type_str]
    return [G.TYPESTR[t] for t in types if t in G.TYPESTR]


def drive(spec, C):
    """C: the c12 module (helpers _static_convert, cast_eval, _ok, _msg, _recorder, _hit, _HEADER)"""
    ev, viol, sigs = {}, {}, set()
    version = spec["version"]

    def add_viol(key, what, detail):
        e = viol.get(key)
        if e is None:
            viol[key] = {"key": key, "what": what, "detail": dict(detail, count=1)}
        else:
            e["detail"]["count"] += 1

    from onnxscript import tensor
    from onnxscript._internal import evaluator

    rec = C._recorder()
    for optext, opname in spec["ops"]:
        schema = _schema(opname, version)
        if schema is None or len(schema.inputs) != 2:
            C._hit(ev, "infix_schema_absent")
            continue
        sharing = schema.inputs[0].type_str == schema.inputs[1].type_str
        for side in ("right", "left"):          # where the literal stands
            tpos, lpos = (0, 1) if side == "right" else (1, 0)
            for dt in _allowed(schema, tpos):
                lits = []
                for lidx, (text, val, _core) in enumerate(G.LITERALS):
                    if isinstance(val, list):
                        continue
                    if optext in ("/", "%") and side == "right" and val == 0:
                        continue                 # a zero divisor in a program is undefined behaviour: not generated
                    if optext == "@":
                        continue                 # MatMul needs rank >= 1 operands: a scalar literal is no valid program
                    lits.append((lidx, text, val))
                if not lits:
                    continue
                C._hit(ev, "infix_bodies")
                # ---------------- static
                pn = f"a_{G.DT_NAME[dt]}"
                lines = [C._HEADER.format(v=version), "@script(default_opset=op)", f"def f({pn}: {G.DT_NAME[dt]}[2]):"]
                for lidx, text, val in lits:
                    expr = f"{pn} {optext} {text}" if side == "right" else f"({text}) {optext} {pn}"
                    lines.append(f"    r12_{lidx} = {expr}")
                lines.append("    return " + ", ".join(f"r12_{lidx}" for lidx, _, _ in lits))
                static = {}
                _static_body(C, "\n".join(lines) + "\n", lits, lines, lpos, opname, pn, dt, ev, static, version)
                # ---------------- eager
                eager = {}
                x = tensor.Tensor(np.zeros((2,), dtype=G.np_dtype(dt)))
                with evaluator.default_as(rec):
                    for lidx, text, val in lits:
                        rec.log.clear()
                        try:
                            _apply(optext, x, val, side)
                        except Exception as e:
                            eager[lidx] = ("refused", C._msg(e))
                            continue
                        if not rec.log:
                            eager[lidx] = ("unobserved", "the evaluator saw no call")
                            continue
                        ins = rec.log[0]
                        # Python may evaluate `literal < x` as x.__gt__(literal): the literal is the operand that is not x
                        others = [j for j, a in enumerate(ins) if a is not x]
                        if len(ins) != 2 or len(others) != 1:
                            eager[lidx] = ("unobserved", f"first recorded call has {len(ins)} inputs, {len(others)} of them not the tensor")
                            continue
                        lpos_e = others[0]
                        if lpos_e != lpos:
                            C._hit(ev, "infix_eager_reflected")
                        ins = [None] * lpos + [ins[lpos_e]]
                        if lpos >= len(ins) or ins[lpos] is None:
                            eager[lidx] = ("ok", "missing", None, None)
                        elif isinstance(ins[lpos], tensor.Tensor):
                            eager[lidx] = C._ok(ins[lpos].value)
                        else:
                            eager[lidx] = ("ok", f"other:unpromoted {type(ins[lpos]).__name__}", None, None)
                # ---------------- oracle
                for lidx, text, val in lits:
                    E = dt if sharing else G.default_dtype(val)
                    st, ebits = G.lit_bits(val, E)
                    C._hit(ev, "infix_tuples")
                    C._hit(ev, "infix_rule_sibling" if sharing else "infix_rule_default")
                    call = (f"<{G.DT_NAME[dt]}> {optext} {text}" if side == "right" else f"{text} {optext} <{G.DT_NAME[dt]}>")
                    oks = {}
                    for fe, table in (("static", static), ("eager", eager)):
                        o = table.get(lidx, ("unobserved", "not driven"))
                        if o[0] == "ok":
                            C._hit(ev, f"infix_{fe}_ok")
                            oks[fe] = o
                        else:
                            C._hit(ev, f"infix_{fe}_{o[0]}")
                            if o[0] == "unobserved":
                                k = f"infix_unobserved:{fe}:{o[1][:60]}"
                                ev[k] = ev.get(k, 0) + 1
                    if len(oks) == 2:
                        sigs.add(f"infix:{optext}:{side}:{G.kind_class(dt)}")
                    where = {"form": "infix", "op": opname, "operator": optext, "version": version, "call": call, "side": side}
                    for fe, o in oks.items():
                        if o[1] != E:
                            add_viol(f"frontend={fe};form=infix;kind=dtype;rule={'sibling' if sharing else 'default'};operator={optext};side={side}",
                                     f"{fe}: {call} (opset {version}) feeds the literal to {opname} as {G.DT_NAME.get(o[1], o[1])}, the rule says "
                                     f"{G.DT_NAME[E]} ({'sibling shares the type constraint' if sharing else 'no shared type constraint: default by Python type'})",
                                     dict(where, got=G.DT_NAME.get(o[1], o[1]), expected=G.DT_NAME[E]))
                            continue
                        if o[2] is not None and list(o[2]) != []:
                            add_viol(f"frontend={fe};form=infix;kind=shape", f"{fe}: {call} (opset {version}) feeds the literal with shape {o[2]}", where)
                            continue
                        if o[3] is None:
                            continue
                        if st in ("exact", "bool"):
                            C._hit(ev, "infix_value_checked_against_rule")
                            if o[3] != ebits:
                                add_viol(f"frontend={fe};form=infix;kind=value;lit={text};to={G.kind_class(E)}",
                                         f"{fe}: {call} (opset {version}) feeds the literal as {G.DT_NAME[E]} bytes {o[3].hex()}, the literal "
                                         f"{text} is bytes {ebits.hex()}", dict(where, got=o[3].hex(), expected=ebits.hex()))
                    if st == "inexact" and len(oks) == 2 and all(o[1] == E and o[3] is not None for o in oks.values()):
                        C._hit(ev, "infix_value_checked_pairwise")
                        if oks["static"][3] != oks["eager"][3]:
                            add_viol(f"pair=static/eager;form=infix;kind=value;lit={text};to={G.kind_class(E)}",
                                     f"{call} (opset {version}) as {G.DT_NAME[E]}: static feeds bytes {oks['static'][3].hex()}, eager feeds "
                                     f"{oks['eager'][3].hex()}", where)
    return {"status": "ok", "viol": list(viol.values()), "events": ev, "nontrivial": bool(sigs), "sig": None,
            "sample": {"kind": "infix", "version": version, "ops": [o for o, _ in spec["ops"]]},
            "data": {"sigs": sorted(sigs), "refusals": {}, "unobserved": {}}}


def _apply(optext, x, val, side):
    a, b = (x, val) if side == "right" else (val, x)
    if optext == "+":
        return a + b
    if optext == "-":
        return a - b
    if optext == "*":
        return a * b
    if optext == "/":
        return a / b
    if optext == "%":
        return a % b
    if optext == "**":
        return a ** b
    if optext == "@":
        return a @ b
    if optext == "==":
        return a == b
    if optext == "!=":
        return a != b
    if optext == "<":
        return a < b
    if optext == "<=":
        return a <= b
    if optext == ">":
        return a > b
    if optext == ">=":
        return a >= b
    if optext == "&":
        return a & b
    if optext == "|":
        return a | b
    raise ValueError(optext)


def _static_body(C, src, lits, lines, lpos, opname, pn, dt, ev, out, version):
    """convert one body; when the converter refuses it, convert the statements one by one to find who is refused"""
    try:
        fp = C._static_convert(src)
    except Exception as e:
        if len(lits) == 1:
            out[lits[0][0]] = ("refused", C._msg(e))
            return
        C._hit(ev, "infix_body_split")
        head = lines[:3]
        for j, lit in enumerate(lits):
            one = head + [lines[3 + j], f"    return r12_{lit[0]}"]
            _static_body(C, "\n".join(one) + "\n", [lit], one, lpos, opname, pn, dt, ev, out, version)
        return
    C._hit(ev, "infix_functions_converted")
    from onnx import numpy_helper

    prod = {}
    for n in fp.node:
        for o in n.output:
            prod[o] = n

    def const_of(node):
        if node is None or node.op_type != "Constant" or node.domain not in ("", "ai.onnx"):
            return None
        for a in node.attribute:
            if a.name == "value" and a.HasField("t"):
                return numpy_helper.to_array(a.t)
        return None

    for lidx, _text, _val in lits:
        n = prod.get(f"r12_{lidx}")
        hops = 0
        while n is not None and n.op_type in WRAPPERS and n.op_type != opname and hops < 3:
            n = prod.get(n.input[0])
            hops += 1
        if n is None:
            out[lidx] = ("unobserved", "operator node not found by its output name")
            continue
        if lpos >= len(n.input) or n.input[lpos] == "":
            out[lidx] = ("ok", "missing", None, None)
            continue
        p = prod.get(n.input[lpos])
        c = const_of(p)
        if c is not None:
            out[lidx] = C._ok(c)
            C._hit(ev, "infix_static_plain_constant")
            continue
        if p is not None and p.op_type == "CastLike" and len(p.input) == 2:
            c = const_of(prod.get(p.input[0]))
            if c is None or p.input[1] != pn:
                out[lidx] = ("unobserved", "CastLike not of the form CastLike(Constant, parameter)")
                continue
            C._hit(ev, "infix_static_castlike")
            r = C.cast_eval(c, dt, ev)
            out[lidx] = C._ok(r) if r is not None else ("ok", dt, None, None)
            continue
        out[lidx] = ("unobserved", f"{n.op_type} operand {lpos} produced by {p.op_type if p is not None else 'a parameter'}")
